package c14

import (
	"fmt"
	"os"
	"path/filepath"
	"sort"
	"strings"

	"verifharness/internal/common"
	"verifharness/internal/userrules"
)

// boolParams: every boolean checker parameter, both values, on constructs built for it: the diagnostics must be
// exactly what the parameter's usage text says for that value (a value that is read but ignored, applied the other
// way round, or applied only to one spelling of the construct is "not the value the checker uses").
// Lines are identified by the marker comment `//@<tag>` on the line the diagnostic must (not) appear on.
type boolCase struct {
	checker, param string
	src            string
	wantTrue       []string // tags reported when the parameter is true
	wantFalse      []string // tags reported when the parameter is false
	extra          map[string]interface{}
}

const heavy = "[64]int64" // 512 bytes: heavy for rangeValCopy (128) and rangeExprCopy (512)

func testFuncSrc(importLine, tType string) string {
	return "package p\n\n" + importLine + "\n\ntype big struct{ a " + heavy + " }\n\nvar bigs []big\nvar arr " + heavy + "\n\n" +
		"func ordinary() int64 {\n\tn := int64(0)\n\tfor _, b := range bigs { //@ordinary-val\n\t\tn += b.a[0]\n\t}\n\tfor _, x := range arr { //@ordinary-expr\n\t\tn += x\n\t}\n\treturn n\n}\n\n" +
		"func TestThing(t " + tType + ") {\n\tn := int64(0)\n\tfor _, b := range bigs { //@test-val\n\t\tn += b.a[0]\n\t}\n\tfor _, x := range arr { //@test-expr\n\t\tn += x\n\t}\n\t_ = n\n}\n\n" +
		"func TestNotATest(t " + tType + ", extra int) {\n\tn := int64(0)\n\tfor _, b := range bigs { //@nottest-val\n\t\tn += b.a[0]\n\t}\n\tfor _, x := range arr { //@nottest-expr\n\t\tn += x\n\t}\n\t_ = n\n}\n\n" +
		"func Testify(s string) {\n\tn := int64(0)\n\tfor _, b := range bigs { //@prefix-val\n\t\tn += b.a[0]\n\t}\n\tfor _, x := range arr { //@prefix-expr\n\t\tn += x\n\t}\n\t_ = n\n}\n"
}

func boolCases() []boolCase {
	var cs []boolCase
	// skipTestFuncs: "whether to check test functions" — a test function is func TestXxx(*testing.T), however testing is imported
	for _, im := range []struct{ line, typ string }{
		{`import "testing"`, "*testing.T"}, {`import tt "testing"`, "*tt.T"}, {`import . "testing"`, "*T"},
	} {
		src := testFuncSrc(im.line, im.typ)
		cs = append(cs,
			boolCase{"rangeValCopy", "skipTestFuncs", src, []string{"nottest-val", "ordinary-val", "prefix-val"}, []string{"nottest-val", "ordinary-val", "prefix-val", "test-val"}, nil},
			boolCase{"rangeExprCopy", "skipTestFuncs", src, []string{"nottest-expr", "ordinary-expr", "prefix-expr"}, []string{"nottest-expr", "ordinary-expr", "prefix-expr", "test-expr"}, nil})
	}
	// captLocal.paramsOnly: "whether to restrict checker to params only"
	cs = append(cs, boolCase{"captLocal", "paramsOnly",
		"package p\n\nfunc f(IN int, ok int) int { //@param\n\tLocal := IN + ok //@local\n\tvar Declared = Local //@declared\n\treturn Declared\n}\n",
		[]string{"param"}, []string{"declared", "local", "param"}, nil})
	// elseif.skipBalanced: "whether to skip balanced if-else pairs"
	cs = append(cs, boolCase{"elseif", "skipBalanced",
		"package p\n\nfunc f(a, b bool) int {\n\tif a {\n\t\tif b {\n\t\t\treturn 1\n\t\t}\n\t} else { //@balanced\n\t\tif b {\n\t\t\treturn 2\n\t\t}\n\t}\n\treturn 0\n}\n\nfunc g(a, b bool) int {\n\tif a {\n\t\treturn 1\n\t} else { //@unbalanced\n\t\tif b {\n\t\t\treturn 2\n\t\t}\n\t}\n\treturn 0\n}\n\nfunc h(a, b bool) int {\n\tif a {\n\t\treturn 1\n\t} else { //@inner-else\n\t\tif b {\n\t\t\treturn 2\n\t\t} else {\n\t\t\treturn 3\n\t\t}\n\t}\n}\n",
		[]string{"unbalanced"}, []string{"balanced", "unbalanced"}, nil})
	// underef.skipRecvDeref: "whether to skip (*x).method() calls where x is a pointer receiver"
	cs = append(cs, boolCase{"underef", "skipRecvDeref",
		"package p\n\ntype T struct{ f int }\n\nfunc (t *T) ptrMethod() int { return t.f }\nfunc (t T) valMethod() int  { return t.f }\n\nfunc use(k *T) int {\n\ta := (*k).f //@field\n\tb := (*k).ptrMethod() //@ptr-method\n\tc := (*k).valMethod() //@val-method\n\treturn a + b + c\n}\n",
		[]string{"field", "val-method"}, []string{"field", "ptr-method", "val-method"}, nil})
	// unnamedResult.checkExported: "whether to check exported functions"
	cs = append(cs, boolCase{"unnamedResult", "checkExported",
		"package p\n\nfunc Exported() (float64, float64) { //@exported\n\treturn 0, 0\n}\n\nfunc unexported() (float64, float64) { //@unexported\n\treturn 0, 0\n}\n\ntype T struct{}\n\nfunc (T) Method() (string, string) { //@exported-method\n\treturn \"\", \"\"\n}\n",
		[]string{"exported", "exported-method", "unexported"}, []string{"unexported"}, nil})
	return cs
}

func boolParams(meta *common.Meta) int {
	evals := 0
	for _, bc := range boolCases() {
		env, err := typecheck(bc.src)
		if err != nil {
			meta.TieBroken = append(meta.TieBroken, fmt.Sprintf("boolean-parameter construct for %s.%s does not type-check: %v", bc.checker, bc.param, err))
			continue
		}
		tags := map[int]string{}
		for i, l := range strings.Split(bc.src, "\n") {
			if j := strings.Index(l, "//@"); j >= 0 {
				tags[i+1] = strings.TrimSpace(l[j+3:])
			}
		}
		for _, val := range []bool{true, false} {
			ws, err := env.runWith(bc.checker, map[string]interface{}{bc.param: val})
			evals++
			if err != nil {
				meta.Fail("C14/"+bc.checker+"/boolean-parameter-not-applied", fmt.Sprintf("%s.%s=%v: construction failed: %v", bc.checker, bc.param, val, err), nil)
				continue
			}
			var got []string
			for _, w := range ws {
				line := env.fset.Position(w.Pos).Line
				if t, ok := tags[line]; ok {
					got = append(got, t)
				} else {
					got = append(got, fmt.Sprintf("line%d", line))
				}
			}
			sort.Strings(got)
			got = uniq(got)
			want := bc.wantFalse
			if val {
				want = bc.wantTrue
			}
			if strings.Join(got, ",") != strings.Join(want, ",") {
				meta.Fail("C14/"+bc.checker+"/boolean-parameter-not-applied", fmt.Sprintf("%s.%s=%v: diagnostics on the marked constructs %v, the parameter's documented meaning gives %v", bc.checker, bc.param, val, got, want),
					map[string]interface{}{"checker": bc.checker, "param": bc.param, "value": val, "source": bc.src})
			}
		}
	}
	return evals
}

func uniq(l []string) []string {
	var out []string
	for i, x := range l {
		if i == 0 || x != l[i-1] {
			out = append(out, x)
		}
	}
	return out
}

// ruleguardFailOnLists: the list-valued parameter failOn. A rule file with a DSL error and one with an unloadable
// import, every list over {dsl, import, all} in every order and with blanks: construction must fail exactly when the
// fault class of the broken file is among the listed ones (the whole list is the value, not its last element).
func ruleguardFailOnLists(meta *common.Meta, outDir string) int {
	ws := filepath.Join(outDir, "ws14fo")
	os.RemoveAll(ws)
	defer os.RemoveAll(ws)
	rdir := userrules.Workspace(ws)
	env, err := typecheck("package p\n\nfunc F(s string) bool { return len(s) == 0 }\n")
	if err != nil {
		meta.TieBroken = append(meta.TieBroken, "failOn target: "+err.Error())
		return 0
	}
	values := []struct {
		val   string
		fails map[string]bool
	}{
		{"", map[string]bool{}}, {"dsl", map[string]bool{"dsl": true}}, {"import", map[string]bool{"import": true}},
		{"all", map[string]bool{"dsl": true, "import": true}},
		{"dsl,import", map[string]bool{"dsl": true, "import": true}}, {"import,dsl", map[string]bool{"dsl": true, "import": true}},
		{" dsl , import ", map[string]bool{"dsl": true, "import": true}}, {"import,import", map[string]bool{"import": true}},
		{"dsl,dsl", map[string]bool{"dsl": true}}, {"dsl,all", map[string]bool{"dsl": true, "import": true}}, {"all,import", map[string]bool{"dsl": true, "import": true}},
	}
	evals := 0
	for _, broken := range []struct{ file, class string }{{"dslerr.go", "dsl"}, {"importerr.go", "import"}} {
		for _, v := range values {
			rules := filepath.Join(rdir, "good.go") + "," + filepath.Join(rdir, broken.file)
			_, err := env.runWith("ruleguard", map[string]interface{}{"rules": rules, "failOn": v.val, "enable": "<all>", "disable": ""})
			evals++
			if (err != nil) != v.fails[broken.class] {
				meta.Fail("C14/ruleguard/list-parameter-not-applied", fmt.Sprintf("failOn=%q with a rule file that has a %s fault: construction error=%v, the value given demands failure=%v", v.val, broken.class, err, v.fails[broken.class]),
					map[string]string{"failOn": v.val, "broken_file": broken.file})
			}
		}
	}
	return evals
}
