package c14

import (
	"fmt"
	"os"
	"path/filepath"
	"sort"
	"strings"

	"verifharness/internal/common"
	"verifharness/internal/userrules"
)

// ruleguardIntegrator: an integrator building several `ruleguard` checkers in one process (one per linted
// module, per configuration scope, ...) overrides enable/disable/failOn per checker; every instance must use
// its own values even when the `rules` value is the same.
func ruleguardIntegrator(meta *common.Meta, outDir string) int {
	ws := filepath.Join(outDir, "ws14rg")
	os.RemoveAll(ws)
	defer os.RemoveAll(ws)
	rdir := userrules.Workspace(ws)
	rules := filepath.Join(rdir, "good.go") + "," + filepath.Join(rdir, "second.go")
	env, err := typecheck("package p\n\nfunc F(s string, xs []int) bool {\n\tif len(s) == 0 {\n\t\treturn true\n\t}\n\treturn cap(xs) == 0\n}\n")
	if err != nil {
		meta.TieBroken = append(meta.TieBroken, "integrator target: "+err.Error())
		return 0
	}
	type step struct {
		params  map[string]interface{}
		want    []string // user rules that must fire
		wantErr bool
	}
	all := []string{"userCapZero", "userLenZero"}
	steps := []step{
		{map[string]interface{}{"rules": rules, "enable": "<all>", "disable": ""}, all, false},
		{map[string]interface{}{"rules": rules, "enable": "<all>", "disable": "userLenZero"}, []string{"userCapZero"}, false},
		{map[string]interface{}{"rules": rules, "enable": "userLenZero", "disable": ""}, []string{"userLenZero"}, false},
		{map[string]interface{}{"rules": rules, "enable": "<all>", "disable": ""}, all, false},
		{map[string]interface{}{"rules": rules + "," + filepath.Join(rdir, "broken.go"), "failOn": ""}, all, false},
		{map[string]interface{}{"rules": rules + "," + filepath.Join(rdir, "broken.go"), "failOn": "all"}, nil, true},
		{map[string]interface{}{"rules": rules + "," + filepath.Join(rdir, "broken.go"), "failOn": ""}, all, false},
		{map[string]interface{}{"rules": rules, "enable": "<all>", "disable": "userCapZero,userLenZero"}, nil, false},
	}
	for i, st := range steps {
		ws, err := env.runWith("ruleguard", st.params)
		desc := fmt.Sprintf("step %d of one process: enable=%v disable=%v failOn=%v (same rule files as the steps before)", i+1, st.params["enable"], st.params["disable"], st.params["failOn"])
		if (err != nil) != st.wantErr {
			meta.Fail("C14/ruleguard/parameter-of-this-instance-not-used", fmt.Sprintf("%s: construction error=%v, expected error=%v", desc, err, st.wantErr), map[string]interface{}{"step": i + 1, "params": fmt.Sprint(st.params)})
			continue
		}
		var got []string
		for _, w := range ws {
			for _, n := range all {
				if strings.Contains(w.Text, "user rule "+n+" fired") {
					got = append(got, n)
				}
			}
		}
		sort.Strings(got)
		if strings.Join(got, ",") != strings.Join(st.want, ",") {
			meta.Fail("C14/ruleguard/parameter-of-this-instance-not-used", fmt.Sprintf("%s: user rules fired %v, expected %v", desc, got, st.want), map[string]interface{}{"step": i + 1, "params": fmt.Sprint(st.params)})
		}
	}
	return len(steps)
}

// ruleguardListParams: the list-valued parameters `enable` and `disable` of the ruleguard checker. A value is a
// comma-separated list of group names and #tags; the value given is the value used: which groups run is decided by
// the documented sentence (named or tagged => enabled; named or tagged in disable => off), whatever the order of the
// elements and whatever blanks surround them (the constructor trims every element, as Model_RuleFiles does).
func ruleguardListParams(meta *common.Meta, outDir string, rng interface{ Intn(int) int }, tier string) int {
	ws := filepath.Join(outDir, "ws14rl")
	os.RemoveAll(ws)
	defer os.RemoveAll(ws)
	rdir := userrules.Workspace(ws)
	common.WriteFile(filepath.Join(rdir, "tagged.go"), `package gorules

import "github.com/quasilyte/go-ruleguard/dsl"

//doc:summary alpha
//doc:tags alpha
func gAlpha(m dsl.Matcher) {
	m.Match("len($s) == 0").Report("user rule gAlpha fired")
}

//doc:summary beta
//doc:tags beta
func gBeta(m dsl.Matcher) {
	m.Match("cap($s) == 0").Report("user rule gBeta fired")
}

//doc:summary gamma
//doc:tags alpha gamma
func gGamma(m dsl.Matcher) {
	m.Match("$x = $x").Report("user rule gGamma fired")
}
`)
	env, err := typecheck("package p\n\nfunc F(s string, xs []int, v int) bool {\n\tv = v\n\tif len(s) == 0 {\n\t\treturn true\n\t}\n\treturn cap(xs) == 0\n}\n")
	if err != nil {
		meta.TieBroken = append(meta.TieBroken, "list-parameter target: "+err.Error())
		return 0
	}
	groups := map[string][]string{"gAlpha": {"alpha"}, "gBeta": {"beta"}, "gGamma": {"alpha", "gamma"}}
	elems := []string{"gAlpha", "gBeta", "gGamma", "#alpha", "#beta", "#gamma", "#nosuch", "nosuch"}
	blanks := []string{"", " ", "  ", "\t"}
	expect := func(en, dis []string, all bool) []string {
		has := func(l []string, x string) bool {
			for _, y := range l {
				if y == x {
					return true
				}
			}
			return false
		}
		var out []string
		for g, tags := range groups {
			on, off := all || has(en, g), has(dis, g)
			for _, t := range tags {
				on = on || (!all && has(en, "#"+t))
				off = off || has(dis, "#"+t)
			}
			if on && !off {
				out = append(out, g)
			}
		}
		sort.Strings(out)
		return out
	}
	render := func(l []string) string {
		var parts []string
		for _, e := range l {
			parts = append(parts, blanks[rng.Intn(len(blanks))]+e+blanks[rng.Intn(len(blanks))])
		}
		return strings.Join(parts, ",")
	}
	pick := func(max int) []string {
		n := rng.Intn(max + 1)
		var l []string
		for i := 0; i < n; i++ {
			l = append(l, elems[rng.Intn(len(elems))])
		}
		return l
	}
	n := 40
	if tier == "thorough" {
		n = 400
	}
	evals := 0
	for i := 0; i < n; i++ {
		en, dis := pick(3), pick(2)
		all := len(en) == 0 || i%5 == 0
		enVal := render(en)
		if all {
			enVal, en = "<all>", nil
		}
		disVal := render(dis)
		want := expect(en, dis, all)
		ws, err := env.runWith("ruleguard", map[string]interface{}{"rules": filepath.Join(rdir, "tagged.go"), "enable": enVal, "disable": disVal})
		evals++
		if err != nil {
			if len(want) == 0 {
				continue // nothing enabled: an initialisation error is C18's subject
			}
			meta.Fail("C14/ruleguard/list-parameter-not-applied", fmt.Sprintf("enable=%q disable=%q: construction failed: %v", enVal, disVal, err), map[string]string{"enable": enVal, "disable": disVal})
			continue
		}
		var got []string
		for _, w := range ws {
			for g := range groups {
				if strings.Contains(w.Text, "user rule "+g+" fired") {
					got = append(got, g)
				}
			}
		}
		sort.Strings(got)
		if strings.Join(got, ",") != strings.Join(want, ",") {
			meta.Fail("C14/ruleguard/list-parameter-not-applied", fmt.Sprintf("enable=%q disable=%q (elements %v / %v): groups that ran %v, the value given selects %v", enVal, disVal, en, dis, got, want), map[string]string{"enable": enVal, "disable": disVal, "rules": "three groups: gAlpha #alpha, gBeta #beta, gGamma #alpha #gamma"})
		}
	}
	return evals
}
