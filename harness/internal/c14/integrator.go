package c14

import (
	"fmt"
	"os"
	"path/filepath"
	"sort"
	"strings"

	"verifharness/internal/common"
	"verifharness/internal/userrules"
)

// ruleguardIntegrator: an integrator building several `ruleguard` checkers in one process (one per linted
// module, per configuration scope, ...) overrides enable/disable/failOn per checker; every instance must use
// its own values even when the `rules` value is the same.
func ruleguardIntegrator(meta *common.Meta, outDir string) int {
	ws := filepath.Join(outDir, "ws14rg")
	os.RemoveAll(ws)
	defer os.RemoveAll(ws)
	rdir := userrules.Workspace(ws)
	rules := filepath.Join(rdir, "good.go") + "," + filepath.Join(rdir, "second.go")
	env, err := typecheck("package p\n\nfunc F(s string, xs []int) bool {\n\tif len(s) == 0 {\n\t\treturn true\n\t}\n\treturn cap(xs) == 0\n}\n")
	if err != nil {
		meta.TieBroken = append(meta.TieBroken, "integrator target: "+err.Error())
		return 0
	}
	type step struct {
		params  map[string]interface{}
		want    []string // user rules that must fire
		wantErr bool
	}
	all := []string{"userCapZero", "userLenZero"}
	steps := []step{
		{map[string]interface{}{"rules": rules, "enable": "<all>", "disable": ""}, all, false},
		{map[string]interface{}{"rules": rules, "enable": "<all>", "disable": "userLenZero"}, []string{"userCapZero"}, false},
		{map[string]interface{}{"rules": rules, "enable": "userLenZero", "disable": ""}, []string{"userLenZero"}, false},
		{map[string]interface{}{"rules": rules, "enable": "<all>", "disable": ""}, all, false},
		{map[string]interface{}{"rules": rules + "," + filepath.Join(rdir, "broken.go"), "failOn": ""}, all, false},
		{map[string]interface{}{"rules": rules + "," + filepath.Join(rdir, "broken.go"), "failOn": "all"}, nil, true},
		{map[string]interface{}{"rules": rules + "," + filepath.Join(rdir, "broken.go"), "failOn": ""}, all, false},
		{map[string]interface{}{"rules": rules, "enable": "<all>", "disable": "userCapZero,userLenZero"}, nil, false},
	}
	for i, st := range steps {
		ws, err := env.runWith("ruleguard", st.params)
		desc := fmt.Sprintf("step %d of one process: enable=%v disable=%v failOn=%v (same rule files as the steps before)", i+1, st.params["enable"], st.params["disable"], st.params["failOn"])
		if (err != nil) != st.wantErr {
			meta.Fail("C14/ruleguard/parameter-of-this-instance-not-used", fmt.Sprintf("%s: construction error=%v, expected error=%v", desc, err, st.wantErr), map[string]interface{}{"step": i + 1, "params": fmt.Sprint(st.params)})
			continue
		}
		var got []string
		for _, w := range ws {
			for _, n := range all {
				if strings.Contains(w.Text, "user rule "+n+" fired") {
					got = append(got, n)
				}
			}
		}
		sort.Strings(got)
		if strings.Join(got, ",") != strings.Join(st.want, ",") {
			meta.Fail("C14/ruleguard/parameter-of-this-instance-not-used", fmt.Sprintf("%s: user rules fired %v, expected %v", desc, got, st.want), map[string]interface{}{"step": i + 1, "params": fmt.Sprint(st.params)})
		}
	}
	return len(steps)
}
