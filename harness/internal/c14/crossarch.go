package c14

import (
	"fmt"
	"go/ast"
	"go/importer"
	"go/parser"
	"go/token"
	"go/types"
	"os"
	"path/filepath"
	"regexp"
	"runtime"
	"strconv"
	"strings"
	"time"

	"verifharness/internal/common"
)

// crossArch: byte sizes quoted in messages are those of the platform the packages are loaded for (GOARCH),
// not those of the machine the linter happens to run on.  Types whose size depends on the word size and on
// 64-bit alignment are passed by value; the expected sizes come from go/types' gc size model for the target
// and are certified by compiling array-length assertions with GOARCH set to the target.
func crossArch(meta *common.Meta, outDir string) int {
	target := "386"
	if runtime.GOARCH == "386" || runtime.GOARCH == "arm" {
		target = "amd64"
	}
	typs := []string{"[12]int", "struct { p *int; n int32 }", "[10]uintptr", "struct { a int64; b int32 }", "[6]string", "[5][]int",
		"struct { e error; m map[string]int; c chan int }", "[9]int64", "struct { b bool; f float64; u uint }", "[3]struct { s string; i interface{} }",
		"struct { a int8; c complex128; b int16 }", "[2]struct { f func(); x int32; y float64 }"}
	// the same types in the Coq model's vocabulary
	coqTyps := []string{"TArray 12 TInt", "TStruct [TPointer; TInt32]", "TArray 10 TUintptr", "TStruct [TInt64; TInt32]", "TArray 6 TString", "TArray 5 TSlice",
		"TStruct [TInterface; TMap; TChan]", "TArray 9 TInt64", "TStruct [TBool; TFloat64; TInt]", "TArray 3 (TStruct [TString; TInterface])",
		"TStruct [TInt8; TComplex128; TInt16]", "TArray 2 (TStruct [TFunc; TInt32; TFloat64])"}
	var caseLines, caseIdx []string
	var b strings.Builder
	b.WriteString("package xa\n\n")
	for i, t := range typs {
		fmt.Fprintf(&b, "type T%d %s\n\nfunc F%d(v T%d) T%d { return v }\n\n", i, t, i, i, i)
	}
	src := b.String()
	fset := token.NewFileSet()
	f, err := parser.ParseFile(fset, "xa.go", src, 0)
	common.Must(err)
	sizes := types.SizesFor("gc", target)
	conf := types.Config{Importer: importer.Default(), Sizes: sizes}
	pkg, err := conf.Check("xa", fset, []*ast.File{f}, nil)
	common.Must(err)
	want := map[string]int64{}
	var asserts strings.Builder
	asserts.WriteString("package xa\n\nimport \"unsafe\"\n\n")
	for i := range typs {
		obj := pkg.Scope().Lookup(fmt.Sprintf("T%d", i))
		n := sizes.Sizeof(obj.Type())
		want[fmt.Sprintf("F%d", i)] = n
		fmt.Fprintf(&asserts, "var _ [unsafe.Sizeof(T%d{}) - %d]byte\nvar _ [%d - unsafe.Sizeof(T%d{})]byte\n", i, n, n, i)
	}
	dir := filepath.Join(outDir, "xarch")
	os.RemoveAll(dir)
	defer os.RemoveAll(dir)
	common.WriteFile(filepath.Join(dir, "go.mod"), "module xa\n\ngo 1.20\n")
	common.WriteFile(filepath.Join(dir, "xa.go"), src)
	common.WriteFile(filepath.Join(dir, "asserts.go"), asserts.String())
	env := append(common.GoEnv(), "GOARCH="+target, "CGO_ENABLED=0")
	if out, code, err := common.Run(300*time.Second, dir, env, "go", "build", "./..."); err != nil || code != 0 {
		meta.Notes = append(meta.Notes, fmt.Sprintf("cross-arch size certificate did not compile for GOARCH=%s (exit %d, %v): %s — cross-arch cases skipped", target, code, err, out))
		return 0
	}
	runs := 0
	lineRE := regexp.MustCompile(`xa\.go:(\d+):\d+: hugeParam: v is heavy \((\d+) bytes\)`)
	lines := strings.Split(src, "\n")
	for _, exe := range []string{"go-critic", "gocritic", "go-critic-analysis", "gocritic-analysis"} {
		var args []string
		if strings.HasSuffix(exe, "-analysis") {
			args = []string{"-enable=hugeParam", "-disable=", "-@hugeParam.sizeThreshold=1", "./..."}
		} else {
			args = []string{"check", "-enable=hugeParam", "-@hugeParam.sizeThreshold=1", "./..."}
		}
		out, _, err := common.Run(180*time.Second, dir, env, filepath.Join(common.BinDir(), exe), args...)
		runs++
		if err != nil {
			meta.Fail("C14/"+exe+"/e2e-run", err.Error(), args)
			continue
		}
		seen := 0
		for _, m := range lineRE.FindAllStringSubmatch(out, -1) {
			ln, _ := strconv.Atoi(m[1])
			got, _ := strconv.ParseInt(m[2], 10, 64)
			fn := ""
			if fm := regexp.MustCompile(`^func (F\d+)\(`).FindStringSubmatch(lines[ln-1]); fm != nil {
				fn = fm[1]
			}
			if fn == "" {
				continue
			}
			seen++
			{
				idx, _ := strconv.Atoi(fn[1:])
				archTerm := "i386"
				if target == "amd64" {
					archTerm = "amd64"
				}
				caseLines = append(caseLines, fmt.Sprintf("  (%s, %s, %d%%Z)", archTerm, coqTyps[idx], got))
				caseIdx = append(caseIdx, fmt.Sprintf("GOARCH=%s %s: %s quoted as %d bytes", target, exe, typs[idx], got))
			}
			if got != want[fn] {
				idx, _ := strconv.Atoi(fn[1:])
				meta.Fail("C14/"+exe+"/quoted-size-is-not-the-target-platform's", fmt.Sprintf("GOARCH=%s %s %s: a parameter of type %s is quoted as %d bytes; its size on %s is %d (certified by compiling with GOARCH=%s)", target, exe, strings.Join(args, " "), typs[idx], got, target, want[fn], target),
					map[string]interface{}{"exe": exe, "args": args, "env": "GOARCH=" + target, "type": typs[idx], "quoted": got, "actual": want[fn], "source": src})
			}
		}
		if seen == 0 {
			meta.TieBroken = append(meta.TieBroken, fmt.Sprintf("cross-arch: %s printed no hugeParam diagnostic: %s", exe, out))
		}
	}
	common.WriteFile(filepath.Join(outDir, "cases_c14_xarch.v"), "From GC Require Import Base Model_Params.\nOpen Scope Z_scope.\n"+
		"Definition case_ok (k : arch * gtype * Z) : bool := let '(a, t, q) := k in gsize a t =? q.\nDefinition cases : list (arch * gtype * Z) := [\n"+
		strings.Join(caseLines, ";\n")+"\n].\nDefinition M := Eval vm_compute in mismatches case_ok cases.\nPrint M.\n")
	common.WriteFile(filepath.Join(outDir, "cases_c14_xarch.index.txt"), strings.Join(caseIdx, "\n")+"\n")
	meta.CaseFiles = append(meta.CaseFiles, "cases_c14_xarch.v")
	meta.Distribution["cross_arch_cases"] = len(caseLines)
	return runs
}
