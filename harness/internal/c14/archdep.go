package c14

import (
	"fmt"
	"go/ast"
	"go/importer"
	"go/parser"
	"go/token"
	"go/types"
	"sort"
	"strings"

	"github.com/go-critic/go-critic/linter"

	"verifharness/internal/common"
)

// archDependentParam: truncateCmp.skipArchDependent exists so that the same sources give the same output
// whatever the word size ("whether to skip int/uint/uintptr types"). With the parameter on, the diagnostics
// for word sizes 8 and 4 must be equal for operands of every type whose size follows the word size — the
// predeclared ones, defined types over them and aliases; with it off they must differ (non-vacuity).
func archDependentParam(meta *common.Meta) int {
	var b strings.Builder
	b.WriteString("package ad\n\ntype Off int\ntype Cnt uint\ntype Hnd uintptr\ntype Word = int\ntype Deep Off\ntype Fixed int64\n\n")
	words := []string{"int", "uint", "uintptr", "Off", "Cnt", "Hnd", "Word", "Deep"}
	fixed := []string{"int64", "uint64", "Fixed"}
	small := []string{"int32", "int16", "uint32"}
	n := 0
	for _, w := range append(append([]string(nil), words...), fixed...) {
		for _, s := range small {
			fmt.Fprintf(&b, "func f%d(x %s, y %s) bool { return %s(x) < y }\n", n, w, s, s)
			n++
		}
	}
	src := b.String()
	run := func(arch string, skip bool) ([]string, error) {
		fset := token.NewFileSet()
		f, err := parser.ParseFile(fset, "ad.go", src, 0)
		if err != nil {
			return nil, err
		}
		info := &types.Info{Types: map[ast.Expr]types.TypeAndValue{}, Defs: map[*ast.Ident]types.Object{}, Uses: map[*ast.Ident]types.Object{},
			Implicits: map[ast.Node]types.Object{}, Selections: map[*ast.SelectorExpr]*types.Selection{}, Scopes: map[ast.Node]*types.Scope{}}
		sizes := types.SizesFor("gc", arch)
		pkg, err := (&types.Config{Importer: importer.Default(), Sizes: sizes}).Check("ad", fset, []*ast.File{f}, info)
		if err != nil {
			return nil, err
		}
		ci := infoOf("truncateCmp")
		old := ci.Params["skipArchDependent"].Value
		ci.Params["skipArchDependent"].Value = skip
		defer func() { ci.Params["skipArchDependent"].Value = old }()
		ctx := linter.NewContext(fset, sizes)
		ctx.SetPackageInfo(info, pkg)
		c, err := linter.NewChecker(ctx, ci)
		if err != nil {
			return nil, err
		}
		ctx.SetFileInfo("ad.go", f)
		var out []string
		for _, w := range c.Check(f) {
			p := fset.Position(w.Pos)
			line := strings.Split(src, "\n")[p.Line-1]
			out = append(out, line[:strings.Index(line, " bool")])
		}
		sort.Strings(out)
		return out, nil
	}
	on64, e1 := run("amd64", true)
	on32, e2 := run("386", true)
	off64, e3 := run("amd64", false)
	off32, e4 := run("386", false)
	if e1 != nil || e2 != nil || e3 != nil || e4 != nil {
		meta.TieBroken = append(meta.TieBroken, fmt.Sprintf("truncateCmp arch stage: %v %v %v %v", e1, e2, e3, e4))
		return 0
	}
	if strings.Join(on64, "\n") != strings.Join(on32, "\n") {
		only := func(a, b []string) []string {
			m := map[string]bool{}
			for _, x := range b {
				m[x] = true
			}
			var r []string
			for _, x := range a {
				if !m[x] {
					r = append(r, x)
				}
			}
			return r
		}
		meta.Fail("C14/truncateCmp/skipArchDependent-output-depends-on-word-size", fmt.Sprintf("with skipArchDependent=true the diagnostics differ between word sizes: only on amd64 %v, only on 386 %v", only(on64, on32), only(on32, on64)),
			map[string]interface{}{"source": src, "amd64": on64, "386": on32})
	}
	if strings.Join(off64, "\n") == strings.Join(off32, "\n") || len(off64) <= len(on64) {
		meta.TieBroken = append(meta.TieBroken, "truncateCmp arch stage is vacuous: skipArchDependent=false does not make the output word-size dependent")
	}
	// fixed-width operands are reported whatever the parameter says
	for _, fx := range fixed {
		found := false
		for _, l := range on64 {
			if strings.Contains(l, "(x "+fx+",") {
				found = true
			}
		}
		if !found {
			meta.Fail("C14/truncateCmp/fixed-width-operand-not-reported", "a 64-bit fixed-width operand ("+fx+") truncated to a smaller type is not reported with skipArchDependent=true", map[string]interface{}{"source": src})
		}
	}
	return 4 * n
}
