// Package c14: checker parameters take effect exactly; thresholds act monotonically.
package c14

import (
	"fmt"
	"go/ast"
	"go/importer"
	"go/parser"
	"go/token"
	"go/types"
	"os"
	"path/filepath"
	"regexp"
	"runtime"
	"sort"
	"strconv"
	"strings"
	"time"

	"github.com/go-critic/go-critic/checkers/analyzer"
	"github.com/go-critic/go-critic/linter"

	"verifharness/internal/common"
	"verifharness/internal/coqfmt"
	"verifharness/internal/load"
)

type construct struct {
	kind    string // size-hugeParam, size-rangeValCopy, size-rangeExprCopy, results, nesting, ifelse
	measure int
	first   int // extent of the generated function
	last    int
	line    int
	extra   string // for ifelse: Coq term of the chain
}

type pkgEnv struct {
	fset *token.FileSet
	file *ast.File
	pkg  *types.Package
	info *types.Info
}

func typecheck(src string) (*pkgEnv, error) {
	fset := token.NewFileSet()
	f, err := parser.ParseFile(fset, "c14.go", src, parser.ParseComments)
	if err != nil {
		return nil, err
	}
	info := &types.Info{Types: map[ast.Expr]types.TypeAndValue{}, Defs: map[*ast.Ident]types.Object{}, Uses: map[*ast.Ident]types.Object{},
		Implicits: map[ast.Node]types.Object{}, Selections: map[*ast.SelectorExpr]*types.Selection{}, Scopes: map[ast.Node]*types.Scope{}}
	conf := types.Config{Importer: importer.Default(), Sizes: types.SizesFor("gc", runtime.GOARCH)}
	pkg, err := conf.Check("c14", fset, []*ast.File{f}, info)
	if err != nil {
		return nil, err
	}
	return &pkgEnv{fset, f, pkg, info}, nil
}

func infoOf(name string) *linter.CheckerInfo {
	for _, info := range linter.GetCheckersInfo() {
		if info.Name == name {
			return info
		}
	}
	panic("no checker " + name)
}

// runWith runs checker with params overridden through the info (the integrator's way). An integrator may either write
// the registered cell (`info.Params[k].Value = v`) or put a cell of its own into the table (`info.Params[k] = &CheckerParam{...}`);
// both are overrides of the registered default and alternate from call to call.
var runWithCalls int

func (e *pkgEnv) runWith(checker string, params map[string]interface{}) ([]linter.Warning, error) {
	info := infoOf(checker)
	runWithCalls++
	replaceEntry := runWithCalls%2 == 0
	savedVal := map[string]interface{}{}
	savedCell := map[string]*linter.CheckerParam{}
	for k, v := range params {
		if replaceEntry {
			savedCell[k] = info.Params[k]
			info.Params[k] = &linter.CheckerParam{Value: v, Usage: info.Params[k].Usage}
		} else {
			savedVal[k] = info.Params[k].Value
			info.Params[k].Value = v
		}
	}
	defer func() {
		for k, v := range savedVal {
			info.Params[k].Value = v
		}
		for k, c := range savedCell {
			info.Params[k] = c
		}
	}()
	ctx := linter.NewContext(e.fset, types.SizesFor("gc", runtime.GOARCH))
	ctx.SetPackageInfo(e.info, e.pkg)
	c, err := linter.NewChecker(ctx, info)
	if err != nil {
		return nil, err
	}
	ctx.SetFileInfo("c14.go", e.file)
	return append([]linter.Warning(nil), c.Check(e.file)...), nil
}

// ---- gc type grammar ----
type gtype struct {
	coq   string
	gosrc string
}

func genType(rng interface{ Intn(int) int }, depth int) gtype {
	basics := []gtype{
		{"TBool", "bool"}, {"TInt8", "int8"}, {"TInt8", "uint8"}, {"TInt16", "int16"}, {"TInt32", "int32"}, {"TInt32", "rune"}, {"TInt64", "int64"},
		{"TInt", "int"}, {"TInt", "uint"}, {"TUintptr", "uintptr"}, {"TFloat32", "float32"}, {"TFloat64", "float64"},
		{"TComplex64", "complex64"}, {"TComplex128", "complex128"}, {"TString", "string"}, {"TUnsafePointer", "unsafe.Pointer"},
		{"TPointer", "*int"}, {"TSlice", "[]byte"}, {"TInterface", "interface{}"}, {"TInterface", "error"}, {"TMap", "map[string]int"},
		{"TChan", "chan int"}, {"TFunc", "func(int) bool"},
	}
	if depth <= 0 || rng.Intn(3) == 0 {
		return basics[rng.Intn(len(basics))]
	}
	if rng.Intn(3) == 0 {
		n := rng.Intn(5)
		e := genType(rng, depth-1)
		return gtype{fmt.Sprintf("(TArray %d %s)", n, e.coq), fmt.Sprintf("[%d]%s", n, e.gosrc)}
	}
	n := rng.Intn(5)
	var cs, gs []string
	for i := 0; i < n; i++ {
		f := genType(rng, depth-1)
		cs = append(cs, f.coq)
		gs = append(gs, fmt.Sprintf("f%d %s", i, f.gosrc))
	}
	return gtype{"(TStruct " + coqfmt.List(cs) + ")", "struct{ " + strings.Join(gs, "; ") + " }"}
}

var bytesRE = regexp.MustCompile(`(\d+) bytes`)

func Run(tier string, seed int64, outDir string) *common.Meta {
	load.InitRules()
	meta := &common.Meta{Property: "C14", Distribution: map[string]interface{}{}}
	rng := common.NewRand(seed, "c14")
	evals := 0
	distinct := map[string]bool{}

	// ---------- 1. threshold constructs ----------
	var src strings.Builder
	src.WriteString("package c14\n\ntype recvT struct{}\n\n")
	line := 5
	var cons []construct
	emit := func(kind string, measure int, extra string, text string, warnLineOffset int) {
		n := strings.Count(text, "\n")
		cons = append(cons, construct{kind, measure, line, line + n - 1, line + warnLineOffset, extra})
		src.WriteString(text)
		line += n
	}
	measures := []int{1, 2, 3, 5, 8, 33, 80, 128, 129, 512}
	if tier == "thorough" {
		for i := 0; i < 25; i++ {
			measures = append(measures, 1+rng.Intn(700))
		}
	}
	for i, m := range measures {
		emit("size-hugeParam", m, "", fmt.Sprintf("func hp%d(a [%d]byte) {}\n\n", i, m), 0)
		emit("size-rangeValCopy", m, "", fmt.Sprintf("func rv%d(xs [][%d]byte) {\n\tfor _, v := range xs {\n\t\t_ = v\n\t}\n}\n\n", i, m), 1)
		emit("size-rangeExprCopy", m, "", fmt.Sprintf("func re%d() {\n\tvar a [%d]byte\n\tfor _, v := range a {\n\t\t_ = v\n\t}\n}\n\n", i, m), 2)
	}
	// function-local types with the same name but different sizes: each must be measured by its own size
	for i, m := range []int{16, 528, 40, 4096, 129} {
		emit("size-rangeValCopy", m, "", fmt.Sprintf("func lt%d() {\n\ttype rec struct{ a [%d]byte }\n\tvar xs []rec\n\tfor _, v := range xs {\n\t\t_ = v\n\t}\n}\n\n", i, m), 3)
		emit("size-rangeExprCopy", 8*m, "", fmt.Sprintf("func le%d() {\n\ttype rec struct{ a [%d]byte }\n\tvar arr [8]rec\n\tfor _, v := range arr {\n\t\t_ = v\n\t}\n}\n\n", i, m), 3)
	}
	for n := 0; n <= 8; n++ {
		res := make([]string, n)
		zeros := make([]string, n)
		for i := range res {
			res[i], zeros[i] = "int", "0"
		}
		sig := ""
		ret := ""
		if n > 0 {
			sig = " (" + strings.Join(res, ", ") + ")"
			ret = " return " + strings.Join(zeros, ", ") + " "
		}
		emit("results", n, "", fmt.Sprintf("func tm%d()%s {%s}\n\n", n, sig, ret), 0)
		// the same number of results in the other spellings of a result list: every result named on its own, all names
		// grouped under one type, groups of mixed sizes and types (the measure is the number of RESULTS, not of fields)
		if n > 0 {
			names := make([]string, n)
			for i := range names {
				names[i] = fmt.Sprintf("r%d", i)
			}
			each := make([]string, n)
			for i := range each {
				each[i] = names[i] + " int"
			}
			emit("results", n, "", fmt.Sprintf("func tmEach%d() (%s) { return }\n\n", n, strings.Join(each, ", ")), 0)
			emit("results", n, "", fmt.Sprintf("func tmGroup%d() (%s int) { return }\n\n", n, strings.Join(names, ", ")), 0)
			if n >= 3 {
				emit("results", n, "", fmt.Sprintf("func tmMixed%d() (%s int, %s string, %s error) { return }\n\n", n, strings.Join(names[:n-2], ", "), names[n-2], names[n-1]), 0)
			}
			emit("results", n, "", fmt.Sprintf("func (recvT) tmMethod%d() (%s int) { return }\n\n", n, strings.Join(names, ", ")), 0)
		}
	}
	for n := 0; n <= 8; n++ {
		body := strings.Repeat("\t\t\tsink++\n", n)
		emit("nesting", n, "", fmt.Sprintf("func nr%d(xs []int) {\n\tfor _, x := range xs {\n\t\tif x > 0 {\n%s\t\t}\n\t}\n}\n\n", n, body), 2)
	}
	// if-else chains: k branches, optional final else, optional Init at position p
	chainID := 0
	for _, k := range []int{1, 2, 3, 4, 5, 6, 9, 12} {
		for _, final := range []bool{false, true} {
			for initAt := -1; initAt < k; initAt++ {
				if initAt > 0 && initAt != k-1 && tier == "quick" {
					continue
				}
				var b strings.Builder
				fmt.Fprintf(&b, "func ie%d(x int) {\n\t", chainID)
				inits := make([]string, k)
				for j := 0; j < k; j++ {
					inits[j] = "false"
					if j > 0 {
						b.WriteString(" else ")
					}
					if j == initAt {
						inits[j] = "true"
						fmt.Fprintf(&b, "if y := x; y == %d {\n\t\tsink++\n\t}", j)
					} else {
						fmt.Fprintf(&b, "if x == %d {\n\t\tsink++\n\t}", j)
					}
				}
				end := "EndNoElse"
				if final {
					b.WriteString(" else {\n\t\tsink--\n\t}")
					end = "EndElseBlock"
				}
				b.WriteString("\n}\n\n")
				emit("ifelse", k, fmt.Sprintf("%s %s", coqfmt.List(inits), end), b.String(), 1)
				chainID++
			}
		}
	}
	// commentedOutCode: a local comment whose text (CommentGroup.Text, i.e. incl. the final newline) has exactly N runes
	for _, n := range []int{11, 14, 15, 16, 22, 30} {
		for _, fill := range []string{"a", "é"} {
			body := "v = foo(" + strings.Repeat(fill, n-10) + ")"
			emit("comment", n, "", fmt.Sprintf("func cc%d%s() {\n\t// %s\n\tsink++\n}\n\n", n, map[string]string{"a": "a", "é": "u"}[fill], body), 1)
		}
	}
	src.WriteString("var sink int\n")
	env, err := typecheck(src.String())
	if err != nil {
		meta.TieBroken = append(meta.TieBroken, "generated threshold file does not type-check: "+err.Error())
		return meta
	}
	type kindSpec struct {
		checker, param string
		extraParams    map[string]interface{}
	}
	specs := map[string]kindSpec{
		"size-hugeParam":     {"hugeParam", "sizeThreshold", nil},
		"size-rangeValCopy":  {"rangeValCopy", "sizeThreshold", nil},
		"size-rangeExprCopy": {"rangeExprCopy", "sizeThreshold", nil},
		"results":            {"tooManyResultsChecker", "maxResults", nil},
		"nesting":            {"nestingReduce", "bodyWidth", nil},
		"ifelse":             {"ifElseChain", "minThreshold", nil},
		"comment":            {"commentedOutCode", "minLength", nil},
	}
	var kinds []string
	for k := range specs {
		kinds = append(kinds, k)
	}
	sort.Strings(kinds)
	var thrLines, thrIdx []string
	for _, kind := range kinds {
		spec := specs[kind]
		tset := map[int]bool{0: true, 1: true, 1 << 30: true}
		for _, c := range cons {
			if c.kind == kind {
				tset[c.measure-1], tset[c.measure], tset[c.measure+1] = true, true, true
			}
		}
		var ts []int
		for t := range tset {
			if t >= 0 {
				ts = append(ts, t)
			}
		}
		sort.Ints(ts)
		prev := map[int]bool{} // lines reported at the previous (stricter or laxer) threshold, for the monotonicity oracle
		first := true
		for _, t := range ts {
			ws, err := env.runWith(spec.checker, map[string]interface{}{spec.param: t})
			if err != nil {
				meta.TieBroken = append(meta.TieBroken, fmt.Sprintf("%s with %s=%d: %v", spec.checker, spec.param, t, err))
				continue
			}
			lines := map[int]string{}
			for _, w := range ws {
				lines[env.fset.Position(w.Pos).Line] = w.Text
			}
			cur := map[int]bool{}
			// inside a construct of this kind only its designated line may be reported (one report per construct)
			for ln, text := range lines {
				for _, c := range cons {
					// (chains containing an Init clause are given up on by design and may be revisited piecewise)
					if c.kind == kind && ln >= c.first && ln <= c.last && ln != c.line && !strings.Contains(c.extra, "true") && t >= 1 {
						meta.Fail("C14/"+spec.checker+"/unexpected-diagnostic", fmt.Sprintf("%s with %s=%d reports line %d (%s) inside a construct whose only reportable place is line %d: a construct is reported more than once or in pieces", spec.checker, spec.param, t, ln, text, c.line), map[string]int{"threshold": t, "line": ln, "measure": c.measure})
					}
				}
			}
			for _, c := range cons {
				if c.kind != kind {
					continue
				}
				text, reported := lines[c.line]
				cur[c.line] = reported
				evals++
				distinct[fmt.Sprintf("%s/%v/%d", kind, reported, sign(c.measure-t))] = true
				var model string
				switch {
				case strings.HasPrefix(kind, "size-"):
					model = fmt.Sprintf("size_reports %d %d", c.measure, t)
					// quoted size must be the real size
					if reported {
						if m := bytesRE.FindStringSubmatch(text); m == nil || m[1] != strconv.Itoa(c.measure) {
							meta.Fail("C14/"+spec.checker+"/quoted-size", fmt.Sprintf("message %q for a [%d]byte value", text, c.measure), text)
						}
					}
				case kind == "results":
					model = fmt.Sprintf("too_many_results %d %d", c.measure, t)
				case kind == "nesting":
					model = fmt.Sprintf("nesting_reports %d %d", c.measure, t)
				case kind == "ifelse":
					model = fmt.Sprintf("if_else_reports %s %d", c.extra, t)
				case kind == "comment":
					model = fmt.Sprintf("negb (comment_too_short %d %d)", c.measure, t)
				}
				thrLines = append(thrLines, fmt.Sprintf("  (%s, %s)", model, coqfmt.Bool(reported)))
				thrIdx = append(thrIdx, fmt.Sprintf("%s measure=%d %s=%d reported=%v %s", kind, c.measure, spec.param, t, reported, c.extra))
				// oracle: documented boundaries (independent of the model)
				if kind != "ifelse" {
					var want bool
					switch kind {
					case "results":
						want = c.measure > t // "more than maxResults"
					case "comment":
						want = !(c.measure < t) // comments shorter than minLength runes are skipped
					default:
						want = c.measure >= t
					}
					if reported != want {
						meta.Fail("C14/"+spec.checker+"/boundary", fmt.Sprintf("%s: construct of measure %d with %s=%d reported=%v, documented boundary says %v", spec.checker, c.measure, spec.param, t, reported, want), map[string]int{"measure": c.measure, "threshold": t})
					}
				}
			}
			// oracle: monotonicity. For all these parameters a larger value is laxer (fewer reports).
			if !first {
				for ln, rep := range cur {
					if rep && !prev[ln] {
						meta.Fail("C14/"+spec.checker+"/non-monotone", fmt.Sprintf("%s: relaxing %s to %d adds a diagnostic at line %d", spec.checker, spec.param, t, ln), map[string]int{"threshold": t, "line": ln})
					}
				}
			}
			prev, first = cur, false
		}
	}
	hdr := "From GC Require Import Base Model_Params.\nOpen Scope Z_scope.\n"
	writeSharded(outDir, meta, "cases_c14_thr", hdr+"Definition case_ok (k : bool * bool) : bool := Bool.eqb (fst k) (snd k).\nDefinition cases : list (bool * bool) := [\n", thrLines, thrIdx, 4)
	meta.Distribution["threshold_cases"] = len(thrLines)

	// ---------- 2. sizes: model vs go/types vs messages vs the compiled program ----------
	nTypes := 120
	if tier == "thorough" {
		nTypes = 1500
	}
	var ts []gtype
	var tsrc strings.Builder
	tsrc.WriteString("package c14\n\nimport \"unsafe\"\n\nvar _ unsafe.Pointer\n\n")
	for i := 0; i < nTypes; i++ {
		t := genType(rng, 3)
		ts = append(ts, t)
		fmt.Fprintf(&tsrc, "func sz%d(a %s) {}\n", i, t.gosrc)
	}
	tenv, err := typecheck(tsrc.String())
	if err != nil {
		meta.TieBroken = append(meta.TieBroken, "generated size file does not type-check: "+err.Error())
		return meta
	}
	ws, err := tenv.runWith("hugeParam", map[string]interface{}{"sizeThreshold": 0})
	common.Must(err)
	msgSize := map[int]int64{}
	for _, w := range ws {
		if m := bytesRE.FindStringSubmatch(w.Text); m != nil {
			n, _ := strconv.ParseInt(m[1], 10, 64)
			msgSize[tenv.fset.Position(w.Pos).Line] = n
		}
	}
	sizes := types.SizesFor("gc", runtime.GOARCH)
	real := compiledSizes(ts, outDir)
	var szLines, szIdx []string
	for i, t := range ts {
		obj := tenv.pkg.Scope().Lookup(fmt.Sprintf("sz%d", i)).(*types.Func)
		pt := obj.Type().(*types.Signature).Params().At(0).Type()
		tsz := sizes.Sizeof(pt)
		ln := tenv.fset.Position(obj.Pos()).Line
		ms, ok := msgSize[ln]
		evals++
		if !ok {
			meta.Fail("C14/hugeParam/threshold-0-missing", fmt.Sprintf("sizeThreshold=0 but no diagnostic for parameter of type %s", t.gosrc), t.gosrc)
			ms = -1
		} else if ms != tsz {
			meta.Fail("C14/hugeParam/quoted-size", fmt.Sprintf("message quotes %d bytes for %s, go/types gc sizes say %d", ms, t.gosrc, tsz), t.gosrc)
		}
		if real != nil && real[i] != tsz {
			meta.Fail("C14/sizes/platform", fmt.Sprintf("unsafe.Sizeof(%s) = %d on this platform, quoted/go-types size %d", t.gosrc, real[i], tsz), t.gosrc)
		}
		szLines = append(szLines, fmt.Sprintf("  (%s, %d, %d)", t.coq, tsz, ms))
		szIdx = append(szIdx, fmt.Sprintf("sizeof %s = types:%d message:%d", t.gosrc, tsz, ms))
		distinct[fmt.Sprintf("size/%d", tsz)] = true
		if i%40 == 0 {
			meta.AddSample(map[string]interface{}{"type": t.gosrc, "go/types": tsz, "message": ms})
		}
	}
	writeSharded(outDir, meta, "cases_c14_size", hdr+"Definition case_ok (k : gtype * Z * Z) : bool := let '(t, a, b) := k in (gc_sizeof t =? a) && (gc_sizeof t =? b).\nDefinition cases : list (gtype * Z * Z) := [\n", szLines, szIdx, 2)
	meta.Distribution["size_types"] = nTypes
	meta.Distribution["sizes_checked_against_compiled_program"] = real != nil

	// ---------- 3. plumbing: flag -> parameter cell, three front-ends ----------
	evals += plumbing(meta, tier, rng, outDir, hdr)

	// ---------- 4. end to end: the constructor really uses the flag value ----------
	evals += endToEnd(meta, outDir, src.String(), cons)
	evals += crossArch(meta, outDir)
	evals += ruleguardIntegrator(meta, outDir)
	evals += ruleguardListParams(meta, outDir, common.NewRand(seed, "c14-lists"), tier)
	evals += ruleguardFailOnLists(meta, outDir)
	evals += boolParams(meta)
	evals += archDependentParam(meta)

	meta.Evaluations = evals
	meta.Distinct = len(distinct)
	meta.Rule = "constructs of measure exactly N (array parameters/range values/range expressions of N bytes, N results, N-statement loop bodies, if-else chains of N branches with/without final else and Init) run at thresholds N-1, N, N+1, 0, 1 and 2^30 through the public API with the parameter overridden via CheckerInfo.Params; random type terms (depth <= 3) for sizes vs go/types, the quoted '(N bytes)' and a compiled unsafe.Sizeof program; random flag lists (incl. repeated flags) through both CLI mains (bridge) and the analyzer flag set. distinct_nontrivial = distinct (kind, reported, sign(measure-threshold)) and distinct sizes"
	return meta
}

func sign(x int) int {
	switch {
	case x < 0:
		return -1
	case x > 0:
		return 1
	}
	return 0
}

func writeSharded(outDir string, meta *common.Meta, name, hdr string, lines, idx []string, shards int) {
	for s := 0; s < shards; s++ {
		var ls, is []string
		for i := s; i < len(lines); i += shards {
			ls = append(ls, lines[i])
			if idx != nil {
				is = append(is, idx[i])
			}
		}
		fn := fmt.Sprintf("%s_%d", name, s)
		common.WriteFile(filepath.Join(outDir, fn+".v"), hdr+strings.Join(ls, ";\n")+"\n].\nDefinition M := Eval vm_compute in mismatches case_ok cases.\nPrint M.\n")
		if idx != nil {
			common.WriteFile(filepath.Join(outDir, fn+".index.txt"), strings.Join(is, "\n")+"\n")
		}
		meta.CaseFiles = append(meta.CaseFiles, fn+".v")
	}
}

// compiledSizes builds and runs a program printing unsafe.Sizeof of every type.
func compiledSizes(ts []gtype, outDir string) []int64 {
	dir := filepath.Join(outDir, "szprog")
	defer os.RemoveAll(dir)
	var b strings.Builder
	b.WriteString("package main\n\nimport (\n\t\"fmt\"\n\t\"unsafe\"\n)\n\nvar _ unsafe.Pointer\n\nfunc main() {\n")
	for i, t := range ts {
		fmt.Fprintf(&b, "\t{ var v%d %s; fmt.Println(unsafe.Sizeof(v%d)) }\n", i, t.gosrc, i)
	}
	b.WriteString("}\n")
	common.WriteFile(filepath.Join(dir, "go.mod"), "module szprog\n\ngo 1.20\n")
	common.WriteFile(filepath.Join(dir, "main.go"), b.String())
	out, code, err := common.Run(180*time.Second, dir, common.GoEnv(), "go", "run", ".")
	if err != nil || code != 0 {
		return nil
	}
	var res []int64
	for _, l := range strings.Fields(out) {
		n, err := strconv.ParseInt(l, 10, 64)
		if err != nil {
			return nil
		}
		res = append(res, n)
	}
	if len(res) != len(ts) {
		return nil
	}
	return res
}

type bcase struct {
	Op       string   `json:"op"`
	Args     []string `json:"args"`
	Registry string   `json:"registry"`
}
type bres struct {
	Params map[string]string `json:"params"`
	Err    string            `json:"err"`
	Panic  string            `json:"panic"`
}

func plumbing(meta *common.Meta, tier string, rng interface{ Intn(int) int }, outDir, hdr string) int {
	// registry defaults
	type prm struct {
		key, kind, def string
	}
	var prms []prm
	for _, info := range linter.GetCheckersInfo() {
		var names []string
		for n := range info.Params {
			names = append(names, n)
		}
		sort.Strings(names)
		for _, n := range names {
			v := info.Params[n].Value
			prms = append(prms, prm{"@" + info.Name + "." + n, fmt.Sprintf("%T", v), fmt.Sprint(v)})
		}
	}
	vals := map[string][]string{"int": {"0", "-5", "7", "1000000", "33"}, "bool": {"true", "false"}, "string": {"", "x", "<all>"}}
	n := 40
	if tier == "thorough" {
		n = 400
	}
	var argLists [][][2]string
	argLists = append(argLists, nil)
	for i := 0; i < n; i++ {
		k := 1 + rng.Intn(5)
		var al [][2]string
		for j := 0; j < k; j++ {
			p := prms[rng.Intn(len(prms))]
			if strings.HasPrefix(p.key, "@ruleguard.") {
				continue // its values are validated by the constructor (C18); keep plumbing cases constructor-independent
			}
			vs := vals[p.kind]
			al = append(al, [2]string{p.key, vs[rng.Intn(len(vs))]})
			if rng.Intn(4) == 0 { // the same flag twice: the last occurrence wins
				al = append(al, [2]string{p.key, vs[rng.Intn(len(vs))]})
			}
		}
		argLists = append(argLists, al)
	}
	var bc []bcase
	for _, al := range argLists {
		var args []string
		for _, kv := range al {
			args = append(args, "-"+kv[0]+"="+kv[1])
		}
		bc = append(bc, bcase{"params", args, "real"})
	}
	results := map[string][]bres{}
	for _, pkg := range []string{"./cmd/go-critic", "./cmd/gocritic"} {
		var res []bres
		if err := common.RunBridge(pkg, bc, &res, outDir); err != nil || len(res) != len(bc) {
			meta.TieBroken = append(meta.TieBroken, fmt.Sprintf("hook %s: %v", pkg, err))
			return 0
		}
		results[pkg] = res
	}
	// analyzer: set flags, force re-initialisation, read the registered cells back
	anRes := make([]map[string]string, len(argLists))
	fl := &analyzer.Analyzer.Flags
	resetFlags := func() {
		for _, p := range prms {
			if f := fl.Lookup(p.key); f != nil {
				fl.Set(p.key, f.DefValue)
			}
		}
		fl.Set("enable-all", "true")
		fl.Set("disable", "")
		fl.Set("go", "")
	}
	anMissing := map[string]bool{}
	for i, al := range argLists {
		resetFlags()
		for _, kv := range al {
			if f := fl.Lookup(kv[0]); f != nil {
				common.Must(fl.Set(kv[0], kv[1]))
			}
		}
		analyzer.VerifResetGlobal()
		_ = analyzer.VerifPrepare()
		got := map[string]string{}
		for _, info := range linter.GetCheckersInfo() {
			for n, p := range info.Params {
				got["@"+info.Name+"."+n] = fmt.Sprint(p.Value)
			}
		}
		anRes[i] = got
		for _, p := range prms {
			if fl.Lookup(p.key) == nil {
				anMissing[p.key] = true
			}
		}
	}
	resetFlags()
	fl.Set("enable-all", "false")
	fl.Set("disable", "<default>")
	analyzer.VerifResetGlobal()
	_ = analyzer.VerifPrepare()
	analyzer.VerifResetGlobal()
	for k := range anMissing {
		meta.Fail("C14/analyzer/parameter-flag-missing", "the analyzer offers no flag for parameter "+k, k)
	}
	// cases
	var lines, idx []string
	var regItems, heapItems []string
	for i, p := range prms {
		regItems = append(regItems, fmt.Sprintf("(%s, %d%%N)", coqfmt.Str(p.key), i))
		heapItems = append(heapItems, fmt.Sprintf("(%d%%N, %s)", i, coqfmt.Str(p.def)))
	}
	evals := 0
	for i, al := range argLists {
		var args []string
		for _, kv := range al {
			args = append(args, fmt.Sprintf("(%s, %s)", coqfmt.Str(kv[0]), coqfmt.Str(kv[1])))
		}
		for fi, front := range []map[string]string{stripType(results["./cmd/go-critic"][i].Params), stripType(results["./cmd/gocritic"][i].Params), anRes[i]} {
			var obs []string
			for _, p := range prms {
				v, ok := front["@"+strings.TrimPrefix(p.key, "@")]
				if !ok {
					v, ok = front[strings.TrimPrefix(p.key, "@")]
				}
				if !ok {
					continue
				}
				obs = append(obs, fmt.Sprintf("(%s, %s)", coqfmt.Str(p.key), coqfmt.Str(v)))
				evals++
				// oracle: the given value is the value in the cell
				want := p.def
				for _, kv := range al {
					if kv[0] == p.key {
						want = kv[1]
					}
				}
				if v != want {
					fn := []string{"go-critic", "gocritic", "analyzer"}[fi]
					meta.Fail("C14/"+fn+"/parameter-not-applied", fmt.Sprintf("%s: parameter %s is %q after flags %v, expected %q", fn, p.key, v, al, want), map[string]interface{}{"flags": al, "param": p.key})
				}
			}
			lines = append(lines, fmt.Sprintf("  (%s, %s)", coqfmt.List(args), coqfmt.List(obs)))
			idx = append(idx, fmt.Sprintf("front-end %d flags %v", fi, al))
		}
	}
	pre := hdr + fmt.Sprintf("Definition reg : env := %s.\nDefinition h0 : heap := %s.\n", coqfmt.List(regItems), coqfmt.List(heapItems)) + `
Definition case_ok (k : list (key * string) * list (key * string)) : bool :=
  let h := run_frontend h0 reg (fst k) in
  forallb (fun kv => match construct_reads h reg (fst kv) with Some v => String.eqb v (snd kv) | None => false end) (snd k).
Definition cases : list (list (key * string) * list (key * string)) := [
`
	writeSharded(outDir, meta, "cases_c14_plumb", pre, lines, idx, 2)
	meta.Distribution["plumbing_arg_lists"] = len(argLists)
	meta.Distribution["parameters"] = len(prms)
	return evals
}

func stripType(m map[string]string) map[string]string {
	out := map[string]string{}
	for k, v := range m {
		if i := strings.Index(v, ":"); i >= 0 {
			v = v[i+1:]
		}
		out["@"+k] = v
	}
	return out
}

func endToEnd(meta *common.Meta, outDir, src string, cons []construct) int {
	dir := filepath.Join(outDir, "e2e14")
	defer os.RemoveAll(dir)
	common.WriteFile(filepath.Join(dir, "go.mod"), "module c14\n\ngo 1.20\n")
	common.WriteFile(filepath.Join(dir, "c14.go"), src)
	bin := common.BinDir()
	runs := 0
	lineRE := regexp.MustCompile(`c14\.go:(\d+):\d+: (\w+):`)
	for _, t := range []int{33, 129} {
		for _, exe := range []string{"go-critic", "gocritic", "go-critic-analysis"} {
			var args []string
			if strings.HasSuffix(exe, "-analysis") {
				args = []string{"-enable=hugeParam", "-disable=", fmt.Sprintf("-@hugeParam.sizeThreshold=%d", t), "./..."}
			} else {
				args = []string{"check", "-enable=hugeParam", fmt.Sprintf("-@hugeParam.sizeThreshold=%d", t), "./..."}
			}
			out, _, err := common.Run(120*time.Second, dir, common.GoEnv(), filepath.Join(bin, exe), args...)
			runs++
			if err != nil {
				meta.Fail("C14/"+exe+"/e2e-run", err.Error(), args)
				continue
			}
			got := map[int]bool{}
			for _, m := range lineRE.FindAllStringSubmatch(out, -1) {
				ln, _ := strconv.Atoi(m[1])
				got[ln] = true
			}
			for _, c := range cons {
				if c.kind != "size-hugeParam" {
					continue
				}
				if got[c.line] != (c.measure >= t) {
					meta.Fail("C14/"+exe+"/flag-value-not-used", fmt.Sprintf("%s %v: parameter of %d bytes reported=%v", exe, args, c.measure, got[c.line]), args)
				}
			}
		}
	}
	return runs
}
