package absconv

import (
	"go/ast"
	"go/token"
	"go/types"

	"github.com/go-toolsmith/astcopy"
	"github.com/go-toolsmith/astequal"
	"github.com/go-toolsmith/typep"
)

// Tree is the abstract input of the SkipChilds protocol model (Model_Walk.tree): one node per VisitTypeExpr call of the
// type-expression walker, nested the way the walker reaches them. Warn / Skip are the two things typeUnparen's visitor
// does at a node (independent re-implementation of its decision; WHAT is then skipped is the model's business).
type Tree struct {
	Pos        int
	Warn, Skip bool
	Kids       []*Tree
	Node       ast.Expr // the visited expression (for the heap-model execution of C05)
	Checked    bool     // checkType ran here (copy + removeRedundantParens + compare)
}

type typeWalker struct {
	info *types.Info
	off  func(token.Pos) int
}

// typeTrees mirrors astwalk.typeExprWalker.WalkFile for one declaration.
func typeTrees(decl ast.Decl, info *types.Info, off func(token.Pos) int) []*Tree {
	w := &typeWalker{info, off}
	root := &Tree{}
	switch d := decl.(type) {
	case *ast.FuncDecl:
		if d.Body == nil {
			return nil
		}
		w.signature(d.Type, root)
		w.inspect(d.Body, root)
	case *ast.GenDecl:
		if d.Tok == token.IMPORT {
			return nil
		}
		w.inspect(d, root)
	}
	return root.Kids
}

// inspect = ast.Inspect(n, w.walk), remembering under which visited node each visit happens.
func (w *typeWalker) inspect(n ast.Node, parent *Tree) {
	if n == nil {
		return
	}
	stack := []*Tree{parent}
	ast.Inspect(n, func(x ast.Node) bool {
		if x == nil {
			stack = stack[:len(stack)-1]
			return true
		}
		cur := stack[len(stack)-1]
		descend, node := w.walk(x, cur)
		if descend {
			if node != nil {
				stack = append(stack, node)
			} else {
				stack = append(stack, cur)
			}
		}
		return descend
	})
}

func (w *typeWalker) visit(x ast.Expr, cur *Tree) (bool, *Tree) {
	t := &Tree{Pos: w.off(x.Pos()), Node: x}
	switch e := x.(type) {
	case *ast.ParenExpr:
		switch e.X.(type) {
		case *ast.StructType, *ast.InterfaceType:
			t.Warn = true
		default:
			t.Checked = true
		}
	case *ast.StructType, *ast.InterfaceType:
	default:
		t.Checked = true
	}
	if t.Checked {
		t.Skip = true
		t.Warn = !astequal.Expr(x, RemoveRedundantParens(astcopy.Expr(x)))
	}
	cur.Kids = append(cur.Kids, t)
	return !t.Skip, t
}

func (w *typeWalker) walk(x ast.Node, cur *Tree) (bool, *Tree) {
	switch x := x.(type) {
	case *ast.ChanType:
		return w.visit(x, cur)
	case *ast.ParenExpr:
		if typep.IsTypeExpr(w.info, x.X) {
			return w.visit(x, cur)
		}
		return true, nil
	case *ast.CallExpr:
		return w.inspectInner(x.Fun, cur), nil
	case *ast.SelectorExpr:
		return w.inspectInner(x.X, cur), nil
	case *ast.StarExpr:
		if typep.IsTypeExpr(w.info, x.X) {
			return w.visit(x, cur)
		}
		return true, nil
	case *ast.MapType:
		return w.visit(x, cur)
	case *ast.FuncType:
		return w.visit(x, cur)
	case *ast.StructType:
		return w.visit(x, cur)
	case *ast.InterfaceType:
		ok, node := w.visit(x, cur)
		if !ok {
			return false, nil
		}
		for _, m := range x.Methods.List {
			switch mt := m.Type.(type) {
			case *ast.FuncType:
				w.signature(mt, node)
			default:
				w.walk(mt, node) // embedded interface: one walk call, result ignored
			}
		}
		return false, nil
	case *ast.ArrayType:
		return w.visit(x, cur)
	}
	return true, nil
}

func (w *typeWalker) inspectInner(x ast.Expr, cur *Tree) bool {
	parens, ok := x.(*ast.ParenExpr)
	if ok && typep.IsTypeExpr(w.info, parens.X) {
		switch parens.X.(type) {
		case *ast.StarExpr, *ast.FuncType:
			w.inspect(parens.X, cur)
			return false
		}
	}
	return true
}

func (w *typeWalker) signature(typ *ast.FuncType, cur *Tree) {
	if typ.Params != nil {
		for _, p := range typ.Params.List {
			w.inspect(p.Type, cur)
		}
	}
	if typ.Results != nil {
		for _, p := range typ.Results.List {
			w.inspect(p.Type, cur)
		}
	}
}

// RemoveRedundantParens transliterates typeUnparenChecker.removeRedundantParens (it MUTATES e: call it on a copy).
func RemoveRedundantParens(e ast.Expr) ast.Expr {
	switch e := e.(type) {
	case *ast.ParenExpr:
		return RemoveRedundantParens(e.X)
	case *ast.ArrayType:
		e.Elt = RemoveRedundantParens(e.Elt)
	case *ast.StarExpr:
		e.X = RemoveRedundantParens(e.X)
	case *ast.TypeAssertExpr:
		e.Type = RemoveRedundantParens(e.Type)
	case *ast.FuncType:
		for _, field := range e.Params.List {
			field.Type = RemoveRedundantParens(field.Type)
		}
		if e.Results != nil {
			for _, field := range e.Results.List {
				field.Type = RemoveRedundantParens(field.Type)
			}
		}
	case *ast.MapType:
		e.Key = RemoveRedundantParens(e.Key)
		e.Value = RemoveRedundantParens(e.Value)
	case *ast.ChanType:
		if vp, ok := e.Value.(*ast.ParenExpr); ok {
			if nested, ok := vp.X.(*ast.ChanType); ok {
				const anyDir = ast.SEND | ast.RECV
				if nested.Dir != anyDir || e.Dir != anyDir {
					vp.X = RemoveRedundantParens(vp.X)
					return e
				}
			}
		}
		e.Value = RemoveRedundantParens(e.Value)
	}
	return e
}

func (t *Tree) coq() string {
	var ks []string
	for _, k := range t.Kids {
		ks = append(ks, k.coq())
	}
	b := func(x bool) string {
		if x {
			return "true"
		}
		return "false"
	}
	s := "["
	for i, k := range ks {
		if i > 0 {
			s += "; "
		}
		s += k
	}
	return "(T " + n(t.Pos) + " " + b(t.Warn) + " " + b(t.Skip) + " " + s + "])"
}

// AllTrees lists every tree node of f (pre-order).
func AllTrees(ts []*Tree) []*Tree {
	var out []*Tree
	var rec func(t *Tree)
	rec = func(t *Tree) {
		out = append(out, t)
		for _, k := range t.Kids {
			rec(k)
		}
	}
	for _, t := range ts {
		rec(t)
	}
	return out
}
