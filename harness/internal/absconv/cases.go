package absconv

import (
	"fmt"
	"strings"

	"github.com/go-critic/go-critic/linter"

	"verifharness/internal/coqfmt"
	"verifharness/internal/fw"
)

// Visitor ties a registered checker to its model in Model_History.v.
type Visitor struct {
	Name     string // checker name
	WalkFile string // Coq term : unit -> S -> file -> S * list warning
	Scratch0 string // Coq term : S (state right after construction)
	// Class maps the text of a real warning to the text the model produces (the model does not print
	// expressions: `'case x' is duplicated` -> `case is duplicated`); identity where the model text is exact.
	Class func(string) string
}

func between(pre, suf, class string) func(string) string {
	return func(s string) string {
		if strings.HasPrefix(s, pre) && strings.HasSuffix(s, suf) && len(s) >= len(pre)+len(suf) {
			return class
		}
		return s
	}
}

func ident(s string) string { return s }

// Visitors returns the modelled visitors that are registered, with the parameter values of infos.
func Visitors(infos []*linter.CheckerInfo) []Visitor {
	by := fw.InfoByName(infos)
	var out []Visitor
	add := func(v Visitor) {
		if by[v.Name] != nil {
			out = append(out, v)
		}
	}
	thr := 2
	if i := by["ifElseChain"]; i != nil {
		if p, ok := i.Params["minThreshold"]; ok {
			if v, ok := p.Value.(int); ok {
				thr = v
			}
		}
	}
	add(Visitor{"ifElseChain", fmt.Sprintf("(fun (_ : unit) s f => iec_run %s s f)", coqfmt.N(thr)), "{| iec_cause := 0; iec_visited := [] |}", ident})
	add(Visitor{"typeAssertChain", "tac_run", "{| tac_cause := 0; tac_visited := []; tac_types := [] |}", ident})
	add(Visitor{"dupCase", "dc_run", "(@nil shape)", between("'case ", "' is duplicated", "case is duplicated")})
	mkW := between("suspicious whitespace in ", " key", "suspicious whitespace key")
	mkD := between("suspicious duplicate ", " key", "suspicious duplicate key")
	add(Visitor{"mapKey", "mk_run", "(@nil shape)", func(s string) string { return mkD(mkW(s)) }})
	add(Visitor{"typeSwitchVar", "tsv_run", "0%N", ident})
	add(Visitor{"typeDefFirst", "tdf_run", "(@nil string)", ident})
	add(Visitor{"commentedOutCode", "coc_run", "false", ident})
	return out
}

// ParamsOf reads the parameters the converter's facts depend on.
func ParamsOf(infos []*linter.CheckerInfo) Params {
	p := Params{CommentedOutCodeMinLength: 15}
	if i := fw.InfoByName(infos)["commentedOutCode"]; i != nil {
		if q, ok := i.Params["minLength"]; ok {
			if v, ok := q.Value.(int); ok {
				p.CommentedOutCodeMinLength = v
			}
		}
	}
	return p
}

// Warnings renders real warnings as a Coq list of (offset, class).
func (v Visitor) Warnings(ws []fw.W) string {
	var xs []string
	for _, w := range ws {
		off := w.Off
		if off < 0 {
			off = 999999999 // NoPos / outside the file: representable, and never what the model says
		}
		xs = append(xs, "("+coqfmt.N(off)+", "+coqfmt.Str(v.Class(w.Text))+")")
	}
	return coqfmt.List(xs)
}

// Header is the start of a cases file for visitor v: preamble, run function, initial state.
func (v Visitor) Header() string {
	return Preamble +
		"Definition wf := " + v.WalkFile + ".\n" +
		"Definition run := check wf.\n" +
		"Definition bs0 := (@nil warning, " + v.Scratch0 + ").\n"
}

// Defs renders `Definition <name> : file := ...` for every file, in the given order.
func Defs(files []*fw.File, conv map[*fw.File]*AFile, prefix string) (string, map[*fw.File]string) {
	var b strings.Builder
	names := map[*fw.File]string{}
	for i, f := range files {
		name := fmt.Sprintf("%s%d", prefix, i)
		names[f] = name
		fmt.Fprintf(&b, "Definition %s : file := %s. (* %s *)\n", name, conv[f].Coq(), f.ID())
	}
	return b.String(), names
}
