// Package absconv converts real Go files (go/ast + go/types, as loaded by internal/fw) into the abstract
// input syntax of the visitors modelled in coq/theories/Model_Walk.v / Model_History.v:
//
//	file  = list decl                      (one per top-level declaration, source order)
//	decl  = DFunc pos is_example recv body comments | DType pos names | DOther pos items
//	items = the nodes a walker hands to the modelled visitors, in ast.Inspect (pre-order) order:
//	        SIfChain (every *ast.IfStmt with its else-if chain), SSwitch (switch / select),
//	        STypeSwitch, SLit (string-keyed map literals with >= 2 elements)
//
// Positions are byte offsets inside the file. The FACTS a visitor reads from the node (astequal classes of
// case expressions / map keys / asserted types, "Init is `v, ok := x.(T)` and Cond is ok", "the clause body
// asserts x.(T) on the same object", "this comment text parses as a statement", ...) are computed here, by an
// independent re-implementation on top of go/ast, go/types and the go-toolsmith helper libraries the checkers
// themselves import (astequal, typep, strparse: dependencies, not code under verification). Everything the
// visitors DO with these facts (scratch state, resets, counting, thresholds, order and position of warnings)
// is executed by the Coq model and compared with the real run.
package absconv

import (
	"fmt"
	"go/ast"
	"go/token"
	"go/types"
	"regexp"
	"strings"
	"unicode/utf8"

	"github.com/go-toolsmith/astequal"
	"github.com/go-toolsmith/strparse"
	"github.com/go-toolsmith/typep"
	"golang.org/x/tools/go/ast/astutil"

	"verifharness/internal/coqfmt"
	"verifharness/internal/fw"
)

// Shapes interns ast nodes into astequal classes (N). One table per run, so that the same expression text gets
// the same class in every file (what a scratch set that is NOT cleared would compare).
type Shapes struct {
	buckets map[string][]shapeRep
	next    int
}

type shapeRep struct {
	n  ast.Node
	id int
}

func NewShapes() *Shapes { return &Shapes{buckets: map[string][]shapeRep{}, next: 1} }

// Of returns the class of n (0 is reserved for "no node": the Comm of a `default:` clause).
func (s *Shapes) Of(n ast.Node) int {
	if n == nil || isNilNode(n) {
		return 0
	}
	key := fmt.Sprintf("%T", n)
	if e, ok := n.(ast.Expr); ok {
		key = "E:" + types.ExprString(e)
	}
	for _, r := range s.buckets[key] {
		if astequal.Node(r.n, n) {
			return r.id
		}
	}
	id := s.next
	s.next++
	s.buckets[key] = append(s.buckets[key], shapeRep{n, id})
	return id
}

func isNilNode(n ast.Node) bool {
	switch x := n.(type) {
	case ast.Stmt:
		return x == nil
	case ast.Expr:
		return x == nil
	}
	return false
}

type Link struct {
	ID, Pos int
	Init    bool
	Assert  *[2]int // (class of X, class of Type)
}

type Item struct {
	Kind string // "if", "switch", "tswitch", "lit"
	Pos  int
	// if
	Links []Link
	Else  bool
	// switch / lit
	Keys [][2]int // (pos, class)
	// lit
	WS *int
	// tswitch
	Guarded bool
	Hits    []bool
}

type Comment struct {
	Pos          int
	Code, Output bool
}

type Decl struct {
	Kind      string // "func", "type", "other"
	Pos       int
	End       int
	Line      int
	IsExample bool
	Recv      *string
	HasBody   bool
	Items     []Item
	Comments  []Comment
	Names     []string
}

// AFile is the abstract form of one file.
type AFile struct {
	Decls       []Decl
	Unsupported map[string]string // visitor -> why this file is outside what the abstract syntax represents
}

// Params are the checker parameters the facts depend on.
type Params struct {
	CommentedOutCodeMinLength int
}

type Conv struct {
	Shapes *Shapes
	P      Params
}

var notQuiteFuncCall = regexp.MustCompile(`\w+\s+\([^)]*\)\s*$`)

func (c *Conv) File(f *fw.File) *AFile {
	out := &AFile{Unsupported: map[string]string{}}
	info := f.Pkg.Info
	off := func(p token.Pos) int {
		if !p.IsValid() {
			return 0
		}
		return int(p) - f.Base
	}
	for _, d := range f.AST.Decls {
		switch d := d.(type) {
		case *ast.FuncDecl:
			ad := Decl{Kind: "func", Pos: off(d.Pos()), End: off(d.End()), HasBody: d.Body != nil}
			ad.IsExample = d.Type.Params != nil && len(d.Type.Params.List) == 0 && strings.HasPrefix(d.Name.String(), "Example")
			if d.Recv != nil && len(d.Recv.List) > 0 {
				name, ok := receiverType(d.Recv.List[0].Type)
				if !ok {
					out.Unsupported["typeDefFirst"] = "receiver type expression outside receiverType's cases (the real checker panics: C01's subject)"
				}
				ad.Recv = &name
			} else if d.Recv != nil {
				out.Unsupported["typeDefFirst"] = "empty receiver list"
			}
			if d.Body != nil {
				ad.Items = c.items(d, info, off, true)
				ad.Comments = c.comments(f, d, off)
			}
			out.Decls = append(out.Decls, ad)
		case *ast.GenDecl:
			if d.Tok == token.TYPE {
				ad := Decl{Kind: "type", Pos: off(d.Pos()), End: off(d.End())}
				for _, sp := range d.Specs {
					ts, ok := sp.(*ast.TypeSpec)
					if !ok {
						break
					}
					ad.Names = append(ad.Names, ts.Name.Name)
				}
				if its := c.items(d, info, off, false); len(its) > 0 {
					out.Unsupported["mapKey"] = "map literal inside a type declaration (DType carries no items)"
				}
				out.Decls = append(out.Decls, ad)
			} else {
				out.Decls = append(out.Decls, Decl{Kind: "other", Pos: off(d.Pos()), End: off(d.End()), Items: c.items(d, info, off, false)})
			}
		default:
			out.Decls = append(out.Decls, Decl{Kind: "other", Pos: off(d.Pos()), End: off(d.End())})
		}
	}
	for i := range out.Decls {
		out.Decls[i].Line = f.Pkg.Fset.Position(token.Pos(out.Decls[i].Pos + f.Base)).Line
	}
	return out
}

func receiverType(e ast.Expr) (string, bool) {
	switch e := e.(type) {
	case *ast.StarExpr:
		return receiverType(e.X)
	case *ast.ParenExpr:
		return receiverType(e.X)
	case *ast.Ident:
		return e.Name, true
	case *ast.IndexExpr:
		return receiverType(e.X)
	case *ast.IndexListExpr:
		return receiverType(e.X)
	}
	return "", false
}

// items lists the nodes of root that the modelled visitors look at, in ast.Inspect order.
// stmts: also statement-level items (only function bodies are walked by the stmtWalker).
func (c *Conv) items(root ast.Node, info *types.Info, off func(token.Pos) int, stmts bool) []Item {
	ifID := map[*ast.IfStmt]int{}
	ast.Inspect(root, func(n ast.Node) bool {
		if s, ok := n.(*ast.IfStmt); ok {
			ifID[s] = len(ifID)
		}
		return true
	})
	var out []Item
	body := ast.Node(nil)
	if fd, ok := root.(*ast.FuncDecl); ok {
		body = fd.Body
	}
	inBody := func(n ast.Node) bool {
		return body != nil && n.Pos() >= body.Pos() && n.End() <= body.End()
	}
	ast.Inspect(root, func(n ast.Node) bool {
		switch n := n.(type) {
		case *ast.IfStmt:
			if !stmts || !inBody(n) {
				return true
			}
			it := Item{Kind: "if", Pos: off(n.Pos())}
			cur := n
			for {
				l := Link{ID: ifID[cur], Pos: off(cur.Pos()), Init: cur.Init != nil}
				if x, ty, ok := typeAssertOf(cur); ok {
					l.Assert = &[2]int{c.Shapes.Of(x), c.Shapes.Of(ty)}
				}
				it.Links = append(it.Links, l)
				next, ok := cur.Else.(*ast.IfStmt)
				if !ok {
					_, it.Else = cur.Else.(*ast.BlockStmt)
					break
				}
				cur = next
			}
			out = append(out, it)
		case *ast.SwitchStmt:
			if !stmts || !inBody(n) {
				return true
			}
			it := Item{Kind: "switch", Pos: off(n.Pos())}
			for _, cl := range n.Body.List {
				for _, x := range cl.(*ast.CaseClause).List {
					it.Keys = append(it.Keys, [2]int{off(x.Pos()), c.Shapes.Of(x)})
				}
			}
			out = append(out, it)
		case *ast.SelectStmt:
			if !stmts || !inBody(n) {
				return true
			}
			it := Item{Kind: "switch", Pos: off(n.Pos())}
			for _, cl := range n.Body.List {
				comm := cl.(*ast.CommClause).Comm
				if comm == nil {
					// `default:` — astSet.Insert(nil); never reported (a second default does not compile); the clause's
					// own offset stands in for the position so that the entry moves with its declaration
					it.Keys = append(it.Keys, [2]int{off(cl.Pos()), 0})
				} else {
					it.Keys = append(it.Keys, [2]int{off(comm.Pos()), c.Shapes.Of(comm)})
				}
			}
			out = append(out, it)
		case *ast.TypeSwitchStmt:
			if !stmts || !inBody(n) {
				return true
			}
			out = append(out, typeSwitchItem(n, info, off))
		case *ast.CompositeLit:
			if it, ok := c.mapLit(n, info, off); ok {
				out = append(out, it)
			}
		}
		return true
	})
	return out
}

// typeAssertOf mirrors typeAssertChainChecker.getTypeAssert.
func typeAssertOf(s *ast.IfStmt) (x, ty ast.Expr, ok bool) {
	assign, isAssign := s.Init.(*ast.AssignStmt)
	if !isAssign || len(assign.Lhs) != 2 || len(assign.Rhs) != 1 {
		return nil, nil, false
	}
	if _, isIdent := assign.Lhs[0].(*ast.Ident); !isIdent || assign.Tok != token.DEFINE {
		return nil, nil, false
	}
	if !astequal.Expr(assign.Lhs[1], s.Cond) {
		return nil, nil, false
	}
	ta, isTA := assign.Rhs[0].(*ast.TypeAssertExpr)
	if !isTA {
		return nil, nil, false
	}
	return ta.X, ta.Type, true
}

func identOf(x ast.Node) *ast.Ident {
	switch x := x.(type) {
	case *ast.Ident:
		return x
	case *ast.SelectorExpr:
		return identOf(x.Sel)
	case *ast.TypeAssertExpr:
		return identOf(x.X)
	case *ast.IndexExpr:
		return identOf(x.X)
	case *ast.StarExpr:
		return identOf(x.X)
	case *ast.SliceExpr:
		return identOf(x.X)
	}
	return nil
}

func objectOf(info *types.Info, id *ast.Ident) types.Object {
	if id == nil {
		return nil
	}
	return info.ObjectOf(id)
}

func typeSwitchItem(root *ast.TypeSwitchStmt, info *types.Info, off func(token.Pos) int) Item {
	it := Item{Kind: "tswitch", Pos: off(root.Pos())}
	if _, ok := root.Assign.(*ast.AssignStmt); ok {
		it.Guarded = true
		return it
	}
	es, ok := root.Assign.(*ast.ExprStmt)
	if !ok {
		it.Guarded = true
		return it
	}
	ta, ok := es.X.(*ast.TypeAssertExpr)
	if !ok {
		it.Guarded = true
		return it
	}
	expr := ta.X
	object := objectOf(info, identOf(expr))
	if object == nil {
		it.Guarded = true
		return it
	}
	for _, cl := range root.Body.List {
		clause := cl.(*ast.CaseClause)
		hit := false
		if len(clause.List) == 1 {
			want := &ast.TypeAssertExpr{X: expr, Type: clause.List[0]}
			for _, st := range clause.Body {
				// lintutil.FindNode: astutil.Apply with a post-order callback that stops at the first match
				var found ast.Node
				astutil.Apply(st, nil, func(cur *astutil.Cursor) bool {
					if astequal.Node(want, cur.Node()) {
						found = cur.Node()
						return false
					}
					return true
				})
				if found != nil && object == objectOf(info, identOf(found)) {
					hit = true
					break
				}
			}
		}
		it.Hits = append(it.Hits, hit)
	}
	return it
}

func hasStringKind(t types.Type) bool {
	b, ok := t.(*types.Basic)
	return ok && b.Info()&types.IsString != 0
}

func (c *Conv) mapLit(lit *ast.CompositeLit, info *types.Info, off func(token.Pos) int) (Item, bool) {
	if len(lit.Elts) < 2 {
		return Item{}, false
	}
	t := info.TypeOf(lit)
	if t == nil {
		return Item{}, false
	}
	mt, ok := t.Underlying().(*types.Map)
	if !ok || !hasStringKind(mt.Key().Underlying()) {
		return Item{}, false
	}
	it := Item{Kind: "lit", Pos: off(lit.Pos())}
	// checkWhitespace
	var wsKey ast.Node
	give := false
	for _, elt := range lit.Elts {
		kv, _ := elt.(*ast.KeyValueExpr)
		if kv == nil {
			continue
		}
		key, _ := kv.Key.(*ast.BasicLit)
		if key == nil || len(key.Value) < 3 {
			continue
		}
		s := key.Value[1 : len(key.Value)-1]
		if !strings.Contains(s, " ") {
			continue
		}
		if wsKey != nil || s == " " {
			give = true
			break
		}
		bad := strings.HasPrefix(s, " ") && !strings.HasPrefix(s, "  ") || strings.HasSuffix(s, " ") && !strings.HasSuffix(s, "  ")
		if !bad {
			give = true
			break
		}
		wsKey = key
	}
	if !give && wsKey != nil {
		p := off(wsKey.Pos())
		it.WS = &p
	}
	// checkDuplicates
	for _, elt := range lit.Elts {
		kv, _ := elt.(*ast.KeyValueExpr)
		if kv == nil || kv.Key == nil {
			continue
		}
		if _, isLit := kv.Key.(*ast.BasicLit); isLit {
			continue
		}
		if !typep.SideEffectFree(info, kv.Key) {
			continue
		}
		it.Keys = append(it.Keys, [2]int{off(kv.Key.Pos()), c.Shapes.Of(kv.Key)})
	}
	return it, true
}

// comments mirrors astwalk.localCommentWalker + visitCommentGroups for one function, and evaluates the
// text heuristics of commentedOutCodeChecker.VisitLocalComment that do not depend on the enclosing function.
func (c *Conv) comments(f *fw.File, d *ast.FuncDecl, off func(token.Pos) int) []Comment {
	var out []Comment
	visit := func(list []*ast.Comment) {
		if len(list) == 0 {
			return
		}
		cg := &ast.CommentGroup{List: append([]*ast.Comment(nil), list...)}
		s := cg.Text()
		out = append(out, Comment{Pos: off(cg.Pos()), Code: c.looksLikeCode(s, len(cg.List)), Output: strings.Contains(s, "Output:")})
	}
	for _, cg := range f.AST.Comments {
		if cg.Pos() < d.Pos() || cg.Pos() > d.End() {
			continue
		}
		var group []*ast.Comment
		for _, cm := range cg.List {
			if strings.HasPrefix(cm.Text, "/*") {
				visit(group)
				group = group[:0]
				visit([]*ast.Comment{cm})
			} else {
				group = append(group, cm)
			}
		}
		visit(group)
	}
	return out
}

func (c *Conv) looksLikeCode(s string, nComments int) bool {
	for _, m := range []string{"TODO", "http://", "https://", "e.g. "} {
		if strings.Contains(s, m) {
			return false
		}
	}
	if utf8.RuneCountInString(s) < c.P.CommentedOutCodeMinLength && !strings.Contains(s, "print") && !strings.Contains(s, "fmt.") && !strings.Contains(s, "log.") {
		return false
	}
	if notQuiteFuncCall.MatchString(s) {
		return false
	}
	stmt := strparse.Stmt(s)
	if permittedStmt(stmt) {
		return false
	}
	if stmt != strparse.BadStmt {
		return true
	}
	if nComments == 1 && !strings.Contains(s, "\n") {
		return false
	}
	blk, ok := strparse.Stmt(fmt.Sprintf("{ %s }", s)).(*ast.BlockStmt)
	return ok && len(blk.List) != 0
}

func permittedStmt(stmt ast.Stmt) bool {
	switch stmt := stmt.(type) {
	case *ast.ExprStmt:
		switch x := stmt.X.(type) {
		case *ast.CallExpr:
			return false
		case *ast.UnaryExpr:
			return x.Op != token.ARROW
		default:
			return true
		}
	case *ast.LabeledStmt:
		return permittedStmt(stmt.Stmt)
	case *ast.DeclStmt:
		gd, ok := stmt.Decl.(*ast.GenDecl)
		return ok && gd.Tok == token.TYPE
	}
	return false
}

// ---- rendering as Coq terms (constructors L / Cm are defined by Preamble) ----

const Preamble = `From GC Require Import Base Model_Walk Model_History.
Definition L (i p : N) (b : bool) (a : option (shape * shape)) : link := {| l_id := i; l_pos := p; l_init := b; l_assert := a |}.
Definition Cm (p : N) (c o : bool) : comment := {| c_pos := p; c_code := c; c_output := o |}.
Definition w_eqb (a b : warning) : bool := N.eqb (fst a) (fst b) && String.eqb (snd a) (snd b).
`

func n(i int) string { return coqfmt.N(i) }

func pairs(ks [][2]int) string {
	var xs []string
	for _, k := range ks {
		xs = append(xs, "("+n(k[0])+", "+n(k[1])+")")
	}
	return coqfmt.List(xs)
}

func (it Item) Coq() string {
	switch it.Kind {
	case "if":
		var ls []string
		for _, l := range it.Links {
			a := "None"
			if l.Assert != nil {
				a = "(Some (" + n(l.Assert[0]) + ", " + n(l.Assert[1]) + "))"
			}
			ls = append(ls, "L "+n(l.ID)+" "+n(l.Pos)+" "+coqfmt.Bool(l.Init)+" "+a)
		}
		return "SIfChain " + coqfmt.List(ls) + " " + coqfmt.Bool(it.Else)
	case "switch":
		return "SSwitch " + n(it.Pos) + " " + pairs(it.Keys)
	case "tswitch":
		var hs []string
		for _, h := range it.Hits {
			hs = append(hs, coqfmt.Bool(h))
		}
		return "STypeSwitch " + n(it.Pos) + " " + coqfmt.Bool(it.Guarded) + " " + coqfmt.List(hs)
	case "lit":
		ws := "None"
		if it.WS != nil {
			ws = "(Some " + n(*it.WS) + ")"
		}
		return "SLit " + n(it.Pos) + " " + ws + " " + pairs(it.Keys)
	}
	panic("absconv: unknown item kind " + it.Kind)
}

func itemsCoq(its []Item) string {
	var xs []string
	for _, it := range its {
		xs = append(xs, it.Coq())
	}
	return coqfmt.List(xs)
}

func (d Decl) Coq() string {
	switch d.Kind {
	case "func":
		recv := "None"
		if d.Recv != nil {
			recv = "(Some " + coqfmt.Str(*d.Recv) + ")"
		}
		body := "None"
		if d.HasBody {
			body = "(Some " + itemsCoq(d.Items) + ")"
		}
		var cs []string
		for _, c := range d.Comments {
			cs = append(cs, "Cm "+n(c.Pos)+" "+coqfmt.Bool(c.Code)+" "+coqfmt.Bool(c.Output))
		}
		return "DFunc " + n(d.Pos) + " " + coqfmt.Bool(d.IsExample) + " " + recv + " " + body + " " + coqfmt.List(cs)
	case "type":
		return "DType " + n(d.Pos) + " " + coqfmt.StrList(d.Names)
	default:
		return "DOther " + n(d.Pos) + " " + itemsCoq(d.Items)
	}
}

func (a *AFile) Coq() string {
	var xs []string
	for _, d := range a.Decls {
		xs = append(xs, d.Coq())
	}
	return coqfmt.List(xs)
}

// Interesting counts the items a visitor acts on (for the "distinct non-trivial" measure).
func (a *AFile) Interesting() int {
	k := 0
	for _, d := range a.Decls {
		k += len(d.Items) + len(d.Comments)
		if d.Kind == "type" {
			k++
		}
	}
	return k
}
