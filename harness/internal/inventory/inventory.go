// Package inventory holds the translators of the framework-law properties: they regenerate, from the
// CURRENT source of the repository (go/ast + go/types), the tables over which the Coq obligations
// C03_state_inventory_covered, C02_map_sites_covered and C05_mutation_sites_covered are re-proved.
package inventory

import (
	"bytes"
	"fmt"
	"go/ast"
	"go/printer"
	"go/token"
	"go/types"
	"path/filepath"
	"sort"
	"strings"
	"sync"

	"golang.org/x/tools/go/packages"

	"verifharness/internal/common"
	"verifharness/internal/coqfmt"
)

var (
	loadOnce sync.Once
	loaded   []*packages.Package
	loadErr  error
	fset     = token.NewFileSet()
)

var patterns = []string{"./linter", "./checkers", "./checkers/internal/astwalk", "./checkers/internal/lintutil", "./checkers/analyzer",
	"./cmd/go-critic", "./cmd/gocritic", "./cmd/go-critic-analysis", "./cmd/gocritic-analysis", "./cmd/makedocs"}

func load() ([]*packages.Package, error) {
	loadOnce.Do(func() {
		cfg := &packages.Config{
			Mode: packages.NeedName | packages.NeedFiles | packages.NeedCompiledGoFiles | packages.NeedImports | packages.NeedTypes | packages.NeedSyntax | packages.NeedTypesInfo,
			Fset: fset, Dir: common.RepoDir, Env: common.GoEnv(),
		}
		pkgs, err := packages.Load(cfg, patterns...)
		if err != nil {
			loadErr = err
			return
		}
		sort.Slice(pkgs, func(i, j int) bool { return pkgs[i].PkgPath < pkgs[j].PkgPath })
		for _, p := range pkgs {
			if len(p.Errors) > 0 {
				loadErr = fmt.Errorf("package %s does not type-check: %v", p.PkgPath, p.Errors[0])
				return
			}
		}
		loaded = pkgs
	})
	return loaded, loadErr
}

func shortPkg(path string) string {
	return strings.TrimPrefix(path, "github.com/go-critic/go-critic/")
}

func render(n ast.Node) string {
	var b bytes.Buffer
	printer.Fprint(&b, fset, n)
	s := strings.Join(strings.Fields(b.String()), " ")
	if len(s) > 80 {
		s = s[:80]
	}
	return s
}

// funcName gives "Recv.Method" or "Func" for the declaration enclosing a node; closures belong to their declaration.
func funcName(fd *ast.FuncDecl) string {
	if fd.Recv != nil && len(fd.Recv.List) > 0 {
		t := fd.Recv.List[0].Type
		if s, ok := t.(*ast.StarExpr); ok {
			t = s.X
		}
		if ix, ok := t.(*ast.IndexExpr); ok {
			t = ix.X
		}
		if id, ok := t.(*ast.Ident); ok {
			return id.Name + "." + fd.Name.Name
		}
	}
	return fd.Name.Name
}

func deref(t types.Type) types.Type {
	if p, ok := t.Underlying().(*types.Pointer); ok {
		return p.Elem()
	}
	return t
}

func namedOf(t types.Type) *types.Named {
	if t == nil {
		return nil
	}
	n, _ := deref(t).(*types.Named)
	if n == nil {
		if a, ok := deref(t).(*types.Alias); ok {
			n, _ = types.Unalias(a).(*types.Named)
		}
	}
	return n
}

// ---------------------------------------------------------------- state inventory (C03)

type writeSite struct {
	method, kind string
}

// trackedStruct decides which struct types are inventoried.
func trackedStruct(pkg *packages.Package, name string, st *types.Struct) bool {
	switch shortPkg(pkg.PkgPath) {
	case "checkers":
		return strings.HasSuffix(name, "Checker")
	case "checkers/internal/astwalk":
		return true
	case "linter":
		return name == "Checker" || name == "CheckerContext" || name == "Context"
	case "checkers/internal/lintutil":
		return true
	}
	return false
}

// rootField: for an expression like recv.f, recv.f[i], recv.f.g, *recv.f returns (struct named type, field name) of the
// outermost selection on a tracked struct.
func rootField(info *types.Info, e ast.Expr, tracked map[*types.Named]bool) (*types.Named, string, bool) {
	for {
		switch x := e.(type) {
		case *ast.ParenExpr:
			e = x.X
		case *ast.IndexExpr:
			e = x.X
		case *ast.StarExpr:
			e = x.X
		case *ast.SliceExpr:
			e = x.X
		case *ast.SelectorExpr:
			if sel, ok := info.Selections[x]; ok && sel.Kind() == types.FieldVal {
				// resolve the struct that declares the field (handles embedding: c.SkipChilds -> WalkHandler.SkipChilds)
				recv := sel.Recv()
				path := sel.Index()
				t := recv
				for i, idx := range path {
					st, ok := deref(t).Underlying().(*types.Struct)
					if !ok {
						break
					}
					if i == len(path)-1 {
						if n := namedOf(t); n != nil && tracked[n] {
							return n, st.Field(idx).Name(), true
						}
					}
					t = st.Field(idx).Type()
				}
				e = x.X
				continue
			}
			return nil, "", false
		default:
			return nil, "", false
		}
	}
}

// readOnlyHandle: pointer fields through which only read-only (or separately inventoried) APIs are reachable.
func readOnlyHandle(recv types.Type) bool {
	n := namedOf(recv)
	if n == nil || n.Obj().Pkg() == nil {
		return false
	}
	switch n.Obj().Pkg().Path() {
	case "regexp", "go/types", "go/token":
		return true
	case "github.com/go-critic/go-critic/linter":
		return n.Obj().Name() == "CheckerContext" || n.Obj().Name() == "Context" // their own fields are inventoried under linter.*
	}
	return false
}

func GenStateInventory(outDir string) error {
	pkgs, err := load()
	if err != nil {
		return err
	}
	type structInv struct {
		pkg, name string
		named     *types.Named
		fields    []*types.Var
		writes    map[string]map[writeSite]int
	}
	var structs []*structInv
	tracked := map[*types.Named]bool{}
	byNamed := map[*types.Named]*structInv{}
	for _, p := range pkgs {
		scope := p.Types.Scope()
		for _, name := range scope.Names() {
			tn, ok := scope.Lookup(name).(*types.TypeName)
			if !ok {
				continue
			}
			named, ok := tn.Type().(*types.Named)
			if !ok {
				continue
			}
			st, ok := named.Underlying().(*types.Struct)
			if !ok || !trackedStruct(p, name, st) {
				continue
			}
			si := &structInv{pkg: shortPkg(p.PkgPath), name: name, named: named, writes: map[string]map[writeSite]int{}}
			for i := 0; i < st.NumFields(); i++ {
				si.fields = append(si.fields, st.Field(i))
			}
			structs = append(structs, si)
			tracked[named] = true
			byNamed[named] = si
		}
	}
	record := func(n *types.Named, field, method, kind string) {
		// constructor code (package init closures passed to AddChecker, new* helpers, linter.addChecker) runs before the
		// first Check: flagged, and ignored by the obligations ("outside the constructor")
		base := method
		if i := strings.LastIndex(base, "."); i >= 0 {
			base = base[i+1:]
		}
		if base == "init" || strings.HasPrefix(base, "new") || base == "addChecker" {
			kind = "ctor:" + kind
		}
		si := byNamed[n]
		if si.writes[field] == nil {
			si.writes[field] = map[writeSite]int{}
		}
		si.writes[field][writeSite{method, kind}]++
	}
	for _, p := range pkgs {
		sp := shortPkg(p.PkgPath)
		if !(sp == "checkers" || strings.HasPrefix(sp, "checkers/internal") || sp == "linter") {
			continue
		}
		for _, f := range p.Syntax {
			if strings.HasSuffix(fset.Position(f.Pos()).Filename, "_test.go") {
				continue
			}
			for _, d := range f.Decls {
				fd, ok := d.(*ast.FuncDecl)
				if !ok || fd.Body == nil {
					continue
				}
				fn := funcName(fd)
				ast.Inspect(fd.Body, func(n ast.Node) bool {
					switch x := n.(type) {
					case *ast.AssignStmt:
						for i, lhs := range x.Lhs {
							nt, field, ok := rootField(p.TypesInfo, lhs, tracked)
							if !ok {
								continue
							}
							kind := "assign"
							if x.Tok != token.ASSIGN && x.Tok != token.DEFINE {
								kind = "op-assign"
							}
							if _, isIdx := lhs.(*ast.IndexExpr); isIdx {
								kind = "elem-write"
							}
							if sel, isSel := lhs.(*ast.SelectorExpr); isSel {
								if _, f2, _ := rootField(p.TypesInfo, sel, tracked); f2 == field && sel.Sel.Name != field {
									kind = "subfield-write"
								}
							}
							if len(x.Rhs) == len(x.Lhs) {
								if call, ok := x.Rhs[i].(*ast.CallExpr); ok {
									if id, ok := call.Fun.(*ast.Ident); ok {
										switch id.Name {
										case "append":
											kind = "append"
										case "make":
											kind = "reset-make"
										}
									}
								}
								if sl, ok := x.Rhs[i].(*ast.SliceExpr); ok && sl.Low == nil {
									if bl, ok := sl.High.(*ast.BasicLit); ok && bl.Value == "0" {
										kind = "reset-truncate"
									}
								}
							}
							record(nt, field, fn, kind)
						}
					case *ast.IncDecStmt:
						if nt, field, ok := rootField(p.TypesInfo, x.X, tracked); ok {
							record(nt, field, fn, "incdec")
						}
					case *ast.UnaryExpr:
						if x.Op == token.AND {
							if nt, field, ok := rootField(p.TypesInfo, x.X, tracked); ok {
								if _, isLit := x.X.(*ast.CompositeLit); !isLit {
									record(nt, field, fn, "address-taken")
								}
							}
						}
					case *ast.CallExpr:
						// builtin delete/clear on a field; pointer-receiver method call on a field
						if id, ok := x.Fun.(*ast.Ident); ok && (id.Name == "delete" || id.Name == "clear") && len(x.Args) > 0 {
							if nt, field, ok := rootField(p.TypesInfo, x.Args[0], tracked); ok {
								record(nt, field, fn, "map-"+id.Name)
							}
						}
						if sel, ok := x.Fun.(*ast.SelectorExpr); ok {
							if s, ok := p.TypesInfo.Selections[sel]; ok && s.Kind() == types.MethodVal {
								if sig, ok := s.Obj().Type().(*types.Signature); ok && sig.Recv() != nil {
									if _, ptr := sig.Recv().Type().(*types.Pointer); ptr {
										// receiver expression must itself be a field of a tracked struct (c.astSet.Clear())
										if inner, ok := sel.X.(*ast.SelectorExpr); ok {
											if nt, field, ok := rootField(p.TypesInfo, inner, tracked); ok {
												// calling a pointer method through a pointer-typed field does not write the field itself,
												// but it may write what it points to: both are recorded, the kind says which
												k := "ptr-method:" + s.Obj().Name()
												if _, isPtr := p.TypesInfo.TypeOf(inner).Underlying().(*types.Pointer); isPtr {
													k = "via-pointer:" + s.Obj().Name()
													// handles whose pointee is inventoried itself (ctx) or whose API is read-only are not scratch state
													if readOnlyHandle(s.Recv()) {
														return true
													}
												}
												record(nt, field, fn, k)
											}
										}
									}
								}
							}
						}
					}
					return true
				})
			}
		}
	}
	// ---- package-level variables: state shared by ALL checker instances and all goroutines ----
	pv := PackageVarWrites(pkgs)
	sort.Slice(structs, func(i, j int) bool {
		if structs[i].pkg != structs[j].pkg {
			return structs[i].pkg < structs[j].pkg
		}
		return structs[i].name < structs[j].name
	})
	var b strings.Builder
	b.WriteString("(* GENERATED by vh gen stateinv from the current source of linter/, checkers/, checkers/internal/{astwalk,lintutil} — do not edit.\n")
	b.WriteString("   For every inventoried struct: its fields and, per field, every write site outside composite literals\n")
	b.WriteString("   (method, kind, count). kinds: assign, op-assign, append, reset-make, reset-truncate, elem-write, subfield-write,\n")
	b.WriteString("   incdec, address-taken, map-delete, map-clear, ptr-method:<M> (pointer-receiver method on a value field),\n")
	b.WriteString("   via-pointer:<M> (pointer-receiver method through a pointer field; omitted for *linter.CheckerContext/*linter.Context,\n")
	b.WriteString("   whose fields are inventoried themselves, and for the read-only APIs of regexp, go/types, go/token).\n")
	b.WriteString("   Kinds prefixed ctor: sit in constructor code (package init closures, new* helpers, linter.addChecker). *)\n")
	b.WriteString("From GC Require Import Base Model_Inventory.\n")
	b.WriteString("Definition state_inventory : list struct_inv := [\n")
	var items []string
	for _, si := range structs {
		var fs []string
		for _, f := range si.fields {
			var ws []string
			var sites []writeSite
			for s := range si.writes[f.Name()] {
				sites = append(sites, s)
			}
			sort.Slice(sites, func(i, j int) bool {
				if sites[i].method != sites[j].method {
					return sites[i].method < sites[j].method
				}
				return sites[i].kind < sites[j].kind
			})
			for _, s := range sites {
				ws = append(ws, fmt.Sprintf("W %s %s %s", coqfmt.Str(s.method), coqfmt.Str(s.kind), coqfmt.N(si.writes[f.Name()][s])))
			}
			ts := types.TypeString(f.Type(), func(p *types.Package) string { return p.Name() })
			fs = append(fs, fmt.Sprintf("F %s %s %s", coqfmt.Str(f.Name()), coqfmt.Str(ts), coqfmt.List(ws)))
		}
		items = append(items, fmt.Sprintf("  S %s %s [\n      %s]", coqfmt.Str(si.pkg), coqfmt.Str(si.name), strings.Join(fs, ";\n      ")))
	}
	// one pseudo-struct per package: its package-level variables that are written anywhere in function bodies
	{
		byPkg := map[string][]*PkgVar{}
		var pkgNames []string
		for _, v := range pv {
			if byPkg[v.Pkg] == nil {
				pkgNames = append(pkgNames, v.Pkg)
			}
			byPkg[v.Pkg] = append(byPkg[v.Pkg], v)
		}
		sort.Strings(pkgNames)
		for _, pn := range pkgNames {
			var fs []string
			for _, v := range byPkg[pn] {
				var ws []string
				for _, w := range v.Sites {
					ws = append(ws, fmt.Sprintf("W %s %s %s", coqfmt.Str(w.Method), coqfmt.Str(w.Kind), coqfmt.N(w.N)))
				}
				fs = append(fs, fmt.Sprintf("F %s %s %s", coqfmt.Str(v.Name), coqfmt.Str(v.Type), coqfmt.List(ws)))
			}
			items = append(items, fmt.Sprintf("  S %s %s [\n      %s]", coqfmt.Str(pn), coqfmt.Str("package-level variables"), strings.Join(fs, ";\n      ")))
		}
	}
	b.WriteString(strings.Join(items, ";\n"))
	b.WriteString("\n].\n")
	common.WriteFile(filepath.Join(outDir, "StateInventory.v"), b.String())
	return nil
}

// ---------------------------------------------------------------- map range sites (C02)

func GenMapRangeSites(outDir string) error {
	pkgs, err := load()
	if err != nil {
		return err
	}
	type site struct {
		pkg, file, fn, expr                 string
		emits, appends, exits, writesOutput bool
		n                                   int
	}
	var sites []*site
	index := map[string]*site{}
	for _, p := range pkgs {
		for _, f := range p.Syntax {
			fname := filepath.Base(fset.Position(f.Pos()).Filename)
			if strings.HasSuffix(fname, "_test.go") {
				continue
			}
			for _, d := range f.Decls {
				fd, ok := d.(*ast.FuncDecl)
				if !ok || fd.Body == nil {
					continue
				}
				fn := funcName(fd)
				ast.Inspect(fd.Body, func(n ast.Node) bool {
					rs, ok := n.(*ast.RangeStmt)
					if !ok {
						return true
					}
					t := p.TypesInfo.TypeOf(rs.X)
					if t == nil {
						return true
					}
					if _, isMap := t.Underlying().(*types.Map); !isMap {
						return true
					}
					s := &site{pkg: shortPkg(p.PkgPath), file: fname, fn: fn, expr: render(rs.X)}
					ast.Inspect(rs.Body, func(m ast.Node) bool {
						switch y := m.(type) {
						case *ast.CallExpr:
							name := ""
							switch fun := y.Fun.(type) {
							case *ast.Ident:
								name = fun.Name
							case *ast.SelectorExpr:
								name = fun.Sel.Name
							}
							ln := strings.ToLower(name)
							switch {
							case strings.HasPrefix(ln, "warn"), strings.HasPrefix(ln, "print"), strings.HasPrefix(ln, "fprint"), strings.HasPrefix(ln, "fatal"),
								strings.HasPrefix(ln, "report"), strings.HasPrefix(ln, "errorf"), strings.HasPrefix(ln, "panic"):
								s.emits = true
							case name == "append":
								s.appends = true
							case strings.HasPrefix(ln, "write"):
								s.writesOutput = true
							}
						case *ast.AssignStmt:
							if y.Tok == token.ADD_ASSIGN {
								if bt, ok := p.TypesInfo.TypeOf(y.Lhs[0]).Underlying().(*types.Basic); ok && bt.Info()&types.IsString != 0 {
									s.appends = true
								}
							}
						case *ast.ReturnStmt:
							s.exits = true
						case *ast.BranchStmt:
							if y.Tok == token.BREAK || y.Tok == token.GOTO {
								s.exits = true
							}
						}
						return true
					})
					key := s.pkg + "\x00" + s.file + "\x00" + s.fn + "\x00" + s.expr
					if old, ok := index[key]; ok {
						old.n++
						old.emits = old.emits || s.emits
						old.appends = old.appends || s.appends
						old.exits = old.exits || s.exits
						old.writesOutput = old.writesOutput || s.writesOutput
					} else {
						s.n = 1
						index[key] = s
						sites = append(sites, s)
					}
					return true
				})
			}
		}
	}
	sort.Slice(sites, func(i, j int) bool {
		a, b := sites[i], sites[j]
		return a.pkg+"\x00"+a.file+"\x00"+a.fn+"\x00"+a.expr < b.pkg+"\x00"+b.file+"\x00"+b.fn+"\x00"+b.expr
	})
	var b strings.Builder
	b.WriteString("(* GENERATED by vh gen maprange from the current source — do not edit.\n")
	b.WriteString("   Every `range` statement whose operand has a map type, in linter/, checkers/ (incl. internal, analyzer) and cmd/.\n")
	b.WriteString("   Flags are a purely syntactic classification of the loop body: emits (calls warn*/print*/report*/fatal*/errorf/panic),\n")
	b.WriteString("   appends (append(...) or string +=), exits (return/break/goto inside the body: first match wins), writes (Write* calls). *)\n")
	b.WriteString("From GC Require Import Base Model_Inventory.\n")
	b.WriteString("Definition map_range_sites : list map_site := [\n")
	var items []string
	for _, s := range sites {
		items = append(items, fmt.Sprintf("  M %s %s %s %s %s %s %s %s %s", coqfmt.Str(s.pkg), coqfmt.Str(s.file), coqfmt.Str(s.fn), coqfmt.Str(s.expr),
			coqfmt.Bool(s.emits), coqfmt.Bool(s.appends), coqfmt.Bool(s.exits), coqfmt.Bool(s.writesOutput), coqfmt.N(s.n)))
	}
	b.WriteString(strings.Join(items, ";\n"))
	b.WriteString("\n].\n")
	common.WriteFile(filepath.Join(outDir, "MapRangeSites.v"), b.String())
	return nil
}

// ---------------------------------------------------------------- AST mutation sites (C05)

func isAstNamed(t types.Type) (string, bool) {
	n := namedOf(t)
	if n == nil || n.Obj().Pkg() == nil || n.Obj().Pkg().Path() != "go/ast" {
		return "", false
	}
	return n.Obj().Name(), true
}

func astSliceElem(t types.Type) (string, bool) {
	if t == nil {
		return "", false
	}
	sl, ok := t.Underlying().(*types.Slice)
	if !ok {
		return "", false
	}
	return isAstNamed(sl.Elem())
}

func GenMutationSites(outDir string) error {
	pkgs, err := load()
	if err != nil {
		return err
	}
	type fnInv struct {
		pkg, file, fn string
		sites         map[string]int
	}
	var fns []*fnInv
	for _, p := range pkgs {
		sp := shortPkg(p.PkgPath)
		if !(sp == "checkers" || strings.HasPrefix(sp, "checkers/internal") || sp == "linter") {
			continue
		}
		for _, f := range p.Syntax {
			fname := filepath.Base(fset.Position(f.Pos()).Filename)
			if strings.HasSuffix(fname, "_test.go") || strings.HasPrefix(sp, "checkers/internal/linttest") {
				continue
			}
			for _, d := range f.Decls {
				fd, ok := d.(*ast.FuncDecl)
				if !ok || fd.Body == nil {
					continue
				}
				fi := &fnInv{pkg: sp, file: fname, fn: funcName(fd), sites: map[string]int{}}
				// localValue: x is an identifier for a variable of a go/ast STRUCT VALUE type (not a pointer) declared in this
				// function (`x := *node`, `var x ast.BinaryExpr`, a by-value parameter). Assigning a top-level field of such a
				// variable writes the function's own cell — a fresh shallow copy — and nothing of the tree it was copied from.
				// Writes that go THROUGH a field of the copy (x.List[0] = .., x.X.(*ast.Ident).Name = ..) are not of this form
				// and stay ordinary sites.
				localValue := func(e ast.Expr) bool {
					id, ok := e.(*ast.Ident)
					if !ok {
						return false
					}
					v, ok := p.TypesInfo.ObjectOf(id).(*types.Var)
					if !ok || v.IsField() || v.Pos() < fd.Pos() || v.Pos() > fd.End() {
						return false
					}
					if _, isPtr := v.Type().(*types.Pointer); isPtr {
						return false
					}
					if _, isStruct := v.Type().Underlying().(*types.Struct); !isStruct {
						return false
					}
					_, isAst := isAstNamed(v.Type())
					return isAst
				}
				lhsSite := func(lhs ast.Expr) {
					switch x := lhs.(type) {
					case *ast.SelectorExpr:
						if sel, ok := p.TypesInfo.Selections[x]; ok && sel.Kind() == types.FieldVal {
							if tn, ok := isAstNamed(sel.Recv()); ok {
								if localValue(x.X) && len(sel.Index()) == 1 {
									fi.sites["local-value-write:"+tn+"."+x.Sel.Name]++
								} else {
									fi.sites["field-write:"+tn+"."+x.Sel.Name]++
								}
							}
						}
					case *ast.IndexExpr:
						if tn, ok := astSliceElem(p.TypesInfo.TypeOf(x.X)); ok {
							fi.sites["slice-elem-write:[]"+tn]++
						}
					case *ast.StarExpr:
						if tn, ok := isAstNamed(p.TypesInfo.TypeOf(x.X)); ok {
							fi.sites["deref-write:"+tn]++
						}
					}
				}
				ast.Inspect(fd.Body, func(n ast.Node) bool {
					switch x := n.(type) {
					case *ast.AssignStmt:
						if x.Tok == token.DEFINE {
							// x := *node — a shallow copy of a node into a local value
							for _, rhs := range x.Rhs {
								if st, ok := rhs.(*ast.StarExpr); ok {
									if pt, ok := p.TypesInfo.TypeOf(st.X).(*types.Pointer); ok {
										if tn, ok := isAstNamed(pt.Elem()); ok {
											fi.sites["shallowcopy:"+tn]++
										}
									}
								}
							}
							return true
						}
						for _, lhs := range x.Lhs {
							lhsSite(lhs)
						}
					case *ast.IncDecStmt:
						lhsSite(x.X)
					case *ast.CallExpr:
						sel, ok := x.Fun.(*ast.SelectorExpr)
						if !ok {
							return true
						}
						// astcopy.X(...)
						if id, ok := sel.X.(*ast.Ident); ok {
							if pn, ok := p.TypesInfo.Uses[id].(*types.PkgName); ok && strings.HasSuffix(pn.Imported().Path(), "go-toolsmith/astcopy") {
								fi.sites["astcopy:"+sel.Sel.Name]++
							}
						}
						// (*astutil.Cursor).Replace/Delete/InsertAfter/InsertBefore
						if s, ok := p.TypesInfo.Selections[sel]; ok && s.Kind() == types.MethodVal {
							if n := namedOf(s.Recv()); n != nil && n.Obj().Name() == "Cursor" && n.Obj().Pkg() != nil && strings.HasSuffix(n.Obj().Pkg().Path(), "ast/astutil") {
								switch sel.Sel.Name {
								case "Replace", "Delete", "InsertAfter", "InsertBefore":
									fi.sites["cursor:"+sel.Sel.Name]++
								}
							}
						}
					}
					return true
				})
				if len(fi.sites) > 0 {
					fns = append(fns, fi)
				}
			}
		}
	}
	sort.Slice(fns, func(i, j int) bool {
		a, b := fns[i], fns[j]
		return a.pkg+"\x00"+a.file+"\x00"+a.fn < b.pkg+"\x00"+b.file+"\x00"+b.fn
	})
	// merge duplicates (same function name declared twice cannot happen; closures are attributed to their declaration)
	var b strings.Builder
	b.WriteString("(* GENERATED by vh gen mutsites from the current source of checkers/, checkers/internal/{astwalk,lintutil}, linter/ — do not edit.\n")
	b.WriteString("   Per function: every assignment to a field of a go/ast node type (field-write:T.F), every element write into a\n")
	b.WriteString("   slice of go/ast nodes (slice-elem-write:[]T), every write through a pointer to a node (deref-write:T), every\n")
	b.WriteString("   astutil.Cursor mutator call (cursor:M) and every astcopy call (astcopy:F), with counts. Benign kinds: a top-level field\n")
	b.WriteString("   assignment to a LOCAL go/ast struct VALUE (local-value-write:T.F) and the shallow copy `x := *node` (shallowcopy:T). *)\n")
	b.WriteString("From GC Require Import Base Model_Inventory.\n")
	b.WriteString("Definition mutation_sites : list mut_fn := [\n")
	var items []string
	for _, fi := range fns {
		var ks []string
		for k := range fi.sites {
			ks = append(ks, k)
		}
		sort.Strings(ks)
		var ss []string
		for _, k := range ks {
			ss = append(ss, fmt.Sprintf("(%s, %s)", coqfmt.Str(k), coqfmt.N(fi.sites[k])))
		}
		items = append(items, fmt.Sprintf("  MF %s %s %s %s", coqfmt.Str(fi.pkg), coqfmt.Str(fi.file), coqfmt.Str(fi.fn), coqfmt.List(ss)))
	}
	b.WriteString(strings.Join(items, ";\n"))
	b.WriteString("\n].\n")
	common.WriteFile(filepath.Join(outDir, "MutationSites.v"), b.String())
	return nil
}

// ---------------------------------------------------------------- package-level variables

// PkgVar is a package-level variable of checkers/, checkers/internal/* or linter/ that is written in a function body.
type PkgVar struct {
	Pkg, Name, Type string
	Sites           []PkgVarSite
	// Checkers are the checker structs (xxxChecker -> xxx) from whose methods a LIVE (non-constructor) write is reachable
	// through calls inside the package.
	Checkers []string
}

type PkgVarSite struct {
	Method, Kind string
	N            int
}

// PackageVarWritesLoaded loads the repository packages and returns PackageVarWrites.
func PackageVarWritesLoaded() ([]*PkgVar, error) {
	pkgs, err := load()
	if err != nil {
		return nil, err
	}
	return PackageVarWrites(pkgs), nil
}

// PackageVarWrites lists the package-level variables that function bodies write: assignment / op-assignment / element or
// sub-field write / ++ / delete / clear rooted at the variable, a pointer-receiver method called on it (buf.Reset()), and
// its address being taken (Fprintf(&buf, ...)). Kinds are prefixed ctor: in init / new* / addChecker as for struct fields.
func PackageVarWrites(pkgs []*packages.Package) []*PkgVar {
	type key struct{ pkg, name string }
	vars := map[key]*PkgVar{}
	counts := map[key]map[PkgVarSite]int{}
	writers := map[key]map[*types.Func]bool{} // functions holding a live write
	var order []key
	for _, p := range pkgs {
		sp := shortPkg(p.PkgPath)
		if !(sp == "checkers" || strings.HasPrefix(sp, "checkers/internal") || sp == "linter") || strings.HasPrefix(sp, "checkers/internal/linttest") {
			continue
		}
		rootVar := func(e ast.Expr) *types.Var {
			for {
				switch x := e.(type) {
				case *ast.ParenExpr:
					e = x.X
				case *ast.SelectorExpr:
					if _, isPkg := p.TypesInfo.Uses[identOf(x.X)].(*types.PkgName); isPkg {
						return nil
					}
					e = x.X
				case *ast.IndexExpr:
					e = x.X
				case *ast.StarExpr:
					e = x.X
				case *ast.Ident:
					v, ok := p.TypesInfo.ObjectOf(x).(*types.Var)
					if !ok || v.Pkg() != p.Types || v.Parent() != p.Types.Scope() {
						return nil
					}
					return v
				default:
					return nil
				}
			}
		}
		calls := map[*types.Func]map[*types.Func]bool{}
		for _, f := range p.Syntax {
			if strings.HasSuffix(fset.Position(f.Pos()).Filename, "_test.go") {
				continue
			}
			for _, d := range f.Decls {
				fd, ok := d.(*ast.FuncDecl)
				if !ok || fd.Body == nil {
					continue
				}
				fn := funcName(fd)
				fobj, _ := p.TypesInfo.Defs[fd.Name].(*types.Func)
				base := fn
				if i := strings.LastIndex(base, "."); i >= 0 {
					base = base[i+1:]
				}
				ctor := base == "init" || strings.HasPrefix(base, "new") || base == "addChecker"
				rec := func(v *types.Var, kind string) {
					if v == nil {
						return
					}
					k := key{sp, v.Name()}
					if vars[k] == nil {
						vars[k] = &PkgVar{Pkg: sp, Name: v.Name(), Type: types.TypeString(v.Type(), func(p *types.Package) string { return p.Name() })}
						counts[k] = map[PkgVarSite]int{}
						writers[k] = map[*types.Func]bool{}
						order = append(order, k)
					}
					if ctor {
						kind = "ctor:" + kind
					} else if fobj != nil {
						writers[k][fobj] = true
					}
					counts[k][PkgVarSite{Method: fn, Kind: kind}]++
				}
				// alias: the variable itself (a map, slice, pointer or channel) is stored into a field, a literal or another
				// variable — every later write through that copy of the reference is a write to the package-level value that
				// no site rooted at the variable's name shows
				alias := func(e ast.Expr) {
					for {
						pe, ok := e.(*ast.ParenExpr)
						if !ok {
							break
						}
						e = pe.X
					}
					id, ok := e.(*ast.Ident)
					if !ok {
						return
					}
					v := rootVar(id)
					if v == nil {
						return
					}
					switch v.Type().Underlying().(type) {
					case *types.Map, *types.Slice, *types.Pointer, *types.Chan:
						rec(v, "alias")
					}
				}
				ast.Inspect(fd.Body, func(n ast.Node) bool {
					switch x := n.(type) {
					case *ast.CompositeLit:
						for _, el := range x.Elts {
							if kv, ok := el.(*ast.KeyValueExpr); ok {
								el = kv.Value
							}
							alias(el)
						}
					case *ast.AssignStmt:
						for _, rhs := range x.Rhs {
							alias(rhs)
						}
						if x.Tok == token.DEFINE {
							return true
						}
						for _, lhs := range x.Lhs {
							kind := "assign"
							switch lhs.(type) {
							case *ast.IndexExpr:
								kind = "elem-write"
							case *ast.SelectorExpr:
								kind = "subfield-write"
							}
							rec(rootVar(lhs), kind)
						}
					case *ast.IncDecStmt:
						rec(rootVar(x.X), "incdec")
					case *ast.UnaryExpr:
						if x.Op == token.AND {
							rec(rootVar(x.X), "address-taken")
						}
					case *ast.CallExpr:
						if id, ok := x.Fun.(*ast.Ident); ok && (id.Name == "delete" || id.Name == "clear") && len(x.Args) > 0 {
							rec(rootVar(x.Args[0]), "map-"+id.Name)
						}
						if sel, ok := x.Fun.(*ast.SelectorExpr); ok {
							if s, ok := p.TypesInfo.Selections[sel]; ok && s.Kind() == types.MethodVal {
								if sig, ok := s.Obj().Type().(*types.Signature); ok && sig.Recv() != nil {
									if _, ptr := sig.Recv().Type().(*types.Pointer); ptr && !readOnlyHandle(s.Recv()) {
										if v := rootVar(sel.X); v != nil {
											if _, isPtrVar := v.Type().Underlying().(*types.Pointer); !isPtrVar || true {
												rec(v, "ptr-method:"+s.Obj().Name())
											}
										}
									}
								}
							}
						}
						// call edges inside the package
						var callee *types.Func
						switch fx := x.Fun.(type) {
						case *ast.Ident:
							callee, _ = p.TypesInfo.Uses[fx].(*types.Func)
						case *ast.SelectorExpr:
							callee, _ = p.TypesInfo.Uses[fx.Sel].(*types.Func)
						}
						if callee != nil && callee.Pkg() == p.Types && fobj != nil {
							if calls[fobj] == nil {
								calls[fobj] = map[*types.Func]bool{}
							}
							calls[fobj][callee] = true
						}
					}
					return true
				})
			}
		}
		// which checker structs reach a live write
		for k, ws := range writers {
			if k.pkg != sp || len(ws) == 0 {
				continue
			}
			reach := map[*types.Func]bool{}
			for w := range ws {
				reach[w] = true
			}
			for changed := true; changed; {
				changed = false
				for caller, cs := range calls {
					if reach[caller] {
						continue
					}
					for c := range cs {
						if reach[c] {
							reach[caller] = true
							changed = true
							break
						}
					}
				}
			}
			seen := map[string]bool{}
			for fn := range reach {
				sig, _ := fn.Type().(*types.Signature)
				if sig == nil || sig.Recv() == nil {
					continue
				}
				if n := namedOf(sig.Recv().Type()); n != nil && strings.HasSuffix(n.Obj().Name(), "Checker") {
					name := strings.TrimSuffix(n.Obj().Name(), "Checker")
					if !seen[name] {
						seen[name] = true
						vars[k].Checkers = append(vars[k].Checkers, name)
					}
				}
			}
			sort.Strings(vars[k].Checkers)
		}
	}
	sort.Slice(order, func(i, j int) bool { return order[i].pkg+"\x00"+order[i].name < order[j].pkg+"\x00"+order[j].name })
	var out []*PkgVar
	for _, k := range order {
		v := vars[k]
		for s, n := range counts[k] {
			s.N = n
			v.Sites = append(v.Sites, s)
		}
		sort.Slice(v.Sites, func(i, j int) bool {
			if v.Sites[i].Method != v.Sites[j].Method {
				return v.Sites[i].Method < v.Sites[j].Method
			}
			return v.Sites[i].Kind < v.Sites[j].Kind
		})
		out = append(out, v)
	}
	return out
}

func identOf(e ast.Expr) *ast.Ident {
	id, _ := e.(*ast.Ident)
	return id
}
