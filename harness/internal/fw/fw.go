// Package fw is the shared machinery of the framework-law oracles (C02, C03, C05, C13):
// corpus loading (S1 = /repo/checkers/testdata/*, S2 = <verif>/corpus/framework/*),
// checker construction exactly as the CLI / linttest do it, and a canonical
// projection of warnings (offset inside the file, text, fix) that can be compared
// between runs that use different token.FileSets.
package fw

import (
	"fmt"
	"go/ast"
	"go/parser"
	"go/token"
	"go/types"
	"os"
	"path/filepath"
	"runtime"
	"sort"
	"strings"
	"sync"
	"time"

	"github.com/go-critic/go-critic/linter"
	"golang.org/x/tools/go/packages"

	"verifharness/internal/common"
	"verifharness/internal/load"
)

// Root is the verification tree this binary belongs to (<root>/work/bin/vh).
func Root() string {
	if d := os.Getenv("VERIF_ROOT"); d != "" {
		return d
	}
	return filepath.Dir(filepath.Dir(common.BinDir()))
}

var Sizes = types.SizesFor("gc", runtime.GOARCH)

var initOnce sync.Once

// RulesNote / RulesLoaded say whether the dynamic `ruleguard` checker got the user rules of corpus/framework_rules.
var (
	RulesNote   string
	RulesLoaded bool
)

// TestParams are the parameter values the repository's own suite runs its examples with
// (checkers/checkers_test.go); the /*! */ expectations of S1 are only valid under them.
var TestParams = map[string]map[string]interface{}{
	"captLocal":        {"paramsOnly": false},
	"commentedOutCode": {"minLength": 9},
}

// Infos returns all registered checkers (embedded rule groups included), with the suite's parameters.
func Infos() []*linter.CheckerInfo {
	initOnce.Do(func() {
		load.InitRules()
		for _, info := range linter.GetCheckersInfo() {
			for key, v := range TestParams[info.Name] {
				if p, ok := info.Params[key]; ok {
					p.Value = v
				}
			}
			// the dynamic rule checker gets user rules with type / package / import filters (corpus/framework_rules);
			// rule files import the dsl package, which resolves only when the process runs inside the repository module
			if info.Name == "ruleguard" {
				if p, ok := info.Params["rules"]; ok {
					rules := filepath.Join(Root(), "corpus", "framework_rules", "typed_rules.go")
					if _, err := os.Stat(rules); err == nil {
						old := p.Value
						p.Value = rules
						if _, err := linter.NewChecker(linter.NewContext(token.NewFileSet(), Sizes), info); err != nil {
							p.Value = old
							RulesNote = "user rules for the dynamic ruleguard checker could not be loaded (checker runs without rules): " + firstLine(err.Error())
						} else {
							RulesNote = "dynamic ruleguard checker runs with " + rules
							RulesLoaded = true
						}
					}
				}
			}
		}
	})
	var out []*linter.CheckerInfo
	for _, info := range linter.GetCheckersInfo() {
		if strings.HasPrefix(info.Name, "zzProbe") {
			continue
		}
		out = append(out, info)
	}
	return out
}

// File is one analysed source file.
type File struct {
	Pkg  *Pkg
	Name string // base name
	Path string // absolute path
	AST  *ast.File
	Src  []byte
	Base int // token.File base in Pkg.Fset
	Size int
}

func (f *File) ID() string { return f.Pkg.Name + "/" + f.Name }

// Pkg is one loaded (type-checked) package.
type Pkg struct {
	Name   string // directory base name (for S1: the checker the examples belong to)
	Dir    string
	Stream string // "S1" or "S2"
	Fset   *token.FileSet
	Types  *types.Package
	Info   *types.Info
	Files  []*File
	Errors []string
}

func newInfo() *types.Info {
	return &types.Info{
		Types:      map[ast.Expr]types.TypeAndValue{},
		Defs:       map[*ast.Ident]types.Object{},
		Uses:       map[*ast.Ident]types.Object{},
		Implicits:  map[ast.Node]types.Object{},
		Selections: map[*ast.SelectorExpr]*types.Selection{},
		Scopes:     map[ast.Node]*types.Scope{},
		Instances:  map[*ast.Ident]types.Instance{},
	}
}

// StripDirectives mirrors linttest.stripDirectives ("/// " comments become "//").
func StripDirectives(f *ast.File) {
	for _, cg := range f.Comments {
		for _, c := range cg.List {
			if strings.HasPrefix(c.Text, "/// ") {
				c.Text = "//"
			}
		}
	}
}

func loadMode() packages.LoadMode {
	return packages.NeedName | packages.NeedFiles | packages.NeedCompiledGoFiles | packages.NeedImports |
		packages.NeedTypes | packages.NeedSyntax | packages.NeedTypesInfo | packages.NeedTypesSizes
}

// LoadDirs loads the packages matching patterns relative to dir, sharing fset.
func LoadDirs(fset *token.FileSet, dir, stream string, patterns []string) ([]*Pkg, error) {
	return LoadOverlay(fset, dir, stream, patterns, nil)
}

// LoadOverlay is LoadDirs with some files replaced by in-memory contents (absolute path -> source).
func LoadOverlay(fset *token.FileSet, dir, stream string, patterns []string, overlay map[string][]byte) ([]*Pkg, error) {
	cfg := &packages.Config{Mode: loadMode(), Fset: fset, Dir: dir, Env: common.GoEnv(), Overlay: overlay}
	pkgs, err := packages.Load(cfg, patterns...)
	if err != nil {
		return nil, err
	}
	sort.SliceStable(pkgs, func(i, j int) bool { return pkgs[i].PkgPath < pkgs[j].PkgPath })
	var out []*Pkg
	for _, p := range pkgs {
		if len(p.Syntax) == 0 {
			continue
		}
		pk := &Pkg{Stream: stream, Fset: fset, Types: p.Types, Info: p.TypesInfo}
		for _, e := range p.Errors {
			pk.Errors = append(pk.Errors, e.Error())
		}
		for _, f := range p.Syntax {
			tf := fset.File(f.Pos())
			if tf == nil {
				continue
			}
			path := tf.Name()
			src, ok := overlay[path]
			if !ok {
				src, _ = os.ReadFile(path)
			}
			StripDirectives(f)
			pk.Files = append(pk.Files, &File{Pkg: pk, Name: filepath.Base(path), Path: path, AST: f, Src: src, Base: tf.Base(), Size: tf.Size()})
			pk.Dir = filepath.Dir(path)
		}
		pk.Name = filepath.Base(pk.Dir)
		sort.SliceStable(pk.Files, func(i, j int) bool { return pk.Files[i].Name < pk.Files[j].Name })
		out = append(out, pk)
	}
	return out, nil
}

// LoadS1 loads every example package of the repository (checkers/testdata/<name>).
func LoadS1(fset *token.FileSet) ([]*Pkg, error) { return LoadS1Overlay(fset, nil) }

// LoadS1Overlay loads the example packages with some files replaced (transformed examples of C13).
func LoadS1Overlay(fset *token.FileSet, overlay map[string][]byte) ([]*Pkg, error) {
	// "testdata" directories are invisible to "..." patterns: name every directory.
	ents, err := os.ReadDir(filepath.Join(common.RepoDir, "checkers", "testdata"))
	if err != nil {
		return nil, err
	}
	var pats []string
	for _, e := range ents {
		if !e.IsDir() || strings.HasPrefix(e.Name(), "_") || strings.HasPrefix(e.Name(), ".") {
			continue
		}
		if m, _ := filepath.Glob(filepath.Join(common.RepoDir, "checkers", "testdata", e.Name(), "*.go")); len(m) == 0 {
			continue
		}
		pats = append(pats, "./checkers/testdata/"+e.Name())
	}
	return LoadOverlay(fset, common.RepoDir, "S1", pats, overlay)
}

// StressDir is where the hand-written stress packages live.
func StressDir() string { return filepath.Join(Root(), "corpus", "framework") }

// LoadS2 loads the stress packages under corpus/framework (stdlib imports only). They are
// type-checked with go/types directly (importer "source" is avoided: packages.Load inside a
// scratch module).
func LoadS2(fset *token.FileSet, scratch string) ([]*Pkg, error) {
	src := StressDir()
	ents, err := os.ReadDir(src)
	if err != nil {
		return nil, nil // no stress corpus
	}
	mod := filepath.Join(scratch, "s2mod")
	os.RemoveAll(mod)
	common.WriteFile(filepath.Join(mod, "go.mod"), "module s2\n\ngo 1.21\n")
	n := 0
	for _, e := range ents {
		if !e.IsDir() {
			continue
		}
		files, _ := filepath.Glob(filepath.Join(src, e.Name(), "*.go"))
		for _, f := range files {
			data, err := os.ReadFile(f)
			if err != nil {
				return nil, err
			}
			common.WriteFile(filepath.Join(mod, e.Name(), filepath.Base(f)), string(data))
			n++
		}
	}
	if n == 0 {
		return nil, nil
	}
	writeContextPairs(mod)
	writeVisitorShapes(mod)
	writeTypeCycles(mod)
	return LoadDirs(fset, mod, "S2", []string{"./..."})
}

// CheckSource parses and type-checks one in-memory file as its own package, resolving imports
// through imp. It is used for generated / transformed files.
func CheckSource(fset *token.FileSet, filename string, src []byte, imp types.Importer) (*Pkg, error) {
	f, err := parser.ParseFile(fset, filename, src, parser.ParseComments)
	if err != nil {
		return nil, err
	}
	info := newInfo()
	var errs []string
	conf := types.Config{Importer: imp, Sizes: Sizes, Error: func(err error) { errs = append(errs, err.Error()) }}
	tp, _ := conf.Check(f.Name.Name, fset, []*ast.File{f}, info)
	StripDirectives(f)
	tf := fset.File(f.Pos())
	pk := &Pkg{Name: filepath.Base(filepath.Dir(filename)), Dir: filepath.Dir(filename), Stream: "gen", Fset: fset, Types: tp, Info: info, Errors: errs}
	pk.Files = []*File{{Pkg: pk, Name: filepath.Base(filename), Path: filename, AST: f, Src: src, Base: tf.Base(), Size: tf.Size()}}
	return pk, nil
}

// W is the canonical projection of a linter.Warning.
type W struct {
	Off    int    `json:"off"` // byte offset of Pos inside its file (-1: NoPos, -2: outside the file)
	Line   int    `json:"line"`
	Text   string `json:"text"`
	FixOff int    `json:"fix_off,omitempty"`
	FixLen int    `json:"fix_len,omitempty"`
	Fix    string `json:"fix,omitempty"`
	HasFix bool   `json:"has_fix,omitempty"`
}

func (w W) String() string {
	s := fmt.Sprintf("@%d(L%d) %s", w.Off, w.Line, w.Text)
	if w.HasFix {
		s += fmt.Sprintf(" fix[%d+%d]=%q", w.FixOff, w.FixLen, w.Fix)
	}
	return s
}

func (f *File) rel(p token.Pos) int {
	if p == token.NoPos {
		return -1
	}
	o := int(p) - f.Base
	if o < 0 || o > f.Size {
		return -2
	}
	return o
}

// Project canonicalises warnings of file f.
func Project(f *File, ws []linter.Warning) []W {
	out := make([]W, 0, len(ws))
	for _, w := range ws {
		c := W{Off: f.rel(w.Pos), Text: w.Text}
		if w.Pos != token.NoPos {
			c.Line = f.Pkg.Fset.Position(w.Pos).Line
		}
		if w.HasQuickFix() {
			c.HasFix = true
			c.FixOff = f.rel(w.Suggestion.From)
			c.FixLen = int(w.Suggestion.To - w.Suggestion.From)
			c.Fix = string(w.Suggestion.Replacement)
		}
		out = append(out, c)
	}
	return out
}

func EqualWs(a, b []W) bool {
	if len(a) != len(b) {
		return false
	}
	for i := range a {
		if a[i] != b[i] {
			return false
		}
	}
	return true
}

func Strs(ws []W) []string {
	out := make([]string, len(ws))
	for i, w := range ws {
		out[i] = w.String()
	}
	return out
}

// Set is one long-lived context plus one long-lived checker instance per info — what the CLI builds once per run.
type Set struct {
	Ctx      *linter.Context
	Infos    []*linter.CheckerInfo
	Checkers []*linter.Checker
	curPkg   *Pkg
}

// NewSet builds the checkers the way cmd/go-critic does (NewContext, then NewChecker per info).
func NewSet(fset *token.FileSet, infos []*linter.CheckerInfo) (*Set, error) {
	return NewSetSizes(fset, infos, Sizes)
}

// NewSetSizes is NewSet for a target whose type sizes are not the host's (GOARCH=386 ...).
func NewSetSizes(fset *token.FileSet, infos []*linter.CheckerInfo, sizes types.Sizes) (*Set, error) {
	return NewSetConfigured(fset, infos, sizes, "")
}

// NewSetConfigured additionally configures the Go version (-go flag) BEFORE the checkers are constructed, as the front-ends do.
func NewSetConfigured(fset *token.FileSet, infos []*linter.CheckerInfo, sizes types.Sizes, goVersion string) (*Set, error) {
	s := &Set{Ctx: linter.NewContext(fset, sizes), Infos: infos}
	if goVersion != "" {
		s.Ctx.SetGoVersion(goVersion)
	}
	for _, info := range infos {
		c, err := linter.NewChecker(s.Ctx, info)
		if err != nil {
			return nil, fmt.Errorf("%s: %v", info.Name, err)
		}
		s.Checkers = append(s.Checkers, c)
	}
	return s, nil
}

// Enter performs the per-file protocol of checkPackage: SetPackageInfo when the package changes
// (always, when force is set), then SetFileInfo.
func (s *Set) Enter(f *File, force bool) {
	if force || s.curPkg != f.Pkg {
		s.Ctx.SetPackageInfo(f.Pkg.Info, f.Pkg.Types)
		s.curPkg = f.Pkg
	}
	s.Ctx.SetFileInfo(f.Name, f.AST)
}

// Outcome of one Check call.
type Outcome struct {
	Ws    []W
	Panic string
}

func (o Outcome) Equal(p Outcome) bool { return o.Panic == p.Panic && EqualWs(o.Ws, p.Ws) }

// SafeCheck runs c on f and recovers panics (they are C01's subject; here they are only compared).
func SafeCheck(c *linter.Checker, f *File) (out Outcome) {
	defer func() {
		if r := recover(); r != nil {
			out = Outcome{Panic: firstLine(fmt.Sprint(r))}
		}
	}()
	ws := c.Check(f.AST)
	return Outcome{Ws: Project(f, ws)}
}

func firstLine(s string) string {
	if i := strings.IndexByte(s, '\n'); i >= 0 {
		s = s[:i]
	}
	if len(s) > 200 {
		s = s[:200]
	}
	return s
}

// FreshCheck creates a brand-new context and checker and analyses exactly one file.
func FreshCheck(info *linter.CheckerInfo, f *File) Outcome {
	ctx := linter.NewContext(f.Pkg.Fset, Sizes)
	c, err := linter.NewChecker(ctx, info)
	if err != nil {
		return Outcome{Panic: "init: " + err.Error()}
	}
	ctx.SetPackageInfo(f.Pkg.Info, f.Pkg.Types)
	ctx.SetFileInfo(f.Name, f.AST)
	return SafeCheck(c, f)
}

// FreshCache memoises FreshCheck per (checker, file); safe for concurrent use.
type FreshCache struct {
	mu sync.Mutex
	m  map[string]Outcome
}

func NewFreshCache() *FreshCache { return &FreshCache{m: map[string]Outcome{}} }

func (fc *FreshCache) Get(info *linter.CheckerInfo, f *File) Outcome {
	key := info.Name + "\x00" + f.Path
	fc.mu.Lock()
	o, ok := fc.m[key]
	fc.mu.Unlock()
	if ok {
		return o
	}
	o = FreshCheck(info, f)
	fc.mu.Lock()
	fc.m[key] = o
	fc.mu.Unlock()
	return o
}

func (fc *FreshCache) Len() int {
	fc.mu.Lock()
	defer fc.mu.Unlock()
	return len(fc.m)
}

// Parallel runs fn(i) for i in [0,n) on all CPUs.
func Parallel(n int, fn func(i int)) {
	workers := runtime.GOMAXPROCS(0)
	if workers > n {
		workers = n
	}
	var wg sync.WaitGroup
	ch := make(chan int, n)
	for i := 0; i < n; i++ {
		ch <- i
	}
	close(ch)
	for w := 0; w < workers; w++ {
		wg.Add(1)
		go func() {
			defer wg.Done()
			for i := range ch {
				fn(i)
			}
		}()
	}
	wg.Wait()
}

// AllFiles flattens packages.
func AllFiles(pkgs []*Pkg) []*File {
	var out []*File
	for _, p := range pkgs {
		out = append(out, p.Files...)
	}
	return out
}

// InfoByName indexes infos.
func InfoByName(infos []*linter.CheckerInfo) map[string]*linter.CheckerInfo {
	m := map[string]*linter.CheckerInfo{}
	for _, i := range infos {
		m[i.Name] = i
	}
	return m
}

// FreshUnstable re-runs brand-new instances of info on f (many: an unlikely map order must not be mistaken
// for an effect of history / order); unstable = they do not all agree with want; explains = got is one of the
// outcomes a fresh instance produced, or the fresh outcomes are unstable and got differs from want only by order.
// It is the "like with like" guard of C03/C05/C13: nondeterminism is C02's subject and is reported there.
func FreshUnstable(info *linter.CheckerInfo, f *File, got, want Outcome) (unstable, explains bool) {
	canon := func(o Outcome) string {
		s := Strs(o.Ws)
		sort.Strings(s)
		return o.Panic + "\x00" + strings.Join(s, "\x00")
	}
	n := 400
	if info.EmbeddedRuleguard {
		n = 24
	}
	for i := 0; i < n; i++ {
		o := FreshCheck(info, f)
		if !o.Equal(want) {
			unstable = true
		}
		if o.Equal(got) {
			explains = true
		}
		if unstable && explains {
			break
		}
	}
	if unstable && canon(want) == canon(got) {
		explains = true
	}
	return unstable, explains
}

// Batches splits example packages into groups that the CLI can load together. The third-party loader
// (go-toolsmith/pkgload.VisitUnits) keys a package whose *name* ends in "_test" by its import path minus
// five characters and panics ("nil assertion failed") when two such keys collide; all S1 packages are named
// checker_test, so e.g. badCond and badLock cannot be passed to one go-critic process. (Observation only:
// it is a defect of the loader triggered by the unusual package naming of the examples.)
func Batches(pkgs []*Pkg) [][]*Pkg {
	var batches [][]*Pkg
	var keys []map[string]bool
	for _, p := range pkgs {
		k := p.Name
		if len(k) > 5 {
			k = k[:len(k)-5]
		}
		placed := false
		for i := range batches {
			if !keys[i][k] {
				keys[i][k] = true
				batches[i] = append(batches[i], p)
				placed = true
				break
			}
		}
		if !placed {
			batches = append(batches, []*Pkg{p})
			keys = append(keys, map[string]bool{k: true})
		}
	}
	return batches
}

// ForEachPkg runs fn(set, pkg) for every package on a pool of workers; each worker owns ONE long-lived
// checker set (creating a set costs one rule-engine load per embedded rule group).
func ForEachPkg(fset *token.FileSet, infos []*linter.CheckerInfo, pkgs []*Pkg, fn func(set *Set, pi int)) error {
	workers := runtime.GOMAXPROCS(0)
	if workers > len(pkgs) {
		workers = len(pkgs)
	}
	ch := make(chan int, len(pkgs))
	for i := range pkgs {
		ch <- i
	}
	close(ch)
	var wg sync.WaitGroup
	var mu sync.Mutex
	var firstErr error
	for w := 0; w < workers; w++ {
		wg.Add(1)
		go func() {
			defer wg.Done()
			set, err := NewSet(fset, infos)
			if err != nil {
				mu.Lock()
				if firstErr == nil {
					firstErr = err
				}
				mu.Unlock()
				return
			}
			for pi := range ch {
				fn(set, pi)
			}
		}()
	}
	wg.Wait()
	return firstErr
}

// writeContextPairs derives two packages from the function-local comments of the repository's examples: every comment
// text is placed, character for character, once in an ordinary function (package ctxord) and once in an Example
// function behind an "Output:" line (package ctxex), and the other way round in one file (package ctxmix). Checkers
// decide differently in the two contexts; a verdict remembered by TEXT (or by any key that ignores the context) leaks
// from one into the other.
func writeContextPairs(mod string) {
	files, _ := filepath.Glob(filepath.Join(common.RepoDir, "checkers", "testdata", "*", "*.go"))
	more, _ := filepath.Glob(filepath.Join(StressDir(), "*", "*.go"))
	files = append(files, more...)
	sort.Strings(files)
	seen := map[string]bool{}
	var texts [][]string
	for _, fn := range files {
		fs := token.NewFileSet()
		f, err := parser.ParseFile(fs, fn, nil, parser.ParseComments)
		if err != nil {
			continue
		}
		for _, d := range f.Decls {
			fd, ok := d.(*ast.FuncDecl)
			if !ok || fd.Body == nil {
				continue
			}
			for _, cg := range f.Comments {
				if cg.Pos() < fd.Body.Pos() || cg.End() > fd.Body.End() {
					continue
				}
				t := strings.TrimSpace(cg.Text())
				if t == "" || len(t) > 300 || seen[t] || strings.Contains(t, "*/") {
					continue
				}
				seen[t] = true
				texts = append(texts, strings.Split(t, "\n"))
			}
		}
	}
	const maxTexts = 1200
	if len(texts) > maxTexts {
		// keep a spread over the whole corpus
		var pick [][]string
		for i := 0; i < maxTexts; i++ {
			pick = append(pick, texts[i*len(texts)/maxTexts])
		}
		texts = pick
	}
	block := func(b *strings.Builder, lines []string) {
		b.WriteString("\t// Output:\n")
		for _, l := range lines {
			b.WriteString("\t// " + l + "\n")
		}
	}
	var ord, ex, mix strings.Builder
	ord.WriteString("package ctxord\n\n// GENERATED by the harness (fw.writeContextPairs): comment texts of the examples in ordinary functions\n")
	ex.WriteString("package ctxex\n\n// GENERATED by the harness (fw.writeContextPairs): the same comment texts in Example functions\n")
	mix.WriteString("package ctxmix\n\n// GENERATED by the harness (fw.writeContextPairs): both contexts in one file, alternating order\n")
	for i, t := range texts {
		fmt.Fprintf(&ord, "\nfunc ordinary%d() int {\n\tx := %d\n", i, i)
		block(&ord, t)
		ord.WriteString("\treturn x\n}\n")
		fmt.Fprintf(&ex, "\nfunc ExampleV%d() {\n\tprintln(%d)\n", i, i)
		block(&ex, t)
		ex.WriteString("}\n")
		if i%4 == 0 {
			a := fmt.Sprintf("\nfunc ordinaryM%d() int {\n\tx := %d\n", i, i)
			b := fmt.Sprintf("\nfunc ExampleM%d() {\n\tprintln(%d)\n", i, i)
			var ba, bb strings.Builder
			ba.WriteString(a)
			block(&ba, t)
			ba.WriteString("\treturn x\n}\n")
			bb.WriteString(b)
			block(&bb, t)
			bb.WriteString("}\n")
			if i%8 == 0 {
				mix.WriteString(ba.String() + bb.String())
			} else {
				mix.WriteString(bb.String() + ba.String())
			}
		}
	}
	common.WriteFile(filepath.Join(mod, "ctxord", "a.go"), ord.String())
	common.WriteFile(filepath.Join(mod, "ctxex", "a.go"), ex.String())
	common.WriteFile(filepath.Join(mod, "ctxmix", "a.go"), mix.String())
}

// IsTimeout reports whether err is the wall-clock limit of common.Run / common.RunSplit.
// (also: the process was killed by a signal from outside, e.g. the kernel's OOM killer while sibling jobs fill the machine)
func IsTimeout(err error) bool {
	return err != nil && (strings.Contains(err.Error(), "timeout after") || strings.Contains(err.Error(), "killed by a signal"))
}

// RunPatient is common.RunSplit for the oracles whose subject is NOT termination: a run that hits the wall-clock limit
// (a normal run takes seconds; the limit is only there so that a hung binary cannot block the check for ever) is retried
// once with three times the limit. Callers must treat a remaining IsTimeout error as "no observation" (a note), never
// as a failure of their property: a hang is C01's subject and is decided there by an unloaded sequential re-run.
func RunPatient(limit time.Duration, dir string, env []string, name string, args ...string) (string, string, int, error) {
	so, se, code, err := common.RunSplit(limit, dir, env, name, args...)
	if IsTimeout(err) || (err == nil && code == -1) {
		time.Sleep(5 * time.Second)
		so, se, code, err = common.RunSplit(3*limit, dir, env, name, args...)
	}
	if err == nil && code == -1 {
		err = fmt.Errorf("killed by a signal (not by this harness): no observation")
	}
	return so, se, code, err
}
