package fw

import (
	"go/ast"
	"go/parser"
	"go/token"
	"os"
	"path/filepath"
	"sort"
	"strings"

	"verifharness/internal/common"
)

// LoadRenamed derives, from every example package of the repository whose imports are all in the standard library, a
// variant in which every plain import gets a local name (`import rfilepath "path/filepath"`) and every use follows
// (`rfilepath.Join(...)`), writes them to <scratch>/renmod/ren_<pkg> and loads them (stream "S1r"). What a checker says
// about such a file may legitimately differ from the original (recognisers that go by spelling: C20's recorded findings);
// the variants are inputs for the questions that must not depend on the spelling: same result alone and with every other
// checker enabled, after any history, in any order (the per-file import tables of the shared context are only filled when
// SOME constructed checker asked for them, so they are where a dependence on the selection hides).
func LoadRenamed(fset *token.FileSet, scratch string) ([]*Pkg, error) {
	mod := filepath.Join(scratch, "renmod")
	os.RemoveAll(mod)
	common.WriteFile(filepath.Join(mod, "go.mod"), "module renmod\n\ngo 1.21\n")
	dirs, _ := filepath.Glob(filepath.Join(common.RepoDir, "checkers", "testdata", "*"))
	sort.Strings(dirs)
	n := 0
	for _, dir := range dirs {
		base := filepath.Base(dir)
		if strings.HasPrefix(base, "_") || strings.HasPrefix(base, ".") {
			continue
		}
		files, _ := filepath.Glob(filepath.Join(dir, "*.go"))
		out := map[string]string{}
		ok, any := len(files) > 0, false
		for _, fn := range files {
			src, err := os.ReadFile(fn)
			if err != nil {
				ok = false
				break
			}
			text, renamed, good := renameImports(src)
			if !good {
				ok = false
				break
			}
			any = any || renamed
			out[filepath.Base(fn)] = text
		}
		if !ok || !any {
			continue
		}
		for name, text := range out {
			common.WriteFile(filepath.Join(mod, "ren_"+base, name), text)
		}
		n++
	}
	if n == 0 {
		return nil, nil
	}
	return LoadDirs(fset, mod, "S1r", []string{"./..."})
}

// renameImports splices local names into the import specs of src and renames the uses (identifiers the parser could not
// resolve inside the file, in selector position). good = all imports are standard-library packages.
func renameImports(src []byte) (text string, renamed, good bool) {
	fs := token.NewFileSet()
	f, err := parser.ParseFile(fs, "x.go", src, parser.ParseComments)
	if err != nil {
		return "", false, false
	}
	alias := map[string]string{}
	type edit struct {
		off  int
		del  int
		text string
	}
	var edits []edit
	off := func(p token.Pos) int { return fs.Position(p).Offset }
	for _, im := range f.Imports {
		path := strings.Trim(im.Path.Value, "\"`")
		if strings.Contains(strings.SplitN(path, "/", 2)[0], ".") {
			return "", false, false
		}
		if im.Name != nil {
			continue
		}
		name := path[strings.LastIndex(path, "/")+1:]
		if name == "v2" || strings.ContainsAny(name, "-.") {
			continue
		}
		alias[name] = "r" + name
		edits = append(edits, edit{off(im.Path.Pos()), 0, "r" + name + " "})
	}
	if len(alias) == 0 {
		return string(src), false, true
	}
	ast.Inspect(f, func(n ast.Node) bool {
		if sel, ok := n.(*ast.SelectorExpr); ok {
			if id, ok := sel.X.(*ast.Ident); ok && id.Obj == nil {
				if a, ok := alias[id.Name]; ok {
					edits = append(edits, edit{off(id.Pos()), len(id.Name), a})
				}
			}
		}
		return true
	})
	sort.Slice(edits, func(i, j int) bool { return edits[i].off > edits[j].off })
	out := string(src)
	for _, e := range edits {
		out = out[:e.off] + e.text + out[e.off+e.del:]
	}
	return out, true, true
}
