package fw

import (
	"go/token"
	"strings"
	"testing"

	"github.com/go-critic/go-critic/linter"
)

// WalkerState must see the WalkHandler embedded in a checker (SkipChilds) and the walker's own fields.
func TestWalkerState(t *testing.T) {
	infos := Infos()
	seen := 0
	for _, info := range infos {
		if info.Name != "typeUnparen" && info.Name != "boolExprSimplify" {
			continue
		}
		c, err := linter.NewChecker(linter.NewContext(token.NewFileSet(), Sizes), info)
		if err != nil {
			t.Fatal(err)
		}
		s := WalkerState(c)
		if !strings.Contains(s, "WalkHandler.SkipChilds=false") {
			t.Errorf("%s: walker state %q lacks the SkipChilds flag", info.Name, s)
		}
		seen++
	}
	if seen != 2 {
		t.Fatalf("checkers not found")
	}
}
