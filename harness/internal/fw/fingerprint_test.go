package fw

import (
	"go/ast"
	"go/parser"
	"go/token"
	"testing"
)

const fpSrc = `package p

import "fmt"

// doc
func f(a, b int) bool {
	// inner
	if !(a == b) {
		fmt.Println("x", 1)
	}
	return a < b
}
`

func parse(t *testing.T) *ast.File {
	f, err := parser.ParseFile(token.NewFileSet(), "p.go", fpSrc, parser.ParseComments)
	if err != nil {
		t.Fatal(err)
	}
	return f
}

// The fingerprint must cover every node ast.Inspect sees (plus comments), be stable when nothing
// is written, and change for every kind of write a checker could perform.
func TestFingerprint(t *testing.T) {
	f := parse(t)
	inspected := 0
	ast.Inspect(f, func(n ast.Node) bool {
		if n != nil {
			inspected++
		}
		return true
	})
	h0, n := ASTFingerprint(f)
	if n < inspected {
		t.Fatalf("fingerprint covers %d nodes, ast.Inspect sees %d", n, inspected)
	}
	for i := 0; i < 20; i++ {
		if h, _ := ASTFingerprint(f); h != h0 {
			t.Fatal("fingerprint not stable on an untouched tree")
		}
	}
	fn := f.Decls[1].(*ast.FuncDecl)
	ifs := fn.Body.List[0].(*ast.IfStmt)
	check := func(name string, mutate func() func()) {
		undo := mutate()
		h, _ := ASTFingerprint(f)
		if h == h0 {
			t.Errorf("%s: not detected", name)
		}
		undo()
		if h, _ := ASTFingerprint(f); h != h0 {
			t.Errorf("%s: undo does not restore the fingerprint", name)
		}
	}
	check("token flip", func() func() {
		be := fn.Body.List[1].(*ast.ReturnStmt).Results[0].(*ast.BinaryExpr)
		be.Op = token.GEQ
		return func() { be.Op = token.LSS }
	})
	check("replace child by equal copy (identity)", func() func() {
		old := ifs.Cond
		u := *old.(*ast.UnaryExpr)
		ifs.Cond = &u
		return func() { ifs.Cond = old }
	})
	check("literal value", func() func() {
		lit := ifs.Body.List[0].(*ast.ExprStmt).X.(*ast.CallExpr).Args[1].(*ast.BasicLit)
		lit.Value = "2"
		return func() { lit.Value = "1" }
	})
	check("identifier name", func() func() {
		fn.Name.Name = "g"
		return func() { fn.Name.Name = "f" }
	})
	check("position", func() func() {
		p := fn.Body.Lbrace
		fn.Body.Lbrace = p + 1
		return func() { fn.Body.Lbrace = p }
	})
	check("slice element write", func() func() {
		l := fn.Body.List
		l[0], l[1] = l[1], l[0]
		return func() { l[0], l[1] = l[1], l[0] }
	})
	check("slice truncation", func() func() {
		l := fn.Body.List
		fn.Body.List = l[:1]
		return func() { fn.Body.List = l }
	})
	check("comment text", func() func() {
		c := f.Comments[1].List[0]
		old := c.Text
		c.Text = "//"
		return func() { c.Text = old }
	})
	check("comment list", func() func() {
		old := f.Comments
		f.Comments = old[:1]
		return func() { f.Comments = old }
	})
	check("nil a field", func() func() {
		old := fn.Doc
		fn.Doc = nil
		return func() { fn.Doc = old }
	})
	// records name the node
	r0 := ASTRecords(f)
	fn.Name.Name = "g"
	d := DiffRecords(r0, ASTRecords(f))
	fn.Name.Name = "f"
	if d == "" || len(r0) != n {
		t.Errorf("records: %d records for %d nodes; diff %q", len(r0), n, d)
	}
}
