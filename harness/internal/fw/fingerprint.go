package fw

import (
	"fmt"
	"go/ast"
	"go/token"
	"go/types"
	"reflect"
	"sort"
	"strings"
	"sync"

	"github.com/go-critic/go-critic/linter"
)

// ---- structural fingerprint of an *ast.File ----
//
// Everything reachable from the file through exported go/ast fields is covered: node kinds,
// every scalar field (token.Pos, token.Token, literal values, identifier names, bools), the
// child pointers *by address* (identity graph: replacing a subtree by an equal copy changes the
// fingerprint), slice lengths and backing arrays, and the comment list (File.Comments).
// The deprecated resolver fields Scope, Obj and Unresolved are skipped on purpose: they contain
// maps (nondeterministic print order) and are not inputs of any checker.

var skipField = map[string]bool{"Scope": true, "Obj": true, "Unresolved": true}

const fnvOff, fnvPrime = 14695981039346656037, 1099511628211

type fpWalker struct {
	h      uint64
	seen   map[uintptr]int
	detail bool
	recs   []string
	cur    *strings.Builder
	nodes  int
}

func (w *fpWalker) mix(x uint64) {
	w.h ^= x
	w.h *= fnvPrime
}

func (w *fpWalker) mixs(s string) {
	for i := 0; i < len(s); i++ {
		w.h ^= uint64(s[i])
		w.h *= fnvPrime
	}
	w.mix(uint64(len(s)))
}

var fieldCache sync.Map // reflect.Type -> []int

func fieldsOf(t reflect.Type) []int {
	if f, ok := fieldCache.Load(t); ok {
		return f.([]int)
	}
	var idx []int
	for i := 0; i < t.NumField(); i++ {
		sf := t.Field(i)
		if skipField[sf.Name] || sf.PkgPath != "" {
			continue
		}
		idx = append(idx, i)
	}
	fieldCache.Store(t, idx)
	return idx
}

func (w *fpWalker) value(v reflect.Value) {
	switch v.Kind() {
	case reflect.Ptr:
		if v.IsNil() {
			w.mix(1)
			if w.detail {
				w.cur.WriteString(" nil")
			}
			return
		}
		addr := v.Pointer()
		w.mix(uint64(addr))
		if w.detail {
			fmt.Fprintf(w.cur, " ->%x", addr)
		}
		if _, ok := w.seen[addr]; ok {
			w.mix(2)
			return
		}
		w.seen[addr] = len(w.seen)
		w.structNode(v.Elem(), addr)
	case reflect.Interface:
		if v.IsNil() {
			w.mix(3)
			if w.detail {
				w.cur.WriteString(" nil")
			}
			return
		}
		w.value(v.Elem())
	case reflect.Struct:
		// embedded by value (none in go/ast today, kept for safety)
		w.structNode(v, 0)
	case reflect.Slice:
		n := v.Len()
		w.mix(uint64(n))
		if n > 0 {
			w.mix(uint64(v.Pointer()))
		}
		if w.detail {
			fmt.Fprintf(w.cur, " [%d@%x", n, v.Pointer())
		}
		for i := 0; i < n; i++ {
			w.value(v.Index(i))
		}
		if w.detail {
			w.cur.WriteString("]")
		}
	case reflect.String:
		w.mixs(v.String())
		if w.detail {
			fmt.Fprintf(w.cur, " %q", v.String())
		}
	case reflect.Int, reflect.Int8, reflect.Int16, reflect.Int32, reflect.Int64:
		w.mix(uint64(v.Int()))
		if w.detail {
			fmt.Fprintf(w.cur, " %d", v.Int())
		}
	case reflect.Uint, reflect.Uint8, reflect.Uint16, reflect.Uint32, reflect.Uint64:
		w.mix(v.Uint())
		if w.detail {
			fmt.Fprintf(w.cur, " %d", v.Uint())
		}
	case reflect.Bool:
		if v.Bool() {
			w.mix(5)
		} else {
			w.mix(6)
		}
		if w.detail {
			fmt.Fprintf(w.cur, " %v", v.Bool())
		}
	case reflect.Map:
		// only reachable through skipped fields today; sorted rendering keeps it deterministic if that changes
		keys := v.MapKeys()
		ks := make([]string, len(keys))
		for i, k := range keys {
			ks[i] = fmt.Sprint(k.Interface())
		}
		sort.Strings(ks)
		for _, k := range ks {
			w.mixs(k)
		}
	default:
		w.mix(7)
	}
}

func (w *fpWalker) structNode(v reflect.Value, addr uintptr) {
	t := v.Type()
	w.nodes++
	w.mixs(t.Name())
	var saved *strings.Builder
	if w.detail {
		saved = w.cur
		w.cur = &strings.Builder{}
		fmt.Fprintf(w.cur, "%s@%x:", t.Name(), addr)
		// reserve the record slot now so that records stay in pre-order
		w.recs = append(w.recs, "")
	}
	slot := len(w.recs) - 1
	for _, i := range fieldsOf(t) {
		if w.detail {
			w.cur.WriteString(" " + t.Field(i).Name + "=")
		}
		w.mix(uint64(i) + 11)
		w.value(v.Field(i))
	}
	if w.detail {
		w.recs[slot] = w.cur.String()
		w.cur = saved
	}
}

// ASTFingerprint returns the structural hash of f and the number of nodes it covered.
func ASTFingerprint(f *ast.File) (uint64, int) {
	w := &fpWalker{h: fnvOff, seen: map[uintptr]int{}}
	w.value(reflect.ValueOf(f))
	return w.h, w.nodes
}

// ASTRecords returns one line per node (pre-order); used to say *what* changed.
func ASTRecords(f *ast.File) []string {
	w := &fpWalker{h: fnvOff, seen: map[uintptr]int{}, detail: true, cur: &strings.Builder{}}
	w.value(reflect.ValueOf(f))
	return w.recs
}

// strip nested child records out of a record line: records contain the scalar fields and the child addresses of one node only
// (children are rendered as their own records), so a plain line diff names the node that was written.

// DiffRecords describes the first difference between two record lists.
func DiffRecords(before, after []string) string {
	n := len(before)
	if len(after) < n {
		n = len(after)
	}
	for i := 0; i < n; i++ {
		if before[i] != after[i] {
			return fmt.Sprintf("node #%d\n  before: %s\n  after:  %s", i, clip(before[i]), clip(after[i]))
		}
	}
	if len(before) != len(after) {
		return fmt.Sprintf("node count %d -> %d", len(before), len(after))
	}
	return "no difference in records (hash collision?)"
}

func clip(s string) string {
	if len(s) > 400 {
		return s[:400] + "..."
	}
	return s
}

// ---- types.Info ----

type InfoSizes [9]int

func SizesOf(i *types.Info) InfoSizes {
	return InfoSizes{len(i.Types), len(i.Defs), len(i.Uses), len(i.Implicits), len(i.Selections), len(i.Scopes), len(i.Instances), len(i.InitOrder), len(i.FileVersions)}
}

func ptrOf(x interface{}) uintptr {
	v := reflect.ValueOf(x)
	switch v.Kind() {
	case reflect.Ptr, reflect.Map, reflect.Slice, reflect.Func, reflect.Chan, reflect.UnsafePointer:
		return v.Pointer()
	}
	return 0
}

// InfoDeepHash is order independent (xor of per-entry hashes): keys by address, values by identity.
func InfoDeepHash(i *types.Info) uint64 {
	var acc uint64
	ent := func(a, b uintptr, s string) {
		h := uint64(fnvOff)
		h = (h ^ uint64(a)) * fnvPrime
		h = (h ^ uint64(b)) * fnvPrime
		for k := 0; k < len(s); k++ {
			h = (h ^ uint64(s[k])) * fnvPrime
		}
		acc ^= h
	}
	for k, v := range i.Types {
		val := ""
		if v.Value != nil {
			val = v.Value.ExactString()
		}
		ent(ptrOf(k), ptrOf(v.Type), val)
	}
	for k, v := range i.Defs {
		ent(ptrOf(k), ptrOf(v), "d")
	}
	for k, v := range i.Uses {
		ent(ptrOf(k), ptrOf(v), "u")
	}
	for k, v := range i.Implicits {
		ent(ptrOf(k), ptrOf(v), "i")
	}
	for k, v := range i.Selections {
		ent(ptrOf(k), ptrOf(v), "s")
	}
	for k, v := range i.Scopes {
		ent(ptrOf(k), ptrOf(v), "c")
	}
	for k, v := range i.Instances {
		ent(ptrOf(k), ptrOf(v.Type), "n")
	}
	return acc
}

// ---- linter.Context ----

type CtxSnap struct {
	TypesInfo  uintptr
	InfoMaps   [7]uintptr
	InfoSizes  InfoSizes
	Sizes      string
	GoVersion  linter.GoVersion
	FileSet    uintptr
	FsetBase   int
	Pkg        uintptr
	Filename   string
	ReqObjects bool
	ReqRenames bool
	PkgObjects string
	PkgRenames string
	ObjectsMap uintptr
	RenamesMap uintptr
}

func SnapContext(c *linter.Context) CtxSnap {
	s := CtxSnap{
		TypesInfo: ptrOf(c.TypesInfo), Sizes: fmt.Sprintf("%T/%v", c.SizesInfo, c.SizesInfo), GoVersion: c.GoVersion, FileSet: ptrOf(c.FileSet),
		Pkg: ptrOf(c.Pkg), Filename: c.Filename, ReqObjects: c.Require.PkgObjects, ReqRenames: c.Require.PkgRenames,
		ObjectsMap: ptrOf(c.PkgObjects), RenamesMap: ptrOf(c.PkgRenames),
	}
	if c.FileSet != nil {
		s.FsetBase = c.FileSet.Base()
	}
	if i := c.TypesInfo; i != nil {
		s.InfoMaps = [7]uintptr{ptrOf(i.Types), ptrOf(i.Defs), ptrOf(i.Uses), ptrOf(i.Implicits), ptrOf(i.Selections), ptrOf(i.Scopes), ptrOf(i.Instances)}
		s.InfoSizes = SizesOf(i)
	}
	var po []string
	for k, v := range c.PkgObjects {
		po = append(po, fmt.Sprintf("%x=%s", ptrOf(k), v))
	}
	sort.Strings(po)
	s.PkgObjects = strings.Join(po, ",")
	var pr []string
	for k, v := range c.PkgRenames {
		pr = append(pr, k+"="+v)
	}
	sort.Strings(pr)
	s.PkgRenames = strings.Join(pr, ",")
	return s
}

// DiffCtx names the fields that differ.
func DiffCtx(a, b CtxSnap) []string {
	var d []string
	va, vb := reflect.ValueOf(a), reflect.ValueOf(b)
	for i := 0; i < va.NumField(); i++ {
		if !reflect.DeepEqual(va.Field(i).Interface(), vb.Field(i).Interface()) {
			d = append(d, fmt.Sprintf("%s: %v -> %v", va.Type().Field(i).Name, va.Field(i).Interface(), vb.Field(i).Interface()))
		}
	}
	return d
}

// ---- CheckerInfo / params ----

// SnapInfo renders everything registered about one checker, params sorted.
func SnapInfo(info *linter.CheckerInfo) string {
	var b strings.Builder
	fmt.Fprintf(&b, "%s|%q|%q|%q|%q|%q|%q|%v|%x", info.Name, info.Tags, info.Summary, info.Details, info.Before, info.After, info.Note, info.EmbeddedRuleguard, ptrOf(info.Collection))
	keys := make([]string, 0, len(info.Params))
	for k := range info.Params {
		keys = append(keys, k)
	}
	sort.Strings(keys)
	for _, k := range keys {
		p := info.Params[k]
		fmt.Fprintf(&b, "|%s=%T:%v(%q)@%x", k, p.Value, p.Value, p.Usage, ptrOf(p))
	}
	return b.String()
}

// SnapRegistry asks the registry again (GetCheckersInfo hands out copies of the registered structs).
func SnapRegistry() []string {
	var out []string
	for _, info := range linter.GetCheckersInfo() {
		out = append(out, SnapInfo(info))
	}
	return out
}

var _ = token.NoPos

// ---- generic deep rendering of the shared context (every field, exported or not) ----
//
// SnapContext above names the documented fields; DeepCtx walks the struct reflectively so that state ADDED to
// linter.Context by a change (caches, counters, maps, sync.Map, ...) is watched as well. Pointers into go/types,
// go/token and go/ast (the inputs, fingerprinted separately) are rendered by address only.

var inputPkgs = map[string]bool{"go/types": true, "go/token": true, "go/ast": true, "go/constant": true}

type deepWalker struct {
	b    strings.Builder
	seen map[uintptr]bool
}

func (w *deepWalker) val(v reflect.Value, depth int) {
	if depth > 8 {
		w.b.WriteString("…")
		return
	}
	switch v.Kind() {
	case reflect.Bool:
		fmt.Fprintf(&w.b, "%v", v.Bool())
	case reflect.Int, reflect.Int8, reflect.Int16, reflect.Int32, reflect.Int64:
		fmt.Fprintf(&w.b, "%d", v.Int())
	case reflect.Uint, reflect.Uint8, reflect.Uint16, reflect.Uint32, reflect.Uint64, reflect.Uintptr:
		fmt.Fprintf(&w.b, "%d", v.Uint())
	case reflect.Float32, reflect.Float64:
		fmt.Fprintf(&w.b, "%g", v.Float())
	case reflect.String:
		fmt.Fprintf(&w.b, "%q", v.String())
	case reflect.Func, reflect.Chan, reflect.UnsafePointer:
		fmt.Fprintf(&w.b, "@%x", v.Pointer())
	case reflect.Interface:
		if v.IsNil() {
			w.b.WriteString("nil")
			return
		}
		w.val(v.Elem(), depth+1)
	case reflect.Ptr:
		if v.IsNil() {
			w.b.WriteString("nil")
			return
		}
		addr := v.Pointer()
		fmt.Fprintf(&w.b, "&%x", addr)
		et := v.Type().Elem()
		if inputPkgs[et.PkgPath()] || w.seen[addr] {
			return
		}
		w.seen[addr] = true
		w.val(v.Elem(), depth+1)
	case reflect.Struct:
		t := v.Type()
		w.b.WriteString(t.Name() + "{")
		for i := 0; i < v.NumField(); i++ {
			w.b.WriteString(t.Field(i).Name + "=")
			w.val(v.Field(i), depth+1)
			w.b.WriteString(";")
		}
		w.b.WriteString("}")
	case reflect.Slice, reflect.Array:
		if v.Kind() == reflect.Slice && v.IsNil() {
			w.b.WriteString("nil[]")
			return
		}
		n := v.Len()
		fmt.Fprintf(&w.b, "[%d:", n)
		for i := 0; i < n && i < 64; i++ {
			w.val(v.Index(i), depth+1)
			w.b.WriteString(",")
		}
		w.b.WriteString("]")
	case reflect.Map:
		if v.IsNil() {
			w.b.WriteString("nilmap")
			return
		}
		fmt.Fprintf(&w.b, "map#%d@%x{", v.Len(), v.Pointer())
		var ents []string
		it := v.MapRange()
		for it.Next() {
			kw := &deepWalker{seen: w.seen}
			kw.val(it.Key(), depth+1)
			kw.b.WriteString("=>")
			kw.val(it.Value(), depth+1)
			ents = append(ents, kw.b.String())
		}
		sort.Strings(ents)
		if len(ents) > 64 {
			ents = ents[:64]
		}
		w.b.WriteString(strings.Join(ents, ","))
		w.b.WriteString("}")
	default:
		w.b.WriteString("?")
	}
}

// DeepCtx renders every field of the context, one "name=value" entry per top-level field.
func DeepCtx(c *linter.Context) []string {
	v := reflect.ValueOf(c).Elem()
	t := v.Type()
	out := make([]string, 0, v.NumField())
	for i := 0; i < v.NumField(); i++ {
		w := &deepWalker{seen: map[uintptr]bool{}}
		w.val(v.Field(i), 0)
		out = append(out, t.Field(i).Name+"="+w.b.String())
	}
	return out
}

// DiffDeep names the top-level fields whose rendering differs.
func DiffDeep(a, b []string) []string {
	var d []string
	for i := range a {
		if i < len(b) && a[i] != b[i] {
			d = append(d, clip(a[i])+"  ->  "+clip(b[i]))
		}
	}
	return d
}

// ---- walker-level state (astwalk) ----

// WalkerState renders the scalar state (bools, ints, strings, lengths) of every value of a type declared in
// checkers/internal/astwalk that is reachable from the checker's FileWalker: the walker itself and the
// astwalk.WalkHandler embedded in its visitor. These are protocol flags (one-shot SkipChilds, ...): between two
// files they must be back in the state they had right after construction.
func WalkerState(c *linter.Checker) string {
	v := reflect.ValueOf(c).Elem().FieldByName("fileWalker")
	var out []string
	seen := map[uintptr]bool{}
	var rec func(v reflect.Value, depth int, path string)
	rec = func(v reflect.Value, depth int, path string) {
		if depth > 12 {
			return
		}
		switch v.Kind() {
		case reflect.Interface:
			if !v.IsNil() {
				rec(v.Elem(), depth+1, path)
			}
		case reflect.Ptr:
			if v.IsNil() || seen[v.Pointer()] {
				return
			}
			pp := v.Type().Elem().PkgPath()
			if inputPkgs[pp] || strings.HasSuffix(pp, "go-critic/linter") {
				return
			}
			seen[v.Pointer()] = true
			rec(v.Elem(), depth+1, path)
		case reflect.Struct:
			t := v.Type()
			isWalk := strings.HasSuffix(t.PkgPath(), "internal/astwalk")
			for i := 0; i < v.NumField(); i++ {
				f := v.Field(i)
				name := path + t.Name() + "." + t.Field(i).Name
				if isWalk {
					switch f.Kind() {
					case reflect.Bool:
						out = append(out, fmt.Sprintf("%s=%v", name, f.Bool()))
					case reflect.Int, reflect.Int8, reflect.Int16, reflect.Int32, reflect.Int64:
						out = append(out, fmt.Sprintf("%s=%d", name, f.Int()))
					case reflect.String:
						out = append(out, fmt.Sprintf("%s=%q", name, f.String()))
					case reflect.Slice, reflect.Map:
						out = append(out, fmt.Sprintf("%s=len%d", name, f.Len()))
					}
				}
				switch f.Kind() {
				case reflect.Interface, reflect.Ptr, reflect.Struct:
					rec(f, depth+1, path)
				}
			}
		}
	}
	rec(v, 0, "")
	sort.Strings(out)
	return strings.Join(out, ";")
}

// ASTShape summarises what a removal would change: number of declarations, imports, comment groups and nodes per kind.
func ASTShape(f *ast.File) string {
	kinds := map[string]int{}
	ast.Inspect(f, func(n ast.Node) bool {
		if n != nil {
			kinds[strings.TrimPrefix(fmt.Sprintf("%T", n), "*ast.")]++
		}
		return true
	})
	var ks []string
	for k, n := range kinds {
		ks = append(ks, fmt.Sprintf("%s:%d", k, n))
	}
	sort.Strings(ks)
	return fmt.Sprintf("decls=%d imports=%d comments=%d %s", len(f.Decls), len(f.Imports), len(f.Comments), strings.Join(ks, " "))
}
