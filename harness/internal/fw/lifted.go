package fw

import (
	"go/ast"
	"go/parser"
	"go/token"
	"os"
	"path/filepath"
	"sort"
	"strings"

	"verifharness/internal/common"
)

// LoadLifted derives, from every example package with standard-library imports, a variant in which every plain function
// `func name(params) results { body }` is followed by a PACKAGE-LEVEL initialiser carrying the same code:
// `var nameLifted = func(params) results { body }`. Expression-level walkers visit package-level declarations but call
// EnterFunc only for functions, so anything a checker decides "per function" (and keeps in a field) is stale while it
// looks at the initialiser that follows; the reorder / padding transforms of C13 then change what is reported for the
// initialiser. The maintainers' examples contain no reportable package-level initialisers between functions.
func LoadLifted(fset *token.FileSet, scratch string) ([]*Pkg, error) {
	mod := filepath.Join(scratch, "liftmod")
	os.RemoveAll(mod)
	common.WriteFile(filepath.Join(mod, "go.mod"), "module liftmod\n\ngo 1.21\n")
	dirs, _ := filepath.Glob(filepath.Join(common.RepoDir, "checkers", "testdata", "*"))
	sort.Strings(dirs)
	n := 0
	for _, dir := range dirs {
		base := filepath.Base(dir)
		if strings.HasPrefix(base, "_") || strings.HasPrefix(base, ".") {
			continue
		}
		files, _ := filepath.Glob(filepath.Join(dir, "*.go"))
		out := map[string]string{}
		ok, lifted := len(files) > 0, 0
		for _, fn := range files {
			src, err := os.ReadFile(fn)
			if err != nil {
				ok = false
				break
			}
			text, k, good := liftFuncs(src)
			if !good {
				ok = false
				break
			}
			lifted += k
			out[filepath.Base(fn)] = text
		}
		if !ok || lifted == 0 {
			continue
		}
		for name, text := range out {
			common.WriteFile(filepath.Join(mod, "lift_"+base, name), text)
		}
		n++
	}
	if n == 0 {
		return nil, nil
	}
	pkgs, err := LoadDirs(fset, mod, "S2", []string{"./..."})
	if err != nil {
		return nil, err
	}
	var good []*Pkg
	for _, p := range pkgs {
		if len(p.Errors) == 0 {
			good = append(good, p)
		}
	}
	return good, nil
}

func liftFuncs(src []byte) (text string, lifted int, good bool) {
	fs := token.NewFileSet()
	f, err := parser.ParseFile(fs, "x.go", src, parser.ParseComments)
	if err != nil {
		return "", 0, false
	}
	for _, im := range f.Imports {
		path := strings.Trim(im.Path.Value, "\"`")
		if strings.Contains(strings.SplitN(path, "/", 2)[0], ".") {
			return "", 0, false
		}
	}
	names := map[string]bool{}
	for _, d := range f.Decls {
		switch d := d.(type) {
		case *ast.FuncDecl:
			names[d.Name.Name] = true
		case *ast.GenDecl:
			for _, sp := range d.Specs {
				switch sp := sp.(type) {
				case *ast.ValueSpec:
					for _, n := range sp.Names {
						names[n.Name] = true
					}
				case *ast.TypeSpec:
					names[sp.Name.Name] = true
				}
			}
		}
	}
	type ins struct {
		off  int
		text string
	}
	var inserts []ins
	off := func(p token.Pos) int { return fs.Position(p).Offset }
	for _, d := range f.Decls {
		fd, ok := d.(*ast.FuncDecl)
		if !ok || fd.Recv != nil || fd.Body == nil || fd.Type.TypeParams != nil || fd.Name.Name == "init" || fd.Name.Name == "main" || fd.Name.Name == "_" {
			continue
		}
		name := fd.Name.Name + "Lifted"
		if names[name] {
			continue
		}
		code := string(src[off(fd.Type.Params.Pos()):off(fd.Body.End())])
		inserts = append(inserts, ins{off(fd.End()), "\n\nvar " + name + " = func" + code + "\n"})
		lifted++
	}
	sort.Slice(inserts, func(i, j int) bool { return inserts[i].off > inserts[j].off })
	out := string(src)
	for _, in := range inserts {
		out = out[:in.off] + in.text + out[in.off:]
	}
	return out, lifted, true
}
