// Package c07 projects the shared crash/position/namesake oracle run (internal/corpus) on property C07.
package c07

import (
	"verifharness/internal/common"
	"verifharness/internal/corpus"
)

func Run(tier string, seed int64, outDir string) *common.Meta {
	s, dir := corpus.Get(tier, seed)
	m := corpus.MetaFor("C07", s, dir, outDir)
	cliStage(m, outDir)
	return m
}
