package c07

// CLI stage of C07: what a front-end PRINTS must be usable. For both CLIs and one analysis binary, over several
// path layouts (file below the working directory, below a sub-directory of it, outside it with a path that contains the
// working directory's path, path components with '%', blanks and non-ASCII letters), every printed location must
// resolve (relative to the working directory, after $GOPATH / $GOROOT expansion) to one of the analysed files, and the
// text at line:column of that file must be the start of a token or comment.

import (
	"fmt"
	"os"
	"path/filepath"
	"regexp"
	"strconv"
	"strings"
	"sync"
	"time"

	"verifharness/internal/common"
	"verifharness/internal/corpus"
)

const cliSrc = "package %s\n\nimport \"strings\"\n\n// %s é ünïcode before the code\nfunc %s(xs []int, s string) bool {\n\tt := \"é\" + s\n\tif len(t) == 0 { /* c */ return len(xs) >= 0 }\n\treturn strings.Index(t, \"é\") >= 0 && (len(xs) < 0)\n}\n"

var cliLoc = regexp.MustCompile(`^(.+?):(\d+):(\d+): `)

func expandLoc(wd, gp, gr, s string) string {
	switch {
	case strings.HasPrefix(s, "./"):
		return filepath.Join(wd, s[2:])
	case strings.HasPrefix(s, "$GOPATH/"):
		return filepath.Join(gp, s[len("$GOPATH/"):])
	case strings.HasPrefix(s, "$GOROOT/"):
		return filepath.Join(gr, s[len("$GOROOT/"):])
	case !filepath.IsAbs(s):
		return filepath.Join(wd, s)
	}
	return s
}

func cliStage(meta *common.Meta, outDir string) {
	base, err := filepath.EvalSymlinks(outDir)
	if err != nil {
		base = outDir
	}
	base = filepath.Join(base, "cli")
	os.RemoveAll(base)
	files := map[string][]byte{} // absolute path -> source
	write := func(path, pkg, fn string) {
		src := fmt.Sprintf(cliSrc, pkg, fn, fn)
		if pkg == "main" {
			src += "\nfunc main() {}\n"
		}
		common.WriteFile(path, src)
		files[path] = []byte(src)
	}
	mod := filepath.Join(base, "srv", "app")
	common.WriteFile(filepath.Join(mod, "go.mod"), "module app\n\ngo 1.20\n")
	write(filepath.Join(mod, "zero.go"), "app", "Zero")
	write(filepath.Join(mod, "sub", "one.go"), "sub", "One")
	blank := filepath.Join(base, "dir with blank")
	write(filepath.Join(blank, "two.go"), "main", "Two")
	outside := filepath.Join(base, "backup"+mod, "zero.go") // <base>/backup/<base>/srv/app/zero.go: contains the cwd path
	write(outside, "main", "Outside")
	odd := filepath.Join(base, "my %20 prøject", "100%", "%s%d", "p.go")
	write(odd, "main", "Odd")
	gp := filepath.Join(base, "gopath")
	common.Must(os.MkdirAll(gp, 0o755))
	gr := ""
	if out, _, err := common.Run(20*time.Second, "", common.GoEnv(), "go", "env", "GOROOT"); err == nil {
		gr = strings.TrimSpace(out)
	}
	type layout struct {
		name string
		cwd  string
		args []string
	}
	layouts := []layout{
		{"file below cwd (module root)", mod, []string{"./..."}},
		{"cwd is a sub-directory", filepath.Join(mod, "sub"), []string{"./...", "app"}},
		{"file outside cwd, its path contains the cwd path", mod, []string{outside}},
		{"path with %, blanks and non-ASCII", mod, []string{odd}},
		{"cwd with a blank, relative file argument", blank, []string{"two.go"}},
	}
	enable := "sloppyLen,emptyStringTest,wrapperFunc,commentFormatting"
	type job struct {
		lay  layout
		exe  string
		args []string
	}
	var jobs []job
	for _, l := range layouts {
		jobs = append(jobs,
			job{l, "go-critic", append([]string{"check", "-enable=" + enable}, l.args...)},
			job{l, "gocritic", append([]string{"check", "-enable=" + enable}, l.args...)},
			job{l, "go-critic-analysis", append([]string{"-enable=" + enable, "-disable="}, l.args...)})
	}
	var mu sync.Mutex
	var wg sync.WaitGroup
	sem := make(chan struct{}, 6)
	lines, runs := 0, 0
	starts := map[string]map[int]bool{}
	for p, src := range files {
		starts[p] = corpus.TokenStarts(src)
	}
	for _, j := range jobs {
		wg.Add(1)
		go func(j job) {
			defer wg.Done()
			sem <- struct{}{}
			defer func() { <-sem }()
			env := append(common.GoEnv(), "GOPATH="+gp, "GOFLAGS=-mod=mod", "GO111MODULE=on")
			so, se, _, err := common.RunSplit(90*time.Second, j.lay.cwd, env, filepath.Join(common.BinDir(), j.exe), j.args...)
			mu.Lock()
			defer mu.Unlock()
			runs++
			if err != nil {
				meta.Notes = append(meta.Notes, fmt.Sprintf("cli stage: %s %v in %s: %v", j.exe, j.args, j.lay.cwd, err))
				return
			}
			n := 0
			for _, l := range strings.Split(so+"\n"+se, "\n") {
				m := cliLoc.FindStringSubmatch(l)
				if m == nil || strings.HasPrefix(l, "#") {
					continue
				}
				n++
				lines++
				full := expandLoc(j.lay.cwd, gp, gr, m[1])
				w := map[string]interface{}{"binary": j.exe, "args": j.args, "cwd": j.lay.cwd, "layout": j.lay.name, "line": l, "resolved": full}
				src, ok := files[full]
				if !ok {
					meta.Fail("C07/cli/printed-location-unresolvable",
						fmt.Sprintf("%s (cwd %s) prints location %q which resolves to %q: not an analysed file", j.exe, j.lay.cwd, m[1], full), w)
					continue
				}
				ln, _ := strconv.Atoi(m[2])
				col, _ := strconv.Atoi(m[3])
				off := -1
				cur := 1
				for i := 0; i <= len(src); i++ {
					if cur == ln {
						off = i + col - 1
						break
					}
					if i < len(src) && src[i] == '\n' {
						cur++
					}
				}
				if off < 0 || off >= len(src) || !starts[full][off] {
					meta.Fail("C07/cli/printed-location-not-token-start",
						fmt.Sprintf("%s prints %s:%d:%d; that place of %s is not the start of a token or comment", j.exe, m[1], ln, col, full), w)
				}
			}
			if n == 0 {
				meta.Fail("C07/cli/no-diagnostics-printed", fmt.Sprintf("%s %v in %s printed no diagnostic line (the inputs contain sloppyLen/emptyStringTest/wrapperFunc triggers)", j.exe, j.args, j.lay.cwd),
					map[string]interface{}{"binary": j.exe, "args": j.args, "cwd": j.lay.cwd, "stdout": clip(so), "stderr": clip(se)})
			}
		}(j)
	}
	wg.Wait()
	if meta.Distribution == nil {
		meta.Distribution = map[string]interface{}{}
	}
	meta.Distribution["cli_stage"] = map[string]interface{}{"runs": runs, "printed_locations": lines, "layouts": len(layouts), "binaries": 3}
	meta.Evaluations += lines
}

func clip(s string) string {
	if len(s) > 600 {
		return s[:600] + "..."
	}
	return s
}
