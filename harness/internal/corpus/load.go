// Package corpus is the shared oracle harness of C01/C07/C20: it loads test packages
// (S1 testdata of the repository, S2 hand-written stress packages, S3 seeded mutants),
// runs every registered checker over every file under recover + watchdog and applies the
// three implementation-level oracles. It never consults the Coq model.
package corpus

import (
	"fmt"
	"go/ast"
	"go/importer"
	"go/parser"
	"go/token"
	"go/types"
	"os"
	"path/filepath"
	"runtime"
	"sort"
	"strings"
	"sync"

	"golang.org/x/tools/go/packages"

	"verifharness/internal/common"
)

// File is one source file of a test package.
type File struct {
	Name string // base name
	Src  []byte
	AST  *ast.File

	endsOnce sync.Once
	ends     map[int]int
	endSet   map[int]bool
}

func (f *File) computeEnds() {
	f.endsOnce.Do(func() {
		f.ends = TokenEnds(f.Src)
		f.endSet = map[int]bool{}
		for _, e := range f.ends {
			f.endSet[e] = true
		}
	})
}

func (f *File) tokenEnds() map[int]int    { f.computeEnds(); return f.ends }
func (f *File) tokenEndSet() map[int]bool { f.computeEnds(); return f.endSet }

// Pkg is a parsed and type-checked package.
type Pkg struct {
	Stream    string // "S1", "S2", "S3"
	Name      string // e.g. "S1/appendAssign", "S2/namesake_append", "S3/appendAssign#m12"
	Fset      *token.FileSet
	Files     []*File
	Types     *types.Package
	Info      *types.Info
	Origin    string          // for S3: mutator description
	Focus     string          // when set, only this file is analysed (the other files are context)
	FocusAlso map[string]bool // further files analysed after the focus file (same checker instances)

	ClaimCheck  string      // near-miss inputs: "*" or the name of the re-typed variable; suggested fixes touching it must still type-check
	Fresh       bool        // run with freshly constructed hand-written checker instances (no state from earlier files)
	DefaultOnly bool        // S4: run the default parameter variant of every checker only
	BaseKey     string      // S4 layout variants: "<base package>/<file>" whose diagnostics must coincide
	Ins         []insertion // S4 layout variants: the inserted blanks (for mapping offsets back)
	InsWhat     string      // what was inserted when it is not blanks between tokens (names the oracle class context-dependent-position)
}

var Sizes = types.SizesFor("gc", runtime.GOARCH)

// VerifRoot is the root of the verification framework checkout (parent of harness/).
func VerifRoot() string {
	if d := os.Getenv("VERIF_ROOT"); d != "" {
		return d
	}
	// VERIF_BIN = <root>/work/bin
	if b := os.Getenv("VERIF_BIN"); b != "" {
		return filepath.Dir(filepath.Dir(b))
	}
	if exe, err := os.Executable(); err == nil {
		return filepath.Dir(filepath.Dir(filepath.Dir(exe)))
	}
	return "/verif"
}

func StressDir() string { return filepath.Join(VerifRoot(), "corpus", "stress") }

var (
	impMu    sync.Mutex
	impKnown = map[string]*types.Package{}
	srcImp   types.Importer
	srcFset  = token.NewFileSet()
)

// mapImporter resolves imports from the packages that go/packages already loaded and
// falls back to type-checking from source (std only).
type mapImporter struct{}

func (mapImporter) Import(path string) (*types.Package, error) {
	impMu.Lock()
	defer impMu.Unlock()
	if path == "unsafe" {
		return types.Unsafe, nil
	}
	if p, ok := impKnown[path]; ok && p != nil && p.Complete() {
		return p, nil
	}
	if strings.HasPrefix(path, "stresslib/") {
		// user packages of the stress corpus that share their name with a standard package
		p, err := checkStressLib(path)
		if err == nil {
			impKnown[path] = p
		}
		return p, err
	}
	if srcImp == nil {
		srcImp = importer.ForCompiler(srcFset, "source", nil)
	}
	p, err := srcImp.Import(path)
	if err == nil {
		impKnown[path] = p
	}
	return p, err
}

// StressLibs lists the user packages under corpus/stress/_lib (import path stresslib/<name>).
func StressLibs() []string {
	ents, _ := os.ReadDir(filepath.Join(StressDir(), "_lib"))
	var out []string
	for _, e := range ents {
		if e.IsDir() {
			out = append(out, e.Name())
		}
	}
	sort.Strings(out)
	return out
}

func checkStressLib(path string) (*types.Package, error) {
	dir := filepath.Join(StressDir(), "_lib", strings.TrimPrefix(path, "stresslib/"))
	files, _ := filepath.Glob(filepath.Join(dir, "*.go"))
	if len(files) == 0 {
		return nil, fmt.Errorf("no stress library %s", path)
	}
	sort.Strings(files)
	var asts []*ast.File
	for _, fn := range files {
		f, err := parser.ParseFile(Fset, fn, nil, parser.ParseComments)
		if err != nil {
			return nil, err
		}
		asts = append(asts, f)
	}
	conf := types.Config{Importer: importer.ForCompiler(srcFset, "source", nil), Sizes: Sizes}
	return conf.Check(path, Fset, asts, nil)
}

func remember(p *packages.Package, seen map[*packages.Package]bool) {
	if seen[p] {
		return
	}
	seen[p] = true
	if p.Types != nil && p.Types.Complete() {
		impMu.Lock()
		if _, ok := impKnown[p.PkgPath]; !ok {
			impKnown[p.PkgPath] = p.Types
		}
		impMu.Unlock()
	}
	for _, q := range p.Imports {
		remember(q, seen)
	}
}

func newInfo() *types.Info {
	return &types.Info{
		Types:      map[ast.Expr]types.TypeAndValue{},
		Instances:  map[*ast.Ident]types.Instance{},
		Defs:       map[*ast.Ident]types.Object{},
		Uses:       map[*ast.Ident]types.Object{},
		Implicits:  map[ast.Node]types.Object{},
		Selections: map[*ast.SelectorExpr]*types.Selection{},
		Scopes:     map[ast.Node]*types.Scope{},
	}
}

// loadPatterns loads packages through go/packages (one `go list` call).
func loadPatterns(dir string, stream string, prefix string, patterns ...string) ([]*Pkg, []string, error) {
	fset := Fset
	cfg := &packages.Config{
		Mode: packages.NeedName | packages.NeedFiles | packages.NeedCompiledGoFiles | packages.NeedImports |
			packages.NeedTypes | packages.NeedSyntax | packages.NeedTypesInfo | packages.NeedTypesSizes,
		Dir:  dir,
		Fset: fset,
		Env:  common.GoEnv(),
	}
	pkgs, err := packages.Load(cfg, patterns...)
	if err != nil {
		return nil, nil, err
	}
	var out []*Pkg
	var skipped []string
	seen := map[*packages.Package]bool{}
	sort.Slice(pkgs, func(i, j int) bool { return pkgs[i].PkgPath < pkgs[j].PkgPath })
	for _, p := range pkgs {
		remember(p, seen)
		short := p.PkgPath
		if i := strings.LastIndex(short, "/"); i >= 0 {
			short = short[i+1:]
		}
		if len(p.Errors) != 0 || p.Types == nil || p.TypesInfo == nil {
			skipped = append(skipped, fmt.Sprintf("%s/%s: %v", stream, short, firstErr(p)))
			continue
		}
		pk := &Pkg{Stream: stream, Name: prefix + short, Fset: fset, Types: p.Types, Info: p.TypesInfo}
		for i, f := range p.Syntax {
			fn := p.CompiledGoFiles[i]
			src, err := os.ReadFile(fn)
			if err != nil {
				return nil, nil, err
			}
			pk.Files = append(pk.Files, &File{Name: filepath.Base(fn), Src: src, AST: f})
		}
		if len(pk.Files) == 0 {
			continue
		}
		out = append(out, pk)
	}
	return out, skipped, nil
}

func firstErr(p *packages.Package) string {
	if len(p.Errors) > 0 {
		return p.Errors[0].Error()
	}
	return "no type information"
}

// LoadS1 loads every package under <repo>/checkers/testdata (directories starting with '_' are
// support packages and are only loaded as dependencies).
func LoadS1() ([]*Pkg, []string, error) {
	// the go tool ignores directories named testdata in "..." patterns: list them explicitly
	root := filepath.Join(common.RepoDir, "checkers", "testdata")
	ents, err := os.ReadDir(root)
	if err != nil {
		return nil, nil, err
	}
	var pats []string
	for _, e := range ents {
		if !e.IsDir() || strings.HasPrefix(e.Name(), "_") || strings.HasPrefix(e.Name(), ".") {
			continue
		}
		if m, _ := filepath.Glob(filepath.Join(root, e.Name(), "*.go")); len(m) == 0 {
			continue
		}
		pats = append(pats, "./checkers/testdata/"+e.Name())
	}
	return loadPatterns(common.RepoDir, "S1", "S1/", pats...)
}

// LoadS2 loads the hand-written stress packages <verif>/corpus/stress/<name>.
func LoadS2() ([]*Pkg, []string, error) {
	dir := StressDir()
	ents, err := os.ReadDir(dir)
	if err != nil {
		return nil, nil, err
	}
	var out []*Pkg
	var skipped []string
	for _, e := range ents {
		if !e.IsDir() || strings.HasPrefix(e.Name(), "_") {
			continue
		}
		srcs := map[string][]byte{}
		fs, _ := filepath.Glob(filepath.Join(dir, e.Name(), "*.go"))
		sort.Strings(fs)
		for _, f := range fs {
			b, err := os.ReadFile(f)
			if err != nil {
				return nil, nil, err
			}
			srcs[filepath.Base(f)] = b
		}
		if len(srcs) == 0 {
			continue
		}
		p, err := TypeCheck("S2", "S2/"+e.Name(), filepath.Join(dir, e.Name()), srcs)
		if err != nil {
			skipped = append(skipped, fmt.Sprintf("S2/%s: %v", e.Name(), err))
			continue
		}
		out = append(out, p)
	}
	out = append(out, GenShapes()...)
	return out, skipped, nil
}

// TypeCheck parses and type-checks a package given as name -> source; an error means the
// package is not a legal input for the properties (it is then discarded by the callers).
//
// The rule engine re-reads analysed files from disk by file name (ruleguard nodeText), so every file is
// materialised: dir is the directory holding the files ("" = a fresh scratch directory is written).
func TypeCheck(stream, name, dir string, srcs map[string][]byte) (*Pkg, error) {
	fset := Fset
	if dir == "" {
		dir = scratchDir()
		for n, b := range srcs {
			if err := os.WriteFile(filepath.Join(dir, n), b, 0o644); err != nil {
				return nil, err
			}
		}
	}
	names := make([]string, 0, len(srcs))
	for n := range srcs {
		names = append(names, n)
	}
	sort.Strings(names)
	pk := &Pkg{Stream: stream, Name: name, Fset: fset, Info: newInfo()}
	var asts []*ast.File
	for _, n := range names {
		f, err := parser.ParseFile(fset, filepath.Join(dir, n), srcs[n], parser.ParseComments)
		if err != nil {
			return nil, err
		}
		pk.Files = append(pk.Files, &File{Name: n, Src: srcs[n], AST: f})
		asts = append(asts, f)
	}
	var firstErr error
	conf := types.Config{
		Importer: mapImporter{},
		Sizes:    Sizes,
		Error: func(err error) {
			if firstErr == nil {
				firstErr = err
			}
		},
	}
	tp, _ := conf.Check(asts[0].Name.Name, fset, asts, pk.Info)
	if firstErr != nil {
		return nil, firstErr
	}
	pk.Types = tp
	return pk, nil
}

var (
	scratchMu sync.Mutex
	scratchN  int
)

// ScratchRoot holds materialised mutants and shrink candidates; removed by CleanScratch.
func ScratchRoot() string {
	return filepath.Join(VerifRoot(), "work", "crashrun", fmt.Sprintf("scratch-%d", os.Getpid()))
}

func scratchDir() string {
	scratchMu.Lock()
	scratchN++
	n := scratchN
	scratchMu.Unlock()
	d := filepath.Join(ScratchRoot(), fmt.Sprintf("%05d", n))
	common.Must(os.MkdirAll(d, 0o755))
	return d
}

func CleanScratch() {
	if os.Getenv("VERIF_KEEP_SCRATCH") == "" {
		os.RemoveAll(ScratchRoot())
	}
}

// Sources returns the package's files as a name -> source map (copy).
func (p *Pkg) Sources() map[string][]byte {
	m := map[string][]byte{}
	for _, f := range p.Files {
		m[f.Name] = f.Src
	}
	return m
}
