package corpus

// Further S4 transforms (round 5): callee forms inside closures, block doc comments, CRLF line ends, anonymous
// function-literal parameters. Like the others they are applied to every base file they are applicable to, the
// result is re-type-checked, and nothing in them names a checker.

import (
	"bytes"
	"fmt"
	"go/ast"
	"go/token"
	"go/types"
	"strings"
)

// ---------- callee-forms ----------
// Every call `f(args)` / `q.F(args)` that sits inside a function literal or is the call of a defer/go statement and
// whose callee denotes a declared function (not a builtin, conversion, method value of a local or generic function) gets
// its callee replaced by an expression of the same type that is NOT an identifier:
//
//	form 0: element of a slice literal      []T{f}[0](args)
//	form 1: result of a call                func() T { return f }()(args)
//	form 2: field of a struct literal       struct{ g T }{f}.g(args)
//	form 3: parenthesised, in a map         (map[bool]T{true: (f)})[true](args)
//
// T is the callee's signature printed with the file's own package qualifiers.
func sysCalleeForms(p *Pkg, f *File, form int) []edit {
	qual := func(pk *types.Package) string {
		if pk == p.Types {
			return ""
		}
		for _, im := range f.AST.Imports {
			path := strings.Trim(im.Path.Value, `"`)
			if path == pk.Path() {
				if im.Name != nil {
					if im.Name.Name == "." || im.Name.Name == "_" {
						return "\x00"
					}
					return im.Name.Name
				}
				return pk.Name()
			}
		}
		return "\x00" // not importable by name in this file
	}
	var eds []edit
	seen := map[*ast.CallExpr]bool{}
	consider := func(call *ast.CallExpr) {
		if seen[call] {
			return
		}
		seen[call] = true
		var id *ast.Ident
		switch fn := call.Fun.(type) {
		case *ast.Ident:
			id = fn
		case *ast.SelectorExpr:
			if q, ok := fn.X.(*ast.Ident); ok {
				if _, isPkg := p.Info.ObjectOf(q).(*types.PkgName); isPkg {
					id = fn.Sel
				}
			}
		}
		if id == nil {
			return
		}
		fobj, ok := p.Info.ObjectOf(id).(*types.Func)
		if !ok {
			return
		}
		sig, ok := fobj.Type().(*types.Signature)
		if !ok || sig.Recv() != nil || sig.TypeParams().Len() > 0 {
			return
		}
		ts := types.TypeString(sig, qual)
		if strings.Contains(ts, "\x00") {
			return
		}
		callee := string(f.Src[off(call.Fun.Pos()):off(call.Fun.End())])
		var repl string
		switch form {
		case 0:
			repl = fmt.Sprintf("[]%s{%s}[0]", ts, callee)
		case 1:
			repl = fmt.Sprintf("func() %s { return %s }()", ts, callee)
		case 2:
			repl = fmt.Sprintf("struct{ g %s }{%s}.g", ts, callee)
		default:
			repl = fmt.Sprintf("(map[bool]%s{true: (%s)})[true]", ts, callee)
		}
		eds = append(eds, edit{off(call.Fun.Pos()), off(call.Fun.End()), repl})
	}
	var inLit func(n ast.Node)
	inLit = func(n ast.Node) {
		ast.Inspect(n, func(x ast.Node) bool {
			if c, ok := x.(*ast.CallExpr); ok {
				consider(c)
				// nested callee replacements would overlap: do not descend into the callee
				for _, a := range c.Args {
					inLit(a)
				}
				return false
			}
			return true
		})
	}
	ast.Inspect(f.AST, func(n ast.Node) bool {
		switch x := n.(type) {
		case *ast.FuncLit:
			inLit(x.Body)
			return false
		case *ast.DeferStmt:
			if _, lit := x.Call.Fun.(*ast.FuncLit); !lit {
				consider(x.Call)
			}
		case *ast.GoStmt:
			if _, lit := x.Call.Fun.(*ast.FuncLit); !lit {
				consider(x.Call)
			}
		}
		return true
	})
	return eds
}

// ---------- doc-block ----------
// Every doc comment made of // lines (function, general declaration, spec, struct field) is rewritten as ONE multi-line
// block comment holding the same lines:
//
//	// A          /*
//	// B    =>     A
//	               B
//	              */
//
// Directive-like lines (//go:, //nolint, //line, // +build) keep the group as it is.
func sysDocBlock(f *File) []edit {
	var eds []edit
	done := map[*ast.CommentGroup]bool{}
	conv := func(cg *ast.CommentGroup) {
		if cg == nil || done[cg] || len(cg.List) == 0 {
			return
		}
		done[cg] = true
		var lines []string
		for _, c := range cg.List {
			if !strings.HasPrefix(c.Text, "//") {
				return
			}
			t := c.Text[2:]
			if strings.HasPrefix(t, "go:") || strings.HasPrefix(t, "line ") || strings.HasPrefix(t, "nolint") || strings.HasPrefix(t, " +build") ||
				strings.HasPrefix(t, "export ") || strings.Contains(t, "*/") {
				return
			}
			lines = append(lines, t)
		}
		// indentation of the comment's line
		start := off(cg.Pos())
		ls := start
		for ls > 0 && f.Src[ls-1] != '\n' {
			ls--
		}
		indent := string(f.Src[ls:start])
		if strings.TrimSpace(indent) != "" {
			return // trailing comment after code on the same line
		}
		var b strings.Builder
		b.WriteString("/*\n")
		for _, l := range lines {
			b.WriteString(indent + l + "\n")
		}
		b.WriteString(indent + "*/")
		eds = append(eds, edit{start, off(cg.End()), b.String()})
	}
	ast.Inspect(f.AST, func(n ast.Node) bool {
		switch x := n.(type) {
		case *ast.FuncDecl:
			conv(x.Doc)
		case *ast.GenDecl:
			conv(x.Doc)
		case *ast.TypeSpec:
			conv(x.Doc)
		case *ast.ValueSpec:
			conv(x.Doc)
		case *ast.Field:
			conv(x.Doc)
		}
		return true
	})
	return eds
}

// ---------- crlf ----------
// Every line end becomes \r\n. go/scanner drops the \r from comment texts and raw strings, so nothing a checker may
// legitimately look at changes; the insertions map offsets back for the layout oracle.
func sysCRLF(src []byte) ([]edit, []insertion) {
	if bytes.Contains(src, []byte("\r")) {
		return nil, nil
	}
	var eds []edit
	var ins []insertion
	for i, c := range src {
		if c == '\n' {
			eds = append(eds, edit{i, i, "\r"})
			ins = append(ins, insertion{i, 1})
		}
	}
	return eds, ins
}

// ---------- anon-params ----------
// Parameters of function literals that the body never mentions lose their names (variant 0: all names of the literal are
// dropped when none is used, `func(int, ...string)`; variant 1: unused names become blank, `func(_ int, _ ...string)`).
func sysAnonParams(p *Pkg, f *File, variant int) []edit {
	var eds []edit
	ast.Inspect(f.AST, func(n ast.Node) bool {
		lit, ok := n.(*ast.FuncLit)
		if !ok || lit.Type.Params == nil || len(lit.Type.Params.List) == 0 {
			return true
		}
		used := map[types.Object]bool{}
		ast.Inspect(lit.Body, func(x ast.Node) bool {
			if id, ok := x.(*ast.Ident); ok {
				if o := p.Info.Uses[id]; o != nil {
					used[o] = true
				}
			}
			return true
		})
		var names []*ast.Ident
		anyUsed, anyNamed := false, false
		for _, fld := range lit.Type.Params.List {
			for _, nm := range fld.Names {
				anyNamed = true
				names = append(names, nm)
				if nm.Name != "_" && used[p.Info.Defs[nm]] {
					anyUsed = true
				}
			}
		}
		if !anyNamed {
			return true
		}
		if variant == 0 {
			if anyUsed {
				return true
			}
			// drop every name: `a, b int, c ...string` => `int, int, ...string`
			var parts []string
			for _, fld := range lit.Type.Params.List {
				ts := string(f.Src[off(fld.Type.Pos()):off(fld.Type.End())])
				k := len(fld.Names)
				if k == 0 {
					k = 1
				}
				for i := 0; i < k; i++ {
					parts = append(parts, ts)
				}
			}
			eds = append(eds, edit{off(lit.Type.Params.Opening) + 1, off(lit.Type.Params.Closing), strings.Join(parts, ", ")})
			return true
		}
		for _, nm := range names {
			if nm.Name != "_" && !used[p.Info.Defs[nm]] {
				eds = append(eds, edit{off(nm.Pos()), off(nm.End()), "_"})
			}
		}
		return true
	})
	return eds
}

var _ = token.NoPos

// ---------- split-decls ----------
// The package-level const / var / type declarations of the file move, with their doc comments, into a second file of
// the same package (zz_moved_decls.go); imports they need are repeated there, imports the first file no longer uses
// become blank imports. What the analysed file flags then refers to declarations of ANOTHER file.
func sysSplitDecls(p *Pkg, f *File) ([]edit, map[string][]byte) {
	for _, im := range f.AST.Imports {
		if im.Name != nil && im.Name.Name == "." || strings.Trim(im.Path.Value, `"`) == "C" {
			return nil, nil
		}
	}
	type rng struct{ a, b int }
	var moved []rng
	for _, d := range f.AST.Decls {
		gd, ok := d.(*ast.GenDecl)
		if !ok || gd.Tok == token.IMPORT {
			continue
		}
		a := off(gd.Pos())
		if gd.Doc != nil {
			a = off(gd.Doc.Pos())
		}
		moved = append(moved, rng{a, off(gd.End())})
	}
	if len(moved) == 0 {
		return nil, nil
	}
	inMoved := func(o int) bool {
		for _, r := range moved {
			if o >= r.a && o < r.b {
				return true
			}
		}
		return false
	}
	// uses of package qualifiers inside / outside the moved text
	usedIn, usedOut := map[*types.PkgName]bool{}, map[*types.PkgName]bool{}
	ast.Inspect(f.AST, func(n ast.Node) bool {
		if id, ok := n.(*ast.Ident); ok {
			if pn, ok := p.Info.Uses[id].(*types.PkgName); ok {
				if inMoved(off(id.Pos())) {
					usedIn[pn] = true
				} else {
					usedOut[pn] = true
				}
			}
		}
		return true
	})
	var eds []edit
	var b strings.Builder
	fmt.Fprintf(&b, "package %s\n\n", f.AST.Name.Name)
	for _, im := range f.AST.Imports {
		pn, _ := p.Info.Implicits[im].(*types.PkgName)
		if im.Name != nil {
			pn, _ = p.Info.Defs[im.Name].(*types.PkgName)
		}
		if pn == nil {
			continue
		}
		spec := string(f.Src[off(im.Pos()):off(im.End())])
		if usedIn[pn] {
			b.WriteString("import " + spec + "\n")
		}
		if !usedOut[pn] && (im.Name == nil || im.Name.Name != "_") {
			eds = append(eds, edit{off(im.Pos()), off(im.End()), "_ " + im.Path.Value})
		}
	}
	b.WriteString("\n")
	for _, r := range moved {
		b.Write(f.Src[r.a:r.b])
		b.WriteString("\n\n")
		eds = append(eds, edit{r.a, r.b, ""})
	}
	return eds, map[string][]byte{"zz_moved_decls.go": []byte(b.String())}
}

// ---------- unicode-strings ----------
// Every interpreted string literal that is an operand of an expression (not an import path, not a struct tag) gets 45
// two-byte letters appended: code quoted by a message is then longer than any fixed byte budget and full of multi-byte runes.
func sysUnicodeStrings(f *File) []edit {
	skip := map[*ast.BasicLit]bool{}
	ast.Inspect(f.AST, func(n ast.Node) bool {
		switch x := n.(type) {
		case *ast.ImportSpec:
			skip[x.Path] = true
		case *ast.Field:
			if x.Tag != nil {
				skip[x.Tag] = true
			}
		}
		return true
	})
	var eds []edit
	ast.Inspect(f.AST, func(n ast.Node) bool {
		lit, ok := n.(*ast.BasicLit)
		if !ok || lit.Kind != token.STRING || skip[lit] || !strings.HasPrefix(lit.Value, "\"") {
			return true
		}
		end := off(lit.End()) - 1
		eds = append(eds, edit{end, end, strings.Repeat("Ж", 45)})
		return true
	})
	return eds
}

// ---------- prepend-stmt ----------
// Every function body gets the statement `_ = 0` in front of its first statement. Nothing a diagnostic is about changes, so
// every diagnostic of the original file must re-appear at the same place (offsets mapped back through the insertions): a
// diagnostic that lands on the inserted statement was anchored at "the first statement of the block", not at its subject.
func sysPrependStmt(f *File) ([]edit, []insertion) {
	var eds []edit
	var ins []insertion
	for _, d := range f.AST.Decls {
		fd, ok := d.(*ast.FuncDecl)
		if !ok || fd.Body == nil || len(fd.Body.List) == 0 {
			continue
		}
		at := off(fd.Body.List[0].Pos())
		text := "_ = 0; "
		eds = append(eds, edit{at, at, text})
		ins = append(ins, insertion{at, len(text)})
	}
	return eds, ins
}

// ---------- comment-prose ----------
// Every line comment `//X` that stands on a line of its own becomes `// note: //X` (variant 0) or `/* note: //X */` (variant
// 1): the comment's own text, slashes included, now follows other prose inside a comment. A diagnostic about the comment
// must still sit at the start of a comment; one computed as "comment start + offset of the matched text" does not.
func sysCommentProse(f *File, variant int) []edit {
	var eds []edit
	for _, cg := range f.AST.Comments {
		for _, c := range cg.List {
			if !strings.HasPrefix(c.Text, "//") || strings.Contains(c.Text, "*/") {
				continue
			}
			start := off(c.Pos())
			ls := start
			for ls > 0 && f.Src[ls-1] != '\n' {
				ls--
			}
			if strings.TrimSpace(string(f.Src[ls:start])) != "" {
				continue
			}
			if variant == 0 {
				eds = append(eds, edit{start, start, "// note: "})
			} else {
				eds = append(eds, edit{start, off(c.End()), "/* note: " + c.Text + " */"})
			}
		}
	}
	return eds
}
