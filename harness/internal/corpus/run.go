package corpus

import (
	"fmt"
	"go/token"
	"os"
	"path/filepath"
	"regexp"
	"runtime"
	"sort"
	"strings"
	"sync"
	"time"

	"github.com/go-critic/go-critic/linter"

	"verifharness/internal/load"
)

// Fset is shared by everything the harness parses (token.FileSet is synchronised).
var Fset = token.NewFileSet()

// Watchdog is the per-Check time limit.
var Watchdog = 10 * time.Second

var initOnce sync.Once

// Infos returns all registered checkers (hand-written + embedded rule groups).
func Infos() []*linter.CheckerInfo {
	initOnce.Do(load.InitRules)
	var out []*linter.CheckerInfo
	for _, info := range linter.GetCheckersInfo() {
		if strings.HasPrefix(info.Name, "zzProbe") {
			continue
		}
		out = append(out, info)
	}
	return out
}

// Variant is a checker together with one parameter assignment.
type Variant struct {
	Info    *linter.CheckerInfo
	Tag     string                 // "" = defaults, else "param=value"
	Values  map[string]interface{} // overrides
	MayFail bool                   // the constructor may legitimately return an error for this setting
}

func (v Variant) String() string {
	if v.Tag == "" {
		return v.Info.Name
	}
	return v.Info.Name + "{" + v.Tag + "}"
}

const hugeInt = 1 << 40

// Variants enumerates, for every checker, the default setting plus one-at-a-time overrides:
// booleans both ways, numeric parameters at {0, 1, default, huge}. String parameters (only the
// dynamic ruleguard checker has them; C18/C19 cover those) keep their defaults.
func Variants(infos []*linter.CheckerInfo) []Variant {
	var out []Variant
	for _, info := range infos {
		out = append(out, Variant{Info: info})
		keys := make([]string, 0, len(info.Params))
		for k := range info.Params {
			keys = append(keys, k)
		}
		sort.Strings(keys)
		for _, k := range keys {
			switch def := info.Params[k].Value.(type) {
			case bool:
				out = append(out, Variant{Info: info, Tag: fmt.Sprintf("%s=%v", k, !def), Values: map[string]interface{}{k: !def}})
			case int:
				for _, n := range []int{0, 1, hugeInt} {
					if n != def {
						out = append(out, Variant{Info: info, Tag: fmt.Sprintf("%s=%d", k, n), Values: map[string]interface{}{k: n}})
					}
				}
				// negative values: a constructor may refuse them (an error is fine), a Check call must not crash
				out = append(out, Variant{Info: info, Tag: fmt.Sprintf("%s=%d", k, -1), Values: map[string]interface{}{k: -1}, MayFail: true})
			}
		}
		if info.Name == "ruleguard" {
			out = append(out, ruleguardVariants(info)...)
		}
	}
	return out
}

// UserRulesFile is the user rule file the dynamic ruleguard checker is run with.
func UserRulesFile() string {
	return filepath.Join(VerifRoot(), "corpus", "framework_rules", "typed_rules.go")
}

// UserCommentRulesFile holds MatchComment rules.
func UserCommentRulesFile() string {
	return filepath.Join(VerifRoot(), "corpus", "framework_rules", "comment_rules.go")
}

var reRuleGroup = regexp.MustCompile(`(?m)^func (\w+)\(m dsl\.Matcher\)`)

// ruleguardVariants: the dynamic checker with a user rules file, and every string parameter at values drawn from the
// domain it names: debug = each loaded group / an unknown group; enable, disable = groups, tags, unknown names;
// failOn = its documented values and an undocumented one; failOnError. A constructor that returns an error is a
// legitimate outcome for these (C18/C19 decide which); a panic is not.
func ruleguardVariants(info *linter.CheckerInfo) []Variant {
	rules := UserRulesFile()
	data, err := os.ReadFile(rules)
	if err != nil {
		return nil
	}
	if more, err := os.ReadFile(UserCommentRulesFile()); err == nil {
		data = append(append(data, '\n'), more...)
		rules += "," + UserCommentRulesFile()
	}
	var groups []string
	for _, m := range reRuleGroup.FindAllStringSubmatch(string(data), -1) {
		groups = append(groups, m[1])
	}
	mk := func(tag string, kv ...interface{}) Variant {
		vals := map[string]interface{}{"rules": rules}
		for i := 0; i+1 < len(kv); i += 2 {
			vals[kv[i].(string)] = kv[i+1]
		}
		return Variant{Info: info, Tag: "rules=user," + tag, Values: vals, MayFail: true}
	}
	out := []Variant{mk("defaults")}
	for _, g := range append(append([]string{}, groups...), "noSuchGroup") {
		out = append(out, mk("debug="+g, "debug", g))
		out = append(out, mk("enable="+g, "enable", g))
		out = append(out, mk("disable="+g, "disable", g))
	}
	out = append(out, mk("enable=#diagnostic", "enable", "#diagnostic"), mk("disable=#experimental", "disable", "#experimental"),
		mk("enable=empty", "enable", ""), mk("enable="+strings.Join(groups, ","), "enable", strings.Join(groups, ",")),
		mk("debug+disable", "debug", groups[0], "disable", groups[0]))
	for _, fo := range []string{"all", "import", "dsl", "import,dsl", "bogus"} {
		out = append(out, mk("failOn="+fo, "failOn", fo))
	}
	out = append(out, mk("failOnError", "failOnError", true))
	return out
}

// paramMu serialises the window in which CheckerInfo.Params (global) differ from the defaults.
var paramMu sync.Mutex

func newChecker(ctx *linter.Context, v Variant) (c *linter.Checker, err error) {
	paramMu.Lock()
	defer paramMu.Unlock()
	saved := map[string]interface{}{}
	for k, val := range v.Values {
		saved[k] = v.Info.Params[k].Value
		v.Info.Params[k].Value = val
	}
	defer func() {
		for k, val := range saved {
			v.Info.Params[k].Value = val
		}
		if r := recover(); r != nil {
			err = fmt.Errorf("constructor panic: %v", r)
		}
	}()
	return linter.NewChecker(ctx, v.Info)
}

// Diag is one diagnostic as observed.
type Diag struct {
	Pos    token.Pos
	Text   string
	HasFix bool
	From   token.Pos
	To     token.Pos
	Repl   string
}

// PanicInfo describes a recovered panic.
type PanicInfo struct {
	Msg   string
	Kind  string // index-out-of-range, slice-bounds, nil-deref, type-assertion, explicit-panic
	Func  string // innermost frame inside the go-critic module (short name)
	Stack []string
}

// Class is the stable defect class: panic kind + function that performed the partial operation.
func (p *PanicInfo) Class() string { return p.Kind + "@" + p.Func }

// Outcome of one Checker.Check call.
type Outcome struct {
	Diags   []Diag
	Panic   *PanicInfo
	Timeout bool
	Err     string // constructor error
	Skipped bool   // not run (S4 packages run default parameter variants only)
}

func panicKind(msg string) string {
	switch {
	case strings.Contains(msg, "index out of range"):
		return "index-out-of-range"
	case strings.Contains(msg, "slice bounds out of range"):
		return "slice-bounds"
	case strings.Contains(msg, "nil pointer dereference"):
		return "nil-deref"
	case strings.Contains(msg, "interface conversion"):
		return "type-assertion"
	case strings.Contains(msg, "nil map"):
		return "nil-map-write"
	case strings.Contains(msg, "divide by zero"):
		return "divide-by-zero"
	default:
		return "explicit-panic"
	}
}

func capturePanic(r interface{}) *PanicInfo {
	p := &PanicInfo{Msg: fmt.Sprint(r)}
	p.Kind = panicKind(p.Msg)
	pcs := make([]uintptr, 64)
	n := runtime.Callers(3, pcs)
	frames := runtime.CallersFrames(pcs[:n])
	for {
		fr, more := frames.Next()
		fn := fr.Function
		if fn != "" && !strings.HasPrefix(fn, "runtime.") {
			if len(p.Stack) < 12 {
				p.Stack = append(p.Stack, fmt.Sprintf("%s (%s:%d)", fn, shortFile(fr.File), fr.Line))
			}
			if p.Func == "" && strings.Contains(fn, "go-critic/go-critic/") && !strings.Contains(fn, "verifharness") {
				p.Func = shortFunc(fn)
			}
		}
		if !more {
			break
		}
	}
	if p.Func == "" && len(p.Stack) > 0 {
		p.Func = shortFunc(strings.SplitN(p.Stack[0], " ", 2)[0])
	}
	return p
}

func shortFile(f string) string {
	if i := strings.LastIndex(f, "/"); i >= 0 {
		return f[i+1:]
	}
	return f
}

// shortFunc: "github.com/x/y/checkers.(*fooChecker).bar.func1" -> "fooChecker.bar"
func shortFunc(fn string) string {
	if i := strings.LastIndex(fn, "/"); i >= 0 {
		fn = fn[i+1:]
	}
	if i := strings.Index(fn, "."); i >= 0 {
		pkg := fn[:i]
		fn = fn[i+1:]
		if pkg != "checkers" {
			fn = pkg + "." + fn
		}
	}
	fn = strings.NewReplacer("(*", "", ")", "").Replace(fn)
	// drop closure suffixes .func1.2
	for {
		i := strings.LastIndex(fn, ".")
		if i < 0 {
			break
		}
		suf := fn[i+1:]
		if strings.HasPrefix(suf, "func") || isDigits(suf) {
			fn = fn[:i]
			continue
		}
		break
	}
	return fn
}

func isDigits(s string) bool {
	if s == "" {
		return false
	}
	for _, c := range s {
		if c < '0' || c > '9' {
			return false
		}
	}
	return true
}

// Runner owns one linter.Context and one checker instance per variant.
type Runner struct {
	ctx      *linter.Context
	variants []Variant
	inst     []*linter.Checker
	errs     []string
}

func NewRunner(variants []Variant) *Runner {
	r := &Runner{variants: variants}
	r.reset()
	return r
}

func (r *Runner) reset() {
	r.ctx = linter.NewContext(Fset, Sizes)
	r.inst = make([]*linter.Checker, len(r.variants))
	r.errs = make([]string, len(r.variants))
	for i, v := range r.variants {
		c, err := newChecker(r.ctx, v)
		if err != nil {
			r.errs[i] = err.Error()
			continue
		}
		r.inst[i] = c
	}
}

// Refresh replaces the instances of all hand-written checkers by freshly constructed ones (the embedded rule checkers
// keep no state between files and are expensive to construct).
func (r *Runner) Refresh() {
	for i, v := range r.variants {
		if v.Info.EmbeddedRuleguard || v.MayFail {
			continue
		}
		c, err := newChecker(r.ctx, v)
		if err != nil {
			r.inst[i], r.errs[i] = nil, err.Error()
			continue
		}
		r.inst[i], r.errs[i] = c, ""
	}
}

// SetPkg must be called before CheckFile for files of p.
func (r *Runner) SetPkg(p *Pkg) {
	r.ctx.SetPackageInfo(p.Info, p.Types)
}

// CheckFile runs variant i over file f of the package set by SetPkg.
func (r *Runner) CheckFile(i int, f *File) Outcome {
	if r.inst[i] == nil {
		return Outcome{Err: r.errs[i]}
	}
	c := r.inst[i]
	done := make(chan Outcome, 1)
	go func() {
		var out Outcome
		defer func() {
			if rec := recover(); rec != nil {
				out.Panic = capturePanic(rec)
				out.Diags = nil
			}
			done <- out
		}()
		r.ctx.SetFileInfo(f.Name, f.AST)
		ws := c.Check(f.AST)
		out.Diags = make([]Diag, len(ws))
		for k, w := range ws {
			out.Diags[k] = Diag{Pos: w.Pos, Text: w.Text, HasFix: w.HasQuickFix(), From: w.Suggestion.From, To: w.Suggestion.To, Repl: string(w.Suggestion.Replacement)}
		}
	}()
	timer := time.NewTimer(Watchdog)
	defer timer.Stop()
	select {
	case out := <-done:
		if out.Panic != nil {
			// the instance may be in an inconsistent state: replace it
			nc, err := newChecker(r.ctx, r.variants[i])
			if err != nil {
				r.inst[i], r.errs[i] = nil, err.Error()
			} else {
				r.inst[i] = nc
			}
		}
		return out
	case <-timer.C:
		// the goroutine cannot be killed; abandon this context and all instances
		r.reset()
		return Outcome{Timeout: true}
	}
}
