package corpus

import (
	"encoding/json"
	"fmt"
	"go/ast"
	"go/scanner"
	"go/token"
	"go/types"
	"os"
	"path/filepath"
	"regexp"
	"sort"
	"strings"
	"sync"
	"unicode/utf8"

	"verifharness/internal/synth"
)

// ---------- C07: positions and message text ----------

// TokenStarts returns the byte offsets at which a token or a comment of src starts,
// computed by an independent go/scanner pass (automatically inserted semicolons excluded).
func TokenStarts(src []byte) map[int]bool {
	fs := token.NewFileSet()
	tf := fs.AddFile("x.go", -1, len(src))
	var s scanner.Scanner
	s.Init(tf, src, nil, scanner.ScanComments)
	starts := map[int]bool{}
	for {
		pos, tok, lit := s.Scan()
		if tok == token.EOF {
			break
		}
		if tok == token.SEMICOLON && lit == "\n" {
			continue
		}
		starts[tf.Offset(pos)] = true
	}
	return starts
}

// TokenEnds maps the start offset of every token/comment to its end offset (exclusive).
func TokenEnds(src []byte) map[int]int {
	fs := token.NewFileSet()
	tf := fs.AddFile("x.go", -1, len(src))
	var s scanner.Scanner
	s.Init(tf, src, nil, scanner.ScanComments)
	ends := map[int]int{}
	for {
		pos, tok, lit := s.Scan()
		if tok == token.EOF {
			break
		}
		if tok == token.SEMICOLON && lit == "\n" {
			continue
		}
		n := len(lit)
		if n == 0 || tok == token.SEMICOLON {
			n = len(tok.String())
		}
		ends[tf.Offset(pos)] = tf.Offset(pos) + n
	}
	return ends
}

// SortedStarts returns the token starts as a sorted list.
func SortedStarts(m map[int]bool) []int {
	out := make([]int, 0, len(m))
	for k := range m {
		out = append(out, k)
	}
	sort.Ints(out)
	return out
}

var artefacts = []string{"<nil>", "PANIC=", "BadExpr", "BadStmt", "BadDecl"}

// what package fmt writes when verbs and operands do not fit: %!v(MISSING), %!d(string=x), %!(EXTRA ..), %!)(BADINDEX), %!(NOVERB)
var fmtArtefact = regexp.MustCompile(`%!(.|\pL)?\((MISSING|EXTRA |BADINDEX|BADWIDTH|BADPREC|NOVERB|PANIC=|[A-Za-z_.*\[\]0-9{} ]+=)`)

// a ruleguard template placeholder that reached the user unexpanded: $$, $name or $*name
var placeholderArtefact = regexp.MustCompile(`\$(\$|\*\w*|[A-Za-z_]\w*)`)

// C07Failure is one violated clause for one diagnostic.
type C07Failure struct {
	Class string
	What  string
}

// CheckC07 applies the position/text oracle to one diagnostic of file f.
func CheckC07(f *File, starts map[int]bool, d Diag) []C07Failure {
	var out []C07Failure
	tf := Fset.File(f.AST.Pos())
	inFile := func(p token.Pos) bool {
		return p.IsValid() && Fset.File(p) == tf
	}
	switch {
	case !d.Pos.IsValid():
		out = append(out, C07Failure{"no-position", "diagnostic has token.NoPos"})
	case !inFile(d.Pos):
		out = append(out, C07Failure{"foreign-file", fmt.Sprintf("diagnostic position is in %s, not in the analysed file", Fset.Position(d.Pos).Filename)})
	default:
		off := tf.Offset(d.Pos)
		if !starts[off] {
			out = append(out, C07Failure{"not-token-start", fmt.Sprintf("offset %d (%s) is not the start of a token or comment", off, posStr(d.Pos))})
		}
	}
	if d.HasFix {
		switch {
		case !inFile(d.From) || !inFile(d.To) || tf.Offset(d.To) > len(f.Src):
			out = append(out, C07Failure{"fix-outside-file", "fix range is not inside the analysed file"})
		case d.From > d.To:
			out = append(out, C07Failure{"fix-inverted", fmt.Sprintf("fix range From=%d > To=%d", d.From, d.To)})
		default:
			// an edit replaces whole tokens: it starts where a token/comment starts and ends where one ends;
			// an edit that starts at a comment covers exactly that comment
			from, to := tf.Offset(d.From), tf.Offset(d.To)
			ends := f.tokenEnds()
			endSet := f.tokenEndSet()
			switch {
			case !starts[from] && from != to:
				out = append(out, C07Failure{"fix-not-token-aligned", fmt.Sprintf("fix range starts at offset %d inside a token", from)})
			case from != to && !endSet[to]:
				out = append(out, C07Failure{"fix-not-token-aligned", fmt.Sprintf("fix range [%d,%d) does not end at the end of a token or comment", from, to)})
			case from != to && isCommentAt(f.Src, from) && ends[from] != to:
				out = append(out, C07Failure{"fix-not-token-aligned", fmt.Sprintf("fix range [%d,%d) starts at a comment that ends at %d", from, to, ends[from])})
			}
		}
	}
	if strings.TrimSpace(d.Text) == "" {
		out = append(out, C07Failure{"empty-text", "diagnostic message is empty"})
	}
	if !utf8.ValidString(d.Text) && utf8.Valid(f.Src) {
		out = append(out, C07Failure{"text-invalid-utf8", fmt.Sprintf("message is not valid UTF-8 although the analysed file is (a multi-byte character was cut): %q", clip(d.Text, 160))})
	}
	if m := placeholderArtefact.FindString(d.Text); m != "" && !strings.Contains(string(f.Src), m) {
		out = append(out, C07Failure{"text-placeholder", fmt.Sprintf("message contains the unexpanded template placeholder %q: %s", m, clip(d.Text, 160))})
	}
	if m := fmtArtefact.FindString(d.Text); m != "" && !strings.Contains(string(f.Src), m) {
		out = append(out, C07Failure{"text-artefact", fmt.Sprintf("message contains the fmt error marker %q: %s", m, clip(d.Text, 160))})
	} else {
		for _, a := range artefacts {
			if strings.Contains(d.Text, a) {
				// the artefact must not simply be quoted source text
				if a == "<nil>" && quotedFromSource(f, d, a) {
					continue
				}
				out = append(out, C07Failure{"text-artefact", fmt.Sprintf("message contains %q: %s", a, clip(d.Text, 160))})
				break
			}
		}
	}
	return out
}

func isCommentAt(src []byte, off int) bool {
	return off+1 < len(src) && src[off] == '/' && (src[off+1] == '/' || src[off+1] == '*')
}

// quotedFromSource: the analysed file itself contains the artefact text (e.g. a string literal "%!s"), so its
// presence in a message that quotes code is not a formatting failure.
func quotedFromSource(f *File, d Diag, a string) bool {
	return strings.Contains(string(f.Src), a)
}

func posStr(p token.Pos) string {
	ps := Fset.Position(p)
	return fmt.Sprintf("%s:%d:%d", filepath.Base(ps.Filename), ps.Line, ps.Column)
}

func clip(s string, n int) string {
	if len(s) > n {
		return s[:n] + "..."
	}
	return s
}

// ---------- C20: subject table ----------

// Subject is an API a checker's diagnostics are about.
type Subject struct {
	Pkg  string // import path; "" = universe (builtin function, type or nil)
	Name string // function name
	Qual string // usual spelling of the package qualifier ("regexp"), "" for universe
}

// Family groups spellings of one API family so that finding keys do not depend on which member a corpus happens to use.
func (s Subject) Family() string {
	switch {
	case s.Pkg == "" && (strings.HasPrefix(s.Name, "int") || strings.HasPrefix(s.Name, "uint")):
		return "intN-cast"
	case s.Pkg == "log" && strings.HasPrefix(s.Name, "Fatal"):
		return "log.Fatal*"
	case s.Pkg == "regexp" && (strings.HasPrefix(s.Name, "Compile") || strings.HasPrefix(s.Name, "MustCompile")):
		return "regexp.Compile*"
	case s.Pkg == "sort" && strings.HasPrefix(s.Name, "Slice"):
		return "sort.Slice*"
	case s.Pkg == "flag":
		return "flag.*"
	}
	return s.Spelling()
}

func (s Subject) Spelling() string {
	if s.Qual == "" {
		return s.Name
	}
	return s.Qual + "." + s.Name
}

func bi(names ...string) []Subject {
	var out []Subject
	for _, n := range names {
		out = append(out, Subject{Name: n})
	}
	return out
}

func pf(path, qual string, names ...string) []Subject {
	var out []Subject
	for _, n := range names {
		out = append(out, Subject{Pkg: path, Name: n, Qual: qual})
	}
	return out
}

var handSubjects = map[string][]Subject{
	"appendAssign":   bi("append"),
	"appendCombine":  bi("append"),
	"rangeAppendAll": bi("append"),
	"newDeref":       bi("new"),
	"nilValReturn":   bi("nil"),
	"truncateCmp":    bi("int8", "int16", "int32", "uint8", "uint16", "uint32"),
	"badRegexp":      pf("regexp", "regexp", "Compile", "MustCompile"),
	"regexpPattern":  pf("regexp", "regexp", "Compile", "CompilePOSIX", "MustCompile", "MustCompilePosix", "MustCompilePOSIX"),
	"regexpSimplify": pf("regexp", "regexp", "Compile", "MustCompile"),
	"sortSlice":      pf("sort", "sort", "Slice", "SliceStable"),
	"filepathJoin":   pf("path/filepath", "filepath", "Join"),
	"exitAfterDefer": append(pf("log", "log", "Fatal", "Fatalf", "Fatalln"), pf("os", "os", "Exit")...),
	"flagName": pf("flag", "flag", "Bool", "Duration", "Float64", "String", "Int", "Int64", "Uint", "Uint64",
		"BoolVar", "DurationVar", "Float64Var", "StringVar", "IntVar", "Int64Var", "UintVar", "Uint64Var"),
}

var stdQual = map[string]string{
	"strings": "strings", "bytes": "bytes", "fmt": "fmt", "http": "net/http", "httptest": "net/http/httptest",
	"regexp": "regexp", "filepath": "path/filepath", "flag": "flag", "sort": "sort", "time": "time", "unicode": "unicode",
	"utf8": "unicode/utf8", "draw": "image/draw", "image": "image", "os": "os", "io": "io", "ioutil": "io/ioutil", "sync": "sync",
	"atomic": "sync/atomic", "math": "math", "errors": "errors", "reflect": "reflect", "context": "context", "sql": "database/sql",
	"path": "path", "log": "log", "slices": "slices", "maps": "maps", "cmp": "cmp", "strconv": "strconv", "url": "net/url", "json": "encoding/json", "rand": "math/rand",
}

var (
	ruleSubjOnce sync.Once
	ruleSubjects map[string][]Subject
	reFuncDecl   = regexp.MustCompile(`(?m)^func (\w+)\(m dsl\.Matcher\) \{`)
	reMatchArg   = regexp.MustCompile("(?s)m\\.Match\\((.*?)\\)\\.")
	rePkgCall    = regexp.MustCompile(`(^|[^\w.$])([a-z][a-z0-9]*)\.([A-Z]\w*)\(`)
	rePkgName    = regexp.MustCompile(`(^|[^\w.$])([a-z][a-z0-9]*)\.([A-Z]\w*)`)
	reBuiltin    = regexp.MustCompile(`(^|[^\w.$])(append|new|len|copy|cap|make|delete|panic)\(`)
	reStrLit     = regexp.MustCompile("`[^`]*`|\"(?:[^\"\\\\]|\\\\.)*\"")
)

// SubjectInventoryFile is the committed semantic-precondition inventory: rule group -> API functions its patterns and
// messages named when the inventory was taken (VERIF_WRITE_SUBJECTS=1 vh c20 ... rewrites it from the current rules.go).
func SubjectInventoryFile() string {
	return filepath.Join(VerifRoot(), "corpus", "c20_subject_inventory.json")
}

// irGroup is what the subject derivation reads of one embedded rule group: the patterns and texts of the IR the
// checkers EXECUTE (rulesdata.PrecompiledRules of the analysed repository, linked into this binary), not the text of rules.go.
type irGroup struct {
	Name     string
	Patterns []string // syntax patterns of all rules
	Texts    []string // report / suggest templates and the source text of the filters
}

func irGroups() []irGroup {
	var out []irGroup
	byName := map[string]int{}
	for _, t := range synth.Targets(nil) {
		i, ok := byName[t.Group]
		if !ok {
			i = len(out)
			byName[t.Group] = i
			out = append(out, irGroup{Name: t.Group})
		}
		out[i].Patterns = append(out[i].Patterns, t.Pattern)
		out[i].Texts = append(out[i].Texts, t.Rule.ReportTemplate, t.Rule.SuggestTemplate, t.Rule.WhereExpr.Src)
	}
	return out
}

// RuleSubjects derives, for every embedded rule group, the builtin / std functions spelled in the patterns and
// messages of its executed IR (plus the committed inventory, which survives edits that drop the textual mention).
func RuleSubjects() map[string][]Subject {
	ruleSubjOnce.Do(func() {
		ruleSubjects = map[string][]Subject{}
		inventory := map[string][]Subject{}
		if inv, err := os.ReadFile(SubjectInventoryFile()); err == nil {
			json.Unmarshal(inv, &inventory)
		}
		for _, g := range irGroups() {
			name := g.Name
			seen := map[Subject]bool{}
			for _, pat := range g.Patterns {
				for _, m := range rePkgCall.FindAllStringSubmatch(pat, -1) {
					if path, ok := stdQual[m[2]]; ok {
						seen[Subject{Pkg: path, Name: m[3], Qual: m[2]}] = true
					}
				}
				for _, m := range reBuiltin.FindAllStringSubmatch(pat, -1) {
					seen[Subject{Name: m[2]}] = true
				}
			}
			// Report / Suggest / Where texts name the API as well ("possible sync.OnceFunc misuse", "use strings.Cut")
			for _, lit := range g.Texts {
				for _, m := range rePkgName.FindAllStringSubmatch(lit, -1) {
					if path, ok := stdQual[m[2]]; ok {
						seen[Subject{Pkg: path, Name: m[3], Qual: m[2]}] = true
					}
				}
			}
			for _, s := range inventory[name] {
				seen[s] = true
			}
			for s := range seen {
				ruleSubjects[name] = append(ruleSubjects[name], s)
			}
			sort.Slice(ruleSubjects[name], func(a, b int) bool { return ruleSubjects[name][a].Spelling() < ruleSubjects[name][b].Spelling() })
		}
		if os.Getenv("VERIF_WRITE_SUBJECTS") != "" {
			if data, err := json.MarshalIndent(ruleSubjects, "", " "); err == nil {
				os.WriteFile(SubjectInventoryFile(), data, 0o644)
			}
		}
	})
	return ruleSubjects
}

var (
	ruleMethOnce sync.Once
	ruleMethods  map[string]*MethodSubjects
	reTypeIs     = regexp.MustCompile("Type\\.Is\\(`\\*?([a-z][a-z0-9]*)\\.([A-Z]\\w*)`\\)")
	reVarMethod  = regexp.MustCompile(`\$\w+\.([A-Z]\w*)\(`)
)

// MethodSubjects: a rule group that filters a pattern variable on a package type (m["t"].Type.Is(`time.Time`)) and
// whose patterns call methods on pattern variables ($t.Unix()) makes claims about that type's methods.
type MethodSubjects struct {
	Pkgs    map[string]string // import path -> "pkg.Type" as written in the filter
	Methods map[string]bool
}

func RuleMethodSubjects() map[string]*MethodSubjects {
	ruleMethOnce.Do(func() {
		ruleMethods = map[string]*MethodSubjects{}
		for _, g := range irGroups() {
			ms := &MethodSubjects{Pkgs: map[string]string{}, Methods: map[string]bool{}}
			// package types named by the filters, and packages whose API the messages recommend (`use time.Since`):
			// a method-call pattern of such a group is a claim about the methods of that package's types
			for _, txt := range g.Texts {
				for _, m := range reTypeIs.FindAllStringSubmatch(txt, -1) {
					if path, ok := stdQual[m[1]]; ok {
						ms.Pkgs[path] = m[1] + "." + m[2]
					}
				}
			}
			for _, pat := range g.Patterns {
				for _, m := range reVarMethod.FindAllStringSubmatch(pat, -1) {
					ms.Methods[m[1]] = true
				}
			}
			if len(ms.Pkgs) > 0 && len(ms.Methods) > 0 {
				ruleMethods[g.Name] = ms
			}
		}
	})
	return ruleMethods
}

// CheckC20Method: a diagnostic of a rule group with method subjects that starts at a method call x.M(...) (M one of
// the group's methods, x not a package) is about M of the filtered package type: the selected method must be declared
// in that package (a promoted method of an embedded time.Time is; an overriding or unrelated user method is not).
func CheckC20Method(p *Pkg, f *File, checker string, d Diag) *C20Finding {
	ms := RuleMethodSubjects()[checker]
	if ms == nil || !d.Pos.IsValid() || Fset.File(d.Pos) != Fset.File(f.AST.Pos()) {
		return nil
	}
	// the flagged node: the outermost expression or statement that starts at the diagnostic position
	var flagged ast.Node
	ast.Inspect(f.AST, func(n ast.Node) bool {
		if n == nil || flagged != nil {
			return false
		}
		if _, isFile := n.(*ast.File); !isFile && (n.Pos() > d.Pos || n.End() <= d.Pos) {
			return false
		}
		switch n.(type) {
		case ast.Expr, ast.Stmt:
			if n.Pos() == d.Pos {
				flagged = n
				return false
			}
		}
		return true
	})
	if flagged == nil {
		return nil
	}
	// a call x.M(...) at the flagged position decides alone (the rule matched that call); a flagged STATEMENT (if-init and
	// statement-list patterns) is about every x.M(...) in its header and body whose M is one of the group's methods
	var found *C20Finding
	_, stmtShaped := flagged.(ast.Stmt)
	ast.Inspect(flagged, func(n ast.Node) bool {
		if c, ok := n.(*ast.CallExpr); ok && c.Pos() == d.Pos {
			stmtShaped = false // the statement begins with the call the rule matched
		}
		return true
	})
	ast.Inspect(flagged, func(n ast.Node) bool {
		if n == nil || found != nil {
			return false
		}
		if _, lit := n.(*ast.FuncLit); lit {
			return false
		}
		c, ok := n.(*ast.CallExpr)
		if !ok || (!stmtShaped && c.Pos() != d.Pos) {
			return true
		}
		sel, ok := c.Fun.(*ast.SelectorExpr)
		if !ok || !ms.Methods[sel.Sel.Name] {
			return true
		}
		if id, ok := sel.X.(*ast.Ident); ok {
			if _, isPkg := p.Info.Uses[id].(*types.PkgName); isPkg {
				return true
			}
		}
		obj := p.Info.Uses[sel.Sel]
		if fn, ok := obj.(*types.Func); ok && fn.Pkg() != nil {
			if _, real := ms.Pkgs[fn.Pkg().Path()]; real {
				return true
			}
		}
		var tys []string
		for _, t := range ms.Pkgs {
			tys = append(tys, t)
		}
		sort.Strings(tys)
		recv := ""
		if t := p.Info.TypeOf(sel.X); t != nil {
			recv = " on a value of type " + t.String()
		}
		found = &C20Finding{Subject: strings.Join(tys, "|") + " method", Spelled: types.ExprString(sel), Resolves: describeObj(obj) + recv}
		return false
	})
	return found
}

// SubjectsOf returns the subject list of a checker (nil when it has no API subject).
func SubjectsOf(checker string) []Subject {
	if s, ok := handSubjects[checker]; ok {
		return s
	}
	return RuleSubjects()[checker]
}

// calleeSpelling mirrors how a callee is written: "f" or "q.f" ("" otherwise).
func calleeSpelling(fun ast.Expr) (string, *ast.Ident, *ast.Ident) {
	// parentheses, index expressions and explicit instantiations are looked through: `append[k](..)`, `(sort.Slice[int])(..)`
	// are spelled like the subject and resolve to whatever the indexed identifier resolves to
	for {
		switch p := fun.(type) {
		case *ast.ParenExpr:
			fun = p.X
			continue
		case *ast.IndexExpr:
			fun = p.X
			continue
		case *ast.IndexListExpr:
			fun = p.X
			continue
		}
		break
	}
	switch x := fun.(type) {
	case *ast.Ident:
		return x.Name, nil, x
	case *ast.SelectorExpr:
		if q, ok := x.X.(*ast.Ident); ok {
			return q.Name + "." + x.Sel.Name, q, x.Sel
		}
		// a selector chain rooted at an identifier: flag.CommandLine.Bool is spelled like flag.Bool
		root := x.X
		for {
			if s, ok := root.(*ast.SelectorExpr); ok {
				root = s.X
				continue
			}
			break
		}
		if q, ok := root.(*ast.Ident); ok {
			return q.Name + "." + x.Sel.Name, q, x.Sel
		}
	}
	return "", nil, nil
}

// C20Finding is a diagnostic about a namesake.
type C20Finding struct {
	Subject  string // family, part of the finding key
	Spelled  string
	Resolves string
	Form     string // "" for f(..)/q.f(..); "-behind-index" when the callee is an index expression or an instantiation
}

// CheckC20 looks for the call whose callee is spelled like one of the checker's subjects at / around / under
// the diagnostic position and resolves that callee through types.Info.Uses.
func CheckC20(p *Pkg, f *File, checker string, d Diag) *C20Finding {
	subs := SubjectsOf(checker)
	if len(subs) == 0 || !d.Pos.IsValid() || Fset.File(d.Pos) != Fset.File(f.AST.Pos()) {
		return nil
	}
	if checker == "nilValReturn" {
		return checkNilSubject(p, f, d)
	}
	bySpelling := map[string]Subject{}
	for _, s := range subs {
		bySpelling[s.Spelling()] = s
	}
	// candidate calls: (a) smallest call with a subject spelling whose extent contains the position,
	// (b) otherwise the first such call inside the outermost statement/expression that starts at the position.
	var enclosing *ast.CallExpr
	var under *ast.CallExpr
	var outer ast.Node
	ast.Inspect(f.AST, func(n ast.Node) bool {
		if n == nil {
			return false
		}
		if _, isFile := n.(*ast.File); !isFile && (n.Pos() > d.Pos || n.End() <= d.Pos) {
			return false
		}
		if c, ok := n.(*ast.CallExpr); ok {
			if sp, _, _ := calleeSpelling(c.Fun); sp != "" {
				if _, ok := bySpelling[sp]; ok {
					enclosing = c // inner ones overwrite outer ones
				}
			}
		}
		if outer == nil && n.Pos() == d.Pos {
			switch n.(type) {
			case ast.Stmt, ast.Expr:
				outer = n
			}
		}
		return true
	})
	call := enclosing
	if call == nil && outer != nil {
		ast.Inspect(outer, func(n ast.Node) bool {
			if under != nil {
				return false
			}
			if c, ok := n.(*ast.CallExpr); ok {
				if sp, _, _ := calleeSpelling(c.Fun); sp != "" {
					if _, ok := bySpelling[sp]; ok {
						under = c
						return false
					}
				}
			}
			return true
		})
		call = under
	}
	if call == nil {
		if _, hand := handSubjects[checker]; hand {
			return checkMethodSubject(p, f, subs, d)
		}
		return checkAnyQualifier(p, f, subs, d)
	}
	sp, qual, name := calleeSpelling(call.Fun)
	sub := bySpelling[sp]
	form := ""
	for fun := call.Fun; ; {
		if pe, ok := fun.(*ast.ParenExpr); ok {
			fun = pe.X
			continue
		}
		switch fun.(type) {
		case *ast.IndexExpr, *ast.IndexListExpr:
			form = "-behind-index"
		}
		break
	}
	// the callee is "real" when it resolves to the universe object or to a function (path, name) that is
	// itself one of the checker's subjects (e.g. bytes imported under the name strings and a rule about bytes.Replace)
	real := map[[2]string]bool{}
	for _, s := range subs {
		real[[2]string{s.Pkg, s.Name}] = true
	}
	if qual == nil {
		obj := p.Info.Uses[name]
		switch o := obj.(type) {
		case *types.Builtin:
			if real[[2]string{"", o.Name()}] {
				return nil
			}
		case *types.TypeName:
			if o.Pkg() == nil && real[[2]string{"", o.Name()}] { // universe type (truncateCmp's casts)
				return nil
			}
		}
		return &C20Finding{Form: form, Subject: sub.Family(), Spelled: sp, Resolves: describeObj(obj)}
	}
	qobj := p.Info.Uses[qual]
	if pn, ok := qobj.(*types.PkgName); ok && real[[2]string{pn.Imported().Path(), name.Name}] {
		return nil
	}
	return &C20Finding{Form: form, Subject: sub.Family(), Spelled: sp, Resolves: describeObj(qobj) + " ." + name.Name}
}

// checkMethodSubject: the diagnostic sits at/in a call x.Name(...) where Name is spelled like a function of the
// checker's subject package but x is not that package's qualifier (a method call, a field call, another package).
// The selected object must then be a function or method declared in the subject package (e.g. (*flag.FlagSet).String).
func checkMethodSubject(p *Pkg, f *File, subs []Subject, d Diag) *C20Finding {
	byName := map[string][]Subject{}
	for _, s := range subs {
		if s.Pkg != "" {
			byName[s.Name] = append(byName[s.Name], s)
		}
	}
	if len(byName) == 0 {
		return nil
	}
	var call *ast.CallExpr
	var sel *ast.SelectorExpr
	ast.Inspect(f.AST, func(n ast.Node) bool {
		if n == nil {
			return false
		}
		if _, isFile := n.(*ast.File); !isFile && (n.Pos() > d.Pos || n.End() <= d.Pos) {
			return false
		}
		if c, ok := n.(*ast.CallExpr); ok {
			fun := c.Fun
			for {
				pe, ok := fun.(*ast.ParenExpr)
				if !ok {
					break
				}
				fun = pe.X
			}
			if s, ok := fun.(*ast.SelectorExpr); ok && len(byName[s.Sel.Name]) > 0 {
				call, sel = c, s
			}
		}
		return true
	})
	if call == nil {
		return nil
	}
	obj := p.Info.Uses[sel.Sel]
	if fn, ok := obj.(*types.Func); ok && fn.Pkg() != nil {
		for _, s := range byName[sel.Sel.Name] {
			if s.Pkg == fn.Pkg().Path() {
				return nil
			}
		}
	}
	recv := ""
	if t := p.Info.TypeOf(sel.X); t != nil {
		recv = " on a value of type " + t.String()
	}
	return &C20Finding{Subject: byName[sel.Sel.Name][0].Family(), Spelled: types.ExprString(sel), Resolves: describeObj(obj) + recv}
}

// checkAnyQualifier (rule groups): the diagnostic sits at / inside a call q.Name(...) where q is SOME imported package
// and Name is one of the group's subject functions: then (import path of q, Name) must be one of the subjects.
func checkAnyQualifier(p *Pkg, f *File, subs []Subject, d Diag) *C20Finding {
	names := map[string]bool{}
	real := map[[2]string]bool{}
	for _, s := range subs {
		if s.Pkg != "" {
			names[s.Name] = true
			real[[2]string{s.Pkg, s.Name}] = true
		}
	}
	if len(names) == 0 {
		return nil
	}
	var found *C20Finding
	var best *ast.CallExpr
	var bestPkg *types.PkgName
	var bestSel *ast.SelectorExpr
	ast.Inspect(f.AST, func(n ast.Node) bool {
		if n == nil {
			return false
		}
		if _, isFile := n.(*ast.File); !isFile && (n.Pos() > d.Pos || n.End() <= d.Pos) {
			return false
		}
		if c, ok := n.(*ast.CallExpr); ok {
			if sel, ok := c.Fun.(*ast.SelectorExpr); ok && names[sel.Sel.Name] {
				if q, ok := sel.X.(*ast.Ident); ok {
					if pn, ok := p.Info.Uses[q].(*types.PkgName); ok {
						best, bestPkg, bestSel = c, pn, sel
					}
				}
			}
		}
		return true
	})
	if best != nil && !real[[2]string{bestPkg.Imported().Path(), bestSel.Sel.Name}] {
		want := ""
		for _, s := range subs {
			if s.Name == bestSel.Sel.Name && s.Pkg != "" {
				want = s.Spelling()
				break
			}
		}
		found = &C20Finding{Subject: want, Spelled: types.ExprString(bestSel), Resolves: describeObj(bestPkg) + " ." + bestSel.Sel.Name}
	}
	return found
}

// checkNilSubject: nilValReturn's subject is the identifier spelled nil in the condition `x == nil` of the
// if statement whose body holds the reported return; it must be the predeclared nil.
func checkNilSubject(p *Pkg, f *File, d Diag) *C20Finding {
	var inner *ast.IfStmt
	ast.Inspect(f.AST, func(n ast.Node) bool {
		if n == nil {
			return false
		}
		if _, isFile := n.(*ast.File); !isFile && (n.Pos() > d.Pos || n.End() <= d.Pos) {
			return false
		}
		if is, ok := n.(*ast.IfStmt); ok && is.Body.Pos() <= d.Pos && d.Pos < is.Body.End() {
			inner = is
		}
		return true
	})
	if inner == nil {
		return nil
	}
	be, ok := inner.Cond.(*ast.BinaryExpr)
	if !ok {
		return nil
	}
	id, ok := be.Y.(*ast.Ident)
	if !ok || id.Name != "nil" {
		return nil
	}
	if _, isNil := p.Info.Uses[id].(*types.Nil); isNil {
		return nil
	}
	return &C20Finding{Subject: "nil", Spelled: "nil", Resolves: describeObj(p.Info.Uses[id])}
}

func describeObj(o types.Object) string {
	if o == nil {
		return "no object"
	}
	switch o := o.(type) {
	case *types.PkgName:
		return fmt.Sprintf("package %q imported as %s", o.Imported().Path(), o.Name())
	case *types.Func:
		return "user function " + o.FullName()
	case *types.Var:
		if o.IsField() {
			return "field " + o.Name()
		}
		if o.Parent() != nil && o.Pkg() != nil && o.Parent() == o.Pkg().Scope() {
			return "package-level variable " + o.Name() + " " + o.Type().String()
		}
		return "local variable " + o.Name() + " " + o.Type().String()
	case *types.TypeName:
		return "type " + o.Name()
	case *types.Const:
		return "constant " + o.Name()
	}
	return o.String()
}
