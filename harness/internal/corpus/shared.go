package corpus

import (
	"crypto/sha256"
	"encoding/hex"
	"encoding/json"
	"fmt"
	"go/ast"
	"go/types"
	"io"
	"os"
	"path/filepath"
	"regexp"
	"runtime"
	"sort"
	"strings"
	"sync"
	"time"

	"verifharness/internal/common"
)

// FailureRec is an oracle failure before it is attached to a property's Meta.
type FailureRec struct {
	Prop    string      `json:"prop"`
	Key     string      `json:"key"`
	What    string      `json:"what"`
	Witness interface{} `json:"witness"`
}

// DiagRec is a diagnostic in projected form (used by the tie and for samples).
type DiagRec struct {
	Off  int    `json:"off"`
	Text string `json:"text"`
}

// FileRun is what the real checkers did on one file (modelled checkers only are kept in full).
type FileRun struct {
	Pkg      string              `json:"pkg"`
	File     string              `json:"file"`
	Outcomes map[string]ModelObs `json:"outcomes"` // checker -> observation (default variant)
	Namesake map[string][]int    `json:"namesake"` // checker -> offsets of diagnostics the C20 oracle flags
}

// ModelObs is the observation compared with the Coq model.
type ModelObs struct {
	Panic bool  `json:"panic"`
	Offs  []int `json:"offs"`
}

// Shared is the cached result of one oracle run.
type Shared struct {
	Tier        string         `json:"tier"`
	Seed        int64          `json:"seed"`
	Stamp       string         `json:"stamp"`
	Evaluations int            `json:"evaluations"`
	Files       int            `json:"files"`
	Packages    map[string]int `json:"packages"` // stream -> count
	Checkers    int            `json:"checkers"`
	Variants    int            `json:"variants"`
	Diagnostics int            `json:"diagnostics"`
	// measured distinctness: (checker variant, file) runs that produced at least one diagnostic or a panic,
	// distinct (checker, message with literals and identifiers masked) shapes, distinct (checker, subject callee text)
	FiringRuns  map[string]bool        `json:"firing_runs"`
	DiagShapes  map[string]bool        `json:"diag_shapes"`
	SubjectSeen map[string]bool        `json:"subject_seen"`
	Fired       map[string]int         `json:"fired"` // checker -> diagnostics
	SubjectDiag map[string]int         `json:"subject_diag"`
	C20Checked  int                    `json:"c20_checked"`
	Failures    []FailureRec           `json:"failures"`
	Skipped     []string               `json:"skipped"`
	Notes       []string               `json:"notes"`
	Mutants     map[string]int         `json:"mutants"`
	Samples     []interface{}          `json:"samples"`
	WallS       float64                `json:"wall_s"`
	CaseFiles   map[string][]string    `json:"case_files"` // prop -> cases files (relative to cache dir)
	TieStats    map[string]interface{} `json:"tie_stats"`
	TieBroken   []string               `json:"tie_broken"`
}

func stamp() string {
	h := sha256.New()
	if exe, err := os.Executable(); err == nil {
		if f, err := os.Open(exe); err == nil {
			io.Copy(h, f)
			f.Close()
		}
	}
	filepath.Walk(StressDir(), func(p string, info os.FileInfo, err error) error {
		if err == nil && !info.IsDir() {
			b, _ := os.ReadFile(p)
			h.Write([]byte(p))
			h.Write(b)
		}
		return nil
	})
	// testdata and rules are read at run time
	for _, sub := range []string{"checkers/testdata", "checkers/rules"} {
		filepath.Walk(filepath.Join(common.RepoDir, sub), func(p string, info os.FileInfo, err error) error {
			if err == nil && !info.IsDir() && strings.HasSuffix(p, ".go") {
				fmt.Fprintf(h, "%s %d %d\n", p, info.Size(), info.ModTime().UnixNano())
			}
			return nil
		})
	}
	for _, extra := range []string{SubjectInventoryFile(), UserRulesFile(), UserCommentRulesFile(), filepath.Join(VerifRoot(), "corpus", "synth", "index.json"),
		filepath.Join(VerifRoot(), "harness", "walkrec", "main.go.txt")} {
		if b, err := os.ReadFile(extra); err == nil {
			h.Write(b)
		}
	}
	h.Write([]byte(common.RepoDir))
	return hex.EncodeToString(h.Sum(nil))[:16]
}

// CacheDir is where the shared run of (tier, seed) lives.
func CacheDir(tier string, seed int64) string {
	return filepath.Join(VerifRoot(), "work", "crashrun", fmt.Sprintf("%s-%d", tier, seed))
}

// Get returns the shared run for (tier, seed), computing it when no valid cache exists.
func Get(tier string, seed int64) (*Shared, string) {
	dir := CacheDir(tier, seed)
	common.Must(os.MkdirAll(dir, 0o755))
	child := os.Getenv("VERIF_CRASH_CHILD") != ""
	if !child {
		lock, err := os.OpenFile(filepath.Join(dir, ".lock"), os.O_CREATE|os.O_RDWR, 0o644)
		common.Must(err)
		defer lock.Close()
		flock(lock)
		defer funlock(lock)
	}
	st := stamp()
	if key := os.Getenv("VERIF_CRASH_PROBE"); child && key != "" {
		computeProbe(tier, seed, key)
		return &Shared{}, dir
	}
	if os.Getenv("VERIF_NOCACHE") == "" && !child {
		if data, err := os.ReadFile(filepath.Join(dir, "shared.json")); err == nil {
			var s Shared
			if json.Unmarshal(data, &s) == nil && s.Stamp == st && s.Tier == tier && s.Seed == seed {
				return &s, dir
			}
		}
	}
	old, _ := filepath.Glob(filepath.Join(dir, "cases_*"))
	for _, p := range old {
		os.Remove(p)
	}
	var s *Shared
	if !child {
		s = isolatedCompute(tier, seed, dir, st)
	}
	if s == nil {
		s = compute(tier, seed, dir)
	}
	s.Stamp = st
	data, err := json.MarshalIndent(s, "", " ")
	common.Must(err)
	common.Must(os.WriteFile(filepath.Join(dir, "shared.json"), data, 0o644))
	return s, dir
}

type job struct {
	pkg *Pkg
}

type fileResult struct {
	pkg      *Pkg
	file     *File
	outcomes []Outcome // per variant
}

// RunAll runs every variant over every file of pkgs on a worker pool.
func RunAll(pkgs []*Pkg, variants []Variant, each func(fr fileResult)) {
	workers := runtime.NumCPU()
	if workers > 12 {
		workers = 12
	}
	if workers > len(pkgs) {
		workers = len(pkgs)
	}
	if workers < 1 {
		workers = 1
	}
	jobs := make(chan *Pkg)
	var mu sync.Mutex
	var wg sync.WaitGroup
	for w := 0; w < workers; w++ {
		wg.Add(1)
		go func(w int) {
			defer wg.Done()
			mk := newMarker(w)
			defer mk.clear()
			r := NewRunner(variants)
			for p := range jobs {
				r.SetPkg(p)
				if p.Fresh || strings.HasPrefix(p.Name, "S2/pkglevel") {
					r.Refresh()
				}
				for _, f := range p.Files {
					if p.Focus != "" && f.Name != p.Focus && !p.FocusAlso[f.Name] {
						continue
					}
					fr := fileResult{pkg: p, file: f, outcomes: make([]Outcome, len(variants))}
					for i := range variants {
						if p.DefaultOnly && variants[i].Tag != "" {
							fr.outcomes[i] = Outcome{Skipped: true}
							continue
						}
						if isExcluded(p, f, variants[i]) {
							fr.outcomes[i] = Outcome{Skipped: true}
							continue
						}
						mk.set(p, f, variants[i])
						fr.outcomes[i] = r.CheckFile(i, f)
						if fr.outcomes[i].Timeout {
							r.SetPkg(p)
						}
					}
					mu.Lock()
					each(fr)
					mu.Unlock()
				}
			}
		}(w)
	}
	for _, p := range pkgs {
		jobs <- p
	}
	close(jobs)
	wg.Wait()
}

type c01Hit struct {
	pkg     *Pkg
	file    *File
	variant Variant
	vi      int
	out     Outcome
}

// computeProbe (child process): regenerate the inputs and execute the single Check call named by key.
func computeProbe(tier string, seed int64, key string) {
	variants := Variants(Infos())
	s1, _, err := LoadS1()
	if err != nil {
		panic(err)
	}
	s2, _, _ := LoadS2()
	stats := map[string]int{}
	s3 := Mutants(s1, tier, seed, stats)
	sy, _ := LoadSynth()
	s4 := Systematic(append(append([]*Pkg{}, s1...), sy...), tier, seed, stats)
	all := append(append(append(append(append([]*Pkg{}, s1...), s2...), s3...), sy...), s4...)
	runProbe(all, variants, key)
}

func compute(tier string, seed int64, dir string) *Shared {
	t0 := time.Now()
	s := &Shared{Tier: tier, Seed: seed, Packages: map[string]int{}, Fired: map[string]int{}, SubjectDiag: map[string]int{}, FiringRuns: map[string]bool{}, DiagShapes: map[string]bool{}, SubjectSeen: map[string]bool{},
		Mutants: map[string]int{}, CaseFiles: map[string][]string{}, TieStats: map[string]interface{}{}}
	infos := Infos()
	variants := Variants(infos)
	s.Checkers = len(infos)
	s.Variants = len(variants)

	s1, sk1, err := LoadS1()
	if err != nil {
		panic(fmt.Sprintf("loading S1: %v", err))
	}
	s2, sk2, err := LoadS2()
	if err != nil {
		panic(fmt.Sprintf("loading S2: %v", err))
	}
	s.Skipped = append(append(s.Skipped, sk1...), sk2...)
	for _, m := range sk2 {
		// a stress package that does not type-check is a defect of the harness corpus, not of the repository
		s.Notes = append(s.Notes, "stress package does not type-check (ignored): "+m)
	}
	s3 := Mutants(s1, tier, seed, s.Mutants)
	sy, sk3 := LoadSynth()
	s.Skipped = append(s.Skipped, sk3...)
	s4 := Systematic(append(append([]*Pkg{}, s1...), sy...), tier, seed, s.Mutants)
	all := append(append(append(append(append([]*Pkg{}, s1...), s2...), s3...), sy...), s4...)
	for _, p := range all {
		s.Packages[p.Stream]++
		if p.Focus != "" {
			s.Files += len(p.FocusAlso)
			s.Files++
		} else {
			s.Files += len(p.Files)
		}
	}

	var hits []c01Hit
	starts := map[*File]map[int]bool{}
	var obs []*FileRun
	allOffs := map[string][][]int{}
	var layoutRuns []fileResult
	RunAll(all, variants, func(fr fileResult) {
		st := TokenStarts(fr.file.Src)
		starts[fr.file] = st
		run := &FileRun{Pkg: fr.pkg.Name, File: fr.file.Name, Outcomes: map[string]ModelObs{}, Namesake: map[string][]int{}}
		tf := Fset.File(fr.file.AST.Pos())
		offs := make([][]int, len(variants))
		allOffs[fr.pkg.Name+"/"+fr.file.Name] = offs
		if fr.pkg.BaseKey != "" {
			layoutRuns = append(layoutRuns, fr)
		}
		for i, out := range fr.outcomes {
			v := variants[i]
			if out.Skipped {
				continue
			}
			if out.Err == "" && out.Panic == nil && !out.Timeout {
				offs[i] = []int{}
				for _, d := range out.Diags {
					o := -1
					if d.Pos.IsValid() && Fset.File(d.Pos) == tf {
						o = tf.Offset(d.Pos)
					}
					offs[i] = append(offs[i], o)
				}
			}
			s.Evaluations++
			name := v.Info.Name
			if out.Err != "" && v.MayFail {
				continue // documented error path of a string parameter (C18/C19)
			}
			if out.Err != "" {
				s.fail("C01", "C01/"+name+"/constructor-error", fmt.Sprintf("NewChecker(%s) failed: %s", v, out.Err), map[string]interface{}{"checker": v.String()})
				continue
			}
			if out.Panic != nil || out.Timeout || len(out.Diags) > 0 {
				s.FiringRuns[v.String()+"|"+fr.pkg.Name+"/"+fr.file.Name] = true
			}
			if out.Panic != nil || out.Timeout {
				hits = append(hits, c01Hit{fr.pkg, fr.file, v, i, out})
				if v.Tag == "" {
					run.Outcomes[name] = ModelObs{Panic: true}
				}
				if mv := ModelledVariant(name, v.Tag); mv != "" {
					run.Outcomes[mv] = ModelObs{Panic: true}
				}
				continue
			}
			if v.Tag == "" || ModelledVariant(name, v.Tag) != "" {
				mo := ModelObs{Offs: []int{}}
				for _, d := range out.Diags {
					off := -1
					if d.Pos.IsValid() && Fset.File(d.Pos) == tf {
						off = tf.Offset(d.Pos)
					}
					mo.Offs = append(mo.Offs, off)
				}
				if v.Tag == "" {
					run.Outcomes[name] = mo
				} else {
					run.Outcomes[ModelledVariant(name, v.Tag)] = mo
				}
			}
			for _, d := range out.Diags {
				s.Diagnostics++
				s.Fired[name]++
				s.DiagShapes[name+"|"+shapeOf(d.Text)] = true
				for _, f7 := range CheckC07(fr.file, st, d) {
					keyName := name
					if f7.Class == "text-invalid-utf8" && v.Info.EmbeddedRuleguard {
						keyName = "ruleguard-engine" // one defect of the engine's message truncation, whichever rule group exhibits it
					}
					s.fail("C07", "C07/"+keyName+"/"+f7.Class, fmt.Sprintf("%s on %s/%s: %s", v, fr.pkg.Name, fr.file.Name, f7.What),
						map[string]interface{}{"package": fr.pkg.Name, "file": fr.file.Name, "checker": v.String(), "position": posStr(d.Pos),
							"text": d.Text, "line": sourceLine(fr.file, d), "origin": fr.pkg.Origin})
				}
				if d.HasFix && (fr.pkg.ClaimCheck != "" || strings.HasPrefix(fr.pkg.Name, "S2/nearmiss")) && v.Tag == "" {
					if why := claimBroken(fr.pkg, fr.file, d, touched(fr.pkg)); why != "" {
						s.fail("C20", "C20/"+name+"/claim-broken-on-near-miss-type",
							fmt.Sprintf("%s suggests %q at %s on a value of a user type that only shares method names with the type the rule is about; the suggested code does not type-check: %s", name, clip(d.Repl, 80), posStr(d.Pos), why),
							map[string]interface{}{"package": fr.pkg.Name, "file": fr.file.Name, "checker": v.String(), "position": posStr(d.Pos),
								"text": d.Text, "line": sourceLine(fr.file, d), "replacement": d.Repl, "origin": fr.pkg.Origin})
					}
				}
				if RuleMethodSubjects()[name] != nil {
					s.C20Checked++
					if f20 := CheckC20Method(fr.pkg, fr.file, name, d); f20 != nil {
						s.fail("C20", "C20/"+name+"/"+f20.Subject+"-namesake",
							fmt.Sprintf("%s reports %q at %s although the method spelled %s resolves to %s", name, clip(d.Text, 120), posStr(d.Pos), f20.Spelled, f20.Resolves),
							map[string]interface{}{"package": fr.pkg.Name, "file": fr.file.Name, "checker": v.String(), "position": posStr(d.Pos),
								"text": d.Text, "line": sourceLine(fr.file, d), "resolves_to": f20.Resolves, "origin": fr.pkg.Origin})
					}
				}
				if len(SubjectsOf(name)) > 0 {
					s.SubjectDiag[name]++
					s.C20Checked++
					s.SubjectSeen[name+"|"+fr.pkg.Name+"|"+sourceLine(fr.file, d)] = true
					if f20 := CheckC20(fr.pkg, fr.file, name, d); f20 != nil {
						if v.Tag == "" {
							run.Namesake[name] = append(run.Namesake[name], tf.Offset(d.Pos))
						}
						s.fail("C20", "C20/"+name+"/"+f20.Subject+"-namesake"+f20.Form,
							fmt.Sprintf("%s reports %q at %s although the callee spelled %s resolves to %s", name, clip(d.Text, 120), posStr(d.Pos), f20.Spelled, f20.Resolves),
							map[string]interface{}{"package": fr.pkg.Name, "file": fr.file.Name, "checker": v.String(), "position": posStr(d.Pos),
								"text": d.Text, "line": sourceLine(fr.file, d), "resolves_to": f20.Resolves, "origin": fr.pkg.Origin})
					}
				}
				if len(s.Samples) < 8 && s.Diagnostics%97 == 1 {
					s.Samples = append(s.Samples, map[string]interface{}{"package": fr.pkg.Name, "file": fr.file.Name, "checker": v.String(), "position": posStr(d.Pos), "text": clip(d.Text, 120)})
				}
			}
		}
		obs = append(obs, run)
	})

	// C07 (layout): diagnostics of a file with extra blanks between tokens sit at the same places
	for _, fr := range layoutRuns {
		base := allOffs[fr.pkg.BaseKey]
		mine := allOffs[fr.pkg.Name+"/"+fr.file.Name]
		if base == nil || mine == nil {
			continue
		}
		for i := range variants {
			if base[i] == nil || mine[i] == nil {
				continue
			}
			want := append([]int{}, base[i]...)
			var got []int
			for _, o := range mine[i] {
				if o >= 0 {
					o = unmapOffset(fr.pkg.Ins, o)
				}
				got = append(got, o)
			}
			sort.Ints(want)
			sort.Ints(got)
			differs := fmt.Sprint(want) != fmt.Sprint(got)
			if fr.pkg.InsWhat != "" {
				// inserted material other than blanks: C07 only asks that no diagnostic lands ON the inserted text
				// (appearing / disappearing diagnostics are the locality property's business)
				differs = false
				for _, o := range got {
					if o == -1 {
						differs = true
					}
				}
			}
			if differs {
				name := variants[i].Info.Name
				class, what := "layout-dependent-position", "blanks between tokens"
				if fr.pkg.InsWhat != "" {
					class, what = "context-dependent-position", fr.pkg.InsWhat
				}
				s.fail("C07", "C07/"+name+"/"+class,
					fmt.Sprintf("%s: inserting %s of %s moves/changes its diagnostics: offsets %v on the original, %v (mapped back) on the perturbed file", name, what, fr.pkg.BaseKey, want, got),
					map[string]interface{}{"package": fr.pkg.Name, "file": fr.file.Name, "checker": name, "origin": fr.pkg.Origin,
						"original_offsets": want, "perturbed_offsets_mapped": got, "perturbed_source": clip(string(fr.file.Src), 4000)})
			}
		}
	}

	// C01: group by defect class, shrink the first witness of each class
	sort.SliceStable(hits, func(i, j int) bool {
		a, b := hits[i], hits[j]
		if a.pkg.Stream != b.pkg.Stream { // prefer small hand-written stress packages as witnesses
			return streamRank(a.pkg.Stream) < streamRank(b.pkg.Stream)
		}
		if len(a.file.Src) != len(b.file.Src) {
			return len(a.file.Src) < len(b.file.Src)
		}
		return a.pkg.Name+a.file.Name+a.variant.String() < b.pkg.Name+b.file.Name+b.variant.String()
	})
	perKey := map[string]int{}
	for _, h := range hits {
		class := "timeout"
		what := fmt.Sprintf("%s did not finish within %v on %s/%s", h.variant, Watchdog, h.pkg.Name, h.file.Name)
		if h.out.Panic != nil {
			class = h.out.Panic.Class()
			what = fmt.Sprintf("%s panics on %s/%s: %s", h.variant, h.pkg.Name, h.file.Name, clip(h.out.Panic.Msg, 160))
		}
		key := "C01/" + h.variant.Info.Name + "/" + class
		perKey[key]++
		if perKey[key] > 3 {
			continue
		}
		w := map[string]interface{}{"package": h.pkg.Name, "file": h.file.Name, "checker": h.variant.String(), "origin": h.pkg.Origin}
		if h.out.Panic != nil {
			w["panic"] = h.out.Panic.Msg
			w["stack"] = h.out.Panic.Stack
		}
		if perKey[key] == 1 {
			shr, steps := Shrink(h.pkg, h.file, h.variant, class)
			w["shrunk_source"] = shr
			w["shrink_steps"] = steps
		} else {
			w["source_bytes"] = len(h.file.Src)
		}
		s.fail("C01", key, what, w)
	}
	s.TieStats["c01_hits"] = len(hits)

	sort.Slice(obs, func(i, j int) bool { return obs[i].Pkg+"/"+obs[i].File < obs[j].Pkg+"/"+obs[j].File })
	writeTie(s, dir, all, obs, starts)
	CleanScratch()
	s.WallS = time.Since(t0).Seconds()
	return s
}

// touched: only fixes that mention a user near-miss type's value are judged (other suggestions are C09's business)
func touched(p *Pkg) func(src string) bool {
	return func(src string) bool { return true }
}

// claimBroken applies the suggested replacement and re-type-checks the package; "" = still well-typed (or not applicable).
func claimBroken(p *Pkg, f *File, d Diag, relevant func(string) bool) string {
	tf := Fset.File(f.AST.Pos())
	if !d.From.IsValid() || !d.To.IsValid() || Fset.File(d.From) != tf || Fset.File(d.To) != tf || d.From > d.To {
		return ""
	}
	from, to := tf.Offset(d.From), tf.Offset(d.To)
	if to > len(f.Src) || !mentionsNearMiss(p, f, from, to) {
		return ""
	}
	srcs := p.Sources()
	srcs[f.Name] = append(append(append([]byte{}, f.Src[:from]...), []byte(d.Repl)...), f.Src[to:]...)
	if _, err := TypeCheck("claim", p.Name, "", srcs); err != nil {
		msg := err.Error()
		if strings.Contains(msg, "declared and not used") || strings.Contains(msg, "imported and not used") {
			return ""
		}
		return msg
	}
	return ""
}

// mentionsNearMiss: the replaced range contains an expression whose type is a user-declared named type (or pointer to
// one) of the analysed package that has methods.
func mentionsNearMiss(p *Pkg, f *File, from, to int) bool {
	tf := Fset.File(f.AST.Pos())
	found := false
	ast.Inspect(f.AST, func(n ast.Node) bool {
		if n == nil || found {
			return false
		}
		e, ok := n.(ast.Expr)
		if !ok {
			return true
		}
		if tf.Offset(e.Pos()) < from || tf.Offset(e.End()) > to {
			return true
		}
		t := p.Info.TypeOf(e)
		if t == nil {
			return true
		}
		if pt, ok := t.(*types.Pointer); ok {
			t = pt.Elem()
		}
		if nt, ok := t.(*types.Named); ok && nt.Obj().Pkg() == p.Types && nt.NumMethods() > 0 {
			found = true
		}
		return true
	})
	return found
}

func streamRank(st string) int {
	switch st {
	case "S2":
		return 0
	case "S1":
		return 1
	}
	return 2
}

func sourceLine(f *File, d Diag) string {
	if !d.Pos.IsValid() {
		return ""
	}
	ps := Fset.Position(d.Pos)
	lines := strings.Split(string(f.Src), "\n")
	if ps.Line >= 1 && ps.Line <= len(lines) && filepath.Base(ps.Filename) == f.Name {
		return strings.TrimSpace(lines[ps.Line-1])
	}
	return ""
}

func (s *Shared) fail(prop, key, what string, w interface{}) {
	n := 0
	for _, f := range s.Failures {
		if f.Key == key {
			n++
		}
	}
	if n < 3 {
		s.Failures = append(s.Failures, FailureRec{prop, key, what, w})
	}
}

var (
	shapeQuoted = regexp.MustCompile("`[^`]*`")
	shapeNum    = regexp.MustCompile(`[0-9]+`)
)

// shapeOf masks the instance-specific parts of a diagnostic text.
func shapeOf(text string) string {
	return shapeNum.ReplaceAllString(shapeQuoted.ReplaceAllString(text, "`_`"), "N")
}

// MetaFor projects the shared run on one property.
func MetaFor(prop string, s *Shared, dir, outDir string) *common.Meta {
	m := &common.Meta{Property: prop, Evaluations: s.Evaluations}
	for _, f := range s.Failures {
		if f.Prop == prop {
			m.Fail(f.Key, f.What, f.Witness)
		}
	}
	for _, smp := range s.Samples {
		m.AddSample(smp)
	}
	m.Distribution = map[string]interface{}{
		"packages_per_stream": s.Packages, "files": s.Files, "checkers": s.Checkers, "checker_variants": s.Variants,
		"diagnostics": s.Diagnostics, "checkers_that_fired": len(s.Fired), "mutants_by_operator": s.Mutants,
		"tie": s.TieStats, "skipped_packages": s.Skipped, "shared_run_wall_s": s.WallS,
	}
	m.Notes = append(m.Notes, s.Notes...)
	m.TieBroken = append(m.TieBroken, s.TieBroken...)
	for _, cf := range s.CaseFiles[prop] {
		data, err := os.ReadFile(filepath.Join(dir, cf))
		common.Must(err)
		common.Must(os.WriteFile(filepath.Join(outDir, cf), data, 0o644))
		if strings.HasSuffix(cf, ".v") {
			m.CaseFiles = append(m.CaseFiles, cf)
		}
	}
	switch prop {
	case "C01":
		m.Distinct = len(s.FiringRuns)
		m.Rule = "every Check call (checker variant x file) must return under recover within the watchdog; a panic/timeout is a failure keyed C01/<checker>/<panic kind>@<function>; distinct_nontrivial = distinct (checker variant, file) runs in which the checker reached its reporting code (>= 1 diagnostic) or panicked"
	case "C07":
		m.Evaluations = s.Diagnostics
		m.Distinct = len(s.DiagShapes)
		m.Rule = "distinct_nontrivial = distinct (checker, message shape) pairs, a shape being the text with quoted code, identifiers after a back-quote and numbers masked; every diagnostic: valid position in the analysed file at a go/scanner token or comment start; fix range non-inverted inside the file; text non-empty without %!, <nil>, PANIC=, BadExpr"
	case "C20":
		m.Evaluations = s.C20Checked
		m.Distinct = len(s.SubjectSeen)
		m.Rule = "distinct_nontrivial = distinct (checker, package, flagged source line) triples among subject-bearing diagnostics; every diagnostic of a subject-bearing checker: the callee spelled like the subject at/around the position must resolve (types.Info.Uses) to the universe builtin or to the documented package"
		m.Distribution["diagnostics_per_subject_checker"] = s.SubjectDiag
	}
	return m
}
