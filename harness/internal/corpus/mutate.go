package corpus

// Mutants produces the S3 stream (filled in by mutate_ops.go).
func Mutants(s1 []*Pkg, tier string, seed int64, stats map[string]int) []*Pkg {
	return mutants(s1, tier, seed, stats)
}
