package corpus

import (
	"go/ast"
	"go/parser"
	"go/token"
	"os"
	"strconv"
	"strings"
	"syscall"
	"time"
)

func flock(f *os.File)   { syscall.Flock(int(f.Fd()), syscall.LOCK_EX) }
func funlock(f *os.File) { syscall.Flock(int(f.Fd()), syscall.LOCK_UN) }

// pruneImports deletes import specs whose package name is not referenced any more.
func pruneImports(src []byte) []byte {
	fs := token.NewFileSet()
	f, err := parser.ParseFile(fs, "x.go", src, parser.ParseComments)
	if err != nil {
		return src
	}
	used := map[string]bool{}
	ast.Inspect(f, func(n ast.Node) bool {
		if s, ok := n.(*ast.SelectorExpr); ok {
			if id, ok := s.X.(*ast.Ident); ok {
				used[id.Name] = true
			}
		}
		return true
	})
	type rng struct{ a, b int }
	var cuts []rng
	tf := fs.File(f.Pos())
	for _, d := range f.Decls {
		gd, ok := d.(*ast.GenDecl)
		if !ok || gd.Tok != token.IMPORT {
			continue
		}
		dead := 0
		for _, sp := range gd.Specs {
			is := sp.(*ast.ImportSpec)
			name := ""
			if is.Name != nil {
				name = is.Name.Name
			} else {
				p, _ := strconv.Unquote(is.Path.Value)
				name = p[strings.LastIndex(p, "/")+1:]
			}
			if name == "_" || name == "." || used[name] {
				continue
			}
			dead++
			cuts = append(cuts, rng{tf.Offset(is.Pos()), tf.Offset(is.End())})
		}
		if dead == len(gd.Specs) {
			cuts = append(cuts, rng{tf.Offset(gd.Pos()), tf.Offset(gd.End())})
		}
	}
	if len(cuts) == 0 {
		return src
	}
	out := append([]byte{}, src...)
	for _, c := range cuts { // blanking (not deleting) keeps offsets valid, so overlapping ranges are harmless
		for k := c.a; k < c.b; k++ {
			if out[k] != '\n' {
				out[k] = ' '
			}
		}
	}
	// "import ( )" with only blanks is legal; fine.
	return out
}

// Shrink minimises file (inside pkg) while variant still fails with the same defect class:
// declaration-level, then statement-level greedy delta debugging; every candidate is re-type-checked.
func Shrink(pkg *Pkg, file *File, variant Variant, class string) (string, int) {
	deadline := time.Now().Add(25 * time.Second)
	runner := NewRunner([]Variant{variant})
	others := pkg.Sources()
	steps := 0
	fails := func(src []byte) bool {
		steps++
		srcs := map[string][]byte{}
		for k, v := range others {
			srcs[k] = v
		}
		srcs[file.Name] = src
		p, err := TypeCheck("shrink", pkg.Name, "", srcs)
		if err != nil {
			return false
		}
		var f *File
		for _, x := range p.Files {
			if x.Name == file.Name {
				f = x
			}
		}
		runner.SetPkg(p)
		out := runner.CheckFile(0, f)
		if class == "timeout" {
			return out.Timeout
		}
		return out.Panic != nil && out.Panic.Class() == class
	}
	cur := append([]byte{}, file.Src...)
	if !fails(cur) {
		return string(cur), steps // not reproducible in isolation (state dependent): keep the original
	}
	// drop the other files of the package when possible
	if len(others) > 1 {
		saved := others
		others = map[string][]byte{file.Name: cur}
		if !fails(cur) {
			others = saved
		}
	}
	try := func(cand []byte) bool {
		if time.Now().After(deadline) || steps > 600 {
			return false
		}
		cand = pruneImports(cand)
		if fails(cand) {
			cur = cand
			return true
		}
		return false
	}
	cut := func(a, b int) []byte {
		out := append([]byte{}, cur[:a]...)
		return append(out, cur[b:]...)
	}
	// phase 1: declarations
	for changed := true; changed; {
		changed = false
		fs := token.NewFileSet()
		f, err := parser.ParseFile(fs, "x.go", cur, parser.ParseComments)
		if err != nil {
			break
		}
		tf := fs.File(f.Pos())
		for i := len(f.Decls) - 1; i >= 0; i-- {
			d := f.Decls[i]
			if gd, ok := d.(*ast.GenDecl); ok && gd.Tok == token.IMPORT {
				continue
			}
			a, b := tf.Offset(d.Pos()), tf.Offset(d.End())
			if fd, ok := d.(*ast.FuncDecl); ok && fd.Doc != nil {
				a = tf.Offset(fd.Doc.Pos())
			}
			if gd, ok := d.(*ast.GenDecl); ok && gd.Doc != nil {
				a = tf.Offset(gd.Doc.Pos())
			}
			if try(cut(a, b)) {
				changed = true
				break // offsets are stale: re-parse
			}
		}
	}
	// phase 2: statements (innermost lists last so that big chunks go first)
	for changed := true; changed; {
		changed = false
		fs := token.NewFileSet()
		f, err := parser.ParseFile(fs, "x.go", cur, parser.ParseComments)
		if err != nil {
			break
		}
		tf := fs.File(f.Pos())
		var lists [][]ast.Stmt
		ast.Inspect(f, func(n ast.Node) bool {
			switch x := n.(type) {
			case *ast.BlockStmt:
				lists = append(lists, x.List)
			case *ast.CaseClause:
				lists = append(lists, x.Body)
			case *ast.CommClause:
				lists = append(lists, x.Body)
			}
			return true
		})
	outer:
		for _, l := range lists {
			for i := len(l) - 1; i >= 0; i-- {
				a, b := tf.Offset(l[i].Pos()), tf.Offset(l[i].End())
				if try(cut(a, b)) {
					changed = true
					break outer
				}
			}
		}
	}
	// phase 3: strip comments and blank lines
	{
		fs := token.NewFileSet()
		if f, err := parser.ParseFile(fs, "x.go", cur, parser.ParseComments); err == nil {
			tf := fs.File(f.Pos())
			cand := append([]byte{}, cur...)
			for _, cg := range f.Comments {
				for k := tf.Offset(cg.Pos()); k < tf.Offset(cg.End()); k++ {
					if cand[k] != '\n' {
						cand[k] = ' '
					}
				}
			}
			try(cand)
		}
		var lines []string
		for _, l := range strings.Split(string(cur), "\n") {
			if strings.TrimSpace(l) != "" {
				lines = append(lines, strings.TrimRight(l, " \t"))
			}
		}
		try([]byte(strings.Join(lines, "\n") + "\n"))
	}
	return string(cur), steps
}
