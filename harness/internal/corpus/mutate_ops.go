package corpus

import (
	"fmt"
	"go/ast"
	"go/token"
	"go/types"
	"math/rand"
	"sort"
	"strings"

	"verifharness/internal/common"
)

// edit replaces src[a:b] by text.
type edit struct {
	a, b int
	text string
}

func applyEdits(src []byte, eds []edit) []byte {
	sort.SliceStable(eds, func(i, j int) bool { return eds[i].a > eds[j].a })
	out := append([]byte{}, src...)
	for _, e := range eds {
		out = append(out[:e.a], append([]byte(e.text), out[e.b:]...)...)
	}
	return out
}

type mutOp struct {
	name string
	gen  func(p *Pkg, f *File, r *rand.Rand, id int) []edit // nil = not applicable
}

func off(p token.Pos) int { return Fset.File(p).Offset(p) }

// ---- operators ----

func opParenRecv(p *Pkg, f *File, r *rand.Rand, id int) []edit {
	var eds []edit
	for _, d := range f.AST.Decls {
		fd, ok := d.(*ast.FuncDecl)
		if !ok || fd.Recv == nil || len(fd.Recv.List) != 1 {
			continue
		}
		t := fd.Recv.List[0].Type
		if st, ok := t.(*ast.StarExpr); ok && r.Intn(2) == 0 {
			t = st.X
		}
		eds = append(eds, edit{off(t.Pos()), off(t.Pos()), "("}, edit{off(t.End()), off(t.End()), ")"})
	}
	return eds
}

func exprSites(f *File) []ast.Expr {
	var out []ast.Expr
	ast.Inspect(f.AST, func(n ast.Node) bool {
		switch x := n.(type) {
		case *ast.CallExpr:
			out = append(out, x.Args...)
			out = append(out, x.Fun)
		case *ast.BinaryExpr:
			out = append(out, x.X, x.Y)
		case *ast.ReturnStmt:
			out = append(out, x.Results...)
		case *ast.AssignStmt:
			out = append(out, x.Rhs...)
			if x.Tok != token.DEFINE {
				out = append(out, x.Lhs...)
			}
		case *ast.StarExpr:
			out = append(out, x.X)
		case *ast.Field:
			if x.Type != nil {
				if _, ell := x.Type.(*ast.Ellipsis); !ell {
					out = append(out, x.Type)
				}
			}
		case *ast.RangeStmt:
			out = append(out, x.X)
		case *ast.IndexExpr:
			out = append(out, x.X, x.Index)
		}
		return true
	})
	return out
}

func opParenExpr(p *Pkg, f *File, r *rand.Rand, id int) []edit {
	sites := exprSites(f)
	if len(sites) == 0 {
		return nil
	}
	n := 1 + r.Intn(6)
	var eds []edit
	used := map[int]bool{}
	for i := 0; i < n; i++ {
		e := sites[r.Intn(len(sites))]
		a, b := off(e.Pos()), off(e.End())
		if used[a] {
			continue
		}
		used[a] = true
		layers := 1 + r.Intn(3) // one to three layers: ((x)), (((x)))
		eds = append(eds, edit{a, a, strings.Repeat("(", layers)}, edit{b, b, strings.Repeat(")", layers)})
	}
	return eds
}

// replace a standard import by the user package of the same name and API shape (corpus/stress/_lib)
func opNamesakeImport(p *Pkg, f *File, r *rand.Rand, id int) []edit {
	libs := map[string]bool{}
	for _, l := range StressLibs() {
		libs[l] = true
	}
	var eds []edit
	for _, is := range f.AST.Imports {
		path := strings.Trim(is.Path.Value, `"`)
		base := path[strings.LastIndex(path, "/")+1:]
		if is.Name != nil || !libs[base] || strings.HasPrefix(path, "stresslib/") || r.Intn(3) == 0 {
			continue
		}
		if path != base && path != "path/filepath" {
			continue
		}
		eds = append(eds, edit{off(is.Path.Pos()), off(is.Path.End()), `"stresslib/` + base + `"`})
	}
	return eds
}

// named results + bare return
func opBareReturn(p *Pkg, f *File, r *rand.Rand, id int) []edit {
	type site struct {
		ft   *ast.FuncType
		body *ast.BlockStmt
	}
	var sites []site
	ast.Inspect(f.AST, func(n ast.Node) bool {
		switch x := n.(type) {
		case *ast.FuncDecl:
			if x.Body != nil {
				sites = append(sites, site{x.Type, x.Body})
			}
		case *ast.FuncLit:
			sites = append(sites, site{x.Type, x.Body})
		}
		return true
	})
	r.Shuffle(len(sites), func(i, j int) { sites[i], sites[j] = sites[j], sites[i] })
	for _, s := range sites {
		if s.ft.Results == nil || len(s.ft.Results.List) == 0 || len(s.body.List) == 0 {
			continue
		}
		unnamed := true
		for _, fl := range s.ft.Results.List {
			if len(fl.Names) != 0 {
				unnamed = false
			}
		}
		ret, ok := s.body.List[len(s.body.List)-1].(*ast.ReturnStmt)
		if !unnamed || !ok || len(ret.Results) == 0 {
			continue
		}
		var eds []edit
		var names []string
		for i, fl := range s.ft.Results.List {
			nm := fmt.Sprintf("r%d__%d", i, id)
			names = append(names, nm)
			eds = append(eds, edit{off(fl.Type.Pos()), off(fl.Type.Pos()), nm + " "})
		}
		if s.ft.Results.Opening == token.NoPos { // single unparenthesised result
			eds = append(eds, edit{off(s.ft.Results.End()), off(s.ft.Results.End()), ")"})
			eds[0].text = "(" + eds[0].text
		}
		first := off(ret.Results[0].Pos())
		eds = append(eds, edit{off(ret.Pos()), first, strings.Join(names, ", ") + " = "})
		eds = append(eds, edit{off(ret.End()), off(ret.End()), "; return"})
		return eds
	}
	return nil
}

var snippets = []struct {
	needs string // import that must already be present ("" = none)
	text  string
}{
	{"", "func snip%[1]d() []int {\n\tappend := func(xs ...int) []int { return xs }\n\tx := append()\n\tx = append()\n\tx = append(1)\n\treturn x\n}\n"},
	{"", "func snip%[1]d() int {\n\tnew := func() *int { v := 0; return &v }\n\treturn *new()\n}\n"},
	{"", "func snip%[1]d() string {\n\tnew := func(s ...string) *string { return &s[0] }\n\treturn *new(\"a\", \"b\")\n}\n"},
	{"", "type snipT%[1]d struct{ fn func() int }\n\nfunc snip%[1]d(t snipT%[1]d) (snipT%[1]d, int) {\n\treturn t, t.fn()\n}\n"},
	{"", "type snipO%[1]d func(*int)\n\nfunc snipTwo%[1]d() (int, string, snipO%[1]d, snipO%[1]d) { return 0, \"\", nil, nil }\n\nfunc snipV%[1]d(a int, b string, o ...snipO%[1]d) {}\n\nfunc snip%[1]d() { snipV%[1]d(snipTwo%[1]d()) }\n"},
	{"", "type snipR%[1]d struct{ n int }\n\nfunc (r (snipR%[1]d)) M() int { return r.n }\n\nfunc (r *(snipR%[1]d)) P() int { return r.n }\n"},
	{"", "func snip%[1]d(xs []int) bool {\n\tlen := func(v []int) int { return -1 }\n\treturn len(xs) >= 0\n}\n"},
	{"", "func snip%[1]d() (complex128, uintptr) {\n\treturn *new(complex128), *new(uintptr)\n}\n"},
	{"", "func snip%[1]d[T any, _ comparable](x T) T {\n\treturn *new(T)\n}\n"},
	{"", "func snip%[1]d() (r int, _ error) {\n\tswitch {\n\t}\n\tselect {\n\tdefault:\n\t}\n\tfor range []int{} {\n\t}\n\t{\n\t}\n\treturn\n}\n"},
	{"sort", "func snip%[1]d(xs []int) {\n\tsort.Slice(xs, func(i, j int) (r bool) { return })\n}\n"},
	{"sort", "func snip%[1]d(xs, ys []int) {\n\tsort := struct{ Slice func([]int, func(i, j int) bool) }{}\n\tsort.Slice(xs, func(i, j int) bool { return ys[i] < ys[j] })\n}\n"},
	{"flag", "func snipF%[1]d() (*bool, string, bool, string) { return nil, \"\", false, \"\" }\n\nfunc snip%[1]d() { flag.BoolVar(snipF%[1]d()) }\n"},
	{"regexp", "func snip%[1]d() {\n\tregexp := struct{ MustCompile func(...string) int }{}\n\tregexp.MustCompile()\n\tregexp.MustCompile(`[0-9]+`)\n}\n"},
	{"strings", "func snipS%[1]d() (string, string, string, int) { return \"\", \"\", \"\", 0 }\n\nfunc snip%[1]d() string { return strings.Replace(snipS%[1]d()) }\n"},
	{"fmt", "func snipP%[1]d() (string, error) { return \"\", nil }\n\nfunc snip%[1]d() { fmt.Println(snipP%[1]d()); _ = fmt.Sprint(snipP%[1]d()) }\n"},
	{"os", "func snip%[1]d() {\n\tos := struct{ Exit func() }{}\n\tdefer func() {}()\n\tos.Exit()\n}\n"},
}

func imports(f *File, path string) bool {
	for _, is := range f.AST.Imports {
		if is.Path.Value == `"`+path+`"` && is.Name == nil {
			return true
		}
	}
	return false
}

func opSnippet(p *Pkg, f *File, r *rand.Rand, id int) []edit {
	var ok []int
	for i, s := range snippets {
		if s.needs == "" || imports(f, s.needs) {
			ok = append(ok, i)
		}
	}
	n := 1 + r.Intn(3)
	text := "\n"
	for i := 0; i < n; i++ {
		s := snippets[ok[r.Intn(len(ok))]]
		text += fmt.Sprintf(s.text, id*10+i) + "\n"
	}
	return []edit{{len(f.Src), len(f.Src), text}}
}

func opEmptyBody(p *Pkg, f *File, r *rand.Rand, id int) []edit {
	var blocks []*ast.BlockStmt
	ast.Inspect(f.AST, func(n ast.Node) bool {
		switch x := n.(type) {
		case *ast.IfStmt:
			blocks = append(blocks, x.Body)
		case *ast.ForStmt:
			blocks = append(blocks, x.Body)
		case *ast.RangeStmt:
			blocks = append(blocks, x.Body)
		case *ast.SwitchStmt:
			blocks = append(blocks, x.Body)
		case *ast.TypeSwitchStmt:
			blocks = append(blocks, x.Body)
		case *ast.SelectStmt:
			blocks = append(blocks, x.Body)
		case *ast.FuncDecl:
			if x.Body != nil && (x.Type.Results == nil || len(x.Type.Results.List) == 0) {
				blocks = append(blocks, x.Body)
			}
		case *ast.FuncLit:
			if x.Type.Results == nil {
				blocks = append(blocks, x.Body)
			}
		}
		return true
	})
	if len(blocks) == 0 {
		return nil
	}
	b := blocks[r.Intn(len(blocks))]
	if len(b.List) == 0 {
		return nil
	}
	return []edit{{off(b.Lbrace) + 1, off(b.Rbrace), "\n"}}
}

func opBlankParam(p *Pkg, f *File, r *rand.Rand, id int) []edit {
	used := map[types.Object]bool{}
	for _, o := range p.Info.Uses {
		used[o] = true
	}
	var eds []edit
	ast.Inspect(f.AST, func(n ast.Node) bool {
		ft, ok := n.(*ast.FuncType)
		if !ok || ft.Params == nil {
			return true
		}
		for _, fl := range ft.Params.List {
			for _, nm := range fl.Names {
				if o := p.Info.Defs[nm]; o != nil && !used[o] && nm.Name != "_" && r.Intn(2) == 0 {
					eds = append(eds, edit{off(nm.Pos()), off(nm.End()), "_"})
				}
			}
		}
		return true
	})
	return eds
}

func opGeneric(p *Pkg, f *File, r *rand.Rand, id int) []edit {
	var eds []edit
	for _, d := range f.AST.Decls {
		fd, ok := d.(*ast.FuncDecl)
		if !ok || fd.Recv != nil || fd.Type.TypeParams != nil || fd.Name.Name == "main" || fd.Name.Name == "init" || r.Intn(3) != 0 {
			continue
		}
		eds = append(eds, edit{off(fd.Name.End()), off(fd.Name.End()), fmt.Sprintf("[T__%d any, _ comparable]", id)})
	}
	return eds
}

// replace f(a, b, ..) by f(fwdN()) where fwdN returns values of the argument types
func opForwardMulti(p *Pkg, f *File, r *rand.Rand, id int) []edit {
	var calls []*ast.CallExpr
	ast.Inspect(f.AST, func(n ast.Node) bool {
		if c, ok := n.(*ast.CallExpr); ok && len(c.Args) >= 2 && c.Ellipsis == token.NoPos {
			if tv, ok := p.Info.Types[c.Fun]; ok && !tv.IsType() && !tv.IsBuiltin() {
				if sig, ok := tv.Type.Underlying().(*types.Signature); ok && sig.TypeParams() == nil {
					calls = append(calls, c)
				}
			}
		}
		return true
	})
	r.Shuffle(len(calls), func(i, j int) { calls[i], calls[j] = calls[j], calls[i] })
	qual := func(q *types.Package) string {
		if q == p.Types {
			return ""
		}
		return q.Name()
	}
	for _, c := range calls {
		var tys []string
		good := true
		for _, a := range c.Args {
			tv := p.Info.Types[a]
			t := tv.Type
			if t == nil {
				good = false
				break
			}
			if b, ok := t.(*types.Basic); ok && b.Info()&types.IsUntyped != 0 {
				t = types.Default(t)
				if b.Kind() == types.UntypedNil {
					good = false
					break
				}
			}
			if _, ok := t.(*types.Tuple); ok {
				good = false
				break
			}
			s := types.TypeString(t, qual)
			if strings.Contains(s, "__") { // local types of other mutants
				good = false
				break
			}
			tys = append(tys, s)
		}
		if !good {
			continue
		}
		name := fmt.Sprintf("fwd__%d", id)
		helper := fmt.Sprintf("\nfunc %s() (%s) { panic(0) }\n", name, strings.Join(tys, ", "))
		return []edit{
			{off(c.Args[0].Pos()), off(c.Args[len(c.Args)-1].End()), name + "()"},
			{len(f.Src), len(f.Src), helper},
		}
	}
	return nil
}

func opShadowLocal(p *Pkg, f *File, r *rand.Rand, id int) []edit {
	decls := []string{
		"len := func(v interface{}) int { return -1 }; _ = len",
		"copy := func(dst, src interface{}) int { return 0 }; _ = copy",
		"cap := func(v interface{}) int { return 0 }; _ = cap",
		"append := func(s []int, v ...int) []int { return s }; _ = append",
		"append := func(s []string, v ...string) []string { return s }; _ = append",
		"append := func(s []byte, v ...byte) []byte { return s }; _ = append",
		"nil := error(nil); _ = nil",
		"string := func(v interface{}) int { return 0 }; _ = string",
		"int32 := func(v int64) int16 { return 0 }; _ = int32",
	}
	var bodies []*ast.BlockStmt
	for _, d := range f.AST.Decls {
		if fd, ok := d.(*ast.FuncDecl); ok && fd.Body != nil && len(fd.Body.List) > 0 {
			bodies = append(bodies, fd.Body)
		}
	}
	if len(bodies) == 0 {
		return nil
	}
	b := bodies[r.Intn(len(bodies))]
	return []edit{{off(b.Lbrace) + 1, off(b.Lbrace) + 1, "\n\t" + decls[r.Intn(len(decls))] + "\n"}}
}

var mutOps = []mutOp{
	{"paren-receiver", opParenRecv},
	{"paren-expr", opParenExpr},
	{"named-result-bare-return", opBareReturn},
	{"stress-snippet", opSnippet},
	{"empty-body", opEmptyBody},
	{"blank-param", opBlankParam},
	{"add-type-params", opGeneric},
	{"forward-multi-value", opForwardMulti},
	{"shadow-builtin-local", opShadowLocal},
	{"namesake-import", opNamesakeImport},
}

func Mutants(s1 []*Pkg, tier string, seed int64, stats map[string]int) []*Pkg {
	r := common.NewRand(seed, "c01-mutants")
	want := 160
	if tier == "thorough" {
		want = 2500
	}
	type fileRef struct {
		p *Pkg
		f *File
	}
	var files []fileRef
	for _, p := range s1 {
		for _, f := range p.Files {
			files = append(files, fileRef{p, f})
		}
	}
	if len(files) == 0 {
		return nil
	}
	var out []*Pkg
	attempts := 0
	for len(out) < want && attempts < want*6 {
		attempts++
		fr := files[r.Intn(len(files))]
		// one to three operators in sequence on the same file
		n := 1 + r.Intn(3)
		cur := &Pkg{Stream: "S3", Name: fr.p.Name, Files: fr.p.Files, Types: fr.p.Types, Info: fr.p.Info}
		curFile := fr.f
		var applied []string
		for k := 0; k < n; k++ {
			op := mutOps[r.Intn(len(mutOps))]
			eds := op.gen(cur, curFile, r, attempts)
			if len(eds) == 0 {
				stats["inapplicable:"+op.name]++
				continue
			}
			src := applyEdits(curFile.Src, eds)
			srcs := cur.Sources()
			srcs[curFile.Name] = src
			np, err := TypeCheck("S3", fr.p.Name, "", srcs)
			if err != nil {
				stats["ill-typed:"+op.name]++
				continue
			}
			stats["ok:"+op.name]++
			applied = append(applied, op.name)
			cur = np
			for _, f := range np.Files {
				if f.Name == curFile.Name {
					curFile = f
				}
			}
		}
		if len(applied) == 0 {
			continue
		}
		cur.Stream = "S3"
		cur.Name = fmt.Sprintf("S3/%s#m%d", strings.TrimPrefix(fr.p.Name, "S1/"), attempts)
		cur.Origin = fmt.Sprintf("%s/%s mutated by %s (seed %d)", fr.p.Name, fr.f.Name, strings.Join(applied, "+"), seed)
		cur.Focus = curFile.Name
		out = append(out, cur)
	}
	return out
}
