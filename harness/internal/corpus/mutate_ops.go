package corpus

func mutants(s1 []*Pkg, tier string, seed int64, stats map[string]int) []*Pkg { return nil }
