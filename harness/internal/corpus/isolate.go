package corpus

// Process isolation of the shared oracle run. recover() cannot catch a FATAL runtime error (stack overflow,
// concurrent map writes, out of memory): it kills the process. The run therefore happens in a child process
// (`vh crashrun`); each worker keeps a marker file naming the Check call it is executing. When the child dies, every
// in-flight call is probed in a process of its own; a call whose probe dies as well is reported as a C01 failure
// (key C01/<checker>/fatal-error) with the package as witness and excluded, and the run is repeated without it.

import (
	"bytes"
	"encoding/json"
	"fmt"
	"os"
	"os/exec"
	"path/filepath"
	"sort"
	"strings"
	"sync"
	"time"

	"verifharness/internal/common"
)

type triple struct {
	Pkg     string `json:"pkg"`
	File    string `json:"file"`
	Variant string `json:"variant"`
}

func (t triple) key() string { return t.Pkg + "\t" + t.File + "\t" + t.Variant }

var (
	excludeOnce sync.Once
	excluded    map[string]bool
)

func isExcluded(p *Pkg, f *File, v Variant) bool {
	excludeOnce.Do(func() {
		excluded = map[string]bool{}
		if path := os.Getenv("VERIF_CRASH_EXCLUDE"); path != "" {
			var ts []triple
			if data, err := os.ReadFile(path); err == nil && json.Unmarshal(data, &ts) == nil {
				for _, t := range ts {
					excluded[t.key()] = true
				}
			}
		}
	})
	if len(excluded) == 0 {
		return false
	}
	return excluded[triple{p.Name, f.Name, v.String()}.key()]
}

const markerLen = 1024

type marker struct{ f *os.File }

func newMarker(w int) *marker {
	dir := os.Getenv("VERIF_CRASH_MARKERS")
	if dir == "" {
		return &marker{}
	}
	f, err := os.OpenFile(filepath.Join(dir, fmt.Sprintf("inflight-%02d.txt", w)), os.O_CREATE|os.O_RDWR|os.O_TRUNC, 0o644)
	if err != nil {
		return &marker{}
	}
	return &marker{f}
}

func (m *marker) set(p *Pkg, f *File, v Variant) {
	if m.f == nil {
		return
	}
	rec := []byte(triple{p.Name, f.Name, v.String()}.key())
	buf := bytes.Repeat([]byte{' '}, markerLen)
	copy(buf, rec)
	buf[markerLen-1] = '\n'
	m.f.WriteAt(buf, 0)
}

func (m *marker) clear() {
	if m.f != nil {
		m.f.WriteAt(bytes.Repeat([]byte{' '}, markerLen), 0)
	}
}

func readMarkers(dir string) []triple {
	files, _ := filepath.Glob(filepath.Join(dir, "inflight-*.txt"))
	sort.Strings(files)
	var out []triple
	for _, fn := range files {
		data, err := os.ReadFile(fn)
		if err != nil {
			continue
		}
		parts := strings.Split(strings.TrimSpace(string(data)), "\t")
		if len(parts) == 3 {
			out = append(out, triple{parts[0], parts[1], parts[2]})
		}
	}
	return out
}

func isFatal(stderr string, err error) bool {
	if strings.Contains(stderr, "fatal error:") || strings.Contains(stderr, "runtime: goroutine stack exceeds") {
		return true
	}
	if ee, ok := err.(*exec.ExitError); ok && ee.ExitCode() == -1 { // killed by a signal
		return true
	}
	return false
}

func fatalLine(stderr string) string {
	for _, l := range strings.Split(stderr, "\n") {
		if strings.Contains(l, "fatal error:") {
			return strings.TrimSpace(l)
		}
	}
	if strings.Contains(stderr, "goroutine stack exceeds") {
		return "fatal error: stack overflow"
	}
	return "fatal error (process killed)"
}

func runChild(tier string, seed int64, dir string, extraEnv ...string) (string, error) {
	exe, err := os.Executable()
	if err != nil {
		return "", err
	}
	cmd := exec.Command(exe, "crashrun", "-tier", tier, "-seed", fmt.Sprint(seed), "-out", filepath.Join(dir, "child"))
	cmd.Dir, _ = os.Getwd()
	cmd.Env = append(os.Environ(), "VERIF_CRASH_CHILD=1")
	cmd.Env = append(cmd.Env, extraEnv...)
	var se tailBuffer
	cmd.Stdout = &se
	cmd.Stderr = &se
	err = cmd.Run()
	return se.String(), err
}

// tailBuffer keeps the first and the last 64 KiB of what is written to it.
type tailBuffer struct {
	head, tail []byte
}

func (t *tailBuffer) Write(p []byte) (int, error) {
	const lim = 64 << 10
	if len(t.head) < lim {
		n := lim - len(t.head)
		if n > len(p) {
			n = len(p)
		}
		t.head = append(t.head, p[:n]...)
	}
	t.tail = append(t.tail, p...)
	if len(t.tail) > lim {
		t.tail = t.tail[len(t.tail)-lim:]
	}
	return len(p), nil
}

func (t *tailBuffer) String() string { return string(t.head) + "\n...\n" + string(t.tail) }

// isolatedCompute runs the shared run in child processes; nil means "isolation not possible, run in-process".
func isolatedCompute(tier string, seed int64, dir string, st string) *Shared {
	if os.Getenv("VERIF_CRASH_NOISOLATE") != "" {
		return nil
	}
	markers := filepath.Join(dir, "markers")
	exclPath := filepath.Join(dir, "exclude.json")
	var excl []triple
	var fatals []FailureRec
	for round := 0; round < 6; round++ {
		os.RemoveAll(markers)
		common.Must(os.MkdirAll(markers, 0o755))
		data, _ := json.Marshal(excl)
		common.Must(os.WriteFile(exclPath, data, 0o644))
		os.Remove(filepath.Join(dir, "shared.json"))
		stderr, err := runChild(tier, seed, dir, "VERIF_CRASH_MARKERS="+markers, "VERIF_CRASH_EXCLUDE="+exclPath)
		if err == nil {
			var s Shared
			data, rerr := os.ReadFile(filepath.Join(dir, "shared.json"))
			if rerr != nil || json.Unmarshal(data, &s) != nil || s.Stamp != st {
				return nil
			}
			s.Failures = append(fatals, s.Failures...)
			if len(fatals) > 0 {
				s.Notes = append(s.Notes, fmt.Sprintf("%d Check call(s) kill the process with a fatal runtime error; they were isolated in child processes and excluded from the run", len(fatals)))
			}
			return &s
		}
		if !isFatal(stderr, err) {
			fmt.Fprintln(os.Stderr, "crashrun child failed without a fatal runtime error; falling back to the in-process run\n"+clip(stderr, 3000))
			return nil
		}
		// probe every in-flight call in a process of its own
		cands := readMarkers(markers)
		type res struct {
			t      triple
			stderr string
			dead   bool
			wit    map[string]interface{}
		}
		results := make([]res, len(cands))
		var wg sync.WaitGroup
		sem := make(chan struct{}, 4)
		for i, c := range cands {
			wg.Add(1)
			go func(i int, c triple) {
				defer wg.Done()
				sem <- struct{}{}
				defer func() { <-sem }()
				witPath := filepath.Join(dir, fmt.Sprintf("probe-%d.json", i))
				os.Remove(witPath)
				se, err := runChild(tier, seed, dir, "VERIF_CRASH_PROBE="+c.key(), "VERIF_CRASH_PROBE_WITNESS="+witPath, "VERIF_CRASH_EXCLUDE="+exclPath)
				r := res{t: c, stderr: se, dead: err != nil && isFatal(se, err)}
				if data, e := os.ReadFile(witPath); e == nil {
					json.Unmarshal(data, &r.wit)
				}
				results[i] = r
			}(i, c)
		}
		wg.Wait()
		found := false
		for _, r := range results {
			if !r.dead {
				continue
			}
			found = true
			excl = append(excl, r.t)
			checker := r.t.Variant
			if i := strings.Index(checker, "{"); i >= 0 {
				checker = checker[:i]
			}
			w := map[string]interface{}{"package": r.t.Pkg, "file": r.t.File, "checker": r.t.Variant, "fatal": fatalLine(r.stderr), "stderr_head": clip(r.stderr, 1500)}
			for k, v := range r.wit {
				w[k] = v
			}
			fatals = append(fatals, FailureRec{"C01", "C01/" + checker + "/fatal-error",
				fmt.Sprintf("%s kills the process on %s/%s (recover cannot catch it): %s", r.t.Variant, r.t.Pkg, r.t.File, fatalLine(r.stderr)), w})
		}
		if !found {
			// not reproducible in isolation (e.g. a race): report with the candidates, exclude them all
			var names []string
			for _, c := range cands {
				names = append(names, c.Pkg+"/"+c.File+" "+c.Variant)
				excl = append(excl, c)
			}
			fatals = append(fatals, FailureRec{"C01", "C01/unknown/fatal-error",
				fmt.Sprintf("the oracle process died with %s; none of the %d in-flight Check calls reproduces it alone", fatalLine(stderr), len(cands)),
				map[string]interface{}{"in_flight": names, "stderr_head": clip(stderr, 1500)}})
			if len(cands) == 0 {
				return nil
			}
		}
		time.Sleep(10 * time.Millisecond)
	}
	return nil
}

// runProbe (child): execute exactly one Check call; the process dies if the call is fatal.
func runProbe(all []*Pkg, variants []Variant, key string) {
	for _, p := range all {
		for _, f := range p.Files {
			for i, v := range variants {
				if (triple{p.Name, f.Name, v.String()}).key() != key {
					continue
				}
				if wp := os.Getenv("VERIF_CRASH_PROBE_WITNESS"); wp != "" {
					data, _ := json.Marshal(map[string]interface{}{"origin": p.Origin, "source": clip(string(f.Src), 6000)})
					os.WriteFile(wp, data, 0o644)
				}
				r := NewRunner([]Variant{variants[i]})
				r.SetPkg(p)
				r.CheckFile(0, f)
				return
			}
		}
	}
}

// ChildRun is the `vh crashrun` sub-command (the isolated child of Get).
func ChildRun(tier string, seed int64, outDir string) *common.Meta {
	os.Setenv("VERIF_CRASH_CHILD", "1")
	Get(tier, seed)
	return &common.Meta{Property: "crashrun"}
}
