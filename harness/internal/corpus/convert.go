package corpus

// goast2m: converts a parsed and type-checked file into a term of the Coq mirror coq/theories/GoAst.v.
// Positions are 1 + byte offset (0 = token.NoPos). Facts are read from types.Info exactly the way the
// checkers read ctx.TypesInfo (TypeOf with the UnknownType fallback, ObjectOf, Types[e].Value) plus
// typep.SideEffectFree, which the modelled checkers call as a library.

import (
	"fmt"
	"go/ast"
	"go/constant"
	"go/token"
	"go/types"
	"strings"

	"github.com/go-toolsmith/typep"

	"verifharness/internal/coqfmt"
)

func init() {
	// the token codes hard-wired in GoAst.v
	want := map[token.Token]int{token.INT: 5, token.FLOAT: 6, token.STRING: 9, token.AND: 17, token.EQL: 39, token.LSS: 40,
		token.GTR: 41, token.ASSIGN: 42, token.NEQ: 44, token.LEQ: 45, token.GEQ: 46, token.DEFINE: 47, token.TYPE: 84,
		token.LAND: 34, token.LOR: 35, token.BREAK: 61, token.FALLTHROUGH: 69, token.CONST: 64, token.VAR: 85, token.IMPORT: 75}
	if types.IsInteger != 2 || types.Int != 2 || types.Uint != 7 || types.Uintptr != 12 {
		panic("go/types basic constants differ from Model_Checkers.v")
	}
	for t, n := range want {
		if int(t) != n {
			panic(fmt.Sprintf("go/token code of %v is %d, GoAst.v assumes %d", t, int(t), n))
		}
	}
}

type converter struct {
	p      *Pkg
	f      *File
	tf     *token.File
	objIDs map[types.Object]int
	nodes  int
	b      strings.Builder
}

// children in ast.Inspect order, comments excluded
func childrenOf(n ast.Node) []ast.Node {
	var out []ast.Node
	first := true
	ast.Inspect(n, func(c ast.Node) bool {
		if c == nil {
			return false
		}
		if first {
			first = false
			return true
		}
		switch c.(type) {
		case *ast.CommentGroup, *ast.Comment:
		default:
			out = append(out, c)
		}
		return false // direct children only
	})
	return out
}

func (c *converter) pos(p token.Pos) int {
	if !p.IsValid() || Fset.File(p) != c.tf {
		return 0
	}
	return c.tf.Offset(p) + 1
}

func b2n(b bool) int {
	if b {
		return 1
	}
	return 0
}

func (c *converter) okind(id *ast.Ident) string {
	obj := c.p.Info.ObjectOf(id)
	switch o := obj.(type) {
	case nil:
		return "ONone"
	case *types.Builtin:
		return "(OBuiltin " + coqfmt.Str(o.Name()) + ")"
	case *types.Nil:
		return "ONil"
	case *types.PkgName:
		return "(OPkgName " + coqfmt.Str(o.Imported().Path()) + ")"
	case *types.Func:
		return "OFunc"
	case *types.Var:
		return "OVar"
	case *types.TypeName:
		if o.Pkg() == nil {
			return "(OUniverseType " + coqfmt.Str(o.Name()) + ")"
		}
		return "OTypeName"
	case *types.Const:
		return "OConst"
	case *types.Label:
		return "OLabel"
	}
	return "ONone"
}

func tyclass(t types.Type) string {
	if _, ok := t.(*types.TypeParam); ok {
		return "TyTypeParam"
	}
	switch u := t.Underlying().(type) {
	case *types.Basic:
		info := u.Info()
		switch {
		case info&types.IsInteger != 0:
			return "TyInt"
		case info&types.IsFloat != 0:
			return "TyFloat"
		case info&types.IsString != 0:
			return "TyString"
		case info&types.IsBoolean != 0:
			return "TyBool"
		}
		return "TyBasicOther"
	case *types.Slice, *types.Map, *types.Pointer, *types.Interface:
		return "TyNilable"
	case *types.Array:
		return "TyArray"
	case *types.Struct:
		return "TyStruct"
	}
	return "TyOther"
}

func isDefaultLiteralType(typ types.Type) bool {
	b, ok := typ.(*types.Basic)
	if !ok {
		return false
	}
	switch b.Kind() {
	case types.Bool, types.Int, types.Float64, types.String:
		return true
	}
	return false
}

func sigfact(t types.Type) string {
	sig, ok := t.(*types.Signature)
	if !ok {
		return "NoSig"
	}
	recv := "RNone"
	if r := sig.Recv(); r != nil {
		if _, ok := r.Type().Underlying().(*types.Pointer); ok { // typep.IsPointer
			recv = "RPtr"
		} else {
			recv = "RVal"
		}
	}
	opt := false
	if sig.Variadic() && sig.Params().Len() > 0 {
		if sl, ok := sig.Params().At(sig.Params().Len() - 1).Type().(*types.Slice); ok {
			if es, ok := sl.Elem().Underlying().(*types.Signature); ok && es.Params().Len() != 0 {
				opt = true
			}
		}
	}
	return fmt.Sprintf("(Sig %d %s %s %s)", sig.Params().Len(), coqfmt.Bool(sig.Variadic()), recv, coqfmt.Bool(opt))
}

// facts = base facts, wrapped in FX when a bit of f_ext or the type name is set
func (c *converter) facts(n ast.Node, wantBasic bool) string {
	base := c.baseFacts(n, wantBasic)
	ext, tn := c.extFacts(n)
	if ext == 0 && tn == "" {
		return base
	}
	return fmt.Sprintf("(FX %s %d %s)", base, ext, coqfmt.Str(tn))
}

// unnamedResultChecker.typeName
func typeNameOf(typ types.Type) string {
	switch typ := typ.(type) {
	case *types.Array:
		return typeNameOf(typ.Elem())
	case *types.Pointer:
		return typeNameOf(typ.Elem())
	case *types.Slice:
		return typeNameOf(typ.Elem())
	case *types.Named:
		return typ.Obj().Name()
	default:
		return ""
	}
}

// ptrToRefParamChecker.isRefType
func isRefType(x types.Type) bool {
	switch typ := x.(type) {
	case *types.Map, *types.Chan, *types.Interface:
		return true
	case *types.Named:
		if _, ok := typ.Underlying().(*types.Interface); ok {
			return true
		}
	}
	return false
}

// extFacts: the bit set f_ext (bit numbers x_* of GoAst.v) and f_tn
func (c *converter) extFacts(n ast.Node) (int, string) {
	ext := 0
	set := func(bit int, v bool) {
		if v {
			ext |= 1 << bit
		}
	}
	if fl, ok := n.(*ast.FieldList); ok {
		if fl.Opening.IsValid() && fl.Closing.IsValid() {
			set(9, Fset.Position(fl.Opening).Line != Fset.Position(fl.Closing).Line)
		}
		return ext, ""
	}
	e, ok := n.(ast.Expr)
	if !ok {
		return 0, ""
	}
	info := c.p.Info
	if id, ok := e.(*ast.Ident); ok {
		set(0, info.Defs[id] != nil)
		set(1, ast.IsExported(id.Name))
		if v, ok := info.ObjectOf(id).(*types.Var); ok {
			set(10, !typep.IsStruct(v.Type().Underlying()))
		}
	}
	typ := info.TypeOf(e)
	if typ == nil {
		typ = types.Typ[types.Invalid]
	}
	if pu, ok := typ.Underlying().(*types.Pointer); ok {
		set(2, true)
		switch pu.Elem().Underlying().(type) {
		case *types.Pointer, *types.Interface:
			set(3, true)
		}
	}
	if pd, ok := typ.(*types.Pointer); ok {
		_, arr := pd.Elem().(*types.Array)
		set(4, arr)
		set(5, isRefType(pd.Elem()))
	}
	set(6, typep.IsSlice(typ))
	set(7, typep.IsTypeExpr(info, e))
	set(12, info.Types[e].IsNil())
	if ta, ok := e.(*ast.TypeAssertExpr); ok && ta.Type != nil {
		from := info.TypeOf(ta.X)
		if from == nil {
			from = types.Typ[types.Invalid]
		}
		set(8, types.Identical(typ, from))
	}
	if fl, ok := e.(*ast.FuncLit); ok && fl.Body != nil && len(fl.Body.List) == 1 {
		if ret, ok := fl.Body.List[0].(*ast.ReturnStmt); ok && len(ret.Results) == 1 {
			if call, ok := ret.Results[0].(*ast.CallExpr); ok {
				ft := info.TypeOf(call.Fun)
				if ft == nil {
					ft = types.Typ[types.Invalid]
				}
				set(11, types.Identical(typ, ft))
			}
		}
	}
	return ext, typeNameOf(typ)
}

func (c *converter) baseFacts(n ast.Node, wantBasic bool) string {
	e, ok := n.(ast.Expr)
	if !ok {
		return "nf"
	}
	info := c.p.Info
	obj, objid, astnil := "ONone", 0, true
	if id, ok := e.(*ast.Ident); ok {
		obj = c.okind(id)
		if o := info.ObjectOf(id); o != nil {
			if _, seen := c.objIDs[o]; !seen {
				c.objIDs[o] = len(c.objIDs) + 1
			}
			objid = c.objIDs[o]
		}
		astnil = id.Obj == nil
	}
	typ := info.TypeOf(e)
	if typ == nil {
		typ = types.Typ[types.Invalid] // linter.UnknownType
	}
	ty := tyclass(typ)
	deflit := isDefaultLiteralType(typ)
	_, arr := typ.(*types.Array)
	pure := typep.SideEffectFree(info, e)
	cst := "None"
	if v := info.Types[e].Value; v != nil && v.Kind() == constant.String {
		s := constant.StringVal(v)
		cst = "(Some " + coqfmt.Str(s) + ")"
	}
	sg := sigfact(typ)
	istype := info.Types[e].IsType()
	multi := 0
	// a call yielding several values, possibly wrapped in parentheses: f((g()))
	if tup, ok := typ.(*types.Tuple); ok && tup.Len() >= 2 {
		multi = tup.Len()
	}
	if wantBasic {
		if bt, ok := typ.Underlying().(*types.Basic); ok {
			size1 := 0
			func() {
				defer func() { recover() }()
				size1 = int(Sizes.Sizeof(bt)) + 1
			}()
			return fmt.Sprintf("(FB %s %d %s %s %s %s %s %s %s %s %d %d %d %d)", obj, objid, coqfmt.Bool(astnil), ty, coqfmt.Bool(deflit), coqfmt.Bool(arr),
				coqfmt.Bool(pure), cst, sg, coqfmt.Bool(istype), multi, int(bt.Info()), int(bt.Kind()), size1)
		}
	}
	if obj == "ONone" && objid == 0 && astnil && ty == "TyOther" && !deflit && !arr && !pure && cst == "None" && sg == "NoSig" && !istype && multi == 0 {
		return "nf"
	}
	return fmt.Sprintf("(F %s %d %s %s %s %s %s %s %s %s %d)", obj, objid, coqfmt.Bool(astnil), ty, coqfmt.Bool(deflit), coqfmt.Bool(arr),
		coqfmt.Bool(pure), cst, sg, coqfmt.Bool(istype), multi)
}

// tagOf: the GoAst tag of a node with its string and numeric slots
func tagOf(n ast.Node) (tag, s string, a, b int) {
	s = `""`
	switch x := n.(type) {
	case *ast.Ident:
		tag, s = "TIdent", coqfmt.Str(x.Name)
	case *ast.BasicLit:
		tag, s, a = "TBasicLit", coqfmt.Str(x.Value), int(x.Kind)
	case *ast.ParenExpr:
		tag = "TParen"
	case *ast.StarExpr:
		tag = "TStar"
	case *ast.UnaryExpr:
		tag, a = "TUnary", int(x.Op)
	case *ast.BinaryExpr:
		tag, a = "TBinary", int(x.Op)
	case *ast.SelectorExpr:
		tag = "TSelector"
	case *ast.IndexExpr:
		tag = "TIndex"
	case *ast.IndexListExpr:
		tag = "TIndexList"
	case *ast.SliceExpr:
		tag, a = "TSliceExpr", b2n(x.Low != nil)+2*b2n(x.High != nil)+4*b2n(x.Max != nil)
	case *ast.CallExpr:
		tag, a = "TCall", b2n(x.Ellipsis != token.NoPos)
	case *ast.CompositeLit:
		tag, a = "TCompositeLit", b2n(x.Type != nil)
	case *ast.FuncLit:
		tag = "TFuncLit"
	case *ast.ArrayType:
		tag, a = "TArrayType", b2n(x.Len != nil)
	case *ast.FuncType:
		tag, a, b = "TFuncType", b2n(x.TypeParams != nil), b2n(x.Results != nil)
	case *ast.FieldList:
		tag = "TFieldList"
	case *ast.Field:
		tag, a = "TField", len(x.Names)
	case *ast.BlockStmt:
		tag = "TBlock"
	case *ast.AssignStmt:
		tag, a, b = "TAssign", int(x.Tok), len(x.Lhs)
	case *ast.ReturnStmt:
		tag = "TReturn"
	case *ast.RangeStmt:
		tag, a, b = "TRange", b2n(x.Key != nil)+b2n(x.Value != nil), int(x.Tok)
	case *ast.IfStmt:
		tag, a, b = "TIf", b2n(x.Init != nil), b2n(x.Else != nil)
	case *ast.DeferStmt:
		tag = "TDefer"
	case *ast.ExprStmt:
		tag = "TExprStmt"
	case *ast.CaseClause:
		tag, a = "TCaseClause", len(x.List)
	case *ast.CommClause:
		tag, a = "TCommClause", b2n(x.Comm != nil)
	case *ast.FuncDecl:
		tag, a, b = "TFuncDecl", b2n(x.Recv != nil), b2n(x.Body != nil)
	case *ast.GenDecl:
		tag, a = "TGenDecl", int(x.Tok)
	case *ast.TypeSpec:
		tag, a = "TTypeSpec", b2n(x.TypeParams != nil)
	case *ast.SwitchStmt:
		tag, a, b = "TSwitch", b2n(x.Init != nil), b2n(x.Tag != nil)
	case *ast.TypeSwitchStmt:
		tag, a = "TTypeSwitch", b2n(x.Init != nil)
	case *ast.SelectStmt:
		tag = "TSelect"
	case *ast.ForStmt:
		tag, a = "TFor", b2n(x.Init != nil)+2*b2n(x.Cond != nil)+4*b2n(x.Post != nil)
	case *ast.BranchStmt:
		tag, a = "TBranch", int(x.Tok)
	case *ast.ValueSpec:
		tag, a, b = "TValueSpec", len(x.Names), b2n(x.Type != nil)
	case *ast.TypeAssertExpr:
		tag, a = "TTypeAssert", b2n(x.Type != nil)
	default:
		a = otherCode(n)
		switch n.(type) {
		case ast.Expr:
			tag = "(TOther CExpr)"
		case ast.Stmt:
			tag = "(TOther CStmt)"
		default:
			tag = "(TOther CNode)"
		}
	}
	return
}

func (c *converter) node(n ast.Node, wantBasic bool) {
	c.nodes++
	tag, s, a, b := tagOf(n)
	fmt.Fprintf(&c.b, "(Nd %s %d %s %d %d %s ", tag, c.pos(n.Pos()), s, a, b, c.facts(n, wantBasic))
	kids := childrenOf(n)
	// truncateCmp reads the underlying basic type of comparison operands and of the single argument of f(x)
	kidBasic := func(i int) bool {
		switch x := n.(type) {
		case *ast.BinaryExpr:
			switch x.Op {
			case token.LSS, token.GTR, token.LEQ, token.GEQ, token.EQL, token.NEQ:
				return true
			}
		case *ast.CallExpr:
			_, isIdent := x.Fun.(*ast.Ident)
			return isIdent && len(x.Args) == 1 && i == 1
		}
		return false
	}
	for i, k := range kids {
		c.b.WriteString("(NC ")
		c.node(k, kidBasic(i))
		c.b.WriteString(" ")
	}
	c.b.WriteString("NN")
	for range kids {
		c.b.WriteString(")")
	}
	c.b.WriteString(")")
}

// otherCode: slot a of a TOther node = 1000 * kind code + the scalar attribute astequal compares
func otherCode(n ast.Node) int {
	switch x := n.(type) {
	case *ast.KeyValueExpr:
		return 1000
	case *ast.StructType:
		return 2000
	case *ast.InterfaceType:
		return 3000
	case *ast.MapType:
		return 4000
	case *ast.ChanType:
		return 5000 + int(x.Dir)
	case *ast.Ellipsis:
		return 6000
	case *ast.BadExpr:
		return 7000
	case *ast.IncDecStmt:
		return 8000 + int(x.Tok)
	case *ast.EmptyStmt:
		return 9000 + b2n(x.Implicit)
	case *ast.LabeledStmt:
		return 10000
	case *ast.SendStmt:
		return 11000
	case *ast.GoStmt:
		return 12000
	case *ast.DeclStmt:
		return 13000
	case *ast.BadStmt:
		return 14000
	case *ast.ImportSpec:
		return 15000
	case *ast.BadDecl:
		return 16000
	}
	return 99000
}

// ConvertFile renders file f of p as a Coq term of type GoAst.file; it also returns the node count.
func ConvertFile(p *Pkg, f *File, starts []int) (string, int) {
	c := &converter{p: p, f: f, tf: Fset.File(f.AST.Pos()), objIDs: map[types.Object]int{}}
	c.b.WriteString("{| decls := [")
	for i, d := range f.AST.Decls {
		if i > 0 {
			c.b.WriteString(";\n  ")
		}
		c.node(d, false)
	}
	c.b.WriteString("];\n token_starts := [")
	for i, s := range starts {
		if i > 0 {
			c.b.WriteString(";")
		}
		fmt.Fprintf(&c.b, "%d", s+1)
	}
	c.b.WriteString("] |}")
	return c.b.String(), c.nodes
}
