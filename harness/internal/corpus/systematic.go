package corpus

// S4: deterministic, seed-light transforms applied to EVERY base file (S1 testdata + the per-rule inputs of
// corpus/synth), as opposed to the random S3 mutants:
//
//   const-args      string literal call arguments become a named constant / a concatenation / a parenthesised literal
//   layout          blanks are inserted between tokens (before '.', '(', '[' and elsewhere); positions must be token
//                   starts and must equal the positions on the unperturbed file mapped through the edit
//   namesake-import standard imports are replaced by the user package of the same name (corpus/stress/_lib)
//   namesake-var    inside every function a local value named like the imported package shadows it; its methods have
//                   the signatures of the package functions the function calls
//
// Every variant is re-type-checked; ill-typed ones are discarded.

import (
	"encoding/json"
	"fmt"
	"go/ast"
	"go/scanner"
	"go/token"
	"go/types"
	"os"
	"path/filepath"
	"sort"
	"strconv"
	"strings"

	"verifharness/internal/synth"
)

// LoadSynth loads the per-rule inputs committed under corpus/synth/index.json (one single-file package each).
func LoadSynth() ([]*Pkg, []string) {
	data, err := os.ReadFile(filepath.Join(VerifRoot(), "corpus", "synth", "index.json"))
	if err != nil {
		return nil, nil
	}
	var idx map[string]string
	if json.Unmarshal(data, &idx) != nil {
		return nil, nil
	}
	keys := make([]string, 0, len(idx))
	for k, v := range idx {
		if strings.TrimSpace(v) != "" {
			keys = append(keys, k)
		}
	}
	sort.Strings(keys)
	var out []*Pkg
	var skipped []string
	for _, k := range keys {
		p, err := TypeCheck("SY", "SY/"+k, "", map[string][]byte{"synth.go": []byte(idx[k])})
		if err != nil {
			skipped = append(skipped, fmt.Sprintf("SY/%s: %v", k, err))
			continue
		}
		out = append(out, p)
	}
	// patterns of the CURRENT embedded rules that the committed store has never seen (a rule or an alternative added or
	// edited since): an input is searched now, from the pattern itself, so that the namesake / retype transforms of S4 and
	// the three oracles reach the new pattern in the same run
	var fresh []synth.Target
	seenKey := map[string]bool{}
	for _, t := range synth.Targets(nil) {
		if _, known := idx[t.Key()]; !known && !seenKey[t.Key()] {
			seenKey[t.Key()] = true
			fresh = append(fresh, t)
		}
	}
	if len(fresh) > 0 {
		hits, _ := synth.Resolve(fresh, synth.Corpus{}, 1500, synth.MkGroup)
		sort.Slice(hits, func(i, j int) bool { return hits[i].Target.Key() < hits[j].Target.Key() })
		for _, h := range hits {
			p, err := TypeCheck("SY", "SY/fresh-"+h.Target.Key(), "", map[string][]byte{"synth.go": []byte(h.Source)})
			if err != nil {
				skipped = append(skipped, fmt.Sprintf("SY/fresh-%s: %v", h.Target.Key(), err))
				continue
			}
			p.Origin = fmt.Sprintf("input synthesised during this run for the pattern %q of rule group %s (not in corpus/synth)", h.Target.Pattern, h.Target.Group)
			out = append(out, p)
		}
	}
	out = append(out, GenCommentInputs()...)
	return out, skipped
}

// ---------- const-args ----------
func sysConstArgs(p *Pkg, f *File, rot int, id int) []edit {
	var lits []*ast.BasicLit
	ast.Inspect(f.AST, func(n ast.Node) bool {
		if c, ok := n.(*ast.CallExpr); ok {
			for _, a := range c.Args {
				if bl, ok := a.(*ast.BasicLit); ok && bl.Kind == token.STRING {
					lits = append(lits, bl)
				}
			}
		}
		return true
	})
	if len(lits) == 0 {
		return nil
	}
	var eds []edit
	var consts []string
	for i, bl := range lits {
		a, b := off(bl.Pos()), off(bl.End())
		switch (i + rot) % 3 {
		case 0:
			name := fmt.Sprintf("cstr__%d_%d", id, i)
			consts = append(consts, fmt.Sprintf("const %s = %s\n", name, bl.Value))
			eds = append(eds, edit{a, b, name})
		case 1:
			v := bl.Value
			if strings.HasPrefix(v, "`") && len(v) >= 4 && !strings.Contains(v, "\n") {
				mid := 1 + (len(v)-2)/2
				eds = append(eds, edit{a, b, v[:mid] + "` + `" + v[mid:]})
			} else {
				eds = append(eds, edit{a, a, `"" + `})
			}
		case 2:
			eds = append(eds, edit{a, a, "("}, edit{b, b, ")"})
		}
	}
	if len(consts) > 0 {
		eds = append(eds, edit{len(f.Src), len(f.Src), "\n" + strings.Join(consts, "")})
	}
	return eds
}

// ---------- layout ----------
type insertion struct{ at, n int } // n blanks inserted before original offset at

// sysLayout inserts blanks before every second token that does not start a line (parity selects which half): the
// perturbation is deterministic and asymmetric, so two textually equal operands stop being textually equal.
func sysLayout(f *File, parity int) ([]edit, []insertion) {
	fs := token.NewFileSet()
	tf := fs.AddFile("x.go", -1, len(f.Src))
	var s scanner.Scanner
	s.Init(tf, f.Src, nil, scanner.ScanComments)
	var eds []edit
	var ins []insertion
	idx := 0
	lineStart := func(o int) bool {
		for k := o - 1; k >= 0; k-- {
			switch f.Src[k] {
			case ' ', '\t', '\r':
				continue
			case '\n':
				return true
			}
			return false
		}
		return true
	}
	for {
		pos, tok, lit := s.Scan()
		if tok == token.EOF {
			break
		}
		if tok == token.SEMICOLON && lit == "\n" {
			continue
		}
		o := tf.Offset(pos)
		first := lineStart(o)
		idx++
		if !first && idx%2 == parity {
			n := 1 + idx%4/2
			eds = append(eds, edit{o, o, strings.Repeat(" ", n)})
			ins = append(ins, insertion{o, n})
		}
	}
	return eds, ins
}

// unmapOffset maps an offset of the perturbed file back to the original file (-1 = inside inserted blanks).
func unmapOffset(ins []insertion, off int) int {
	shift := 0
	for _, in := range ins { // sorted by original offset
		start := in.at + shift // where the blanks begin in the perturbed file
		if off < start {
			break
		}
		if off < start+in.n {
			return -1
		}
		shift += in.n
	}
	return off - shift
}

// ---------- namesake-import (all applicable imports) ----------
func sysNamesakeImport(p *Pkg, f *File) []edit {
	libs := map[string]bool{}
	for _, l := range StressLibs() {
		libs[l] = true
	}
	var eds []edit
	for _, is := range f.AST.Imports {
		path := strings.Trim(is.Path.Value, `"`)
		base := path[strings.LastIndex(path, "/")+1:]
		if is.Name != nil || !libs[base] || (path != base && path != "path/filepath") {
			continue
		}
		eds = append(eds, edit{off(is.Path.Pos()), off(is.Path.End()), `"stresslib/` + base + `"`})
	}
	return eds
}

// namesake-import under another qualifier: `"strings"` becomes `u_strings "stresslib/strings"`, every use of the
// qualifier is renamed, and the real package stays imported (blank) so that file-level import filters still hold.
func sysNamesakeAlias(p *Pkg, f *File) []edit {
	libs := map[string]bool{}
	for _, l := range StressLibs() {
		libs[l] = true
	}
	var eds []edit
	for _, is := range f.AST.Imports {
		path := strings.Trim(is.Path.Value, `"`)
		base := path[strings.LastIndex(path, "/")+1:]
		if is.Name != nil || !libs[base] || (path != base && path != "path/filepath") {
			continue
		}
		pn, _ := p.Info.Implicits[is].(*types.PkgName)
		if pn == nil {
			continue
		}
		alias := "u_" + base
		eds = append(eds, edit{off(is.Path.Pos()), off(is.Path.End()), alias + ` "stresslib/` + base + `"`})
		for id, o := range p.Info.Uses {
			if o == types.Object(pn) && Fset.File(id.Pos()) == Fset.File(f.AST.Pos()) {
				eds = append(eds, edit{off(id.Pos()), off(id.End()), alias})
			}
		}
		eds = append(eds, edit{len(f.Src), len(f.Src), fmt.Sprintf("\nimport _ %q\n", path)})
	}
	// imports must precede other declarations: put the blank imports right after the package clause instead
	var blanks []string
	kept := eds[:0]
	for _, e := range eds {
		if e.a == len(f.Src) && strings.HasPrefix(e.text, "\nimport _") {
			blanks = append(blanks, strings.TrimSpace(e.text))
			continue
		}
		kept = append(kept, e)
	}
	eds = kept
	if len(blanks) > 0 {
		at := off(f.AST.Name.End())
		eds = append(eds, edit{at, at, "\n\n" + strings.Join(blanks, "\n") + "\n"})
	}
	return eds
}

// ---------- pkglevel-funclit ----------
// Every (non-generic) function declaration is copied into a package-level `var _ = func(recv, params) results { body }`
// placed before the first declaration of the file: the statements of the corpus are then also reached inside
// package-level function literals that precede every function body.
func sysPkgLevelFuncLit(f *File) []edit {
	var lits []string
	for _, d := range f.AST.Decls {
		fd, ok := d.(*ast.FuncDecl)
		if !ok || fd.Body == nil || fd.Type.TypeParams != nil {
			continue
		}
		params := string(f.Src[off(fd.Type.Params.Opening)+1 : off(fd.Type.Params.Closing)])
		if fd.Recv != nil {
			if len(fd.Recv.List) != 1 {
				continue
			}
			generic := false
			ast.Inspect(fd.Recv.List[0].Type, func(n ast.Node) bool {
				switch n.(type) {
				case *ast.IndexExpr, *ast.IndexListExpr:
					generic = true
				}
				return true
			})
			if generic {
				continue
			}
			recv := string(f.Src[off(fd.Recv.Opening)+1 : off(fd.Recv.Closing)])
			if strings.TrimSpace(params) == "" {
				params = recv
			} else {
				params = recv + ", " + params
			}
		}
		rest := string(f.Src[off(fd.Type.Params.Closing)+1 : off(fd.Body.End())])
		lits = append(lits, "var _ = func("+params+")"+rest+"\n")
	}
	if len(lits) == 0 {
		return nil
	}
	// before the first non-import declaration
	at := len(f.Src)
	for _, d := range f.AST.Decls {
		if gd, ok := d.(*ast.GenDecl); ok && gd.Tok == token.IMPORT {
			continue
		}
		at = off(d.Pos())
		if fd, ok := d.(*ast.FuncDecl); ok && fd.Doc != nil {
			at = off(fd.Doc.Pos())
		}
		if gd, ok := d.(*ast.GenDecl); ok && gd.Doc != nil {
			at = off(gd.Doc.Pos())
		}
		break
	}
	return []edit{{at, at, strings.Join(lits, "\n") + "\n"}}
}

// ---------- namesake-var ----------
// For every import "q" of the file (no explicit name): the import is renamed to real_q; inside every function
// declaration that calls q.F the statement `q := ns_q__{}` is inserted, where ns_q__ has one method per used package
// function with the same signature; every other use of the qualifier (types, constants, variables, uses outside
// function bodies) is rewritten to real_q.
// With shadow the file KEEPS importing the real package under its own name (a second import real_q serves the other uses):
// the local variable then shadows a qualifier that the file's import list really declares.
func sysNamesakeVar(p *Pkg, f *File, id int, shadow bool) []edit {
	var eds []edit
	var decls []string
	extraImports := map[string]string{} // import path -> fresh local name
	localName := map[*types.Package]string{}
	for _, is := range f.AST.Imports {
		var pn *types.PkgName
		if is.Name != nil {
			pn, _ = p.Info.Defs[is.Name].(*types.PkgName)
		} else {
			pn, _ = p.Info.Implicits[is].(*types.PkgName)
		}
		if pn != nil {
			localName[pn.Imported()] = pn.Name()
		}
	}
	for _, is := range f.AST.Imports {
		if is.Name != nil {
			continue
		}
		pn, _ := p.Info.Implicits[is].(*types.PkgName)
		if pn == nil || pn.Imported().Path() == "unsafe" || pn.Imported().Path() == "C" {
			continue
		}
		q := pn.Name()
		real := "real_" + q
		typ := fmt.Sprintf("ns_%s__%d", q, id)
		qual := func(other *types.Package) string {
			if other == p.Types {
				return ""
			}
			if other == pn.Imported() {
				return real
			}
			if n, ok := localName[other]; ok {
				return n
			}
			// a package the signatures mention but the file does not import: imported under a fresh name
			if extraImports[other.Path()] == "" {
				extraImports[other.Path()] = fmt.Sprintf("dep%d_%s", len(extraImports), other.Name())
			}
			return extraImports[other.Path()]
		}
		funcs := map[string]*types.Func{}
		ok := true
		// function bodies
		type fnUse struct {
			body *ast.BlockStmt
			used bool
		}
		var bodies []*fnUse
		for _, d := range f.AST.Decls {
			fd, isFn := d.(*ast.FuncDecl)
			if !isFn || fd.Body == nil {
				continue
			}
			bodies = append(bodies, &fnUse{body: fd.Body})
		}
		inBody := func(pos token.Pos) *fnUse {
			for _, b := range bodies {
				if b.body.Pos() <= pos && pos < b.body.End() {
					return b
				}
			}
			return nil
		}
		ast.Inspect(f.AST, func(n ast.Node) bool {
			sel, isSel := n.(*ast.SelectorExpr)
			if !isSel {
				return true
			}
			x, isIdent := sel.X.(*ast.Ident)
			if !isIdent || p.Info.Uses[x] != pn {
				return true
			}
			fn, isFunc := p.Info.Uses[sel.Sel].(*types.Func)
			b := inBody(sel.Pos())
			if isFunc && b != nil {
				sig := fn.Type().(*types.Signature)
				if sig.TypeParams() != nil {
					ok = false
					return true
				}
				funcs[fn.Name()] = fn
				b.used = true
				return true
			}
			// any other use keeps meaning the real package
			eds = append(eds, edit{off(x.Pos()), off(x.End()), real})
			return true
		})
		if !ok || len(funcs) == 0 {
			return nil
		}
		names := make([]string, 0, len(funcs))
		for n := range funcs {
			names = append(names, n)
		}
		sort.Strings(names)
		var b strings.Builder
		fmt.Fprintf(&b, "\ntype %s struct{}\n", typ)
		for _, n := range names {
			sig := funcs[n].Type().(*types.Signature)
			var ps []string
			for i := 0; i < sig.Params().Len(); i++ {
				t := sig.Params().At(i).Type()
				ts := types.TypeString(t, qual)
				if sig.Variadic() && i == sig.Params().Len()-1 {
					ts = "..." + types.TypeString(t.(*types.Slice).Elem(), qual)
				}
				ps = append(ps, fmt.Sprintf("p%d %s", i, ts))
			}
			var rs []string
			for i := 0; i < sig.Results().Len(); i++ {
				rs = append(rs, types.TypeString(sig.Results().At(i).Type(), qual))
			}
			fmt.Fprintf(&b, "func (%s) %s(%s) (%s) { panic(0) }\n", typ, n, strings.Join(ps, ", "), strings.Join(rs, ", "))
		}
		if strings.Contains(b.String(), "?missing?") {
			return nil
		}
		decls = append(decls, b.String())
		if shadow {
			at := off(f.AST.Name.End())
			eds = append(eds, edit{at, at, fmt.Sprintf("\n\nimport %s %s\n", real, is.Path.Value)})
			decls = append(decls, fmt.Sprintf("var _ = %s.%s\n", q, names[0]))
		} else {
			eds = append(eds, edit{off(is.Path.Pos()), off(is.Path.Pos()), real + " "})
		}
		for _, fu := range bodies {
			if fu.used {
				at := off(fu.body.Lbrace) + 1
				eds = append(eds, edit{at, at, fmt.Sprintf("\n\t%s := %s{}\n\t_ = %s\n", q, typ, q)})
			} else {
				// uses of q.F value? none (used == false means no function use); nothing to do
			}
		}
		// the real package must stay used
		decls = append(decls, fmt.Sprintf("var _ = %s.%s\n", real, names[0]))
	}
	if len(decls) == 0 {
		return nil
	}
	if len(extraImports) > 0 {
		paths := make([]string, 0, len(extraImports))
		for path := range extraImports {
			paths = append(paths, path)
		}
		sort.Strings(paths)
		var b strings.Builder
		for _, path := range paths {
			fmt.Fprintf(&b, "\n\nimport %s %q\n", extraImports[path], path)
		}
		at := off(f.AST.Name.End())
		eds = append(eds, edit{at, at, b.String()})
	}
	eds = append(eds, edit{len(f.Src), len(f.Src), strings.Join(decls, "")})
	return eds
}

// ---------- odd-comments ----------
var oddCommentTexts = func() []string {
	var out []string
	for _, ch := range []string{"İ", "ẞ", "K", "ſ", "Ⱥ"} {
		for k := 0; k < 12; k++ {
			out = append(out, ch+strings.Repeat("L", k), strings.Repeat("l", k)+ch)
		}
	}
	return append(out, "", "x", " ", "nolİnt:gocritic", "NOLİNT", "TODO(İ)", "Deprecated:İ", "é", "go:İ", "if İ { return }", "import \"İ\"", "%s%!d")
}()

// sysOddComments inserts line comments with odd texts before every declaration and at the top of every function body.
func sysOddComments(f *File, id int) []edit {
	var eds []edit
	k := id
	next := func() string {
		k++
		return "//" + oddCommentTexts[k%len(oddCommentTexts)]
	}
	for _, d := range f.AST.Decls {
		if gd, ok := d.(*ast.GenDecl); ok && gd.Tok == token.IMPORT {
			continue
		}
		pos := d.Pos()
		switch x := d.(type) {
		case *ast.FuncDecl:
			if x.Doc != nil {
				pos = x.Doc.Pos()
			}
			if x.Body != nil {
				at := off(x.Body.Lbrace) + 1
				eds = append(eds, edit{at, at, "\n\t" + next() + "\n\t" + next() + "\n"})
			}
		case *ast.GenDecl:
			if x.Doc != nil {
				pos = x.Doc.Pos()
			}
		}
		eds = append(eds, edit{off(pos), off(pos), next() + "\n"})
	}
	return eds
}

// ---------- retype-receiver (+ constify) ----------
// One parameter whose type is a named type of an imported package (or a pointer to one) and which is only used as the
// receiver of method calls is re-declared with a fresh user type that has those methods with the same signatures:
// exactly the "type of $x" guard of a rule is violated, everything else in the file stays as it was. With constify the
// string/int parameters of the same function that are only read are additionally replaced by literals at their uses,
// so that `.Const` guards on the other pattern variables hold.
func sysRetype(p *Pkg, f *File, id int, constify bool) [][]edit {
	localName := map[*types.Package]string{}
	for _, is := range f.AST.Imports {
		var pn *types.PkgName
		if is.Name != nil {
			pn, _ = p.Info.Defs[is.Name].(*types.PkgName)
		} else {
			pn, _ = p.Info.Implicits[is].(*types.PkgName)
		}
		if pn != nil {
			localName[pn.Imported()] = pn.Name()
		}
	}
	qual := func(other *types.Package) string {
		if other == p.Types {
			return ""
		}
		if n, ok := localName[other]; ok {
			return n
		}
		return "?missing?"
	}
	// uses of every variable
	uses := map[types.Object][]*ast.Ident{}
	for id, o := range p.Info.Uses {
		if _, ok := o.(*types.Var); ok && Fset.File(id.Pos()) == Fset.File(f.AST.Pos()) {
			uses[o] = append(uses[o], id)
		}
	}
	parent := map[ast.Node]ast.Node{}
	var stack []ast.Node
	ast.Inspect(f.AST, func(n ast.Node) bool {
		if n == nil {
			stack = stack[:len(stack)-1]
			return true
		}
		if len(stack) > 0 {
			parent[n] = stack[len(stack)-1]
		}
		stack = append(stack, n)
		return true
	})
	var out [][]edit
	n := 0
	for _, d := range f.AST.Decls {
		fd, ok := d.(*ast.FuncDecl)
		if !ok || fd.Body == nil {
			continue
		}
		// constify edits for this function
		var constEds []edit
		if constify {
			for _, fl := range fd.Type.Params.List {
				for _, nm := range fl.Names {
					o := p.Info.Defs[nm]
					if o == nil {
						continue
					}
					lit := ""
					if b, ok := o.Type().(*types.Basic); ok {
						switch {
						case b.Kind() == types.String:
							lit = fmt.Sprintf("%q", nm.Name+".go")
						case b.Info()&types.IsInteger != 0:
							lit = "1"
						}
					}
					if lit == "" {
						continue
					}
					readOnly := true
					for _, u := range uses[o] {
						switch pp := parent[u].(type) {
						case *ast.AssignStmt:
							for _, l := range pp.Lhs {
								if l == ast.Expr(u) {
									readOnly = false
								}
							}
						case *ast.UnaryExpr:
							if pp.Op == token.AND {
								readOnly = false
							}
						case *ast.IncDecStmt:
							readOnly = false
						}
					}
					if !readOnly {
						continue
					}
					for _, u := range uses[o] {
						constEds = append(constEds, edit{off(u.Pos()), off(u.End()), lit})
					}
					constEds = append(constEds, edit{off(fd.Body.Lbrace) + 1, off(fd.Body.Lbrace) + 1, fmt.Sprintf("\n\t_ = %s\n", nm.Name)})
				}
			}
			if len(constEds) == 0 {
				continue
			}
		}
		for _, fl := range fd.Type.Params.List {
			if len(fl.Names) != 1 {
				continue
			}
			o := p.Info.Defs[fl.Names[0]]
			if o == nil {
				continue
			}
			t := o.Type()
			if pt, ok := t.(*types.Pointer); ok {
				t = pt.Elem()
			}
			named, ok := t.(*types.Named)
			if !ok || named.Obj().Pkg() == nil || named.Obj().Pkg() == p.Types || named.TypeParams() != nil {
				continue
			}
			if _, isIface := named.Underlying().(*types.Interface); isIface {
				continue
			}
			methods := map[string]*types.Func{}
			good := len(uses[o]) > 0
			for _, u := range uses[o] {
				sel, ok := parent[u].(*ast.SelectorExpr)
				if !ok || sel.X != ast.Expr(u) {
					good = false
					break
				}
				call, ok := parent[sel].(*ast.CallExpr)
				fn, isFn := p.Info.Uses[sel.Sel].(*types.Func)
				if !ok || call.Fun != ast.Expr(sel) || !isFn {
					good = false
					break
				}
				methods[fn.Name()] = fn
			}
			if !good || len(methods) == 0 {
				continue
			}
			n++
			typ := fmt.Sprintf("nm_%s__%d_%d", named.Obj().Name(), id, n)
			var b strings.Builder
			fmt.Fprintf(&b, "\ntype %s struct{}\n", typ)
			names := make([]string, 0, len(methods))
			for m := range methods {
				names = append(names, m)
			}
			sort.Strings(names)
			for _, m := range names {
				sig := methods[m].Type().(*types.Signature)
				var ps, rs []string
				for i := 0; i < sig.Params().Len(); i++ {
					pt := sig.Params().At(i).Type()
					ts := types.TypeString(pt, qual)
					if sig.Variadic() && i == sig.Params().Len()-1 {
						ts = "..." + types.TypeString(pt.(*types.Slice).Elem(), qual)
					}
					ps = append(ps, fmt.Sprintf("p%d %s", i, ts))
				}
				for i := 0; i < sig.Results().Len(); i++ {
					rs = append(rs, types.TypeString(sig.Results().At(i).Type(), qual))
				}
				fmt.Fprintf(&b, "func (*%s) %s(%s) (%s) { panic(0) }\n", typ, m, strings.Join(ps, ", "), strings.Join(rs, ", "))
			}
			if strings.Contains(b.String(), "?missing?") {
				continue
			}
			// keep the import used
			pkgLocal := localName[named.Obj().Pkg()]
			if pkgLocal == "" {
				continue
			}
			fmt.Fprintf(&b, "var _ %s.%s\n", pkgLocal, named.Obj().Name())
			eds := append([]edit{}, constEds...)
			eds = append(eds, edit{off(fl.Type.Pos()), off(fl.Type.End()), "*" + typ}, edit{len(f.Src), len(f.Src), b.String()})
			out = append(out, eds)
		}
	}
	return out
}

// Systematic builds the S4 stream.
func Systematic(bases []*Pkg, tier string, seed int64, stats map[string]int) []*Pkg {
	var out []*Pkg
	id := 0
	rots := []int{int(seed % 3)}
	if tier == "thorough" {
		rots = []int{0, 1, 2}
	}
	calleeForms := []int{int(seed % 4)}
	if tier == "thorough" {
		calleeForms = []int{0, 1, 2, 3}
	}
	var lastAdded *Pkg
	var extraFiles map[string][]byte
	add := func(base *Pkg, f *File, kind string, eds []edit, ins []insertion) {
		extra := extraFiles
		extraFiles = nil
		lastAdded = nil
		if len(eds) == 0 {
			stats["s4-inapplicable:"+kind]++
			return
		}
		srcs := base.Sources()
		srcs[f.Name] = applyEdits(f.Src, eds)
		for name, src := range extra {
			srcs[name] = src
		}
		np, err := TypeCheck("S4", base.Name, "", srcs)
		if err != nil {
			stats["s4-ill-typed:"+kind]++
			if os.Getenv("VERIF_S4_DEBUG") != "" {
				fmt.Fprintf(os.Stderr, "S4 %s %s/%s: %v\n", kind, base.Name, f.Name, err)
			}
			return
		}
		stats["s4-ok:"+kind]++
		np.Stream = "S4"
		np.Name = fmt.Sprintf("S4/%s#%s", strings.TrimPrefix(strings.TrimPrefix(base.Name, "S1/"), "SY/"), kind)
		if base.Stream == "SY" {
			np.Name = fmt.Sprintf("S4/synth-%s#%s", strings.TrimPrefix(base.Name, "SY/"), kind)
		}
		np.Origin = fmt.Sprintf("%s/%s transformed by %s", base.Name, f.Name, kind)
		np.Focus = f.Name
		np.DefaultOnly = true
		if ins != nil {
			np.BaseKey = base.Name + "/" + f.Name
			np.Ins = ins
		}
		out = append(out, np)
		lastAdded = np
	}
	for _, base := range bases {
		for _, f := range base.Files {
			if base.Focus != "" && f.Name != base.Focus {
				continue
			}
			id++
			for _, rot := range rots {
				add(base, f, "const-args"+strconv.Itoa(rot), sysConstArgs(base, f, rot, id), nil)
			}
			for parity := 0; parity < 2; parity++ {
				eds, ins := sysLayout(f, parity)
				if ins == nil {
					ins = []insertion{}
				}
				add(base, f, "layout"+strconv.Itoa(parity), eds, ins)
			}
			if base.Stream == "S1" {
				add(base, f, "odd-comments", sysOddComments(f, id), nil)
			}
			for k, eds := range sysRetype(base, f, id, false) {
				add(base, f, "retype-receiver"+strconv.Itoa(k), eds, nil)
				if lastAdded != nil {
					lastAdded.ClaimCheck = "*"
				}
			}
			for k, eds := range sysRetype(base, f, id, true) {
				add(base, f, "retype-receiver+constify"+strconv.Itoa(k), eds, nil)
				if lastAdded != nil {
					lastAdded.ClaimCheck = "*"
				}
			}
			if base.Stream == "S1" {
				add(base, f, "pkglevel-funclit", sysPkgLevelFuncLit(f), nil)
				if lastAdded != nil {
					lastAdded.Fresh = true
				}
			}
			for _, form := range calleeForms {
				add(base, f, "callee-forms"+strconv.Itoa(form), sysCalleeForms(base, f, form), nil)
			}
			if base.Stream == "S1" {
				add(base, f, "doc-block", sysDocBlock(f), nil)
				if lastAdded != nil {
					// the same file with \r\n line ends
					lf := lastAdded.Files[0]
					for _, x := range lastAdded.Files {
						if x.Name == f.Name {
							lf = x
						}
					}
					if eds, _ := sysCRLF(lf.Src); len(eds) > 0 {
						srcs := lastAdded.Sources()
						srcs[f.Name] = applyEdits(lf.Src, eds)
						if np, err := TypeCheck("S4", base.Name, "", srcs); err == nil {
							np.Stream, np.Focus, np.DefaultOnly = "S4", f.Name, true
							np.Name = fmt.Sprintf("S4/%s#doc-block-crlf", strings.TrimPrefix(base.Name, "S1/"))
							np.Origin = fmt.Sprintf("%s/%s transformed by doc-block, then every line end made \\r\\n", base.Name, f.Name)
							out = append(out, np)
							stats["s4-ok:doc-block-crlf"]++
						}
					}
				}
				eds, ins := sysCRLF(f.Src)
				add(base, f, "crlf", eds, ins)
			}
			for v := 0; v < 2; v++ {
				add(base, f, "anon-params"+strconv.Itoa(v), sysAnonParams(base, f, v), nil)
			}
			add(base, f, "unicode-strings", sysUnicodeStrings(f), nil)
			if base.Stream == "S1" {
				for v := 0; v < 2; v++ {
					add(base, f, "comment-prose"+strconv.Itoa(v), sysCommentProse(f, v), nil)
				}
			}
			{
				eds, ins := sysPrependStmt(f)
				add(base, f, "prepend-stmt", eds, ins)
				if lastAdded != nil {
					lastAdded.InsWhat = "the statement `_ = 0` in front of the first statement of every function body"
				}
			}
			{
				eds, extra := sysSplitDecls(base, f)
				extraFiles = extra
				add(base, f, "split-decls", eds, nil)
				// the same package followed by files without declarations: only the package clause, only a comment, only
				// an import; they are analysed right after the focus file by the same long-lived checker instances
				if base.Stream == "S1" {
					pk := f.AST.Name.Name
					extraFiles = map[string][]byte{
						"zzy_only_clause.go":  []byte("package " + pk + "\n"),
						"zzz_only_comment.go": []byte("package " + pk + "\n\n// nothing but a comment\n"),
						"zzzz_only_import.go": []byte("package " + pk + "\n\nimport _ \"strings\"\n"),
						"zzzzz_clause2.go":    []byte("package " + pk),
					}
					add(base, f, "trailing-empty-files", []edit{{0, 0, ""}}, nil)
					if lastAdded != nil {
						lastAdded.FocusAlso = map[string]bool{"zzy_only_clause.go": true, "zzz_only_comment.go": true, "zzzz_only_import.go": true, "zzzzz_clause2.go": true}
					}
				}
			}
			add(base, f, "namesake-alias", sysNamesakeAlias(base, f), nil)
			add(base, f, "namesake-import", sysNamesakeImport(base, f), nil)
			add(base, f, "namesake-var", sysNamesakeVar(base, f, id, false), nil)
			add(base, f, "namesake-shadow", sysNamesakeVar(base, f, id, true), nil)
		}
	}
	return out
}
