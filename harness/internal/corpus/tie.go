package corpus

import (
	"fmt"
	"os"
	"path/filepath"
	"sort"
	"strings"

	"verifharness/internal/coqfmt"
)

// ModelledCheckers are the checkers transliterated in coq/theories/Model_Checkers.v (run_by_name).
var ModelledCheckers = []string{"appendAssign", "appendCombine", "badRegexp", "dupOption", "evalOrder", "filepathJoin", "flagName",
	"newDeref", "nilValReturn", "rangeAppendAll", "regexpPattern", "regexpSimplify", "sortSlice", "truncateCmp", "truncateCmp/noskip", "typeDefFirst",
	// Model_Checkers2.v
	"builtinShadowDecl", "defaultCaseOrder", "emptyFallthrough", "initClause", "singleCaseSwitch", "elseif", "elseif/skipBalanced=false",
	"deferInLoop", "unnamedResult", "unnamedResult/checkExported=true", "paramTypeCombine", "ptrToRefParam", "sloppyTypeAssert",
	"octalLiteral", "hexLiteral", "weakCond", "methodExprCall", "dupBranchBody", "underef", "underef/skipRecvDeref=false",
	"captLocal", "captLocal/paramsOnly=false", "builtinShadow", "exitAfterDefer", "unlambda"}

// ModelledVariant maps a non-default parameter variant of a modelled checker to its model name ("" = not modelled).
func ModelledVariant(name, tag string) string {
	if name == "truncateCmp" && tag == "skipArchDependent=false" {
		return "truncateCmp/noskip"
	}
	switch name + "/" + tag {
	case "elseif/skipBalanced=false", "unnamedResult/checkExported=true", "underef/skipRecvDeref=false", "captLocal/paramsOnly=false":
		return name + "/" + tag
	}
	return ""
}

// subject-bearing modelled checkers whose warnings carry a recognition verdict (C20 tie)
var modelledSubject = []string{"appendAssign", "appendCombine", "exitAfterDefer", "filepathJoin", "flagName", "newDeref", "nilValReturn", "rangeAppendAll", "sortSlice", "truncateCmp"}

var witnessNS = map[string]bool{"ns_append_pkgfunc_same": true, "ns_new_pkgfunc_same": true, "ns_sort_local": true, "ns_filepath_alias": true, "ns_flag_pkgvar": true, "ns_cast_pkgfunc": true, "ns_nil_local": true, "ns_exit_local": true}

const tieHeader = "From GC Require Import Base GoAst Model_Checkers Model_Checkers2 Model_Walkers Model_Comments.\nOpen Scope string_scope.\nOpen Scope N_scope.\n\n"

func obsTerm(o ModelObs) string {
	if o.Panic {
		return "None"
	}
	items := make([]string, len(o.Offs))
	for i, n := range o.Offs {
		items[i] = fmt.Sprint(n + 1)
	}
	return "(Some [" + strings.Join(items, ";") + "])"
}

type tieCase struct {
	desc  string
	file  string // Coq term of the converted file
	term  string // Coq term of type list (string * obs) describing the disagreement (empty = agreement)
	nodes int
}

func writeShards(dir, prefix string, cases []tieCase, perShard int) []string {
	var files []string
	var cur []tieCase
	n := 0
	flush := func() {
		if len(cur) == 0 {
			return
		}
		name := fmt.Sprintf("%s_%d", prefix, len(files)/2)
		var b strings.Builder
		b.WriteString(tieHeader)
		var idx []string
		for i, c := range cur {
			fmt.Fprintf(&b, "Definition f%d : file :=\n %s.\nDefinition r%d := Eval vm_compute in (%s).\n", i, c.file, i, strings.ReplaceAll(c.term, "@FILE@", fmt.Sprintf("f%d", i)))
			idx = append(idx, c.desc)
		}
		b.WriteString("Definition RES := [")
		for i := range cur {
			if i > 0 {
				b.WriteString("; ")
			}
			fmt.Fprintf(&b, "r%d", i)
		}
		b.WriteString("].\nDefinition M := Eval vm_compute in mismatches (fun d : list (string * obs) => match d with [] => true | _ => false end) RES.\nPrint M.\n")
		if os.Getenv("VERIF_TIE_DEBUG") != "" {
			b.WriteString("Print RES.\n")
		}
		os.WriteFile(filepath.Join(dir, name+".v"), []byte(b.String()), 0o644)
		os.WriteFile(filepath.Join(dir, name+".index.txt"), []byte(strings.Join(idx, "\n")+"\n"), 0o644)
		files = append(files, name+".v", name+".index.txt")
		cur, n = nil, 0
	}
	for _, c := range cases {
		cur = append(cur, c)
		n += c.nodes
		if n >= perShard {
			flush()
		}
	}
	flush()
	return files
}

// writeTie converts files to model terms and writes the cases files of the three properties:
//
//	C01: S2 + S3 files, outcome {ok, panic} and warning offsets of every modelled checker
//	C07: S1 files, the same comparison (wf includes: every node position is a scanner token start)
//	C20: namesake stress packages, additionally the offsets at which the model says "namesake" vs the Go oracle
func writeTie(s *Shared, dir string, all []*Pkg, obs []*FileRun, starts map[*File]map[int]bool) {
	byKey := map[string]*FileRun{}
	for _, o := range obs {
		byKey[o.Pkg+"/"+o.File] = o
	}
	var c01, c07, c20 []tieCase
	// the real walkers under recording visitors (S1 and S2 files)
	var recPkgs []*Pkg
	for _, p := range all {
		if p.Stream == "S1" || p.Stream == "S2" {
			recPkgs = append(recPkgs, p)
		}
	}
	walks, werr := RecordWalks(dir, recPkgs)
	if werr != nil {
		s.TieBroken = append(s.TieBroken, werr.Error())
	}
	codes := kindCodes()
	walkFiles, walkEvents, walkPanics := 0, 0, 0
	nodesTotal := 0
	panics := 0
	warnTotal := 0
	for _, p := range all {
		for _, f := range p.Files {
			if p.Focus != "" && f.Name != p.Focus {
				continue
			}
			if p.Stream == "S4" { // systematic variants are oracle inputs only (the tie would triple its size)
				continue
			}
			run := byKey[p.Name+"/"+f.Name]
			if run == nil {
				continue
			}
			term, n := ConvertFile(p, f, SortedStarts(starts[f]))
			nodesTotal += n
			var items []string
			names := append([]string{}, ModelledCheckers...)
			sort.Strings(names)
			for _, name := range names {
				o, ok := run.Outcomes[name]
				if !ok {
					continue
				}
				if o.Panic {
					panics++
				}
				warnTotal += len(o.Offs)
				items = append(items, fmt.Sprintf("(%s, %s)", coqfmt.Str(name), obsTerm(o)))
			}
			detail := fmt.Sprintf("case_detail2 @FILE@ [%s]", strings.Join(items, "; "))
			// comment-based checkers read the comment groups and the texts of the doc comments
			var citems []string
			for _, name := range ModelledCommentCheckers {
				if o, ok := run.Outcomes[name]; ok {
					if o.Panic {
						panics++
					}
					warnTotal += len(o.Offs)
					citems = append(citems, fmt.Sprintf("(%s, %s)", coqfmt.Str(name), obsTerm(o)))
				}
			}
			cterm := ConvertComments(f)
			detail = fmt.Sprintf("(%s ++ ccase_detail @FILE@ cs %s [%s])%%list", detail, ConvertDocTexts(f), strings.Join(citems, "; "))
			if wo := walks[p.Name+"/"+f.Name]; wo != nil {
				if wo.Err != "" {
					s.TieBroken = append(s.TieBroken, fmt.Sprintf("walker recorder could not parse %s/%s: %s", p.Name, f.Name, wo.Err))
				} else {
					wt, ev, unknown := walkTerm(wo, codes)
					for _, u := range unknown {
						s.TieBroken = append(s.TieBroken, fmt.Sprintf("walker recorder: node kind %s shown on %s/%s is unknown to the converter", u, p.Name, f.Name))
					}
					walkFiles++
					walkEvents += ev
					walkPanics += len(wo.Panic)
					ct, cev := cwalkTerm(wo)
					walkEvents += cev
					detail = fmt.Sprintf("(%s ++ walk_detail @FILE@ %s ++ cwalk_detail @FILE@ cs %s)%%list", detail, wt, ct)
				}
			}
			detail = fmt.Sprintf("(let cs := %s in %s)", cterm, detail)
			tc := tieCase{desc: p.Name + "/" + f.Name + " " + p.Origin, nodes: n, file: term, term: detail}
			switch p.Stream {
			case "S1":
				c07 = append(c07, tc)
			default:
				c01 = append(c01, tc)
			}
			if p.Stream == "S2" && strings.HasPrefix(p.Name, "S2/ns_") {
				var its []string
				for _, name := range modelledSubject {
					offs := run.Namesake[name]
					strs := make([]string, len(offs))
					for i, o := range offs {
						strs[i] = fmt.Sprint(o + 1)
					}
					if _, ok := run.Outcomes[name]; ok && !run.Outcomes[name].Panic {
						its = append(its, fmt.Sprintf("(%s, [%s])", coqfmt.Str(name), strings.Join(strs, ";")))
					}
				}
				c20 = append(c20, tieCase{desc: p.Name + "/" + f.Name, nodes: n, file: term,
					term: fmt.Sprintf("namesake_detail2 @FILE@ [%s]", strings.Join(its, "; "))})
			}
		}
	}
	// model terms of the small witness packages (copied by hand into coq/theories/Witnesses.v when the stress corpus changes)
	var wb strings.Builder
	wb.WriteString("(* GENERATED by the corpus harness from corpus/stress/{w_*,ns_*}: model terms of witness files *)\nFrom GC Require Import Base GoAst.\nOpen Scope string_scope.\nOpen Scope N_scope.\n\n")
	for _, p := range all {
		if p.Stream != "S2" {
			continue
		}
		short := strings.TrimPrefix(p.Name, "S2/")
		if !strings.HasPrefix(short, "w_") && !witnessNS[short] {
			continue
		}
		for _, f := range p.Files {
			term, _ := ConvertFile(p, f, SortedStarts(starts[f]))
			fmt.Fprintf(&wb, "Definition %s : file :=\n %s.\n\n", short, term)
		}
	}
	os.WriteFile(filepath.Join(dir, "Witnesses.v"), []byte(wb.String()), 0o644)
	s.CaseFiles["C01"] = writeShards(dir, "cases_c01", c01, 5000)
	s.CaseFiles["C07"] = writeShards(dir, "cases_c07", c07, 9000)
	s.CaseFiles["C20"] = writeShards(dir, "cases_c20", c20, 3000)
	s.TieStats["converted_files"] = map[string]int{"C01": len(c01), "C07": len(c07), "C20": len(c20)}
	s.TieStats["converted_nodes"] = nodesTotal
	s.TieStats["observed_panics_of_modelled_checkers"] = panics
	s.TieStats["observed_warnings_of_modelled_checkers"] = warnTotal
	s.TieStats["modelled_checkers"] = append(append([]string{}, ModelledCheckers...), ModelledCommentCheckers...)
	s.TieStats["walker_tie"] = map[string]interface{}{"walkers": append(append([]string{}, WalkerNames...), CommentWalkerNames...), "files": walkFiles, "shown_nodes_compared": walkEvents, "recorded_panics": walkPanics, "skip_policies": 2}
}
