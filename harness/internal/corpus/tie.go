package corpus

func writeTie(s *Shared, dir string, all []*Pkg, obs []*FileRun, starts map[*File]map[int]bool) {}
