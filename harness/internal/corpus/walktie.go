package corpus

// The walker tie: the repository's own astwalk walkers are run with recording visitors (harness/walkrec/main.go.txt, built
// with `go build -overlay` as a virtual package inside <repo>/checkers so that the internal package can be imported) and the
// sequence of (offset, node kind) each walker shows is compared in Coq with Model_Walkers.v, under two SkipChilds policies.

import (
	"bytes"
	"encoding/json"
	"fmt"
	"go/ast"
	"go/token"
	"go/types"
	"os"
	"os/exec"
	"path/filepath"
	"sort"
	"strings"

	"verifharness/internal/common"
	"verifharness/internal/coqfmt"
)

// WalkerNames are the walkers of Model_Walkers.v (walker_obs).
var WalkerNames = []string{"expr", "localexpr", "stmt", "stmtlist", "funcdecl", "funcdeclall", "typeexpr", "localdef"}

var tagCodes = map[string]int{"TIdent": 1, "TBasicLit": 2, "TParen": 3, "TStar": 4, "TUnary": 5, "TBinary": 6, "TSelector": 7, "TIndex": 8,
	"TIndexList": 9, "TSliceExpr": 10, "TCall": 11, "TCompositeLit": 12, "TFuncLit": 13, "TArrayType": 14, "TFuncType": 15,
	"TFieldList": 16, "TField": 17, "TBlock": 18, "TAssign": 19, "TReturn": 20, "TRange": 21, "TIf": 22, "TDefer": 23,
	"TExprStmt": 24, "TCaseClause": 25, "TCommClause": 26, "TFuncDecl": 27, "TGenDecl": 28, "TTypeSpec": 29, "TSwitch": 30,
	"TTypeSwitch": 31, "TSelect": 32, "TFor": 33, "TBranch": 34, "TValueSpec": 35, "TTypeAssert": 36}

// one zero value per go/ast node type the walkers can show
var astZero = []ast.Node{&ast.Ident{}, &ast.BasicLit{}, &ast.ParenExpr{}, &ast.StarExpr{}, &ast.UnaryExpr{}, &ast.BinaryExpr{}, &ast.SelectorExpr{},
	&ast.IndexExpr{}, &ast.IndexListExpr{}, &ast.SliceExpr{}, &ast.CallExpr{}, &ast.CompositeLit{}, &ast.FuncLit{}, &ast.ArrayType{}, &ast.FuncType{},
	&ast.FieldList{}, &ast.Field{}, &ast.BlockStmt{}, &ast.AssignStmt{}, &ast.ReturnStmt{}, &ast.RangeStmt{}, &ast.IfStmt{}, &ast.DeferStmt{}, &ast.ExprStmt{},
	&ast.CaseClause{}, &ast.CommClause{}, &ast.FuncDecl{}, &ast.GenDecl{}, &ast.TypeSpec{}, &ast.SwitchStmt{}, &ast.TypeSwitchStmt{}, &ast.SelectStmt{},
	&ast.ForStmt{}, &ast.BranchStmt{}, &ast.ValueSpec{}, &ast.TypeAssertExpr{}, &ast.KeyValueExpr{}, &ast.StructType{}, &ast.InterfaceType{}, &ast.MapType{},
	&ast.ChanType{}, &ast.Ellipsis{}, &ast.BadExpr{}, &ast.IncDecStmt{}, &ast.EmptyStmt{}, &ast.LabeledStmt{}, &ast.SendStmt{}, &ast.GoStmt{}, &ast.DeclStmt{},
	&ast.BadStmt{}, &ast.ImportSpec{}, &ast.BadDecl{}}

// kindCode: Model_Walkers.tag_code of a node of the Go type named by the recorder ("%T"), or of a "defK" event
func kindCodes() map[string]int {
	m := map[string]int{"def0": 200, "def1": 201, "def2": 202}
	for _, z := range astZero {
		tag, _, a, _ := tagOf(z)
		if c, ok := tagCodes[tag]; ok {
			m[fmt.Sprintf("%T", z)] = c
		} else {
			m[fmt.Sprintf("%T", z)] = 100 + a/1000
		}
	}
	return m
}

type walkIn struct {
	Path      string `json:"path"`
	Src       string `json:"src"`
	TypeNames []int  `json:"typeNames"`
	Defs      []int  `json:"defs"`
}

type walkOut struct {
	Path  string                     `json:"path"`
	Seq   map[string][][]interface{} `json:"seq"`
	Panic map[string]string          `json:"panic"`
	Err   string                     `json:"err"`
}

func buildWalkRec(dir string) (string, error) {
	src := filepath.Join(VerifRoot(), "harness", "walkrec", "main.go.txt")
	if _, err := os.Stat(src); err != nil {
		return "", err
	}
	ov := map[string]map[string]string{"Replace": {filepath.Join(common.RepoDir, "checkers", "zzverifwalkrec", "main.go"): src}}
	data, _ := json.Marshal(ov)
	ovp := filepath.Join(dir, "walkrec.overlay.json")
	if err := os.WriteFile(ovp, data, 0o644); err != nil {
		return "", err
	}
	bin := filepath.Join(dir, "walkrec")
	cmd := exec.Command("go", "build", "-overlay", ovp, "-o", bin, "./checkers/zzverifwalkrec")
	cmd.Dir = common.RepoDir
	cmd.Env = common.GoEnv()
	if out, err := cmd.CombinedOutput(); err != nil {
		return "", fmt.Errorf("%v: %s", err, clip(string(out), 600))
	}
	return bin, nil
}

// walkFacts: the two go/types facts the TypeExpr and LocalDef walkers read
func walkFacts(p *Pkg, f *File) (typeNames, defs []int) {
	tf := Fset.File(f.AST.Pos())
	ast.Inspect(f.AST, func(n ast.Node) bool {
		id, ok := n.(*ast.Ident)
		if !ok {
			return true
		}
		if _, ok := p.Info.ObjectOf(id).(*types.TypeName); ok {
			typeNames = append(typeNames, tf.Offset(id.Pos()))
		}
		if p.Info.Defs[id] != nil {
			defs = append(defs, tf.Offset(id.Pos()))
		}
		return true
	})
	return
}

// RecordWalks runs the recording visitors over the given files; key = "<pkg name>/<file name>".
func RecordWalks(dir string, pkgs []*Pkg) (map[string]*walkOut, error) {
	bin, err := buildWalkRec(dir)
	if err != nil {
		return nil, fmt.Errorf("the walker recorder does not build against %s/checkers/internal/astwalk: %v", common.RepoDir, err)
	}
	var in struct {
		Files []walkIn `json:"files"`
	}
	for _, p := range pkgs {
		for _, f := range p.Files {
			if p.Focus != "" && f.Name != p.Focus {
				continue
			}
			tn, df := walkFacts(p, f)
			in.Files = append(in.Files, walkIn{Path: p.Name + "/" + f.Name, Src: string(f.Src), TypeNames: tn, Defs: df})
		}
	}
	data, _ := json.Marshal(in)
	cmd := exec.Command(bin)
	cmd.Stdin = bytes.NewReader(data)
	var stderr bytes.Buffer
	cmd.Stderr = &stderr
	out, err := cmd.Output()
	if err != nil {
		return nil, fmt.Errorf("walker recorder failed: %v: %s", err, clip(stderr.String(), 600))
	}
	var outs []*walkOut
	if err := json.Unmarshal(out, &outs); err != nil {
		return nil, fmt.Errorf("walker recorder output: %v", err)
	}
	m := map[string]*walkOut{}
	for _, o := range outs {
		m[o.Path] = o
	}
	return m, nil
}

// walkTerm renders the observations of one file as the argument list of Model_Walkers.walk_detail.
func walkTerm(o *walkOut, codes map[string]int) (string, int, []string) {
	var items []string
	var unknown []string
	events := 0
	keys := make([]string, 0, len(o.Seq))
	for k := range o.Seq {
		keys = append(keys, k)
	}
	sort.Strings(keys)
	modelled := map[string]bool{}
	for _, w := range WalkerNames {
		modelled[w] = true
	}
	for _, k := range keys {
		parts := strings.SplitN(k, "/", 2)
		if !modelled[parts[0]] {
			continue
		}
		if msg, bad := o.Panic[k]; bad {
			_ = msg
			items = append(items, fmt.Sprintf("(%s, %s, None)", coqfmt.Str(parts[0]), parts[1]))
			continue
		}
		evs := make([]string, 0, len(o.Seq[k]))
		for _, e := range o.Seq[k] {
			off := int(e[0].(float64))
			kind := e[1].(string)
			c, ok := codes[kind]
			if !ok {
				unknown = append(unknown, kind)
			}
			evs = append(evs, fmt.Sprintf("(%d,%d)", off+1, c))
		}
		events += len(evs)
		items = append(items, fmt.Sprintf("(%s, %s, Some [%s])", coqfmt.Str(parts[0]), parts[1], strings.Join(evs, ";")))
	}
	return "[" + strings.Join(items, "; ") + "]", events, unknown
}

// CommentWalkerNames are the comment walkers of Model_Walkers.v (cwalker_obs).
var CommentWalkerNames = []string{"comment", "localcomment", "doccomment"}

// ConvertComments renders what the comment walkers read of a file as a term of type Model_Walkers.comments.
func ConvertComments(f *File) string {
	tf := Fset.File(f.AST.Pos())
	pos := func(p token.Pos) int { return tf.Offset(p) + 1 }
	var groups []string
	for _, cg := range f.AST.Comments {
		var cs []string
		for _, c := range cg.List {
			cs = append(cs, fmt.Sprintf("(%d,%s)", pos(c.Pos()), coqfmt.Bool(strings.HasPrefix(c.Text, "/*"))))
		}
		groups = append(groups, "["+strings.Join(cs, ";")+"]")
	}
	var ranges []string
	for _, d := range f.AST.Decls {
		ranges = append(ranges, fmt.Sprintf("(%d,%d)", pos(d.Pos()), pos(d.End())))
	}
	var docs []string
	code := func(n ast.Node) int {
		tag, _, a, _ := tagOf(n)
		if c, ok := tagCodes[tag]; ok {
			return c
		}
		return 100 + a/1000
	}
	add := func(owner ast.Node, doc *ast.CommentGroup) {
		if doc != nil {
			docs = append(docs, fmt.Sprintf("(%d,%d,(%d,%d))", code(owner), pos(owner.Pos()), pos(doc.Pos()), len(doc.List)))
		}
	}
	ast.Inspect(f.AST, func(n ast.Node) bool {
		switch x := n.(type) {
		case *ast.FuncDecl:
			add(x, x.Doc)
		case *ast.GenDecl:
			add(x, x.Doc)
		case *ast.ImportSpec:
			add(x, x.Doc)
		case *ast.ValueSpec:
			add(x, x.Doc)
		case *ast.TypeSpec:
			add(x, x.Doc)
		case *ast.Field:
			add(x, x.Doc)
		}
		return true
	})
	return fmt.Sprintf("{| c_groups := [%s]; c_decl_range := [%s]; c_docs := [%s] |}", strings.Join(groups, ";"), strings.Join(ranges, ";"), strings.Join(docs, ";"))
}

// cwalkTerm renders the recorded comment-walker observations of one file (argument list of Model_Walkers.cwalk_detail).
func cwalkTerm(o *walkOut) (string, int) {
	var items []string
	events := 0
	want := map[string]bool{}
	for _, w := range CommentWalkerNames {
		want[w] = true
	}
	keys := make([]string, 0, len(o.Seq))
	for k := range o.Seq {
		keys = append(keys, k)
	}
	sort.Strings(keys)
	for _, k := range keys {
		parts := strings.SplitN(k, "/", 2)
		if !want[parts[0]] {
			continue
		}
		if _, bad := o.Panic[k]; bad {
			items = append(items, fmt.Sprintf("(%s, %s, None)", coqfmt.Str(parts[0]), parts[1]))
			continue
		}
		var evs []string
		for _, e := range o.Seq[k] {
			off := int(e[0].(float64))
			n := 0
			fmt.Sscanf(e[1].(string), "cg%d", &n)
			evs = append(evs, fmt.Sprintf("(%d,%d)", off+1, 1000+n))
		}
		events += len(evs)
		items = append(items, fmt.Sprintf("(%s, %s, Some [%s])", coqfmt.Str(parts[0]), parts[1], strings.Join(evs, ";")))
	}
	return "[" + strings.Join(items, "; ") + "]", events
}

// ModelledCommentCheckers are the comment-based checkers of Model_Comments.v (run_by_name_c).
var ModelledCommentCheckers = []string{"deprecatedComment"}

// ConvertDocTexts renders the text of every comment that belongs to a Doc group as a term of type Model_Comments.ctexts.
func ConvertDocTexts(f *File) string {
	tf := Fset.File(f.AST.Pos())
	seen := map[*ast.CommentGroup]bool{}
	var items []string
	add := func(doc *ast.CommentGroup) {
		if doc == nil || seen[doc] {
			return
		}
		seen[doc] = true
		for _, c := range doc.List {
			items = append(items, fmt.Sprintf("(%d,%s)", tf.Offset(c.Pos())+1, coqfmt.Str(c.Text)))
		}
	}
	ast.Inspect(f.AST, func(n ast.Node) bool {
		switch x := n.(type) {
		case *ast.FuncDecl:
			add(x.Doc)
		case *ast.GenDecl:
			add(x.Doc)
		case *ast.ImportSpec:
			add(x.Doc)
		case *ast.ValueSpec:
			add(x.Doc)
		case *ast.TypeSpec:
			add(x.Doc)
		case *ast.Field:
			add(x.Doc)
		}
		return true
	})
	return "{| c_text := [" + strings.Join(items, ";") + "] |}"
}
