package corpus

// Inputs for comment-matching rules: for every CommentPatterns entry of the executed IR a sample text is derived from the
// regular expression itself (regexp/syntax: literals, first alternative, one repetition, first rune of a class) and, when
// it really matches, placed (a) as a comment of its own, (b) after other prose in a line comment, (c) in a trailing
// comment after code, (d) on a later line of a /* */ block. A position computed as "comment start + match offset" is
// then not the start of a comment.

import (
	"fmt"
	"regexp"
	"regexp/syntax"
	"strings"

	"github.com/go-critic/go-critic/checkers/rulesdata"
)

func sampleOf(re *syntax.Regexp, b *strings.Builder) {
	switch re.Op {
	case syntax.OpLiteral:
		b.WriteString(string(re.Rune))
	case syntax.OpCharClass:
		if len(re.Rune) > 0 {
			r := re.Rune[0]
			if r < ' ' && len(re.Rune) > 2 {
				r = re.Rune[2]
			}
			b.WriteRune(r)
		}
	case syntax.OpAnyCharNotNL, syntax.OpAnyChar:
		b.WriteByte('x')
	case syntax.OpCapture, syntax.OpPlus, syntax.OpRepeat:
		n := 1
		if re.Op == syntax.OpRepeat && re.Min > 1 {
			n = re.Min
		}
		for i := 0; i < n; i++ {
			sampleOf(re.Sub[0], b)
		}
	case syntax.OpStar, syntax.OpQuest:
		// zero repetitions
	case syntax.OpConcat:
		for _, s := range re.Sub {
			sampleOf(s, b)
		}
	case syntax.OpAlternate:
		sampleOf(re.Sub[0], b)
	}
}

// GenCommentInputs builds one single-file package per comment pattern of the embedded rules (stream SY).
func GenCommentInputs() []*Pkg {
	var out []*Pkg
	n := 0
	for _, g := range rulesdata.PrecompiledRules.RuleGroups {
		for _, r := range g.Rules {
			for _, cp := range r.CommentPatterns {
				n++
				parsed, err := syntax.Parse(cp.Value, syntax.Perl)
				if err != nil {
					continue
				}
				var b strings.Builder
				sampleOf(parsed.Simplify(), &b)
				sample := b.String()
				if ok, _ := regexp.MatchString(cp.Value, sample); !ok || strings.Contains(sample, "\n") || strings.Contains(sample, "*/") {
					continue
				}
				line := sample
				if !strings.HasPrefix(line, "//") && !strings.HasPrefix(line, "/*") {
					line = "// " + sample
				}
				src := fmt.Sprintf("package p\n\n%s\nfunc a() {}\n\n// note that %s\nfunc b() {}\n\nfunc c() {\n\tb() // see %s\n}\n\n/*\n\tblock\n\t%s\n*/\nfunc d() {}\n\n/* %s */\nfunc e() {}\n", line, sample, sample, sample, sample)
				p, err := TypeCheck("SY", fmt.Sprintf("SY/comment-%s-%d", g.Name, n), "", map[string][]byte{"synth.go": []byte(src)})
				if err != nil {
					continue
				}
				p.Origin = fmt.Sprintf("comment inputs derived from the comment pattern %q of rule group %s", cp.Value, g.Name)
				out = append(out, p)
			}
		}
	}
	return out
}
