// Package load loads packages and runs checkers in-process the way cmd/go-critic does.
package load

import (
	"fmt"
	"go/token"
	"go/types"
	"path/filepath"
	"runtime"
	"sync"

	"github.com/go-critic/go-critic/checkers"
	"github.com/go-critic/go-critic/linter"
	"github.com/go-toolsmith/pkgload"
	"golang.org/x/tools/go/packages"
)

var initOnce sync.Once

// InitRules registers the embedded rule checkers once.
func InitRules() {
	initOnce.Do(func() {
		// the analyzer package may already have registered the embedded rules in its own init
		for _, info := range linter.GetCheckersInfo() {
			if info.EmbeddedRuleguard {
				return
			}
		}
		if err := checkers.InitEmbeddedRules(); err != nil {
			panic(err)
		}
	})
}

// Packages loads patterns from dir with the CLI's configuration (Tests: true, pkgload unit selection).
func Packages(dir string, env []string, patterns ...string) (*token.FileSet, []*packages.Package, error) {
	fset := token.NewFileSet()
	cfg := packages.Config{
		Mode: packages.NeedName | packages.NeedFiles | packages.NeedCompiledGoFiles | packages.NeedImports |
			packages.NeedTypes | packages.NeedSyntax | packages.NeedTypesInfo | packages.NeedTypesSizes,
		Tests: true,
		Fset:  fset,
		Dir:   dir,
		Env:   env,
	}
	pkgs, err := pkgload.LoadPackages(&cfg, patterns)
	return fset, pkgs, err
}

// Warning is a projected diagnostic.
type Warning struct {
	Checker  string
	File     string // absolute file name
	Line     int
	Col      int
	Offset   int
	Text     string
	HasFix   bool
	FixFrom  int
	FixTo    int
	FixText  string
	Position string // token.Position.String()
}

// NewContext builds a linter context like loadProgram does.
func NewContext(fset *token.FileSet) *linter.Context {
	return linter.NewContext(fset, types.SizesFor("gc", runtime.GOARCH))
}

// Checkers instantiates the named checkers (registry order).
func Checkers(ctx *linter.Context, names map[string]bool) ([]*linter.Checker, error) {
	InitRules()
	var out []*linter.Checker
	for _, info := range linter.GetCheckersInfo() {
		if names != nil && !names[info.Name] {
			continue
		}
		c, err := linter.NewChecker(ctx, info)
		if err != nil {
			return nil, fmt.Errorf("%s: %v", info.Name, err)
		}
		out = append(out, c)
	}
	return out, nil
}

// CheckPackage mirrors program.checkPackage without filters; calls visit per (file, checker).
func CheckPackage(ctx *linter.Context, cs []*linter.Checker, pkg *packages.Package, visit func(filename string, c *linter.Checker, ws []linter.Warning)) {
	ctx.SetPackageInfo(pkg.TypesInfo, pkg.Types)
	for _, f := range pkg.Syntax {
		full := ctx.FileSet.Position(f.Pos()).Filename
		ctx.SetFileInfo(filepath.Base(full), f)
		for _, c := range cs {
			ws := c.Check(f)
			visit(full, c, append([]linter.Warning(nil), ws...))
		}
	}
}
