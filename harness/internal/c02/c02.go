// Package c02: determinism. Implementation-level oracle: every (checker, file) is analysed N times
// in-process (reused instance and brand-new instances; Go randomises map iteration per range
// statement) and the ordered warning lists (offset, text, fix) must be identical; the built CLI is
// run N times as separate processes and its output must be byte-identical. A construction-directed
// stream generates files with 2-5 duplicate-import groups and with shadowed imports.
package c02

import (
	"fmt"
	"go/token"
	"math/rand"
	"os"
	"path/filepath"
	"regexp"
	"sort"
	"strings"
	"time"

	"github.com/go-critic/go-critic/linter"
	"golang.org/x/tools/go/packages"

	"verifharness/internal/c04"
	"verifharness/internal/common"
	"verifharness/internal/coqfmt"
	"verifharness/internal/fw"
)

type stdPkg struct{ path, use string }

var stdPkgs = []stdPkg{{"fmt", "Sprint()"}, {"os", "Args"}, {"strings", "ToUpper(\"x\")"}, {"bytes", "MinRead"}, {"sort", "Ints(nil)"},
	{"errors", "New(\"x\")"}, {"io", "EOF"}, {"math", "Pi"}, {"strconv", "Itoa(1)"}, {"time", "Now()"}}

// genDupImports writes a package whose single file imports g packages 2..3 times each (+ some single imports).
func genDupImports(rng *rand.Rand, dir, name string, g int) (groups int) {
	perm := rng.Perm(len(stdPkgs))
	type imp struct{ alias, path, use string }
	var imps []imp
	for i := 0; i < g; i++ {
		p := stdPkgs[perm[i]]
		n := 2 + rng.Intn(2)
		for k := 0; k < n; k++ {
			alias := ""
			if k > 0 {
				alias = fmt.Sprintf("%s%d", p.path, k+1)
			}
			imps = append(imps, imp{alias, p.path, p.use})
		}
	}
	for i := g; i < g+rng.Intn(3) && i < len(perm); i++ {
		p := stdPkgs[perm[i]]
		imps = append(imps, imp{"", p.path, p.use})
	}
	rng.Shuffle(len(imps), func(i, j int) { imps[i], imps[j] = imps[j], imps[i] })
	var b strings.Builder
	fmt.Fprintf(&b, "package %s\n\nimport (\n", name)
	for _, im := range imps {
		if im.alias != "" {
			fmt.Fprintf(&b, "\t%s %q\n", im.alias, im.path)
		} else {
			fmt.Fprintf(&b, "\t%q\n", im.path)
		}
	}
	b.WriteString(")\n\nfunc use() []interface{} {\n\treturn []interface{}{\n")
	for _, im := range imps {
		a := im.alias
		if a == "" {
			a = im.path
		}
		if strings.HasSuffix(im.use, ")") && im.path == "sort" {
			fmt.Fprintf(&b, "\t\tfunc() int { %s.%s; return 0 }(),\n", a, im.use)
		} else {
			fmt.Fprintf(&b, "\t\t%s.%s,\n", a, im.use)
		}
	}
	b.WriteString("\t}\n}\n")
	common.WriteFile(filepath.Join(dir, name, "a.go"), b.String())
	return g
}

// genShadow writes a package in which several imported package names are shadowed by parameters and locals.
func genShadow(rng *rand.Rand, dir, name string, k int) {
	perm := rng.Perm(len(stdPkgs))
	var b strings.Builder
	fmt.Fprintf(&b, "package %s\n\nimport (\n", name)
	var names []string
	for i := 0; i < k; i++ {
		p := stdPkgs[perm[i]]
		fmt.Fprintf(&b, "\t%q\n", p.path)
		names = append(names, p.path)
	}
	b.WriteString(")\n\nfunc use() []interface{} {\n\treturn []interface{}{\n")
	for i := 0; i < k; i++ {
		p := stdPkgs[perm[i]]
		if p.path == "sort" {
			fmt.Fprintf(&b, "\t\tfunc() int { %s.%s; return 0 }(),\n", p.path, p.use)
		} else {
			fmt.Fprintf(&b, "\t\t%s.%s,\n", p.path, p.use)
		}
	}
	b.WriteString("\t}\n}\n\n")
	fmt.Fprintf(&b, "func params(%s int) int {\n\treturn %s\n}\n\n", strings.Join(names, ", "), strings.Join(names, " + "))
	b.WriteString("func locals() int {\n")
	for _, n := range names {
		fmt.Fprintf(&b, "\t%s := 1\n\t_ = %s\n", n, n)
	}
	b.WriteString("\treturn 0\n}\n")
	common.WriteFile(filepath.Join(dir, name, "a.go"), b.String())
}

var diagRE = regexp.MustCompile(`^(\S+?):(\d+):(\d+): (\w+): (.*)$`)

func classifyLists(a, b []string) string {
	sa := append([]string(nil), a...)
	sb := append([]string(nil), b...)
	sort.Strings(sa)
	sort.Strings(sb)
	if strings.Join(sa, "\n") == strings.Join(sb, "\n") {
		return "map-order"
	}
	return "unstable-content"
}

func Run(tier string, seed int64, outDir string) *common.Meta {
	meta := &common.Meta{Property: "C02", Distribution: map[string]interface{}{}, CaseFiles: []string{}}
	infos := fw.Infos()
	n := 8
	genPer := 3
	cliRuns := 4
	if tier == "thorough" {
		n, genPer, cliRuns = 40, 20, 12
	}
	rng := common.NewRand(seed, "c02-gen")

	// construction-directed module
	genDir := filepath.Join(outDir, "genmod")
	os.RemoveAll(genDir)
	common.WriteFile(filepath.Join(genDir, "go.mod"), "module c02gen\n\ngo 1.21\n")
	groupsOf := map[string]int{}
	for g := 1; g <= 5; g++ {
		for i := 0; i < genPer; i++ {
			name := fmt.Sprintf("dup%d_%d", g, i)
			groupsOf[name] = genDupImports(rng, genDir, name, g)
		}
	}
	for k := 2; k <= 6; k += 2 {
		for i := 0; i < genPer; i++ {
			genShadow(rng, genDir, fmt.Sprintf("shadow%d_%d", k, i), k)
		}
	}

	common.WriteFile(filepath.Join(genDir, "rgtarget", "a.go"), "package rgtarget\n\nfunc f(s string, n int) {\n\tprintln(\"x\")\n\tprintln(s, n)\n\tprint(n)\n}\n")

	fset := token.NewFileSet()
	t0 := time.Now()
	s1, err := fw.LoadS1(fset)
	common.Must(err)
	s2, err := fw.LoadS2(fset, outDir)
	common.Must(err)
	gen, err := fw.LoadDirs(fset, genDir, "gen", []string{"./..."})
	common.Must(err)
	for _, p := range gen {
		if len(p.Errors) > 0 {
			meta.TieBroken = append(meta.TieBroken, "generated package does not type-check: "+p.Name+": "+p.Errors[0])
		}
	}
	pkgs := append(append(append([]*fw.Pkg(nil), s1...), s2...), gen...)
	files := fw.AllFiles(pkgs)
	meta.Distribution["load_s"] = time.Since(t0).Seconds()
	meta.Distribution["files"] = len(files)
	meta.Distribution["generated_packages"] = len(gen)
	meta.Distribution["checkers"] = len(infos)
	meta.Distribution["repetitions"] = n
	if len(s1) < 50 || len(gen) < 10 {
		meta.TieBroken = append(meta.TieBroken, fmt.Sprintf("corpus unexpectedly small: %d example packages, %d generated", len(s1), len(gen)))
	}

	// ---- in-process repetitions ----
	type diff struct {
		info  *linter.CheckerInfo
		f     *fw.File
		a, b  fw.Outcome
		fresh bool
	}
	diffs := make([][]diff, len(pkgs))
	evals := make([]int, len(pkgs))
	nontriv := make([]int, len(pkgs))
	t1 := time.Now()
	common.Must(fw.ForEachPkg(fset, infos, pkgs, func(set *fw.Set, pi int) {
		p := pkgs[pi]
		for _, f := range p.Files {
			set.Enter(f, true)
			for ci, c := range set.Checkers {
				first := fw.SafeCheck(c, f)
				if len(first.Ws) > 1 {
					nontriv[pi]++
				}
				found := false
				for r := 1; r < n && !found; r++ {
					o := fw.SafeCheck(c, f)
					evals[pi]++
					if !o.Equal(first) {
						diffs[pi] = append(diffs[pi], diff{infos[ci], f, first, o, false})
						found = true
					}
				}
				// brand-new instances: n where there is something to order, one otherwise (none for silent rule groups: one engine load each)
				reps := 1
				if len(first.Ws) > 0 {
					reps = n
				}
				if infos[ci].EmbeddedRuleguard {
					reps = 0
					if len(first.Ws) > 0 {
						reps = 2
					}
				}
				for r := 0; r < reps && !found; r++ {
					o := fw.FreshCheck(infos[ci], f)
					evals[pi]++
					if !o.Equal(first) {
						diffs[pi] = append(diffs[pi], diff{infos[ci], f, first, o, true})
						found = true
					}
				}
			}
		}
	}))
	meta.Distribution["inprocess_s"] = time.Since(t1).Seconds()
	distinctOrders := map[string]map[string]bool{}
	perKey := map[string]int{}
	for pi := range pkgs {
		meta.Evaluations += evals[pi]
		meta.Distinct += nontriv[pi]
		for _, d := range diffs[pi] {
			cls := classifyLists(fw.Strs(d.a.Ws), fw.Strs(d.b.Ws))
			if d.a.Panic != d.b.Panic {
				cls = "unstable-panic"
			}
			key := "C02/" + d.info.Name + "/" + cls
			if perKey[key]++; perKey[key] > 3 {
				continue
			}
			// how many distinct outputs does this (checker, file) have?
			seen := map[string]bool{}
			for r := 0; r < 30; r++ {
				seen[strings.Join(fw.Strs(fw.FreshCheck(d.info, d.f).Ws), "\n")] = true
			}
			distinctOrders[d.info.Name+" "+d.f.ID()] = seen
			meta.Fail(key, fmt.Sprintf("%s: two analyses of the same file %s in one process give different ordered warning lists (%d distinct outputs in 30 further runs)", d.info.Name, d.f.ID(), len(seen)),
				map[string]interface{}{"checker": d.info.Name, "file": d.f.Path, "source": string(d.f.Src), "run_1": fw.Strs(d.a.Ws), "run_k": fw.Strs(d.b.Ws), "fresh_instance": d.fresh,
					"replay": "NewChecker(" + d.info.Name + "); Check(file) repeatedly; compare the ordered []Warning"})
		}
	}

	// ---- correspondence cases for Model_Determ (dupImport): the implementation's output under the permutation it chose ----
	writeDupImportCases(meta, outDir, fset, gen, s2, infos)

	// ---- configuration-directed: several user rule files whose load order is observable ----
	ruleFilesStream(meta, tier, outDir, gen, infos)

	// ---- separate processes ----
	cliStream(meta, tier, genDir, s1, cliRuns)
	denseStream(meta, tier, seed, outDir, s1)
	analysisStream(meta, tier, outDir)
	testVariantStream(meta, tier, outDir)

	meta.AddSample(map[string]interface{}{"generated": "dup<g>_<i>: g duplicate-import groups; shadow<k>_<i>: k shadowed imports", "example": readFirst(filepath.Join(genDir, "dup3_0", "a.go"))})
	meta.Rule = "every (checker, file) over S1 + S2 + generated packages (1-5 duplicate-import groups, 2-6 shadowed imports): N ordered warning lists from a reused instance and from brand-new instances must be equal; " +
		"the CLI is run as N separate processes on the generated module and on S1 and its output must be byte-identical; evaluations = repeated Check calls compared with the first; " +
		"distinct_nontrivial = (checker, file) pairs with at least two warnings (where order can matter)"
	return meta
}

func readFirst(p string) string {
	b, _ := os.ReadFile(p)
	return string(b)
}

// writeDupImportCases emits, for every generated/stress file, the import list (path, line) and several observed
// dupImport outputs; the Coq side checks that each observed output is the model's output under SOME permutation
// of the duplicate groups (and that the group multiset is the model's).
func writeDupImportCases(meta *common.Meta, outDir string, fset *token.FileSet, gen, s2 []*fw.Pkg, infos []*linter.CheckerInfo) {
	info := fw.InfoByName(infos)["dupImport"]
	if info == nil {
		meta.Notes = append(meta.Notes, "dupImport not registered: no correspondence cases")
		return
	}
	var lines, idx []string
	for _, p := range append(append([]*fw.Pkg(nil), gen...), s2...) {
		for _, f := range p.Files {
			if len(f.AST.Imports) == 0 {
				continue
			}
			var imps []string
			for _, im := range f.AST.Imports {
				imps = append(imps, fmt.Sprintf("(%s, %s)", coqfmt.Str(im.Path.Value), coqfmt.N(fset.Position(im.Pos()).Line)))
			}
			var obs []string
			seen := map[string]bool{}
			for r := 0; r < 6; r++ {
				o := fw.FreshCheck(info, f)
				var ws []string
				for _, w := range o.Ws {
					ws = append(ws, fmt.Sprintf("(%s, %s)", coqfmt.N(w.Line), coqfmt.Str(w.Text)))
				}
				s := coqfmt.List(ws)
				if !seen[s] {
					seen[s] = true
					obs = append(obs, s)
				}
			}
			lines = append(lines, fmt.Sprintf("  {| k_imports := %s; k_observed := %s |}", coqfmt.List(imps), coqfmt.List(obs)))
			idx = append(idx, f.ID())
		}
	}
	hdr := "From GC Require Import Base Model_Determ.\n" +
		"Record case := { k_imports : list (string * N); k_observed : list (list (N * string)) }.\n" +
		"Definition case_ok (k : case) : bool := forallb (dup_import_explains (k_imports k)) (k_observed k).\n" +
		"Definition cases : list case := [\n"
	common.WriteFile(filepath.Join(outDir, "cases_c02_dupimport.v"), hdr+strings.Join(lines, ";\n")+"\n].\nDefinition M := Eval vm_compute in mismatches case_ok cases.\nPrint M.\n")
	common.WriteFile(filepath.Join(outDir, "cases_c02_dupimport.index.txt"), strings.Join(idx, "\n")+"\n")
	meta.CaseFiles = append(meta.CaseFiles, "cases_c02_dupimport.v")
	meta.Distribution["model_cases_dupimport"] = len(lines)
}

func cliStream(meta *common.Meta, tier, genDir string, s1 []*fw.Pkg, runs int) {
	bin := filepath.Join(common.BinDir(), "go-critic")
	type target struct {
		name, dir string
		args      []string
	}
	targets := []target{
		{"generated module", genDir, []string{"check", "-enableAll", "./..."}},
	}
	for bi, batch := range fw.Batches(s1) {
		var s1args []string
		for _, p := range batch {
			s1args = append(s1args, "./checkers/testdata/"+p.Name)
		}
		targets = append(targets, target{fmt.Sprintf("S1 examples, batch %d (%d packages)", bi, len(batch)), common.RepoDir, append([]string{"check", "-enableAll"}, s1args...)})
	}
	total := 0
	for ti, tg := range targets {
		nr := runs
		if ti >= 1 && tier != "thorough" {
			nr = 2
		}
		var first string
		var firstCode int
		reported := map[string]bool{}
		for r := 0; r < nr; r++ {
			so, se, code, err := fw.RunPatient(240*time.Second, tg.dir, common.GoEnv(), bin, tg.args...)
			total++
			if fw.IsTimeout(err) {
				meta.Notes = append(meta.Notes, fmt.Sprintf("CLI repetition stage: %v hit the wall-clock limit twice (machine load? no observation, not a verdict): %v", tg.args, err))
				break
			}
			if err != nil {
				meta.Fail("C02/cli/run", "go-critic check did not finish: "+err.Error(), tg.args)
				break
			}
			out := "exit=" + fmt.Sprint(code) + "\n--stdout--\n" + so + "--stderr--\n" + se
			if r == 0 {
				first, firstCode = out, code
				if ti == 0 {
					meta.AddSample(map[string]interface{}{"cli_target": tg.name, "exit": code, "diagnostic_lines": strings.Count(se, "\n")})
				}
				if !strings.Contains(se, ": ") {
					meta.Fail("C02/cli/run", "no diagnostics on "+tg.name+" (stream would be vacuous): "+tail(out), tg.args)
				}
				continue
			}
			if out == first {
				continue
			}
			_ = firstCode
			// attribute the difference to checkers
			la, lb := strings.Split(first, "\n"), strings.Split(out, "\n")
			per := map[string][2][]string{}
			for i, l := range [][]string{la, lb} {
				for _, line := range l {
					name := "cli"
					if m := diagRE.FindStringSubmatch(line); m != nil {
						name = m[4]
					}
					e := per[name]
					e[i] = append(e[i], line)
					per[name] = e
				}
			}
			for name, e := range per {
				if strings.Join(e[0], "\n") == strings.Join(e[1], "\n") || reported[name] {
					continue
				}
				reported[name] = true
				cls := classifyLists(e[0], e[1])
				meta.Fail("C02/"+name+"/"+cls, fmt.Sprintf("%s: two go-critic processes print different output for %s", name, tg.name),
					map[string]interface{}{"dir": tg.dir, "args": clipArgs(tg.args), "process_1": clipLines(e[0], e[1], 0), "process_k": clipLines(e[0], e[1], 1)})
			}
		}
	}
	meta.Distribution["cli_processes"] = total
}

// ruleFilesStream: the dynamic `ruleguard` checker is constructed N times with the same list of rule files. The files
// are built so that the order in which they are loaded is observable: they all declare a group of the same name (the
// engine rejects the second and every later declaration, so the file loaded first wins and — with the default failOn —
// the others are skipped as a whole, including their private groups); with failOn=all the init error names the loser.
func ruleFilesStream(meta *common.Meta, tier, outDir string, gen []*fw.Pkg, infos []*linter.CheckerInfo) {
	info := fw.InfoByName(infos)["ruleguard"]
	var target *fw.File
	for _, p := range gen {
		if p.Name == "rgtarget" && len(p.Files) > 0 {
			target = p.Files[0]
		}
	}
	if info == nil || target == nil || info.Params["rules"] == nil || info.Params["failOn"] == nil {
		meta.TieBroken = append(meta.TieBroken, "rule-file order stream cannot run (ruleguard checker, its parameters or the target file missing)")
		return
	}
	dir := filepath.Join(outDir, "rulefiles")
	os.RemoveAll(dir)
	var files []string
	for i := 1; i <= 5; i++ {
		src := fmt.Sprintf(`//go:build ignore
// +build ignore

package gorules

import "github.com/quasilyte/go-ruleguard/dsl"

func verifShared(m dsl.Matcher) {
	m.Match("println($*_)").Report("shared group as declared in file %d")
}

func verifOnly%d(m dsl.Matcher) {
	m.Match("print($_)").Report("private group of file %d")
}
`, i, i, i)
		name := filepath.Join(dir, fmt.Sprintf("rules_%d.go", i))
		common.WriteFile(name, src)
		files = append(files, name)
	}
	n := 16
	if tier == "thorough" {
		n = 80
	}
	rulesP, failP := info.Params["rules"], info.Params["failOn"]
	oldRules, oldFail := rulesP.Value, failP.Value
	defer func() { rulesP.Value, failP.Value = oldRules, oldFail }()
	type variant struct {
		name, rules, failOn string
	}
	variants := []variant{
		{"five files, default failOn", strings.Join(files, ","), ""},
		{"five files, failOn=all", strings.Join(files, ","), "all"},
		{"glob + explicit duplicates", filepath.Join(dir, "rules_*.go") + "," + files[2] + "," + files[0], ""},
		// configuration errors are outputs too: the text of the init error must be the same every time
		{"unknown failOn value", files[0], "verif-unknown"},
		{"unknown failOn value among valid ones", files[0], "dsl,verif-unknown,all"},
	}
	runs := 0
	for _, v := range variants {
		rulesP.Value, failP.Value = v.rules, v.failOn
		var first string
		seen := map[string]int{}
		for r := 0; r < n; r++ {
			ctx := linter.NewContext(target.Pkg.Fset, fw.Sizes)
			c, err := linter.NewChecker(ctx, info)
			runs++
			var out string
			if err != nil {
				out = "init error: " + err.Error()
			} else {
				ctx.SetPackageInfo(target.Pkg.Info, target.Pkg.Types)
				ctx.SetFileInfo(target.Name, target.AST)
				o := fw.SafeCheck(c, target)
				out = strings.Join(fw.Strs(o.Ws), "\n") + o.Panic
			}
			out = strings.ReplaceAll(out, dir, "<rules>")
			seen[out]++
			if r == 0 {
				first = out
			}
		}
		if first == "" && v.failOn == "" {
			meta.TieBroken = append(meta.TieBroken, "rule-file stream produced no diagnostics at all ("+v.name+")")
		}
		meta.Notes = append(meta.Notes, "rule-file stream ("+v.name+"): "+strings.ReplaceAll(clipTo(first, 300), "\n", " | "))
		if len(seen) > 1 {
			var outs []string
			for o, k := range seen {
				outs = append(outs, fmt.Sprintf("%dx: %s", k, o))
			}
			sort.Strings(outs)
			key := "C02/ruleguard/rule-file-order"
			if strings.HasPrefix(v.name, "unknown failOn") {
				key = "C02/ruleguard/init-error-text-order"
			}
			meta.Fail(key, fmt.Sprintf("the dynamic ruleguard checker constructed %d times with the same parameters (%s) behaves in %d different ways", n, v.name, len(seen)),
				map[string]interface{}{"rules": strings.ReplaceAll(v.rules, dir, "<rules>"), "failOn": v.failOn, "distinct_outcomes": outs, "target": string(target.Src),
					"rule_file_template": "every file declares group verifShared (message names the file) and a private group verifOnly<i>",
					"replay":             "go-critic check -enable=ruleguard -@ruleguard.rules=<list> on the target file, several times (cwd inside the repository module so that the dsl import resolves)"})
		}
	}
	meta.Distribution["rule_file_constructions"] = runs
}

// analysisStream repeats the go/analysis front-end (parallel driver: one pass per package, checkers constructed per
// pass) on a multi-package workspace; every run must print the same diagnostics and end the same way.
func analysisStream(meta *common.Meta, tier, outDir string) {
	bin := filepath.Join(common.BinDir(), "go-critic-analysis")
	if _, err := os.Stat(bin); err != nil {
		meta.TieBroken = append(meta.TieBroken, "go-critic-analysis binary missing: "+err.Error())
		return
	}
	ws := filepath.Join(outDir, "ws_analysis")
	os.RemoveAll(ws)
	nPkgs, nFiles, runs := 10, 4, 6
	if tier == "thorough" {
		nPkgs, nFiles, runs = 16, 6, 30
	}
	c04.Workspace(ws, nPkgs, nFiles)
	args := []string{"-enable-all", "-disable=", "./..."}
	norm := func(so, se string, code int) (string, []string) {
		var ls []string
		for _, l := range strings.Split(se+"\n"+so, "\n") {
			if strings.TrimSpace(l) != "" {
				ls = append(ls, l)
			}
		}
		// the driver analyses packages concurrently and prints per package: the order of package blocks is its business,
		// the multiset of lines and the exit status are ours
		sort.Strings(ls)
		return fmt.Sprintf("exit=%d\n", code) + strings.Join(ls, "\n"), ls
	}
	var first, firstRaw string
	var firstLines []string
	rawReported := false
	n := 0
	for r := 0; r < runs; r++ {
		so, se, code, err := fw.RunPatient(240*time.Second, ws, common.GoEnv("GOMAXPROCS=16"), bin, args...)
		n++
		if fw.IsTimeout(err) {
			meta.Notes = append(meta.Notes, fmt.Sprintf("analyzer repetition stage: %v hit the wall-clock limit twice (no observation, not a verdict): %v", args, err))
			break
		}
		if err != nil {
			meta.Fail("C02/analyzer/run", "go-critic-analysis did not finish: "+err.Error(), args)
			break
		}
		out, ls := norm(so, se, code)
		raw := se + "\n" + so
		if r == 0 {
			firstRaw = raw
			checkAnalysisOrder(meta, ws, raw)
		} else if raw != firstRaw && out == first && !rawReported {
			rawReported = true
			a, b := firstDiffLine(firstRaw, raw)
			meta.Fail("C02/analyzer/unstable-order", fmt.Sprintf("two go-critic-analysis processes print the same diagnostics in a different order (run 1 vs run %d)", r+1),
				map[string]interface{}{"dir": ws, "args": args, "workspace": "harness/internal/c04.Workspace", "first_differing_line_run_1": a, "first_differing_line_run_k": b})
		}
		if r == 0 {
			first, firstLines = out, ls
			meta.AddSample(map[string]interface{}{"analysis_workspace": fmt.Sprintf("%d packages x %d files", nPkgs, nFiles), "exit": code, "lines": len(ls)})
			if len(ls) < 10 {
				meta.Fail("C02/analyzer/run", "hardly any diagnostics from go-critic-analysis (stream would be vacuous): "+tail(out), args)
			}
			continue
		}
		if out == first {
			continue
		}
		// attribute to checkers where the lines name one
		per := map[string][2][]string{}
		for i, l := range [][]string{firstLines, ls} {
			for _, line := range l {
				name := "analyzer"
				if m := anDiagRE.FindStringSubmatch(line); m != nil {
					name = m[1]
				} else if strings.Contains(line, "panic") || strings.Contains(line, "goroutine ") || strings.HasPrefix(line, "\t") || strings.Contains(line, ".go:") {
					name = "analyzer-crash"
				}
				e := per[name]
				e[i] = append(e[i], line)
				per[name] = e
			}
		}
		// a crashing run truncates everybody's output: then name the crash and the checkers that occur in its stack only
		crashText := ""
		if e, ok := per["analyzer-crash"]; ok && strings.Join(e[0], "\n") != strings.Join(e[1], "\n") {
			crashText = strings.ToLower(strings.Join(e[0], "\n") + "\n" + strings.Join(e[1], "\n"))
		}
		for name, e := range per {
			if strings.Join(e[0], "\n") == strings.Join(e[1], "\n") {
				continue
			}
			if crashText != "" && name != "analyzer-crash" && !strings.Contains(crashText, strings.ToLower(name)+"_checker.go") {
				continue
			}
			cls := "unstable-content"
			if name == "analyzer-crash" {
				cls = "unstable-crash"
			}
			meta.Fail("C02/"+name+"/"+cls, fmt.Sprintf("%s: two go-critic-analysis processes on the same workspace differ (run 1 vs run %d)", name, r+1),
				map[string]interface{}{"dir": ws, "args": args, "workspace": "harness/internal/c04.Workspace", "only_in_run_1": diffOnly(e[0], e[1]), "only_in_run_k": diffOnly(e[1], e[0])})
		}
		break
	}
	// the twin front-end must obey the same report order
	if twin := filepath.Join(common.BinDir(), "gocritic-analysis"); fileExists(twin) {
		so, se, _, err := fw.RunPatient(240*time.Second, ws, common.GoEnv("GOMAXPROCS=16"), twin, args...)
		n++
		if err == nil {
			checkAnalysisOrder(meta, ws, se+"\n"+so)
		}
	}
	meta.Distribution["analysis_processes"] = n
}

func fileExists(p string) bool {
	_, err := os.Stat(p)
	return err == nil
}

// testVariantStream: packages whose in-package _test.go files change what is true about the NON-test files (a test-only
// String()/Error() method makes a type implement an interface, a test-only method set changes a type switch). The
// go/analysis driver analyses both variants ("p" and "p [p.test]"); what the analysis binaries print must be the same
// in every run (set and order) and must contain the diagnostics of both variants, as computed in-process.
func testVariantStream(meta *common.Meta, tier, outDir string) {
	ws := filepath.Join(outDir, "ws_testvariants")
	os.RemoveAll(ws)
	common.WriteFile(filepath.Join(ws, "go.mod"), "module wstv\n\ngo 1.20\n")
	nPkgs := 8
	for i := 0; i < nPkgs; i++ {
		pkg := fmt.Sprintf("tv%d", i)
		var a, t strings.Builder
		// no imports at all (not even testing): every process would otherwise type-check those dependencies from source
		fmt.Fprintf(&a, "package %s\n\ntype Stringer interface{ String() string }\n\ntype T%d struct{ n int }\n\ntype E%d struct{ msg string }\n\n", pkg, i, i)
		// non-test file: type switches whose case order matters only once the test-only methods exist
		fmt.Fprintf(&a, "func Describe%d(v interface{}) string {\n\tswitch x := v.(type) {\n\tcase Stringer:\n\t\treturn x.String()\n\tcase *T%d:\n\t\treturn string(rune(x.n))\n\tcase error:\n\t\treturn x.Error()\n\tcase *E%d:\n\t\treturn x.msg\n\t}\n\treturn \"\"\n}\n\n", i, i, i)
		fmt.Fprintf(&a, "func Plain%d(IN int, xs []int) int {\n\tif len(xs) >= 0 {\n\t\tIN = IN + 1\n\t}\n\treturn IN\n}\n", i)
		for k := 0; k < i%3; k++ {
			fmt.Fprintf(&a, "\nfunc Pad%d_%d(a int, b int) bool { return !(a != b) }\n", i, k)
		}
		fmt.Fprintf(&t, "package %s\n\n// test-only methods: with them *T%d is a Stringer and *E%d an error\nfunc (t *T%d) String() string { return \"T\" }\n\nfunc (e *E%d) Error() string { return e.msg }\n\nfunc helperDescribe%d() bool { return Describe%d(&T%d{}) == \"\" }\n", pkg, i, i, i, i, i, i, i)
		common.WriteFile(filepath.Join(ws, pkg, "a.go"), a.String())
		common.WriteFile(filepath.Join(ws, pkg, "export_test.go"), t.String())
	}
	// expected set: both variants of every package, library run in-process
	cfg := &packages.Config{Mode: packages.NeedName | packages.NeedFiles | packages.NeedCompiledGoFiles | packages.NeedImports | packages.NeedTypes | packages.NeedSyntax | packages.NeedTypesInfo | packages.NeedTypesSizes,
		Tests: true, Dir: ws, Env: common.GoEnv(), Fset: token.NewFileSet()}
	lpkgs, err := packages.Load(cfg, "./...")
	if err != nil {
		meta.TieBroken = append(meta.TieBroken, "test-variant workspace does not load: "+err.Error())
		return
	}
	infos := fw.Infos()
	set, err := fw.NewSet(cfg.Fset, infos)
	common.Must(err)
	want := map[string]bool{}
	variantOnly := 0
	perVariant := map[string]map[string]bool{}
	for _, lp := range lpkgs {
		if strings.HasSuffix(lp.ID, ".test") || len(lp.Errors) > 0 {
			continue
		}
		set.Ctx.SetPackageInfo(lp.TypesInfo, lp.Types)
		perVariant[lp.ID] = map[string]bool{}
		for _, f := range lp.Syntax {
			tf := cfg.Fset.File(f.Pos())
			set.Ctx.SetFileInfo(filepath.Base(tf.Name()), f)
			for ci, c := range set.Checkers {
				if infos[ci].Name == "ruleguard" {
					continue
				}
				func() {
					defer func() { recover() }()
					for _, w := range c.Check(f) {
						p := cfg.Fset.Position(w.Pos)
						k := fmt.Sprintf("%s:%d:%d: %s", p.Filename, p.Line, p.Column, infos[ci].Name)
						want[k] = true
						perVariant[lp.ID][k] = true
					}
				}()
			}
		}
	}
	for id, ks := range perVariant {
		if !strings.Contains(id, "[") {
			continue
		}
		base := perVariant[strings.Fields(id)[0]]
		for k := range ks {
			if !strings.HasSuffix(strings.Split(k, ":")[0], "_test.go") && !base[k] {
				variantOnly++
			}
		}
	}
	meta.Distribution["test_variant_only_diagnostics_on_non_test_files"] = variantOnly
	if variantOnly == 0 {
		meta.TieBroken = append(meta.TieBroken, "test-variant workspace: no diagnostic of a non-test file depends on the in-package test files (stream vacuous)")
	}
	// every process type-checks the synthesized test main's dependencies (testing, ...) from source: ~30 CPU-seconds per
	// run, so the quick tier affords 3 + 2 runs (the comparison with the expected set does not need many), thorough 40 + 40
	runsOf := map[string]int{"go-critic-analysis": 3, "gocritic-analysis": 2}
	if tier == "thorough" {
		runsOf = map[string]int{"go-critic-analysis": 40, "gocritic-analysis": 40}
	}
	args := []string{"-enable-all", "-disable=", "./..."}
	total := 0
	for _, exe := range []string{"go-critic-analysis", "gocritic-analysis"} {
		bin := filepath.Join(common.BinDir(), exe)
		if !fileExists(bin) {
			continue
		}
		runs := runsOf[exe]
		raws := make([]string, runs)
		errs := make([]error, runs)
		fw.Parallel(runs, func(r int) {
			so, se, _, err := fw.RunPatient(240*time.Second, ws, common.GoEnv("GOMAXPROCS=8"), bin, args...)
			raws[r], errs[r] = se+"\n"+so, err
		})
		total += runs
		reportedSet, reportedRun := false, false
		for r := 0; r < runs; r++ {
			if fw.IsTimeout(errs[r]) {
				meta.Notes = append(meta.Notes, fmt.Sprintf("test-variant stage: %s hit the wall-clock limit twice (no observation, not a verdict): %v", exe, errs[r]))
				break
			}
			if errs[r] != nil {
				meta.Fail("C02/analyzer/run", exe+" did not finish on the test-variant workspace: "+errs[r].Error(), args)
				break
			}
			got := map[string]bool{}
			for _, l := range strings.Split(raws[r], "\n") {
				if m := anPosRE.FindStringSubmatch(l); m != nil {
					got[fmt.Sprintf("%s:%s:%s: %s", m[1], m[2], m[3], m[4])] = true
				}
			}
			var missing, extra []string
			for k := range want {
				if !got[k] {
					missing = append(missing, k)
				}
			}
			for k := range got {
				if !want[k] {
					extra = append(extra, k)
				}
			}
			sort.Strings(missing)
			sort.Strings(extra)
			if (len(missing) > 0 || len(extra) > 0) && !reportedSet {
				reportedSet = true
				meta.Fail("C02/analyzer/test-variant-diagnostics", fmt.Sprintf("%s (run %d of %d): the diagnostics printed for packages with in-package test files are not those of the package and its test variant", exe, r+1, runs),
					map[string]interface{}{"binary": exe, "workspace": ws, "missing": clipArgs(missing), "unexpected": clipArgs(extra),
						"example_package": readFirst(filepath.Join(ws, "tv0", "a.go")), "example_test_file": readFirst(filepath.Join(ws, "tv0", "export_test.go")),
						"replay": exe + " -enable-all -disable= ./... in the workspace, several times"})
			}
			if r > 0 && raws[r] != raws[0] && !reportedRun {
				reportedRun = true
				a, b := firstDiffLine(raws[0], raws[r])
				meta.Fail("C02/analyzer/unstable-output", fmt.Sprintf("%s: run 1 and run %d on the test-variant workspace print different output", exe, r+1),
					map[string]interface{}{"binary": exe, "workspace": ws, "run_1": a, "run_k": b})
			}
		}
	}
	meta.Distribution["test_variant_processes"] = total
}

func firstDiffLine(a, b string) (string, string) {
	la, lb := strings.Split(a, "\n"), strings.Split(b, "\n")
	for i := 0; i < len(la) && i < len(lb); i++ {
		if la[i] != lb[i] {
			return fmt.Sprintf("line %d: %s", i+1, la[i]), fmt.Sprintf("line %d: %s", i+1, lb[i])
		}
	}
	return fmt.Sprintf("%d lines", len(la)), fmt.Sprintf("%d lines", len(lb))
}

var anPosRE = regexp.MustCompile(`^(\S+\.go):(\d+):(\d+): (\w+): `)

// checkAnalysisOrder: the order in which the go/analysis front-end reports the diagnostics of a package must be the
// library's own order — files in the package's file order, per file the checkers in registry order, per checker the
// order of Check's result. The expected sequence is computed in-process from the same workspace.
func checkAnalysisOrder(meta *common.Meta, ws, raw string) {
	fset := token.NewFileSet()
	pkgs, err := fw.LoadDirs(fset, ws, "ws", []string{"./..."})
	if err != nil || len(pkgs) == 0 {
		meta.TieBroken = append(meta.TieBroken, fmt.Sprintf("analysis workspace does not load in-process: %v", err))
		return
	}
	infos := fw.Infos()
	type key struct {
		file      string
		line, col int
		checker   string
	}
	want := map[string][]key{} // package dir -> sequence
	outs := make([]map[*fw.File][]fw.Outcome, len(pkgs))
	common.Must(fw.ForEachPkg(fset, infos, pkgs, func(set *fw.Set, pi int) {
		outs[pi] = map[*fw.File][]fw.Outcome{}
		for _, f := range pkgs[pi].Files {
			set.Enter(f, true)
			os := make([]fw.Outcome, len(infos))
			for ci, c := range set.Checkers {
				os[ci] = fw.SafeCheck(c, f)
			}
			outs[pi][f] = os
		}
	}))
	for pi, p := range pkgs {
		for _, f := range p.Files {
			for ci, info := range infos {
				if info.Name == "ruleguard" { // the binary runs the dynamic checker without user rules
					continue
				}
				for _, w := range outs[pi][f][ci].Ws {
					pos := fset.Position(token.Pos(f.Base + w.Off))
					want[p.Dir] = append(want[p.Dir], key{f.Path, pos.Line, pos.Column, info.Name})
				}
			}
		}
	}
	got := map[string][]key{}
	for _, l := range strings.Split(raw, "\n") {
		if m := anPosRE.FindStringSubmatch(l); m != nil {
			var ln, col int
			fmt.Sscan(m[2], &ln)
			fmt.Sscan(m[3], &col)
			d := filepath.Dir(m[1])
			got[d] = append(got[d], key{m[1], ln, col, m[4]})
		}
	}
	checked, multi := 0, 0
	for dir, w := range want {
		g := got[dir]
		checked++
		files := map[string]bool{}
		for _, k := range w {
			files[k.file] = true
		}
		if len(files) > 1 {
			multi++
		}
		same := len(g) == len(w)
		at := -1
		for i := 0; same && i < len(w); i++ {
			if g[i] != w[i] {
				same = false
				at = i
			}
		}
		if same {
			continue
		}
		// same multiset in another order, or different content?
		cnt := map[key]int{}
		for _, k := range w {
			cnt[k]++
		}
		for _, k := range g {
			cnt[k]--
		}
		setEq := true
		for _, n := range cnt {
			if n != 0 {
				setEq = false
			}
		}
		if !setEq {
			// content differences between front-ends are C08's subject; only the order is judged here
			meta.Notes = append(meta.Notes, "analysis binary and library report different diagnostics for "+dir+" (not an order question; see C08)")
			continue
		}
		wit := map[string]interface{}{"package_dir": dir, "files_in_package": len(files), "workspace": "harness/internal/c04.Workspace"}
		if at >= 0 {
			wit["first_difference_at"] = at
			wit["binary_reports"] = fmt.Sprint(g[at])
			wit["library_order_expects"] = fmt.Sprint(w[at])
		}
		meta.Fail("C02/analyzer/report-order", "go-critic-analysis reports the diagnostics of a multi-file package in an order that is not (file order, checker order, Check order)", wit)
	}
	meta.Distribution["analysis_order_packages_checked"] = checked
	meta.Distribution["analysis_order_multi_file_packages"] = multi
	if multi == 0 {
		meta.TieBroken = append(meta.TieBroken, "no multi-file package in the analysis workspace: report order not exercised")
	}
}

var anDiagRE = regexp.MustCompile(`^\S+\.go:\d+:\d+: (\w+): `)

func diffOnly(a, b []string) []string {
	mb := map[string]int{}
	for _, l := range b {
		mb[l]++
	}
	var d []string
	for _, l := range a {
		if mb[l] > 0 {
			mb[l]--
		} else {
			d = append(d, l)
		}
	}
	if len(d) > 8 {
		d = d[:8]
	}
	return d
}

func clipTo(s string, n int) string {
	if len(s) > n {
		return s[:n] + "..."
	}
	return s
}

func clipArgs(a []string) []string {
	if len(a) > 8 {
		return append(append([]string(nil), a[:8]...), fmt.Sprintf("... (%d more)", len(a)-8))
	}
	return a
}

// clipLines returns the lines of side `which` around the first index where the two lists differ.
func clipLines(a, b []string, which int) []string {
	i := 0
	for i < len(a) && i < len(b) && a[i] == b[i] {
		i++
	}
	src := a
	if which == 1 {
		src = b
	}
	end := i + 6
	if end > len(src) {
		end = len(src)
	}
	if i > len(src) {
		i = len(src)
	}
	return src[i:end]
}

func tail(s string) string {
	if len(s) > 300 {
		return s[len(s)-300:]
	}
	return s
}
