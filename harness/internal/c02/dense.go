package c02

import (
	"fmt"
	"path/filepath"
	"strings"
	"time"

	"verifharness/internal/common"
	"verifharness/internal/fw"
	"verifharness/internal/inventory"
)

// denseStream: run-to-run determinism of the CLI on files in which MANY checkers report side by side. The example packages
// with standard-library imports are concatenated (package-level names prefixed per origin, fw.DenseSource) into one file
// with all of them and into several smaller groups; `go-critic check -enableAll` is run on each package many times at a
// high -concurrency with many CPUs, and the complete output (exit status, stdout, stderr) is compared byte for byte.
// Checkers of one file run in parallel goroutines: whatever two checkers share outside their own instances shows as
// garbled or swapped message TEXTS between runs, while the set of positions stays the same.
func denseStream(meta *common.Meta, tier string, seed int64, outDir string, s1 []*fw.Pkg) {
	rng := common.NewRand(seed, "c02-dense")
	var pool []*fw.Pkg
	for _, p := range s1 {
		if fw.StdOnly(p) {
			pool = append(pool, p)
		}
	}
	if len(pool) < 10 {
		meta.TieBroken = append(meta.TieBroken, fmt.Sprintf("dense-file stage: only %d example packages with standard-library imports", len(pool)))
		return
	}
	groups := map[string][]*fw.Pkg{"all": pool}
	shuffled := append([]*fw.Pkg(nil), pool...)
	rng.Shuffle(len(shuffled), func(i, j int) { shuffled[i], shuffled[j] = shuffled[j], shuffled[i] })
	nGroups, per := 1, 10
	if tier == "thorough" {
		nGroups, per = 12, 8
	}
	for g := 0; g < nGroups && (g+1)*per <= len(shuffled); g++ {
		groups[fmt.Sprintf("g%d", g)] = shuffled[g*per : (g+1)*per]
	}
	dir := filepath.Join(outDir, "dense")
	kept := fw.WriteDenseModule(dir, groups)
	runs := 12
	if tier == "thorough" {
		runs = 60
	}
	bin := filepath.Join(common.BinDir(), "go-critic")
	total, lines := 0, 0
	for name := range groups {
		if len(kept[name]) < 3 {
			meta.Notes = append(meta.Notes, fmt.Sprintf("dense-file stage: group %s kept only %d packages after renaming", name, len(kept[name])))
			continue
		}
		n := runs
		if name != "all" && tier != "thorough" {
			n = 4
		}
		args := []string{"check", "-enableAll", "-concurrency=32", "./" + name}
		var first string
		distinct := map[string]bool{}
		for r := 0; r < n; r++ {
			so, se, code, err := fw.RunPatient(240*time.Second, dir, common.GoEnv("GOMAXPROCS=16"), bin, args...)
			total++
			if fw.IsTimeout(err) {
				meta.Notes = append(meta.Notes, fmt.Sprintf("dense-file stage: %v hit the wall-clock limit twice (no observation, not a verdict)", args))
				break
			}
			if err != nil || (code != 0 && code != 1) {
				meta.TieBroken = append(meta.TieBroken, fmt.Sprintf("dense-file stage: go-critic %v did not run normally (exit %d, %v): %s", args, code, err, clip(se, 300)))
				break
			}
			out := fmt.Sprintf("exit=%d\n--stdout--\n%s--stderr--\n%s", code, so, se)
			distinct[out] = true
			if r == 0 {
				first = out
				lines += strings.Count(se, "\n")
				if strings.Count(se, "\n") < 20 {
					meta.TieBroken = append(meta.TieBroken, fmt.Sprintf("dense-file stage is vacuous: only %d diagnostic lines for group %s", strings.Count(se, "\n"), name))
				}
			} else if out != first && len(distinct) == 2 {
				meta.Fail("C02/cli/dense-file-output-varies", fmt.Sprintf("go-critic check -enableAll on a file in which many checkers report (%d example packages in one file) prints different bytes in run %d than in run 1", len(kept[name]), r+1),
					map[string]interface{}{"args": args, "env": "GOMAXPROCS=16", "workspace": "fw.DenseSource over " + strings.Join(kept[name], ","), "first_difference": func() []string { a, b := firstDiffLine(first, out); return []string{a, b} }(),
						"replay": "concatenate the example packages into one file (package-level names prefixed per package), then run the command 20 times and compare the complete output"})
			}
		}
		meta.Distribution["dense_distinct_outputs_"+name] = len(distinct)
	}
	// directed part: package-level variables of the checkers' packages that are written outside constructors are shared by
	// all goroutines; the checkers from whose methods such a write is reachable (regenerated from the source on every run,
	// inventory.PackageVarWrites) are enabled TOGETHER and alone with each other, so that their goroutines really overlap
	if pvs, err := inventory.PackageVarWritesLoaded(); err != nil {
		meta.TieBroken = append(meta.TieBroken, "dense-file stage: package-level variable inventory failed: "+err.Error())
	} else {
		shared := 0
		for _, v := range pvs {
			if len(v.Checkers) < 2 || len(kept["all"]) < 3 {
				continue
			}
			shared++
			// a file made of the sharing checkers' own examples, repeated: many reports of each of them side by side
			target := "./all"
			var own []*fw.Pkg
			for _, p := range pool {
				for _, cn := range v.Checkers {
					if p.Name == cn {
						own = append(own, p)
					}
				}
			}
			if len(own) >= 2 {
				name := "shared" + fmt.Sprint(shared)
				src, _ := fw.DenseSourceRep(name, own, 40)
				common.WriteFile(filepath.Join(dir, name, "dense.go"), src)
				target = "./" + name
			}
			args := []string{"check", "-enable=" + strings.Join(v.Checkers, ","), "-concurrency=32", target}
			var first string
			distinct := map[string]bool{}
			for r := 0; r < 2*runs; r++ {
				so, se, code, err := fw.RunPatient(240*time.Second, dir, common.GoEnv("GOMAXPROCS=16"), bin, args...)
				total++
				if err != nil || (code != 0 && code != 1) {
					break
				}
				out := fmt.Sprintf("exit=%d\n--stdout--\n%s--stderr--\n%s", code, so, se)
				distinct[out] = true
				if r == 0 {
					first = out
				} else if out != first && len(distinct) == 2 {
					meta.Fail("C02/cli/shared-package-variable", fmt.Sprintf("checkers %s all reach writes of the package-level variable %s.%s; enabled together on a file where they report, go-critic prints different bytes in run %d than in run 1",
						strings.Join(v.Checkers, ", "), v.Pkg, v.Name, r+1),
						map[string]interface{}{"args": args, "env": "GOMAXPROCS=16", "variable": v.Pkg + "." + v.Name, "write_sites": v.Sites, "workspace": "fw.DenseSource over " + strings.Join(kept["all"], ","),
							"first_difference": func() []string { a, b := firstDiffLine(first, out); return []string{a, b} }(),
							"replay":           "concatenate the example packages into one file, run the command 40 times, compare the complete output"})
				}
			}
			meta.Distribution["shared_variable_distinct_outputs_"+v.Name] = len(distinct)
		}
		meta.Distribution["package_level_variables_written"] = len(pvs)
		meta.Distribution["package_level_variables_reached_by_two_checkers"] = shared
	}
	meta.Distribution["dense_cli_runs"] = total
	meta.Distribution["dense_diagnostic_lines_first_runs"] = lines
	meta.Distribution["dense_packages_in_all"] = len(kept["all"])
}

func clip(s string, n int) string {
	if len(s) > n {
		return s[:n]
	}
	return s
}
