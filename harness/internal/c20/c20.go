// Package c20 projects the shared crash/position/namesake oracle run (internal/corpus) on property C20.
package c20

import (
	"verifharness/internal/common"
	"verifharness/internal/corpus"
)

func Run(tier string, seed int64, outDir string) *common.Meta {
	s, dir := corpus.Get(tier, seed)
	return corpus.MetaFor("C20", s, dir, outDir)
}
