// Package valdiff: pattern-driven claim checking by execution.  For every syntax pattern of the selected
// rule groups *as the binary executes them* (rulesdata.PrecompiledRules), the synthesiser supplies a file
// in which the rule fires (stored corpus first, a bounded search for patterns that are new); the matched
// expression and the suggested replacement (or the claimed constant outcome) are then evaluated over value
// domains chosen by parameter type — including non-ASCII bytes, invalid UTF-8, surrogate halves, invalid
// runes, NaN, nil — and every disagreement is a concrete witness.  Nothing here consults the Coq model.
package valdiff

import (
	"bufio"
	"fmt"
	"go/ast"
	"go/parser"
	"go/token"
	"os"
	"path/filepath"
	"regexp"
	"sort"
	"strings"
	"time"

	"github.com/go-critic/go-critic/linter"
	"github.com/quasilyte/go-ruleguard/ruleguard/ir"

	"verifharness/internal/common"
	"verifharness/internal/exprgen"
	"verifharness/internal/synth"
)

// Case is one fired rule instance.
type Case struct {
	ID      int
	Group   string
	Pattern string
	Message string
	Params  [][2]string // name, type
	Imports []string    // import paths of the synthesised file
	Expr    string      // the matched expression (value observed)
	New     string      // the expression after the suggested replacement ("" for claims)
	Expect  string      // claimed outcome, printed %#v ("" for rewrites)
}

// Mismatch is an input on which original and replacement (or claim) disagree.
type Mismatch struct {
	Case      *Case
	Input     string // %#v of the argument tuple
	Orig, New string
}

// Collect resolves the targets and returns the cases in which the group's checker produced a diagnostic that
// `extract` turns into (replacement range text, replacement) or a claimed outcome.
func Collect(want func(group string, r ir.Rule) bool, budget int,
	extract func(group string, w linter.Warning, l *exprgen.Linted) (from, to token.Pos, repl, expect string, ok bool)) ([]*Case, int, int) {
	targets := synth.Targets(want)
	hits, misses := synth.Resolve(targets, synth.LoadCorpus(synth.CorpusDir), budget, synth.MkGroup)
	var out []*Case
	dir := filepath.Join(os.TempDir(), fmt.Sprintf("vh-valdiff-%d", os.Getpid()))
	_ = os.MkdirAll(dir, 0o755)
	for hi, h := range hits {
		l, err := exprgen.Load(filepath.Join(dir, fmt.Sprintf("hit%d.go", hi)), h.Source)
		if err != nil {
			continue
		}
		var fd *ast.FuncDecl
		for _, d := range l.File.Decls {
			if f, ok := d.(*ast.FuncDecl); ok && f.Name.Name == "synthesised" {
				fd = f
			}
		}
		if fd == nil || fd.Body == nil {
			continue
		}
		// the expression shape: { { _ = EXPR } }
		var expr ast.Expr
		ast.Inspect(fd.Body, func(n ast.Node) bool {
			if as, ok := n.(*ast.AssignStmt); ok && expr == nil && len(as.Lhs) == 1 && len(as.Rhs) == 1 {
				if id, ok := as.Lhs[0].(*ast.Ident); ok && id.Name == "_" {
					expr = as.Rhs[0]
				}
			}
			return expr == nil
		})
		if expr == nil {
			continue // statement patterns are exercised by the hand-written statement generators
		}
		ws, err := l.Run(h.Target.Group)
		if err != nil {
			continue
		}
		var params [][2]string
		for _, f := range fd.Type.Params.List {
			for _, n := range f.Names {
				params = append(params, [2]string{n.Name, l.Text(f.Type)})
			}
		}
		var imports []string
		for _, im := range l.File.Imports {
			imports = append(imports, strings.Trim(im.Path.Value, `"`))
		}
		frags := synth.MessageShape(h.Target.Rule)
		for _, w := range ws {
			if !synth.MatchesShape(w.Text, frags) {
				continue
			}
			from, to, repl, expect, ok := extract(h.Target.Group, w, l)
			if !ok {
				continue
			}
			c := &Case{ID: len(out), Group: h.Target.Group, Pattern: h.Target.Pattern, Message: w.Text, Params: params, Imports: imports, Expr: l.Text(expr), Expect: expect}
			if expect == "" {
				if from < expr.Pos() || to > expr.End() {
					continue
				}
				off := func(p token.Pos) int { return l.Fset.Position(p).Offset - l.Fset.Position(expr.Pos()).Offset }
				c.New = c.Expr[:off(from)] + "(" + repl + ")" + c.Expr[off(to):]
			} else if from.IsValid() && from >= expr.Pos() && to <= expr.End() {
				c.Expr = l.Src[l.Fset.Position(from).Offset:l.Fset.Position(to).Offset]
			}
			out = append(out, c)
			break
		}
	}
	return out, len(hits), len(misses)
}

// value domains by parameter type (Go source)
var domains = map[string]string{
	"string":         `[]string{"", "a", "ab", "é", "aé", "\xff\xd8\xff", "a\x80", "\xed\xa0\x80", "AbC", "b"}`,
	"[]byte":         `[][]byte{nil, {}, []byte("a"), []byte("ab"), []byte("é"), {0xff, 0xd8, 0xff}, {'a', 0x80}}`,
	"byte":           `[]byte{0, 'a', 'b', 0x7f, 0x80, 0xd8, 0xff}`,
	"rune":           `[]rune{'a', 'b', 0, 0x7f, 0x80, 0xe9, 0xff, 0xd800, 0xdfff, -1, 0xfffd, 0x10ffff, 0x110000}`,
	"int":            `[]int{-2, -1, 0, 1, 2, 1000}`,
	"int64":          `[]int64{-1, 0, 1, 1000, 1234567890}`,
	"float64":        `[]float64{math.NaN(), math.Inf(1), math.Inf(-1), 0, 1.5, -2}`,
	"bool":           `[]bool{false, true}`,
	"time.Time":      `[]time.Time{{}, time.Unix(0, 0).UTC(), time.Unix(0, 1234567890).UTC(), time.Unix(0, -1500000000).UTC(), time.Unix(1700000000, 123456789).UTC()}`,
	"*time.Time":     `[]*time.Time{ptrTime(time.Unix(0, 1234567890).UTC()), ptrTime(time.Unix(1700000000, 5).UTC())}`,
	"time.Duration":  `[]time.Duration{0, 1, time.Second, -time.Minute}`,
	"error":          `[]error{nil, errors.New("e")}`,
	"[]string":       `[][]string{nil, {}, {"a"}, {"a", "é"}, {"\xff", ""}}`,
	"[]int":          `[][]int{nil, {}, {1}, {3, 1, 2}}`,
	"[]rune":         `[][]rune{nil, {}, {'a'}, {0xd800, 'b'}}`,
	"interface{}":    `[]interface{}{nil, "a", 1, errors.New("e")}`,
	"map[string]int": `[]map[string]int{nil, {}, {"a": 1}}`,
}

var pkgPaths = map[string]string{"strings": "strings", "bytes": "bytes", "fmt": "fmt", "utf8": "unicode/utf8", "unicode": "unicode",
	"time": "time", "errors": "errors", "io": "io", "strconv": "strconv", "regexp": "regexp", "sort": "sort", "math": "math", "os": "os",
	"sync": "sync", "http": "net/http", "context": "context", "big": "math/big", "filepath": "path/filepath", "draw": "image/draw", "image": "image"}

var qualRe = regexp.MustCompile(`\b([a-z][a-z0-9]*)\.[A-Z]`)

// Run builds one program (a file per case plus a shared driver), runs it and returns the mismatches and the
// number of evaluated argument tuples.
func Run(workDir string, cases []*Case) ([]Mismatch, int, error) {
	if len(cases) == 0 {
		return nil, 0, nil
	}
	_ = os.RemoveAll(workDir)
	common.Must(os.MkdirAll(workDir, 0o755))
	common.WriteFile(filepath.Join(workDir, "go.mod"), "module valdiff\n\ngo 1.21\n")
	common.WriteFile(filepath.Join(workDir, "main.go"), `package main

import (
	"bufio"
	"fmt"
	"os"
	"time"
)

var cases = map[int]func(emit func(in, o, n string)) int{}

func ptrTime(t time.Time) *time.Time { return &t }

func call(f func() interface{}) (out string) {
	defer func() {
		if r := recover(); r != nil {
			out = "panic"
		}
	}()
	return fmt.Sprintf("%#v", f())
}

func main() {
	w := bufio.NewWriter(os.Stdout)
	defer w.Flush()
	total := 0
	for id := 0; id < len(cases)+1000; id++ {
		f, ok := cases[id]
		if !ok {
			continue
		}
		bad := 0
		total += f(func(in, o, n string) {
			bad++
			if bad <= 3 {
				fmt.Fprintf(w, "MISMATCH\t%d\t%q\t%q\t%q\n", id, in, o, n)
			}
		})
	}
	fmt.Fprintf(w, "DONE\t%d\n", total)
}
`)
	byID := map[int]*Case{}
	for _, c := range cases {
		byID[c.ID] = c
		need := map[string]string{"fmt": "fmt"}
		have := map[string]string{}
		for _, p := range c.Imports {
			have[filepath.Base(p)] = p
		}
		var sig, args, loopsOpen, loopsClose []string
		text := c.Expr + " " + c.New
		for _, p := range c.Params {
			sig = append(sig, p[0]+" "+p[1])
			args = append(args, p[0])
			dom, ok := domains[p[1]]
			if !ok {
				dom = "[]" + p[1] + "{*new(" + p[1] + ")}"
			}
			text += " " + dom + " " + p[1]
			loopsOpen = append(loopsOpen, fmt.Sprintf("for _, %s := range %s {", p[0], dom))
			loopsClose = append(loopsClose, "}")
		}
		// import exactly the packages the signature, the expressions and the domains mention
		for _, m := range qualRe.FindAllStringSubmatch(text, -1) {
			if p, ok := have[m[1]]; ok {
				need[m[1]] = p
			} else if p, ok := pkgPaths[m[1]]; ok {
				need[m[1]] = p
			}
		}
		var names []string
		for n := range need {
			names = append(names, n)
		}
		sort.Strings(names)
		var b strings.Builder
		b.WriteString("package main\n\nimport (\n")
		for _, n := range names {
			fmt.Fprintf(&b, "\t%s %q\n", n, need[n])
		}
		b.WriteString(")\n\n")
		newExpr := c.New
		cmp := "o != n"
		if c.Expect == "panic" {
			newExpr = "nil"
			cmp = `o != "panic"`
		} else if c.Expect != "" {
			newExpr = c.Expect
			cmp = `o != n && o != "panic"`
		}
		fmt.Fprintf(&b, "\nfunc orig_%d(%s) interface{} { return %s }\n", c.ID, strings.Join(sig, ", "), c.Expr)
		fmt.Fprintf(&b, "func new_%d(%s) interface{} { return %s }\n", c.ID, strings.Join(sig, ", "), newExpr)
		fmt.Fprintf(&b, "\nfunc init() {\n\tcases[%d] = func(emit func(in, o, n string)) int {\n\t\ttotal := 0\n", c.ID)
		b.WriteString("\t\t" + strings.Join(loopsOpen, " ") + "\n")
		fmt.Fprintf(&b, "\t\ttotal++\n\t\to := call(func() interface{} { return orig_%d(%s) })\n\t\tn := call(func() interface{} { return new_%d(%s) })\n",
			c.ID, strings.Join(args, ", "), c.ID, strings.Join(args, ", "))
		fmt.Fprintf(&b, "\t\tif %s {\n\t\t\temit(fmt.Sprintf(\"%%#v\", []interface{}{%s}), o, n)\n\t\t}\n", cmp, strings.Join(args, ", "))
		b.WriteString("\t\t" + strings.Join(loopsClose, " ") + "\n\t\treturn total\n\t}\n}\n")
		common.WriteFile(filepath.Join(workDir, fmt.Sprintf("case_%d.go", c.ID)), b.String())
	}
	bin := filepath.Join(workDir, "valdiff")
	out, code, err := common.Run(5*time.Minute, workDir, common.GoEnv("GOFLAGS=-mod=mod"), "go", "build", "-o", bin, ".")
	if err != nil || code != 0 {
		return nil, 0, fmt.Errorf("value-domain program does not build (%v):\n%s", err, firstLines(out, 30))
	}
	so, se, code, err := common.RunSplit(5*time.Minute, workDir, os.Environ(), bin)
	if err != nil || code != 0 {
		return nil, 0, fmt.Errorf("value-domain program failed (%v, rc=%d): %s", err, code, firstLines(se, 20))
	}
	var res []Mismatch
	evals := 0
	sc := bufio.NewScanner(strings.NewReader(so))
	sc.Buffer(make([]byte, 1<<20), 1<<24)
	for sc.Scan() {
		f := strings.Split(sc.Text(), "\t")
		switch f[0] {
		case "DONE":
			fmt.Sscan(f[1], &evals)
		case "MISMATCH":
			var id int
			fmt.Sscan(f[1], &id)
			in, _ := unq(f[2])
			o, _ := unq(f[3])
			n, _ := unq(f[4])
			res = append(res, Mismatch{Case: byID[id], Input: in, Orig: o, New: n})
		}
	}
	return res, evals, nil
}

func unq(s string) (string, error) {
	var out string
	_, err := fmt.Sscanf(s, "%q", &out)
	return out, err
}

func firstLines(s string, n int) string {
	l := strings.Split(s, "\n")
	if len(l) > n {
		l = l[:n]
	}
	return strings.Join(l, "\n")
}

// Class names the kind of argument that exposes a disagreement.
func Class(input string) string {
	switch {
	case strings.Contains(input, `\x`) || strings.Contains(input, "0x8") || strings.Contains(input, "0xd8") || strings.Contains(input, "0xff") ||
		regexp.MustCompile(`[^\x00-\x7f]`).MatchString(input) || regexp.MustCompile(`\b(128|216|255|233|55296|57343|1114112|65533)\b`).MatchString(input) || strings.Contains(input, ", -1"):
		return "non-ascii-or-invalid-operand"
	case strings.Contains(input, "NaN"):
		return "nan-operand"
	case strings.Contains(input, "(nil)") || strings.Contains(input, "<nil>"):
		return "nil-operand"
	}
	return "value-mismatch"
}

var _ = parser.ParseExpr
