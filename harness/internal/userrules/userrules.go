// Package userrules materialises a module on which the dynamic `ruleguard` checker can be run end to end by
// the built binaries: it requires the dsl package (same version as /repo), holds user rule files (valid ones
// with type, package-path and file-name filters; a syntax error; a DSL error; an unresolvable import) and
// three packages with one trigger per rule plus a captLocal trigger.
package userrules

import (
	"os"
	"path/filepath"
	"regexp"
	"strings"

	"verifharness/internal/common"
)

// Rule texts as they appear in diagnostics.
const (
	MsgLenZero   = "user rule userLenZero fired"
	MsgAPIOnly   = "user rule apiOnly fired"
	MsgStoreOnly = "user rule storeOnly fired"
	MsgMainFile  = "user rule mainFileOnly fired"
)

// Packages of the module (directory names).
var Packages = []string{"api", "store", "misc"}

// Workspace writes the module below dir and returns the directory holding the rule files.
func Workspace(dir string) string {
	gomod, _ := os.ReadFile(filepath.Join(common.RepoDir, "go.mod"))
	ver := "v0.3.22"
	if m := regexp.MustCompile(`go-ruleguard/dsl (v[\w.\-+]+)`).FindSubmatch(gomod); m != nil {
		ver = string(m[1])
	}
	common.WriteFile(filepath.Join(dir, "go.mod"), "module urws\n\ngo 1.20\n\nrequire github.com/quasilyte/go-ruleguard/dsl "+ver+"\n")
	gosum, _ := os.ReadFile(filepath.Join(common.RepoDir, "go.sum"))
	var keep []string
	for _, l := range strings.Split(string(gosum), "\n") {
		if strings.Contains(l, "go-ruleguard/dsl ") {
			keep = append(keep, l)
		}
	}
	common.WriteFile(filepath.Join(dir, "go.sum"), strings.Join(keep, "\n")+"\n")
	rules := filepath.Join(dir, "rules")
	common.WriteFile(filepath.Join(rules, "dep.go"), "package gorules\n\nimport _ \"github.com/quasilyte/go-ruleguard/dsl\"\n")
	common.WriteFile(filepath.Join(rules, "good.go"), `package gorules

import "github.com/quasilyte/go-ruleguard/dsl"

func userLenZero(m dsl.Matcher) {
	m.Match(`+"`len($s) == 0`"+`).Where(m["s"].Type.Is(`+"`string`"+`)).Report("`+MsgLenZero+`")
}

func apiOnly(m dsl.Matcher) {
	m.Match(`+"`println($*_)`"+`).Where(m.File().PkgPath.Matches(`+"`/api$`"+`)).Report("`+MsgAPIOnly+`")
}

func storeOnly(m dsl.Matcher) {
	m.Match(`+"`println($*_)`"+`).Where(m.File().PkgPath.Matches(`+"`/store$`"+`)).Report("`+MsgStoreOnly+`")
}

func mainFileOnly(m dsl.Matcher) {
	m.Match(`+"`$x = $x`"+`).Where(m.File().Name.Matches(`+"`^main\\.go$`"+`)).Report("`+MsgMainFile+`")
}
`)
	common.WriteFile(filepath.Join(rules, "second.go"), `package gorules

import "github.com/quasilyte/go-ruleguard/dsl"

func userCapZero(m dsl.Matcher) {
	m.Match(`+"`cap($s) == 0`"+`).Report("user rule userCapZero fired")
}
`)
	common.WriteFile(filepath.Join(rules, "broken.go"), "package gorules\n\nfunc broken( {\n")
	common.WriteFile(filepath.Join(rules, "dslerr.go"), "package gorules\n\nimport \"github.com/quasilyte/go-ruleguard/dsl\"\n\nfunc gBadDsl(m dsl.Matcher) {\n\tm.Match(`(((`).Report(\"x\")\n}\n")
	common.WriteFile(filepath.Join(rules, "importerr.go"), "package gorules\n\nimport \"github.com/quasilyte/go-ruleguard/dsl\"\n\nfunc gBadImport(m dsl.Matcher) {\n\tm.Import(`example.com/nonexistent/verifpkg`)\n\tm.Match(`$x`).Where(m[\"x\"].Type.Implements(`verifpkg.Iface`)).Report(\"x\")\n}\n")
	for _, p := range Packages {
		body := "package " + p + "\n\nfunc F(IN int, s string, xs []int) int {\n\tif len(s) == 0 {\n\t\tprintln(\"empty\")\n\t}\n\tif cap(xs) == 0 {\n\t\tIN = IN\n\t}\n\treturn IN\n}\n"
		common.WriteFile(filepath.Join(dir, p, "a.go"), body)
		common.WriteFile(filepath.Join(dir, p, "main.go"), "package "+p+"\n\nfunc G(v int) int {\n\tv = v\n\treturn v\n}\n")
	}
	return rules
}
