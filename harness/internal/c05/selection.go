package c05

import (
	"fmt"

	"github.com/go-critic/go-critic/linter"

	"verifharness/internal/common"
	"verifharness/internal/fw"
)

// selectionStream: what a checker reports must not depend on WHICH OTHER checkers are enabled. Nothing needs to be
// written during Check for such a dependence: the shared linter.Context carries per-file tables (PkgObjects, PkgRenames,
// ...) that are only filled when some CONSTRUCTED checker set the matching ctx.Require bit, so a checker that reads a
// table it did not ask for sees it filled or empty depending on the selection. For every registered checker a context
// with ONLY that checker is built (NewContext + NewChecker: what `-enable=<name>` does) and run over the whole corpus
// plus the renamed-import variants of the examples (fw.LoadRenamed); every result must equal the checker's result in the
// set with ALL checkers enabled (full: file ID -> outcome per checker, registry order).
func selectionStream(meta *common.Meta, c *corpus, infos []*linter.CheckerInfo, files []*fw.File, full map[string][]fw.Outcome) {
	type diff struct {
		ci   int
		f    *fw.File
		got  fw.Outcome
		want fw.Outcome
	}
	diffs := make([][]diff, len(infos))
	evals := make([]int, len(infos))
	warned := make([]int, len(infos))
	fw.Parallel(len(infos), func(ci int) {
		set, err := fw.NewSet(c.fset, []*linter.CheckerInfo{infos[ci]})
		if err != nil {
			return
		}
		for _, f := range files {
			want, ok := full[f.ID()]
			if !ok {
				continue
			}
			set.Enter(f, false)
			got := fw.SafeCheck(set.Checkers[0], f)
			evals[ci]++
			if len(got.Ws) > 0 {
				warned[ci]++
			}
			if !got.Equal(want[ci]) && len(diffs[ci]) < 3 {
				diffs[ci] = append(diffs[ci], diff{ci, f, got, want[ci]})
			}
		}
	})
	total, nonTrivial := 0, 0
	for ci := range infos {
		total += evals[ci]
		nonTrivial += warned[ci]
		for _, d := range diffs[ci] {
			info := infos[ci]
			// like with like: if lone instances already disagree AMONG THEMSELVES on this file, the difference is
			// nondeterminism of the checker (C02's subject), not an effect of the selection
			if unstable, _ := fw.FreshUnstable(info, d.f, d.got, d.got); unstable {
				meta.Notes = append(meta.Notes, "not counted as selection dependence (lone instances disagree among themselves; see C02): "+info.Name+" on "+d.f.ID())
				continue
			}
			meta.Fail("C05/"+info.Name+"/depends-on-selection",
				fmt.Sprintf("%s reports differently on %s when it is the only enabled checker than when all checkers are enabled", info.Name, d.f.ID()),
				map[string]interface{}{"checker": info.Name, "file": d.f.Path, "source": string(d.f.Src), "alone": fw.Strs(d.got.Ws), "alone_panic": d.got.Panic,
					"with_all_checkers": fw.Strs(d.want.Ws), "with_all_panic": d.want.Panic,
					"replay": "NewContext; NewChecker(" + info.Name + ") only; SetPackageInfo/SetFileInfo/Check  versus  the same with every registered checker constructed on the context first (go-critic check -enable=" + info.Name + " vs -enableAll)"})
		}
	}
	meta.Distribution["selection_alone_vs_all_comparisons"] = total
	meta.Distribution["selection_comparisons_with_warnings"] = nonTrivial
	meta.Evaluations += total
}
