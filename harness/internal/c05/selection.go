package c05

import (
	"fmt"
	"go/types"
	"sync"

	"github.com/go-critic/go-critic/linter"

	"verifharness/internal/common"
	"verifharness/internal/fw"
)

// selectionStream: what a checker reports must not depend on WHICH OTHER checkers are enabled. Nothing needs to be
// written during Check for such a dependence: the shared linter.Context carries per-file tables (PkgObjects, PkgRenames,
// ...) that are only filled when some CONSTRUCTED checker set the matching ctx.Require bit, so a checker that reads a
// table it did not ask for sees it filled or empty depending on the selection. For every registered checker a context
// with ONLY that checker is built (NewContext + NewChecker: what `-enable=<name>` does) and run over the whole corpus
// plus the renamed-import variants of the examples (fw.LoadRenamed); every result must equal the checker's result in the
// set with ALL checkers enabled (full: file ID -> outcome per checker, registry order).
func selectionStream(meta *common.Meta, c *corpus, infos []*linter.CheckerInfo, files []*fw.File, full map[string][]fw.Outcome) {
	selectionUnder(meta, c, infos, files, full, fw.Sizes, "host type sizes, registered parameter values")
}

// fullOutcomes runs ALL checkers (one set per worker, built on contexts with the given sizes) over files.
func fullOutcomes(c *corpus, infos []*linter.CheckerInfo, files []*fw.File, sizes types.Sizes, goVersion string) map[string][]fw.Outcome {
	out := map[string][]fw.Outcome{}
	var mu sync.Mutex
	byPkg := map[*fw.Pkg][]*fw.File{}
	var pkgs []*fw.Pkg
	for _, f := range files {
		if byPkg[f.Pkg] == nil {
			pkgs = append(pkgs, f.Pkg)
		}
		byPkg[f.Pkg] = append(byPkg[f.Pkg], f)
	}
	ch := make(chan *fw.Pkg, len(pkgs))
	for _, p := range pkgs {
		ch <- p
	}
	close(ch)
	var wg sync.WaitGroup
	for w := 0; w < 16; w++ {
		wg.Add(1)
		go func() {
			defer wg.Done()
			set, err := fw.NewSetConfigured(c.fset, infos, sizes, goVersion)
			if err != nil {
				return
			}
			for p := range ch {
				for _, f := range byPkg[p] {
					set.Enter(f, false)
					outs := make([]fw.Outcome, len(infos))
					for ci, chk := range set.Checkers {
						outs[ci] = fw.SafeCheck(chk, f)
					}
					mu.Lock()
					out[f.ID()] = outs
					mu.Unlock()
				}
			}
		}()
	}
	wg.Wait()
	return out
}

// selectionForeign repeats the comparison for a FOREIGN target (GOARCH=386 type sizes handed to NewContext) and with every
// boolean parameter of every checker flipped: a constructor that adjusts the SHARED context for its own purposes (sizes,
// tables, version) does so only under some parameter values, and the adjustment is only visible when it differs from
// what the integrator configured.
func selectionForeign(meta *common.Meta, c *corpus, infos []*linter.CheckerInfo, files []*fw.File) {
	sizes := types.SizesFor("gc", "386")
	type cell struct {
		p   *linter.CheckerParam
		old interface{}
	}
	var flipped []cell
	for _, info := range infos {
		for _, p := range info.Params {
			if b, ok := p.Value.(bool); ok {
				flipped = append(flipped, cell{p, p.Value})
				p.Value = !b
			}
		}
	}
	defer func() {
		for _, f := range flipped {
			f.p.Value = f.old
		}
	}()
	curGoVersion = "1.20" // below the newest version gates (min/max/clear are 1.21 builtins, ...); 1.13 in the second round
	full := fullOutcomes(c, infos, files, sizes, curGoVersion)
	selectionUnder(meta, c, infos, files, full, sizes, "GOARCH=386 type sizes, every boolean parameter flipped, -go=1.20")
	curGoVersion = "1.13"
	full = fullOutcomes(c, infos, files, sizes, curGoVersion)
	selectionUnder(meta, c, infos, files, full, sizes, "GOARCH=386 type sizes, every boolean parameter flipped, -go=1.13")
	curGoVersion = ""
	meta.Distribution["selection_foreign_bool_params_flipped"] = len(flipped)
}

var curGoVersion string

func selectionUnder(meta *common.Meta, c *corpus, infos []*linter.CheckerInfo, files []*fw.File, full map[string][]fw.Outcome, sizes types.Sizes, label string) {
	type diff struct {
		ci   int
		f    *fw.File
		got  fw.Outcome
		want fw.Outcome
	}
	diffs := make([][]diff, len(infos))
	evals := make([]int, len(infos))
	warned := make([]int, len(infos))
	fw.Parallel(len(infos), func(ci int) {
		set, err := fw.NewSetConfigured(c.fset, []*linter.CheckerInfo{infos[ci]}, sizes, curGoVersion)
		if err != nil {
			return
		}
		for _, f := range files {
			want, ok := full[f.ID()]
			if !ok {
				continue
			}
			set.Enter(f, false)
			got := fw.SafeCheck(set.Checkers[0], f)
			evals[ci]++
			if len(got.Ws) > 0 {
				warned[ci]++
			}
			if !got.Equal(want[ci]) && len(diffs[ci]) < 3 {
				diffs[ci] = append(diffs[ci], diff{ci, f, got, want[ci]})
			}
		}
	})
	total, nonTrivial := 0, 0
	for ci := range infos {
		total += evals[ci]
		nonTrivial += warned[ci]
		for _, d := range diffs[ci] {
			info := infos[ci]
			// like with like: if lone instances already disagree AMONG THEMSELVES on this file, the difference is
			// nondeterminism of the checker (C02's subject), not an effect of the selection
			if unstable, _ := fw.FreshUnstable(info, d.f, d.got, d.got); unstable && sizes == fw.Sizes {
				meta.Notes = append(meta.Notes, "not counted as selection dependence (lone instances disagree among themselves; see C02): "+info.Name+" on "+d.f.ID())
				continue
			}
			meta.Fail("C05/"+info.Name+"/depends-on-selection",
				fmt.Sprintf("%s reports differently on %s when it is the only enabled checker than when all checkers are enabled (%s)", info.Name, d.f.ID(), label),
				map[string]interface{}{"checker": info.Name, "file": d.f.Path, "source": string(d.f.Src), "alone": fw.Strs(d.got.Ws), "alone_panic": d.got.Panic,
					"with_all_checkers": fw.Strs(d.want.Ws), "with_all_panic": d.want.Panic,
					"replay": "NewContext; NewChecker(" + info.Name + ") only; SetPackageInfo/SetFileInfo/Check  versus  the same with every registered checker constructed on the context first (go-critic check -enable=" + info.Name + " vs -enableAll)"})
		}
	}
	prev, _ := meta.Distribution["selection_alone_vs_all_comparisons"].(int)
	prevW, _ := meta.Distribution["selection_comparisons_with_warnings"].(int)
	meta.Distribution["selection_alone_vs_all_comparisons"] = prev + total
	meta.Distribution["selection_comparisons_with_warnings"] = prevW + nonTrivial
	meta.Evaluations += total
}

// poisonProbe: differently configured runs in the same process (another target, other parameter values, an older -go) must
// leave nothing behind. After them, every checker is run once more in the default configuration and compared with what it
// reported BEFORE (full: the registry-order pass at the start of the run): a package-level table edited by a constructor or
// a Check under some configuration shows as a difference here, whichever checker reads it.
func poisonProbe(meta *common.Meta, c *corpus, infos []*linter.CheckerInfo, files []*fw.File, before map[string][]fw.Outcome) {
	after := fullOutcomes(c, infos, files, fw.Sizes, "")
	n, reported := 0, map[string]bool{}
	for _, f := range files {
		b, a := before[f.ID()], after[f.ID()]
		if b == nil || a == nil {
			continue
		}
		for ci := range infos {
			n++
			if !a[ci].Equal(b[ci]) && !reported[infos[ci].Name] {
				if unstable, _ := fw.FreshUnstable(infos[ci], f, b[ci], b[ci]); unstable {
					continue
				}
				reported[infos[ci].Name] = true
				meta.Fail("C05/"+infos[ci].Name+"/process-state-poisoned",
					fmt.Sprintf("%s reports differently on %s after checkers were constructed and run under another configuration (GOARCH=386 sizes, flipped boolean parameters, -go=1.20 / 1.13) in the same process", infos[ci].Name, f.ID()),
					map[string]interface{}{"checker": infos[ci].Name, "file": f.Path, "before": fw.Strs(b[ci].Ws), "after": fw.Strs(a[ci].Ws), "panic_before": b[ci].Panic, "panic_after": a[ci].Panic,
						"replay": "run all checkers (default configuration) on the file; construct all checkers on a context with SetGoVersion(\"1.20\") and run them; run the default configuration again and compare"})
			}
		}
	}
	meta.Distribution["poison_probe_comparisons"] = n
	meta.Evaluations += n
}
