package c05

import (
	"fmt"
	"go/ast"
	"go/parser"
	"path/filepath"
	"strings"

	"github.com/go-critic/go-critic/linter"
	"github.com/go-toolsmith/astequal"

	"verifharness/internal/absconv"
	"verifharness/internal/common"
	"verifharness/internal/coqfmt"
	"verifharness/internal/fw"
)

// unparenStream executes the heap model of ONE rewriting checker, typeUnparen, on converted real expressions
// (Model_Unparen.v): every type expression on which the real checker runs checkType (found by the type-expression walker
// replica of internal/absconv) is converted into heap cells (pre-order ids, tag = node kind, kids = child ids) BEFORE the
// real Check and again AFTER it; the real warning at that expression, and the suggestion parsed back from its text, are
// recorded. Coq then runs copy + removeRedundantParens on the model heap and checks, per expression: the model's original
// cells are unchanged (frame, evaluated), the real cells are unchanged cell by cell, model and checker agree on whether to
// warn, and the model's rewritten tree is the real suggestion.
type ucell struct {
	tag  int
	kids []int
}

type uconv struct {
	shapes *absconv.Shapes
	cells  []ucell
	bad    string
}

func (u *uconv) add(tag int) int {
	u.cells = append(u.cells, ucell{tag: tag})
	return len(u.cells) - 1
}

func (u *uconv) leaf(n ast.Node) int { return u.add(100 + u.shapes.Of(n)) }

func (u *uconv) expr(e ast.Expr) int {
	switch e := e.(type) {
	case *ast.ParenExpr:
		id := u.add(1)
		u.cells[id].kids = []int{u.expr(e.X)}
		return id
	case *ast.ArrayType:
		id := u.add(2)
		ks := []int{u.expr(e.Elt)}
		if e.Len != nil {
			ks = append(ks, u.expr(e.Len))
		}
		u.cells[id].kids = ks
		return id
	case *ast.StarExpr:
		id := u.add(3)
		u.cells[id].kids = []int{u.expr(e.X)}
		return id
	case *ast.TypeAssertExpr:
		if e.Type == nil {
			u.bad = "x.(type)"
			return u.leaf(e)
		}
		id := u.add(4)
		t := u.expr(e.Type)
		x := u.expr(e.X)
		u.cells[id].kids = []int{t, x}
		return id
	case *ast.FuncType:
		if e.Params == nil || e.TypeParams != nil {
			u.bad = "func type without parameter list / with type parameters"
			return u.leaf(e)
		}
		id := u.add(5)
		ks := []int{u.fieldList(e.Params)}
		if e.Results != nil {
			ks = append(ks, u.fieldList(e.Results))
		}
		u.cells[id].kids = ks
		return id
	case *ast.MapType:
		id := u.add(8)
		k := u.expr(e.Key)
		v := u.expr(e.Value)
		u.cells[id].kids = []int{k, v}
		return id
	case *ast.ChanType:
		tag := 9
		switch e.Dir {
		case ast.SEND:
			tag = 10
		case ast.RECV:
			tag = 11
		}
		id := u.add(tag)
		u.cells[id].kids = []int{u.expr(e.Value)}
		return id
	}
	return u.leaf(e)
}

func (u *uconv) fieldList(fl *ast.FieldList) int {
	id := u.add(6)
	var ks []int
	for _, f := range fl.List {
		fid := u.add(7)
		fk := []int{u.expr(f.Type)}
		for _, nm := range f.Names {
			fk = append(fk, u.leaf(nm))
		}
		u.cells[fid].kids = fk
		ks = append(ks, fid)
	}
	u.cells[id].kids = ks
	return id
}

func cellsCoq(cs []ucell) string {
	var xs []string
	for i, c := range cs {
		xs = append(xs, fmt.Sprintf("(%s, {| tag := %s; kids := %s |})", coqfmt.N(i), coqfmt.N(c.tag), coqfmt.NList(c.kids)))
	}
	return coqfmt.List(xs)
}

func vtCoq(cs []ucell, id int) string {
	var ks []string
	for _, k := range cs[id].kids {
		ks = append(ks, vtCoq(cs, k))
	}
	return "(V " + coqfmt.N(cs[id].tag) + " " + coqfmt.List(ks) + ")"
}

func hasParen(e ast.Expr) bool {
	found := false
	ast.Inspect(e, func(n ast.Node) bool {
		if _, ok := n.(*ast.ParenExpr); ok {
			found = true
		}
		return !found
	})
	return found
}

func unparenStream(meta *common.Meta, outDir string, c *corpus, infos []*linter.CheckerInfo) {
	info := fw.InfoByName(infos)["typeUnparen"]
	if info == nil {
		meta.Notes = append(meta.Notes, "typeUnparen is not registered: heap-model execution skipped")
		return
	}
	shapes := absconv.NewShapes()
	conv := &absconv.Conv{Shapes: shapes, P: absconv.ParamsOf(infos)}
	var cases, idx []string
	nWarn, nSugg, nPlain, nBad, nNoParse := 0, 0, 0, 0, 0
	for _, f := range c.files {
		af := conv.File(f)
		var nodes []*absconv.Tree
		for _, d := range af.Decls {
			for _, it := range d.Items {
				if it.Kind == "tree" {
					for _, t := range absconv.AllTrees([]*absconv.Tree{it.Tree}) {
						if t.Checked {
							nodes = append(nodes, t)
						}
					}
				}
			}
		}
		if len(nodes) == 0 {
			continue
		}
		type pre struct {
			t      *absconv.Tree
			before []ucell
			bad    string
		}
		var pres []pre
		for _, t := range nodes {
			if !hasParen(t.Node) {
				if nPlain >= 300 {
					continue
				}
				nPlain++
			}
			u := &uconv{shapes: shapes}
			u.expr(t.Node)
			pres = append(pres, pre{t, u.cells, u.bad})
		}
		o := fw.FreshCheck(info, f) // the REAL checker
		if o.Panic != "" {
			continue
		}
		for _, p := range pres {
			if p.bad != "" {
				nBad++
				continue
			}
			u2 := &uconv{shapes: shapes}
			u2.expr(p.t.Node)
			warn, sugg := false, "None"
			for _, w := range o.Ws {
				if w.Off != p.t.Pos || !strings.HasPrefix(w.Text, "could simplify ") || strings.HasPrefix(w.Text, "could simplify (struct{...})") || strings.HasPrefix(w.Text, "could simplify (interface{...})") {
					continue
				}
				warn = true
				body := strings.TrimPrefix(w.Text, "could simplify ")
				parsed := false
				for i := 0; i+4 <= len(body); i++ {
					if body[i:i+4] != " to " {
						continue
					}
					l, err1 := parser.ParseExpr(body[:i])
					r, err2 := parser.ParseExpr(body[i+4:])
					if err1 != nil || err2 != nil {
						continue
					}
					ul := &uconv{shapes: shapes}
					ul.expr(l)
					if !astequal.Expr(l, p.t.Node) && cellsCoq(ul.cells) != cellsCoq(p.before) {
						continue
					}
					us := &uconv{shapes: shapes}
					us.expr(r)
					if us.bad == "" {
						sugg = "(Some " + vtCoq(us.cells, 0) + ")"
						parsed = true
						nSugg++
					}
					break
				}
				if !parsed {
					nNoParse++
				}
			}
			if warn {
				nWarn++
			}
			cases = append(cases, fmt.Sprintf("{| u_before := %s; u_after := %s; u_warn := %s; u_sugg := %s |}", cellsCoq(p.before), cellsCoq(u2.cells), coqfmt.Bool(warn), sugg))
			idx = append(idx, fmt.Sprintf("typeUnparen heap model on the type expression at offset %d of %s (%d cells); real warning=%v", p.t.Pos, f.ID(), len(p.before), warn))
		}
	}
	var b strings.Builder
	b.WriteString("From GC Require Import Base Model_Walk Model_Heap Model_Unparen.\n")
	b.WriteString("Definition cases : list ucase := [\n  " + strings.Join(cases, ";\n  ") + "].\n")
	b.WriteString("Definition M := Eval vm_compute in mismatches (ucase_ok 64) cases.\nPrint M.\n")
	common.WriteFile(filepath.Join(outDir, "cases_unparen_heap.v"), b.String())
	common.WriteFile(filepath.Join(outDir, "cases_unparen_heap.index.txt"), strings.Join(idx, "\n")+"\n")
	meta.CaseFiles = append(meta.CaseFiles, "cases_unparen_heap.v")
	meta.Distribution["heap_model_execution"] = map[string]interface{}{"checker": "typeUnparen", "expressions": len(cases), "real_warnings": nWarn,
		"suggestions_parsed_back": nSugg, "suggestions_not_parsed": nNoParse, "plain_expressions_sampled": nPlain, "unsupported_shapes": nBad}
	if nWarn < 5 || nSugg < 5 {
		meta.TieBroken = append(meta.TieBroken, fmt.Sprintf("heap-model execution of typeUnparen is nearly vacuous: %d expressions with a real warning, %d suggestions parsed back", nWarn, nSugg))
	}
}
