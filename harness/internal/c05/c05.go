// Package c05: checkers treat their input as read-only. Implementation-level oracle:
//  1. a structural fingerprint of the *ast.File (fw/fingerprint.go), the types.Info sizes, the shared
//     linter.Context and the checker's registered info/params is taken before and after EVERY Check;
//  2. every checker is run on three independently loaded copies of the corpus in different orders
//     (registry order / reverse order / owner-alone-then-rewriters-first): for every ordered pair (A, B)
//     A precedes B in exactly one of the first two copies, so a tree damaged by A changes B's diagnostics
//     between the copies; the third copy supplies a literal "B alone on a pristine tree".
package c05

import (
	"fmt"
	"go/ast"
	"go/token"
	"go/types"
	"sort"
	"strings"
	"sync"
	"time"

	"github.com/go-critic/go-critic/linter"

	"verifharness/internal/common"
	"verifharness/internal/fw"
)

// Rewriters are the checkers that build their suggestion by rewriting a (copied) tree, or drive astutil.Apply.
var Rewriters = []string{"boolExprSimplify", "typeUnparen", "paramTypeCombine", "badCond", "methodExprCall", "sloppyReassign",
	"evalOrder", "commentFormatting", "exitAfterDefer", "rangeAppendAll", "regexpSimplify", "assignOp", "yodaStyleExpr", "underef"}

type corpus struct {
	fset  *token.FileSet
	pkgs  []*fw.Pkg
	files []*fw.File
}

func load(outDir string) (*corpus, error) {
	c := &corpus{fset: token.NewFileSet()}
	s1, err := fw.LoadS1(c.fset)
	if err != nil {
		return nil, err
	}
	s2, err := fw.LoadS2(c.fset, outDir)
	if err != nil {
		return nil, err
	}
	c.pkgs = append(s1, s2...)
	c.files = fw.AllFiles(c.pkgs)
	return c, nil
}

type mutation struct {
	key, what string
	witness   interface{}
}

type passResult struct {
	out   map[string][]fw.Outcome // file ID -> outcome per checker index (registry order)
	muts  []mutation
	evals int
	nodes int
	fps   int
}

// pass runs all checkers on every file of c in the order given by orderFor(file) (indices into infos).
// level 2: fingerprints around every Check; level 1: fingerprint around each file; level 0: none.
func pass(c *corpus, infos []*linter.CheckerInfo, orderFor func(f *fw.File) []int, level int) *passResult {
	res := &passResult{out: map[string][]fw.Outcome{}}
	var mu sync.Mutex
	workers := 16
	if workers > len(c.pkgs) {
		workers = len(c.pkgs)
	}
	var wg sync.WaitGroup
	next := make(chan *fw.Pkg, len(c.pkgs))
	for _, p := range c.pkgs {
		next <- p
	}
	close(next)
	reg0 := fw.SnapRegistry()
	for w := 0; w < workers; w++ {
		wg.Add(1)
		go func() {
			defer wg.Done()
			set, err := fw.NewSet(c.fset, infos)
			if err != nil {
				mu.Lock()
				res.muts = append(res.muts, mutation{"C05/harness/new-set", err.Error(), nil})
				mu.Unlock()
				return
			}
			for p := range next {
				var local []mutation
				deep0 := fw.InfoDeepHash(p.Info)
				evals, nodes, fps := 0, 0, 0
				outs := map[string][]fw.Outcome{}
				for _, f := range p.Files {
					set.Enter(f, false)
					var recs0 []string
					var fp0 uint64
					if level >= 1 {
						var n int
						fp0, n = fw.ASTFingerprint(f.AST)
						nodes += n
						seen := 0
						ast.Inspect(f.AST, func(x ast.Node) bool {
							if x != nil {
								seen++
							}
							return true
						})
						if n < seen {
							local = append(local, mutation{"C05/harness/fingerprint-coverage", fmt.Sprintf("fingerprint covers %d nodes of %s, ast.Inspect reaches %d", n, f.ID(), seen), nil})
						}
						fps++
						if level >= 2 {
							recs0 = fw.ASTRecords(f.AST)
						}
					}
					fileOut := make([]fw.Outcome, len(infos))
					order := orderFor(f)
					fpPrev := fp0
					damaged := false
					for _, ci := range order {
						info := infos[ci]
						var ctx0 fw.CtxSnap
						var inf0 string
						var deep0 []string
						if level >= 2 {
							deep0 = fw.DeepCtx(set.Ctx)
							ctx0 = fw.SnapContext(set.Ctx)
							inf0 = fw.SnapInfo(info)
						}
						fileOut[ci] = fw.SafeCheck(set.Checkers[ci], f)
						evals++
						if level >= 2 {
							fp1, _ := fw.ASTFingerprint(f.AST)
							fps++
							if fp1 != fpPrev {
								what := "syntax tree differs after Check"
								diff := ""
								if !damaged {
									diff = fw.DiffRecords(recs0, fw.ASTRecords(f.AST))
								}
								damaged = true
								local = append(local, mutation{"C05/" + info.Name + "/ast-mutation", fmt.Sprintf("%s: %s of %s", info.Name, what, f.ID()),
									map[string]interface{}{"checker": info.Name, "file": f.Path, "first_difference": diff,
										"replay": "NewChecker(" + info.Name + "); fingerprint(file); Check(file); fingerprint(file)"}})
								fpPrev = fp1
							}
							if ctx1 := fw.SnapContext(set.Ctx); ctx1 != ctx0 {
								d := fw.DiffCtx(ctx0, ctx1)
								key := "C05/" + info.Name + "/context-mutation"
								if ctx1.InfoSizes != ctx0.InfoSizes {
									key = "C05/" + info.Name + "/types-info-mutation"
								}
								local = append(local, mutation{key, fmt.Sprintf("%s: shared linter.Context differs after Check of %s", info.Name, f.ID()),
									map[string]interface{}{"checker": info.Name, "file": f.Path, "fields": d}})
							}
							if d := fw.DiffDeep(deep0, fw.DeepCtx(set.Ctx)); len(d) > 0 && fw.SnapContext(set.Ctx) == ctx0 {
								// state that is not one of the documented fields (a cache, a counter, ...) changed during Check
								local = append(local, mutation{"C05/" + info.Name + "/context-mutation", fmt.Sprintf("%s: the shared linter.Context (deep view of all fields) differs after Check of %s", info.Name, f.ID()),
									map[string]interface{}{"checker": info.Name, "file": f.Path, "fields": d,
										"replay": "NewContext; NewChecker(" + info.Name + "); render every field of *linter.Context reflectively; Check(file); render again"}})
							}
							if inf1 := fw.SnapInfo(info); inf1 != inf0 {
								local = append(local, mutation{"C05/" + info.Name + "/params-mutation", fmt.Sprintf("%s: registered CheckerInfo/params differ after Check of %s", info.Name, f.ID()),
									map[string]interface{}{"checker": info.Name, "file": f.Path, "before": inf0, "after": inf1}})
							}
						}
					}
					if level == 1 {
						fp1, _ := fw.ASTFingerprint(f.AST)
						fps++
						if fp1 != fp0 {
							local = append(local, mutation{"C05/some-checker/ast-mutation", "syntax tree of " + f.ID() + " differs after all checkers ran (order: see pass)", map[string]interface{}{"file": f.Path}})
						}
					}
					outs[f.ID()] = fileOut
				}
				if deep1 := fw.InfoDeepHash(p.Info); deep1 != deep0 {
					local = append(local, mutation{"C05/some-checker/types-info-mutation", "types.Info entries of package " + p.Name + " differ after all checkers ran on it", map[string]interface{}{"package": p.Dir}})
				}
				mu.Lock()
				res.muts = append(res.muts, local...)
				for k, v := range outs {
					res.out[k] = v
				}
				res.evals += evals
				res.nodes += nodes
				res.fps += fps
				mu.Unlock()
			}
		}()
	}
	wg.Wait()
	reg1 := fw.SnapRegistry()
	for i := range reg0 {
		if i < len(reg1) && reg0[i] != reg1[i] {
			res.muts = append(res.muts, mutation{"C05/registry/info-mutation", "registered checker info changed during the pass", map[string]interface{}{"before": reg0[i], "after": reg1[i]}})
		}
	}
	if len(reg0) != len(reg1) {
		res.muts = append(res.muts, mutation{"C05/registry/info-mutation", fmt.Sprintf("number of registered checkers changed %d -> %d", len(reg0), len(reg1)), nil})
	}
	return res
}

// paramsStream: the registered CheckerInfo structs and parameter cells are inputs too. For every checker and every
// parameter, values that take non-default code paths are tried (each bool flipped, ints at the extremes, strings over
// the values of their domain); the whole registry, as handed out by linter.GetCheckersInfo(), is rendered before and
// after the constructor call and after Check: it must not move.
func paramsStream(meta *common.Meta, c *corpus, infos []*linter.CheckerInfo) {
	stringDomain := func(checker, name string, def string) []string {
		vals := []string{"", "all", "verif-unknown-value"}
		switch name {
		case "failOn":
			vals = append(vals, "dsl", "import", "dsl,import")
		case "rules":
			vals = append(vals, fmt.Sprint(fw.InfoByName(infos)["ruleguard"].Params["rules"].Value), "/nonexistent/rules.go")
		case "enable", "disable":
			vals = append(vals, "<all>", "#diagnostic", "verifTyped")
		}
		var out []string
		for _, v := range vals {
			if v != def {
				out = append(out, v)
			}
		}
		return out
	}
	byPkg := map[string][]*fw.File{}
	for _, p := range c.pkgs {
		byPkg[p.Name] = p.Files
	}
	variants, ctorErrs, fpChecks := 0, 0, 0
	damaged := map[*fw.File]bool{}
	extraFiles := c.files
	if len(extraFiles) > 6 {
		extraFiles = []*fw.File{c.files[0], c.files[len(c.files)/3], c.files[2*len(c.files)/3], c.files[len(c.files)-1]}
	}
	for _, info := range infos {
		ctorContextProbe(meta, c, info, "registered parameter values")
		var names []string
		for k := range info.Params {
			names = append(names, k)
		}
		sort.Strings(names)
		files := append(append([]*fw.File(nil), byPkg[info.Name]...), extraFiles...)
		for _, pn := range names {
			cell := info.Params[pn]
			def := cell.Value
			var vals []interface{}
			switch d := def.(type) {
			case bool:
				vals = []interface{}{!d}
			case int:
				vals = []interface{}{0, 1, d*2 + 1}
			case string:
				for _, v := range stringDomain(info.Name, pn, d) {
					vals = append(vals, v)
				}
			}
			for _, val := range vals {
				cell.Value = val
				variants++
				reg0 := fw.SnapRegistry()
				ctx := linter.NewContext(c.fset, fw.Sizes)
				var chk *linter.Checker
				var err error
				func() {
					defer func() {
						if r := recover(); r != nil {
							err = fmt.Errorf("panic: %v", r)
						}
					}()
					chk, err = linter.NewChecker(ctx, info)
				}()
				ctorContextProbe(meta, c, info, fmt.Sprintf("%s=%v", pn, val))
				stage := "the constructor"
				reg1 := fw.SnapRegistry()
				if err != nil {
					ctorErrs++
				}
				if sameStrings(reg0, reg1) && err == nil && chk != nil {
					for _, f := range files {
						ctx.SetPackageInfo(f.Pkg.Info, f.Pkg.Types)
						ctx.SetFileInfo(f.Name, f.AST)
						// the read-only obligation holds under EVERY parameter value, not only the defaults
						fp0, _ := fw.ASTFingerprint(f.AST)
						shape0 := fw.ASTShape(f.AST)
						fw.SafeCheck(chk, f)
						fpChecks++
						if fp1, _ := fw.ASTFingerprint(f.AST); fp1 != fp0 && !damaged[f] {
							damaged[f] = true
							meta.Fail("C05/"+info.Name+"/ast-mutation", fmt.Sprintf("%s: with parameter %s=%v the syntax tree of %s differs after Check", info.Name, pn, val, f.ID()),
								map[string]interface{}{"checker": info.Name, "param": pn, "value": val, "file": f.Path, "shape_before": shape0, "shape_after": fw.ASTShape(f.AST),
									"replay": "set -@" + info.Name + "." + pn + "; NewChecker; fingerprint(file); Check(file); fingerprint(file)"})
						}
					}
					stage = "Check"
					reg1 = fw.SnapRegistry()
				}
				if !sameStrings(reg0, reg1) {
					var diff []string
					for i := range reg0 {
						if i < len(reg1) && reg0[i] != reg1[i] {
							diff = append(diff, reg0[i]+"   ->   "+reg1[i])
						}
					}
					meta.Fail("C05/"+info.Name+"/params-mutation", fmt.Sprintf("%s: with parameter %s=%v, %s changes the registered checker info / parameter cells", info.Name, pn, val, stage),
						map[string]interface{}{"checker": info.Name, "param": pn, "value": val, "stage": stage, "registry_diff": diff,
							"replay": "set info.Params[" + pn + "].Value; render linter.GetCheckersInfo(); NewChecker; Check; render again"})
				}
				cell.Value = def
				// a constructor that wrote other cells: put every cell of this checker back so that later variants start clean
				restoreFrom(reg0)
			}
		}
	}
	meta.Distribution["param_variant_fingerprinted_checks"] = fpChecks
	meta.Distribution["param_variants_tried"] = variants
	meta.Distribution["param_variants_rejected_by_constructor"] = ctorErrs
}

// ctorContextProbe: a CONSTRUCTOR receives the shared context too. It may set the documented ctx.Require bits and nothing
// else: every other field of *linter.Context (deep rendering of all fields, exported or not) must be what the integrator
// configured. The probe context is configured for a foreign target (GOARCH=386 sizes, an old Go version) so that a
// constructor that "normalises" the context to its own idea of the platform shows.
func ctorContextProbe(meta *common.Meta, c *corpus, info *linter.CheckerInfo, variant string) {
	ctx := linter.NewContext(c.fset, types.SizesFor("gc", "386"))
	before := fw.DeepCtx(ctx)
	func() {
		defer func() { _ = recover() }()
		_, _ = linter.NewChecker(ctx, info)
	}()
	after := fw.DeepCtx(ctx)
	var diff []string
	for i := range before {
		if i < len(after) && before[i] != after[i] && !strings.HasPrefix(before[i], "Require=") {
			diff = append(diff, clipStr(before[i], 200)+"  ->  "+clipStr(after[i], 200))
		}
	}
	if len(diff) > 0 {
		meta.Fail("C05/"+info.Name+"/constructor-writes-context", fmt.Sprintf("%s: the constructor (%s) changes the shared linter.Context beyond the Require bits", info.Name, variant),
			map[string]interface{}{"checker": info.Name, "variant": variant, "fields": diff,
				"replay": "ctx := linter.NewContext(fset, types.SizesFor(\"gc\", \"386\")); render every field; linter.NewChecker(ctx, info) with " + variant + "; render again"})
	}
}

func clipStr(s string, n int) string {
	if len(s) > n {
		return s[:n] + "..."
	}
	return s
}

var paramDefaults map[string]map[string]interface{}

func sameStrings(a, b []string) bool {
	if len(a) != len(b) {
		return false
	}
	for i := range a {
		if a[i] != b[i] {
			return false
		}
	}
	return true
}

// restoreFrom resets every parameter cell to the value recorded at the start of the run.
func restoreFrom(_ []string) {
	for _, info := range linter.GetCheckersInfo() {
		for k, v := range paramDefaults[info.Name] {
			if p, ok := info.Params[k]; ok {
				p.Value = v
			}
		}
	}
}

func Run(tier string, seed int64, outDir string) *common.Meta {
	meta := &common.Meta{Property: "C05", Distribution: map[string]interface{}{}, CaseFiles: []string{}}
	infos := fw.Infos()
	paramDefaults = map[string]map[string]interface{}{}
	for _, info := range infos {
		paramDefaults[info.Name] = map[string]interface{}{}
		for k, p := range info.Params {
			paramDefaults[info.Name][k] = p.Value
		}
	}
	byName := map[string]int{}
	for i, info := range infos {
		byName[info.Name] = i
	}
	var rewriters []int
	for _, n := range Rewriters {
		if i, ok := byName[n]; ok {
			rewriters = append(rewriters, i)
		} else {
			meta.Notes = append(meta.Notes, "rewriter not registered any more: "+n)
		}
	}
	t0 := time.Now()
	var cs [3]*corpus
	var errs [3]error
	fw.Parallel(3, func(i int) { cs[i], errs[i] = load(fmt.Sprintf("%s/copy%d", outDir, i)) })
	for _, e := range errs {
		common.Must(e)
	}
	meta.Distribution["load_s"] = time.Since(t0).Seconds()
	meta.Distribution["files"] = len(cs[0].files)
	meta.Distribution["checkers"] = len(infos)
	if len(cs[0].files) < 200 || len(infos) < 60 {
		meta.TieBroken = append(meta.TieBroken, fmt.Sprintf("corpus or registry unexpectedly small: %d files, %d checkers", len(cs[0].files), len(infos)))
	}

	fwd := make([]int, len(infos))
	rev := make([]int, len(infos))
	for i := range infos {
		fwd[i] = i
		rev[i] = len(infos) - 1 - i
	}
	rng := common.NewRand(seed, "c05-orders")
	// copy 0: registry order (what the CLI does), fingerprints around every Check
	t1 := time.Now()
	p0 := pass(cs[0], infos, func(*fw.File) []int { return fwd }, 2)
	meta.Distribution["pass_fingerprint_s"] = time.Since(t1).Seconds()
	// copy 1: reverse order
	t2 := time.Now()
	p1 := pass(cs[1], infos, func(*fw.File) []int { return rev }, 1)
	// copy 2: the owner of the examples alone on the pristine tree, then every rewriter, then the rest in random order
	alone := map[string]int{}
	orders := map[string][]int{}
	for _, f := range cs[2].files {
		owner, ok := byName[f.Pkg.Name]
		if !ok || f.Pkg.Stream != "S1" {
			owner = rng.Intn(len(infos))
		}
		alone[f.ID()] = owner
		ord := []int{owner}
		used := map[int]bool{owner: true}
		for _, r := range rewriters {
			if !used[r] {
				used[r] = true
				ord = append(ord, r)
			}
		}
		for _, i := range rng.Perm(len(infos)) {
			if !used[i] {
				ord = append(ord, i)
			}
		}
		orders[f.ID()] = ord
	}
	p2 := pass(cs[2], infos, func(f *fw.File) []int { return orders[f.ID()] }, 1)
	meta.Distribution["pass_orders_s"] = time.Since(t2).Seconds()

	paramsStream(meta, cs[0], infos)

	for _, p := range []*passResult{p0, p1, p2} {
		for _, m := range p.muts {
			meta.Fail(m.key, m.what, m.witness)
		}
	}

	// order independence of diagnostics
	f0 := map[string]*fw.File{}
	for _, f := range cs[0].files {
		f0[f.ID()] = f
	}
	pairs, aloneCmp, withWarn := 0, 0, 0
	var ids []string
	for id := range p0.out {
		ids = append(ids, id)
	}
	sort.Strings(ids)
	for _, id := range ids {
		a := p0.out[id]
		for pi, other := range []map[string][]fw.Outcome{p1.out, p2.out} {
			b, ok := other[id]
			if !ok {
				meta.TieBroken = append(meta.TieBroken, "file missing from a corpus copy: "+id)
				continue
			}
			for ci := range infos {
				pairs++
				if len(a[ci].Ws) > 0 {
					withWarn++
				}
				isAlone := pi == 1 && alone[id] == ci
				if isAlone {
					aloneCmp++
				}
				if a[ci].Equal(b[ci]) {
					continue
				}
				if unstable, explains := fw.FreshUnstable(infos[ci], f0[id], b[ci], a[ci]); unstable && explains {
					meta.Notes = append(meta.Notes, "not counted as order dependence (fresh instances already disagree among themselves; see C02): "+infos[ci].Name+" on "+id)
					continue
				}
				orderName := "reverse registry order"
				if pi == 1 {
					orderName = "owner alone, rewriters first, rest random"
					if isAlone {
						orderName = "ALONE on a pristine tree"
					}
				}
				meta.Fail("C05/"+infos[ci].Name+"/depends-on-other-checkers",
					fmt.Sprintf("%s: diagnostics for %s differ between registry order and %s", infos[ci].Name, id, orderName),
					map[string]interface{}{"checker": infos[ci].Name, "file": f0[id].Path, "registry_order": fw.Strs(a[ci].Ws), "other_order": fw.Strs(b[ci].Ws),
						"panic_registry_order": a[ci].Panic, "panic_other_order": b[ci].Panic})
			}
		}
	}
	meta.Evaluations = p0.evals + p1.evals + p2.evals
	// selection independence: every checker ALONE on its own context vs within the full set, over the corpus and the
	// renamed-import variants of the examples
	{
		t3 := time.Now()
		cr := &corpus{fset: cs[0].fset}
		var err error
		cr.pkgs, err = fw.LoadRenamed(cs[0].fset, outDir)
		if err != nil || len(cr.pkgs) < 10 {
			meta.TieBroken = append(meta.TieBroken, fmt.Sprintf("renamed-import variants of the examples could not be derived/loaded (%d packages): %v", len(cr.pkgs), err))
		}
		nErr := 0
		for _, p := range cr.pkgs {
			if len(p.Errors) > 0 {
				nErr++
			}
		}
		cr.files = fw.AllFiles(cr.pkgs)
		full := map[string][]fw.Outcome{}
		for k, v := range p0.out {
			full[k] = v
		}
		if len(cr.pkgs) > 0 {
			pr := pass(cr, infos, func(*fw.File) []int { return fwd }, 0)
			for k, v := range pr.out {
				full[k] = v
			}
		}
		selectionStream(meta, cs[0], infos, append(append([]*fw.File(nil), cs[0].files...), cr.files...), full)
		selectionForeign(meta, cs[0], infos, cs[0].files)
		poisonProbe(meta, cs[0], infos, cs[0].files, p0.out)
		meta.Distribution["renamed_import_packages"] = len(cr.pkgs)
		meta.Distribution["renamed_import_packages_with_type_errors"] = nErr
		meta.Distribution["selection_s"] = time.Since(t3).Seconds()
	}
	// heap model of typeUnparen executed on the converted real type expressions of copy 0
	unparenStream(meta, outDir, cs[0], infos)
	sort.Strings(meta.Notes)
	meta.Distinct = withWarn / 2
	meta.Distribution["check_calls_fingerprinted"] = p0.evals
	meta.Distribution["fingerprints_taken"] = p0.fps + p1.fps + p2.fps
	meta.Distribution["ast_nodes_per_corpus_pass"] = p0.nodes
	meta.Distribution["order_comparisons"] = pairs
	meta.Distribution["alone_on_pristine_comparisons"] = aloneCmp
	meta.Distribution["rewriters_run_first"] = len(rewriters)
	meta.AddSample(map[string]interface{}{"file": ids[0], "checkers": len(infos), "fingerprint": "before/after every Check: AST (kinds, scalars, child addresses, slices, comments), types.Info sizes, Context, own CheckerInfo+params"})
	meta.AddSample(map[string]interface{}{"orders": []string{"registry", "reverse", "owner-alone + rewriters first + random rest"}, "ordered_pairs_covered": "every (A,B): A precedes B in exactly one of the first two copies"})
	meta.Rule = "every registered checker x every file of S1+S2, on three independently loaded corpus copies; copy 0 with a structural fingerprint before/after every Check " +
		"(AST incl. pointer identities and comments, types.Info sizes + deep entry hash per package, linter.Context fields, CheckerInfo+params); copies 1 and 2 run the checkers in reverse / " +
		"owner-alone+rewriters-first order and the per-checker diagnostics are compared with copy 0; evaluations = Check calls; distinct_nontrivial = (file, checker) pairs with at least one warning"
	return meta
}
