package c03

import (
	"fmt"
	"path/filepath"
	"strings"

	"github.com/go-critic/go-critic/linter"

	"verifharness/internal/absconv"
	"verifharness/internal/common"
	"verifharness/internal/fw"
)

// modelStream writes, for every modelled visitor, a cases file in which Coq runs the MODEL (the linter.Checker wrapper
// around the visitor's walk function of Model_History.v) over the converted files of the very histories the oracle drove
// the real long-lived instances through:
//
//	Fresh f obs : result_fresh bs0 run tt f       = what a brand-new real instance reported for f
//	Hist h obs  : visits bs0 run (h as history)   = what the ONE real long-lived instance returned from each Check
//
// obs(hi, at, name) is the real outcome of checker `name` at visit `at` of history `hi`.
func modelStream(meta *common.Meta, outDir string, infos []*linter.CheckerInfo, histories [][]*fw.File, usedList []*fw.File,
	fresh *fw.FreshCache, obs func(hi, at int, name string) (fw.Outcome, bool)) {
	conv := &absconv.Conv{Shapes: absconv.NewShapes(), P: absconv.ParamsOf(infos)}
	afiles := map[*fw.File]*absconv.AFile{}
	for _, f := range usedList {
		afiles[f] = conv.File(f)
	}
	defs, names := absconv.Defs(usedList, afiles, "F")
	by := fw.InfoByName(infos)
	stats := map[string]interface{}{}
	totalCases, totalVisits, nontrivial := 0, 0, 0
	for _, v := range absconv.Visitors(infos) {
		info := by[v.Name]
		var b strings.Builder
		var idx []string
		b.WriteString(v.Header())
		b.WriteString(defs)
		b.WriteString("Inductive kase := Fresh (f : file) (obs : list warning) | Hist (h : list file) (obs : list (list warning)).\n")
		b.WriteString("Definition case_ok (k : kase) : bool :=\n  match k with\n" +
			"  | Fresh f obs => list_eqb w_eqb (result_fresh bs0 run tt f) obs\n" +
			"  | Hist h obs => list_eqb (list_eqb w_eqb) (visits bs0 run (map (fun f => (tt, f)) h)) obs\n  end.\n")
		var cases []string
		skipped := map[string]bool{}
		usable := func(f *fw.File, o fw.Outcome) bool {
			if why, bad := afiles[f].Unsupported[v.Name]; bad {
				skipped[f.ID()+": "+why] = true
				return false
			}
			if o.Panic != "" {
				skipped[f.ID()+": the real checker panics ("+o.Panic+")"] = true
				return false
			}
			return true
		}
		warned := 0
		for _, f := range usedList {
			o := fresh.Get(info, f)
			if !usable(f, o) {
				continue
			}
			if len(o.Ws) > 0 {
				warned++
			}
			cases = append(cases, "Fresh "+names[f]+" "+v.Warnings(o.Ws))
			idx = append(idx, fmt.Sprintf("%s fresh instance on %s: real=%v", v.Name, f.ID(), fw.Strs(o.Ws)))
		}
		visits := 0
		for hi, h := range histories {
			var hs, os []string
			var ids []string
			for at, f := range h {
				o, ok := obs(hi, at, v.Name)
				if !ok || !usable(f, o) {
					continue
				}
				hs = append(hs, names[f])
				os = append(os, v.Warnings(o.Ws))
				ids = append(ids, f.ID())
				if len(o.Ws) > 0 {
					nontrivial++
				}
			}
			if len(hs) == 0 {
				continue
			}
			visits += len(hs)
			cases = append(cases, "Hist ["+strings.Join(hs, "; ")+"] ["+strings.Join(os, "; ")+"]")
			if len(ids) > 14 {
				ids = append(ids[:14], fmt.Sprintf("... (%d visits)", len(hs)))
			}
			idx = append(idx, fmt.Sprintf("%s long-lived instance over history #%d: %s", v.Name, hi, strings.Join(ids, ", ")))
		}
		b.WriteString("Definition cases : list kase := [\n  " + strings.Join(cases, ";\n  ") + "].\n")
		b.WriteString("Definition M := Eval vm_compute in mismatches case_ok cases.\nPrint M.\n")
		name := "cases_hist_" + v.Name + ".v"
		common.WriteFile(filepath.Join(outDir, name), b.String())
		common.WriteFile(filepath.Join(outDir, strings.TrimSuffix(name, ".v")+".index.txt"), strings.Join(idx, "\n")+"\n")
		meta.CaseFiles = append(meta.CaseFiles, name)
		stats[v.Name] = map[string]interface{}{"cases": len(cases), "model_visits": visits, "files_with_real_warnings": warned, "skipped": len(skipped)}
		for k := range skipped {
			meta.Notes = append(meta.Notes, "model execution of "+v.Name+" skips "+k)
		}
		if warned == 0 {
			meta.TieBroken = append(meta.TieBroken, "model execution of "+v.Name+" is vacuous: the real checker warns on no file of the histories")
		}
		totalCases += len(cases)
		totalVisits += visits
	}
	inter := 0
	for _, a := range afiles {
		if a.Interesting() > 0 {
			inter++
		}
	}
	meta.Distribution["model_execution"] = map[string]interface{}{"converted_files": len(afiles), "converted_files_with_items": inter,
		"cases": totalCases, "model_visits": totalVisits, "model_visits_with_real_warnings": nontrivial, "per_visitor": stats}
}
