package c03

import (
	"fmt"
	"go/ast"
	"go/token"
	"sort"
	"strings"

	"github.com/go-critic/go-critic/checkers/analyzer"
	"github.com/go-critic/go-critic/linter"
	"golang.org/x/tools/go/analysis"

	"verifharness/internal/common"
	"verifharness/internal/fw"
)

// analyzerStream: histories through the go/analysis front-end. The analyzer caches its configuration process-wide and
// runs one pass per package; packages come from different modules (different `go` directives, two- and three-component).
// Every pass of a history must report exactly what the same pass reports as the first pass after a reset of the cache.
// Packages and checkers are chosen where the target Go version matters (found by running the library at go1.12).
func analyzerStream(meta *common.Meta, tier string, seed int64, fset *token.FileSet, s1 []*fw.Pkg, infos []*linter.CheckerInfo, fresh *fw.FreshCache) {
	// the analyzer copies its flag values into the registered parameter cells: save and restore them
	saved := map[string]map[string]interface{}{}
	for _, info := range infos {
		saved[info.Name] = map[string]interface{}{}
		for k, p := range info.Params {
			saved[info.Name][k] = p.Value
		}
	}
	flags := analyzer.Analyzer.Flags
	oldFlags := map[string]string{}
	for _, n := range []string{"enable", "disable", "enable-all", "go"} {
		if f := flags.Lookup(n); f != nil {
			oldFlags[n] = f.Value.String()
		}
	}
	defer func() {
		for n, v := range oldFlags {
			flags.Set(n, v)
		}
		analyzer.VerifResetGlobal()
		for _, info := range linter.GetCheckersInfo() {
			for k, v := range saved[info.Name] {
				if p, ok := info.Params[k]; ok {
					p.Value = v
				}
			}
		}
	}()

	// 1. where does the target version matter? (library run at go1.12 vs the default "all features")
	sensitivePkg := map[*fw.Pkg]bool{}
	sensitiveChecker := map[string]bool{}
	outs := make([]map[string]bool, len(s1))
	common.Must(fw.ForEachPkg(fset, infos, s1, func(set *fw.Set, pi int) {
		set.Ctx.SetGoVersion("1.12")
		outs[pi] = map[string]bool{}
		for _, f := range s1[pi].Files {
			set.Enter(f, true)
			for ci, c := range set.Checkers {
				if o := fw.SafeCheck(c, f); !o.Equal(fresh.Get(infos[ci], f)) {
					outs[pi][infos[ci].Name] = true
				}
			}
		}
	}))
	for pi, p := range s1 {
		for n := range outs[pi] {
			sensitivePkg[p] = true
			sensitiveChecker[n] = true
		}
	}
	var names []string
	for n := range sensitiveChecker {
		names = append(names, n)
	}
	sort.Strings(names)
	var sens, rest []*fw.Pkg
	for _, p := range s1 {
		if sensitivePkg[p] {
			sens = append(sens, p)
		} else {
			rest = append(rest, p)
		}
	}
	meta.Distribution["analyzer_version_sensitive_checkers"] = names
	meta.Distribution["analyzer_version_sensitive_packages"] = len(sens)
	if len(sens) < 2 {
		meta.TieBroken = append(meta.TieBroken, "no example package whose diagnostics depend on the Go version: analyzer histories would be vacuous")
		return
	}
	extra := []string{"ifElseChain", "dupCase", "boolExprSimplify", "typeUnparen", "importShadow"}
	common.Must(flags.Set("enable", strings.Join(append(append([]string(nil), names...), extra...), ",")))
	common.Must(flags.Set("disable", ""))
	common.Must(flags.Set("enable-all", "false"))

	type step struct {
		pkg *fw.Pkg
		gov string
	}
	type diag struct {
		File string
		Off  int
		Msg  string
	}
	runPass := func(s step) ([]diag, string) {
		var ds []diag
		var files []*ast.File
		for _, f := range s.pkg.Files {
			files = append(files, f.AST)
		}
		pass := &analysis.Pass{
			Analyzer: analyzer.Analyzer, Fset: fset, Files: files, Pkg: s.pkg.Types, TypesInfo: s.pkg.Info, TypesSizes: fw.Sizes,
			ResultOf: map[*analysis.Analyzer]interface{}{},
			Module:   &analysis.Module{Path: "example.com/" + s.pkg.Name, GoVersion: s.gov},
			Report: func(d analysis.Diagnostic) {
				p := fset.Position(d.Pos)
				ds = append(ds, diag{p.Filename[strings.LastIndex(p.Filename, "/")+1:], p.Offset, d.Message})
			},
		}
		errText := ""
		func() {
			defer func() {
				if r := recover(); r != nil {
					errText = fmt.Sprint("panic: ", r)
				}
			}()
			if _, err := analyzer.Analyzer.Run(pass); err != nil {
				errText = err.Error()
			}
		}()
		return ds, errText
	}
	render := func(ds []diag, e string) string {
		var b strings.Builder
		for _, d := range ds {
			fmt.Fprintf(&b, "%s@%d %s\n", d.File, d.Off, d.Msg)
		}
		return b.String() + e
	}

	rng := common.NewRand(seed, "c03-analyzer")
	directives := []string{"", "1.12", "1.15", "1.16", "1.20", "1.21", "1.23.0", "1.22.5", "1.13.1"}
	nHist, hLen := 8, 5
	if tier == "thorough" {
		nHist, hLen = 120, 8
	}
	passes, nontrivial := 0, 0
	single := map[string]string{}
	for h := 0; h < nHist; h++ {
		var hist []step
		for i := 0; i < hLen; i++ {
			p := sens[rng.Intn(len(sens))]
			if rng.Intn(4) == 0 && len(rest) > 0 {
				p = rest[rng.Intn(len(rest))]
			}
			g := directives[rng.Intn(len(directives))]
			// directed: an old two-component version right before a three-component one
			if i > 0 && rng.Intn(3) == 0 {
				hist[i-1].gov = []string{"1.12", "1.15"}[rng.Intn(2)]
				g = []string{"1.23.0", "1.22.5"}[rng.Intn(2)]
			}
			hist = append(hist, step{p, g})
		}
		analyzer.VerifResetGlobal()
		var got []string
		var prepared string
		for i, s := range hist {
			ds, e := runPass(s)
			passes++
			if len(ds) > 0 {
				nontrivial++
			}
			got = append(got, render(ds, e))
			st := analyzer.VerifPrepare() + "\n" + analyzer.VerifSnapshot() // every field of the cached value, checker names, parameter values
			if i == 0 {
				prepared = st
			} else if st != prepared {
				meta.Fail("C03/analyzer/cached-config-changes", fmt.Sprintf("the analyzer's cached configuration reads %q after pass %d, %q after the first pass", st, i+1, prepared), nil)
			}
		}
		for i, s := range hist {
			key := s.pkg.Name + "\x00" + s.gov
			want, ok := single[key]
			if !ok {
				analyzer.VerifResetGlobal()
				ds, e := runPass(s)
				passes++
				want = render(ds, e)
				single[key] = want
			}
			if got[i] == want {
				continue
			}
			// shrink: the pass right before is usually enough
			var hd []map[string]string
			lo := 0
			for j := i - 1; j >= 0; j-- {
				analyzer.VerifResetGlobal()
				runPass(hist[j])
				ds, e := runPass(s)
				if render(ds, e) != want {
					lo = j
					hd = []map[string]string{{"package": hist[j].pkg.Name, "module_go_directive": hist[j].gov}}
					break
				}
			}
			if hd == nil {
				for j := 0; j < i; j++ {
					hd = append(hd, map[string]string{"package": hist[j].pkg.Name, "module_go_directive": hist[j].gov})
				}
			}
			_ = lo
			hd = append(hd, map[string]string{"package": s.pkg.Name, "module_go_directive": s.gov})
			meta.Fail("C03/analyzer/pass-depends-on-earlier-passes",
				fmt.Sprintf("go/analysis front-end: the diagnostics of package %s (module go %q) depend on the passes that ran before it in the same process", s.pkg.Name, s.gov),
				map[string]interface{}{"passes_in_order": hd, "enabled": flags.Lookup("enable").Value.String(),
					"after_history": strings.Split(strings.TrimSpace(got[i]), "\n"), "as_first_pass": strings.Split(strings.TrimSpace(want), "\n"),
					"replay": "reset the analyzer's cached config; Analyzer.Run on each package in order with pass.Module.GoVersion as listed (no -go flag); compare the last pass with a run right after a reset"})
			break
		}
	}
	meta.Evaluations += passes
	meta.Distribution["analyzer_passes"] = passes
	meta.Distribution["analyzer_passes_with_diagnostics"] = nontrivial
	if nontrivial == 0 {
		meta.TieBroken = append(meta.TieBroken, "analyzer passes produced no diagnostics")
	}
}
