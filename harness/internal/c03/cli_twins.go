package c03

import (
	"fmt"
	"os"
	"path/filepath"
	"sort"
	"strings"

	"verifharness/internal/common"
	"verifharness/internal/fw"
)

// twinStream: what a run prints for a package must not depend on which OTHER packages are analysed in the same run —
// in particular not on a package with the same file names, the same text and therefore the same findings at the same
// line:column. A workspace is derived in which several packages are copied under two import paths (twins/a/<p>,
// twins/b/<p>); both CLI binaries are run on a alone, b alone and a+b together (both argument orders):
//
//	lines(a+b) = lines(a) + lines(b)  (as multisets),  exit(a+b) = max(exit(a), exit(b)),  lines(b) = lines(a)[a:=b].
func twinStream(meta *common.Meta, tier string, seed int64, outDir string, s1, s2 []*fw.Pkg) {
	rng := common.NewRand(seed, "c03-twins")
	stdOnly := func(p *fw.Pkg) bool {
		for _, f := range p.Files {
			for _, im := range f.AST.Imports {
				path := strings.Trim(im.Path.Value, "\"`")
				first := strings.SplitN(path, "/", 2)[0]
				if strings.Contains(first, ".") {
					return false
				}
			}
		}
		return len(p.Errors) == 0
	}
	var pool []*fw.Pkg
	for _, p := range s1 {
		if stdOnly(p) {
			pool = append(pool, p)
		}
	}
	rng.Shuffle(len(pool), func(i, j int) { pool[i], pool[j] = pool[j], pool[i] })
	// the stateful / file-name sensitive checkers' own examples first (deterministic part), then the shuffled rest
	sort.SliceStable(pool, func(i, j int) bool { return pri(pool[i].Name) < pri(pool[j].Name) })
	nS1, nS2 := 6, 3
	if tier == "thorough" {
		nS1, nS2 = 30, 12
	}
	var chosen []*fw.Pkg
	if b := fw.Batches(pool); len(b) > 0 {
		chosen = b[0]
		if len(chosen) > nS1 {
			chosen = chosen[:nS1]
		}
	}
	var s2ok []*fw.Pkg
	for _, p := range s2 {
		if stdOnly(p) && !strings.HasPrefix(p.Name, "ctx") {
			s2ok = append(s2ok, p)
		}
	}
	rng.Shuffle(len(s2ok), func(i, j int) { s2ok[i], s2ok[j] = s2ok[j], s2ok[i] })
	if len(s2ok) > nS2 {
		s2ok = s2ok[:nS2]
	}
	chosen = append(chosen, s2ok...)
	if len(chosen) == 0 {
		meta.TieBroken = append(meta.TieBroken, "twin-package stage: no example package with standard-library imports only")
		return
	}
	ws := filepath.Join(outDir, "twins")
	os.RemoveAll(ws)
	common.WriteFile(filepath.Join(ws, "go.mod"), "module twins\n\ngo 1.21\n")
	var names []string
	for _, p := range chosen {
		names = append(names, p.Name)
		for _, f := range p.Files {
			for _, side := range []string{"a", "b"} {
				common.WriteFile(filepath.Join(ws, side, p.Name, f.Name), string(f.Src))
			}
		}
	}
	run := func(bin string, args ...string) ([]string, int, bool) {
		full := append([]string{"check", "-enableAll"}, args...)
		var out string
		var code int
		var err error
		for attempt := 0; attempt < 2; attempt++ { // a wall-clock limit hit under machine load is retried once, then only noted
			out, code, err = common.Run(cliTimeout(tier), ws, common.GoEnv(), filepath.Join(common.BinDir(), bin), full...)
			if err == nil && code != -1 {
				break
			}
		}
		if err == nil && code == -1 {
			err = fmt.Errorf("killed by a signal (not by this harness): no observation")
		}
		if err != nil {
			meta.Notes = append(meta.Notes, fmt.Sprintf("twin-package stage: %s %v did not finish within the wall-clock limit (not a verdict): %v", bin, args, err))
			return nil, code, false
		}
		var lines []string
		for _, l := range strings.Split(out, "\n") {
			if strings.TrimSpace(l) != "" {
				lines = append(lines, l)
			}
		}
		sort.Strings(lines)
		return lines, code, true
	}
	runs := 0
	for _, bin := range []string{"go-critic", "gocritic"} {
		la, ca, ok1 := run(bin, "./a/...")
		lb, cb, ok2 := run(bin, "./b/...")
		lab, cab, ok3 := run(bin, "./a/...", "./b/...")
		lba, cba, ok4 := run(bin, "./b/...", "./a/...")
		runs += 4
		if !(ok1 && ok2 && ok3 && ok4) {
			continue
		}
		if (ca != 0 && ca != 1) || (cb != 0 && cb != 1) || (cab != 0 && cab != 1) {
			meta.Fail("C03/cli/run", fmt.Sprintf("%s check did not finish normally on the twin workspace: exit a=%d b=%d a+b=%d", bin, ca, cb, cab), names)
			continue
		}
		if len(la) == 0 {
			meta.TieBroken = append(meta.TieBroken, "twin-package stage is vacuous: "+bin+" prints no diagnostic for "+strings.Join(names, ","))
			continue
		}
		union := append(append([]string(nil), la...), lb...)
		sort.Strings(union)
		wit := func(got []string) map[string]interface{} {
			return map[string]interface{}{"binary": bin, "workspace": "packages " + strings.Join(names, ", ") + " copied to twins/a/<p> and twins/b/<p> (identical files)",
				"diff(+ only together, - only alone)": diffLines(union, got), "lines_a": len(la), "lines_b": len(lb), "lines_together": len(got),
				"replay": "module with two copies of the same package directory under different import paths; go-critic check -enableAll ./a/... ; ./b/... ; ./a/... ./b/..."}
		}
		if strings.Join(lab, "\n") != strings.Join(union, "\n") {
			meta.Fail("C03/cli/twin-packages", bin+": the diagnostics of two packages with identical files analysed in ONE run differ from those of two separate runs", wit(lab))
		} else if strings.Join(lba, "\n") != strings.Join(union, "\n") {
			meta.Fail("C03/cli/twin-packages", bin+": the diagnostics of two packages with identical files analysed in ONE run (arguments b, a) differ from those of two separate runs", wit(lba))
		}
		max := ca
		if cb > max {
			max = cb
		}
		if cab != max || cba != max {
			meta.Fail("C03/cli/twin-packages-exit", fmt.Sprintf("%s: exit status of the joint run (%d / %d) is not the maximum of the separate runs (%d, %d)", bin, cab, cba, ca, cb), names)
		}
		var la2 []string
		for _, l := range la {
			la2 = append(la2, strings.Replace(l, "/a/", "/b/", 1))
		}
		sort.Strings(la2)
		if strings.Join(la2, "\n") != strings.Join(lb, "\n") {
			meta.Fail("C03/cli/twin-packages", bin+": two copies of the same packages, analysed in separate runs, get different diagnostics", map[string]interface{}{"binary": bin, "diff": diffLines(la2, lb)})
		}
		if bin == "go-critic" {
			meta.AddSample(map[string]interface{}{"twin_workspace_packages": names, "lines_a": len(la), "lines_together": len(lab)})
		}
	}
	meta.Distribution["twin_cli_runs"] = runs
	meta.Distribution["twin_packages"] = names
}
