// Package c03: history independence. Implementation-level oracle (never consults the model):
// one long-lived checker set is driven through random histories of (package, file) visits;
// after every visit each checker's warnings must equal those of a brand-new context + checker
// instance that has only ever seen that one file. A second stream runs the built CLI with
// permuted / split package arguments. Failing histories are shrunk by delta debugging.
package c03

import (
	"fmt"
	"go/ast"
	"go/token"
	"math/rand"
	"os"
	"path/filepath"
	"sort"
	"strings"
	"time"

	"github.com/go-critic/go-critic/linter"

	"verifharness/internal/absconv"
	"verifharness/internal/common"
	"verifharness/internal/fw"
)

type visitDesc struct {
	Pkg  string `json:"pkg"`
	File string `json:"file"`
}

func descs(h []*fw.File) []visitDesc {
	out := make([]visitDesc, len(h))
	for i, f := range h {
		out[i] = visitDesc{f.Pkg.Stream + ":" + f.Pkg.Name, f.Name}
	}
	return out
}

// replayOne runs history h (last element = the file under test) through ONE new long-lived
// instance of checker info and reports whether the last visit differs from want.
func replayOne(fset *token.FileSet, info *linter.CheckerInfo, h []*fw.File, want fw.Outcome) (bool, fw.Outcome) {
	set, err := fw.NewSet(fset, []*linter.CheckerInfo{info})
	if err != nil {
		return false, fw.Outcome{}
	}
	var last fw.Outcome
	for _, f := range h {
		set.Enter(f, false)
		last = fw.SafeCheck(set.Checkers[0], f)
	}
	return !last.Equal(want), last
}

// shrink is ddmin over the prefix of a failing history (the final visit is kept).
func shrink(fset *token.FileSet, info *linter.CheckerInfo, h []*fw.File, want fw.Outcome, budget int) []*fw.File {
	prefix := append([]*fw.File(nil), h[:len(h)-1]...)
	target := h[len(h)-1]
	fails := func(p []*fw.File) bool {
		if budget <= 0 {
			return false
		}
		budget--
		bad, _ := replayOne(fset, info, append(append([]*fw.File(nil), p...), target), want)
		return bad
	}
	n := 2
	for len(prefix) >= 1 {
		chunk := (len(prefix) + n - 1) / n
		reduced := false
		for start := 0; start < len(prefix); start += chunk {
			end := start + chunk
			if end > len(prefix) {
				end = len(prefix)
			}
			cand := append(append([]*fw.File(nil), prefix[:start]...), prefix[end:]...)
			if fails(cand) {
				prefix = cand
				if n > 2 {
					n--
				}
				reduced = true
				break
			}
		}
		if !reduced {
			if chunk <= 1 {
				break
			}
			n *= 2
			if n > len(prefix) {
				n = len(prefix)
			}
		}
	}
	return append(prefix, target)
}

// classify derives a stable defect class from the shape of the difference.
func classify(checker string, got, want, prev fw.Outcome) (key string, cls string) {
	if got.Panic != want.Panic {
		return "C03/" + checker + "/history-dependent-panic", "panic differs"
	}
	// stale warning buffer: the fresh list is a suffix of the reused list and the surplus was reported in earlier visits
	if n := len(got.Ws) - len(want.Ws); n > 0 && n == len(prev.Ws) && fw.EqualWs(got.Ws[n:], want.Ws) {
		same := true
		for i, w := range prev.Ws {
			if got.Ws[i].Text != w.Text {
				same = false
			}
		}
		if same {
			return "C03/" + checker + "/stale-warnings", "the warnings of the previous visit are reported again in front of this file's"
		}
	}
	if len(got.Ws) < len(want.Ws) {
		return "C03/" + checker + "/stale-state-suppresses", "a warning of the fresh run is missing after the history"
	}
	if len(got.Ws) > len(want.Ws) {
		return "C03/" + checker + "/stale-state-adds", "a warning absent from the fresh run appears after the history"
	}
	return "C03/" + checker + "/stale-state-changes", "same number of warnings, different position/text/fix"
}

func Run(tier string, seed int64, outDir string) *common.Meta {
	meta := &common.Meta{Property: "C03", Distribution: map[string]interface{}{}, CaseFiles: []string{}}
	t0 := time.Now()
	infos := fw.Infos()
	fset := token.NewFileSet()
	s1, err := fw.LoadS1(fset)
	common.Must(err)
	s2, err := fw.LoadS2(fset, outDir)
	common.Must(err)
	pkgs := append(append([]*fw.Pkg(nil), s1...), s2...)
	files := fw.AllFiles(pkgs)
	meta.Distribution["packages_S1"] = len(s1)
	meta.Distribution["packages_S2"] = len(s2)
	meta.Distribution["files"] = len(files)
	meta.Distribution["checkers"] = len(infos)
	meta.Notes = append(meta.Notes, fw.RulesNote)
	if !fw.RulesLoaded {
		meta.TieBroken = append(meta.TieBroken, "the dynamic ruleguard checker has no user rules: "+fw.RulesNote)
	}
	meta.Distribution["load_s"] = time.Since(t0).Seconds()
	if len(s1) < 50 || len(infos) < 60 {
		meta.TieBroken = append(meta.TieBroken, fmt.Sprintf("corpus or registry unexpectedly small: %d packages, %d checkers", len(s1), len(infos)))
	}

	// histories
	rng := common.NewRand(seed, "c03-histories")
	nShort, nLong, longLen := 24, 3, 120
	if tier == "thorough" {
		nShort, nLong, longLen = 400, 40, 400
	}
	var histories [][]*fw.File
	for i := 0; i < nShort; i++ {
		histories = append(histories, genHistory(rng, pkgs, 2+rng.Intn(11)))
	}
	for i := 0; i < nLong; i++ {
		histories = append(histories, genHistory(rng, pkgs, longLen))
	}
	// one CLI-shaped history: every package in path order, files in order (what `go-critic check ./...` does)
	histories = append(histories, files)
	// construction-directed: per-file context tables (imports, renames) must be rebuilt for EVERY file, so put an
	// import-less file (or one that imports less) right after a file whose import names occur as identifiers in it
	pairCap := 120
	if tier == "thorough" {
		pairCap = 2000
	}
	pairs := adjacentPairs(rng, files, pairCap)
	histories = append(histories, pairs)
	// derived context pairs (fw.writeContextPairs): the same texts in an ordinary and in an Example context, both orders
	var ctxp []*fw.File
	byPkgName := map[string]*fw.Pkg{}
	for _, p := range pkgs {
		byPkgName[p.Name] = p
	}
	if o, e := byPkgName["ctxord"], byPkgName["ctxex"]; o != nil && e != nil {
		ctxp = append(ctxp, o.Files[0], e.Files[0], o.Files[0])
		histories = append(histories, ctxp, []*fw.File{e.Files[0], o.Files[0], e.Files[0]})
	} else {
		meta.TieBroken = append(meta.TieBroken, "derived context-pair packages (ctxord/ctxex) are missing from the corpus")
	}
	meta.Distribution["adjacent_import_pairs"] = len(pairs) / 2

	// fresh results for every (checker, file) that occurs: computed once, in parallel
	fresh := fw.NewFreshCache()
	t1 := time.Now()
	used := map[*fw.File]bool{}
	var usedList []*fw.File
	for _, h := range histories {
		for _, f := range h {
			if !used[f] {
				used[f] = true
				usedList = append(usedList, f)
			}
		}
	}
	type job struct {
		info *linter.CheckerInfo
		f    *fw.File
	}
	var jobs []job
	for _, f := range usedList {
		for _, info := range infos {
			jobs = append(jobs, job{info, f})
		}
	}
	fw.Parallel(len(jobs), func(i int) { fresh.Get(jobs[i].info, jobs[i].f) })
	meta.Distribution["fresh_instances"] = fresh.Len()
	meta.Distribution["fresh_s"] = time.Since(t1).Seconds()

	// drive the long-lived sets
	t2 := time.Now()
	visits, nonEmpty, pkgSwitches := 0, 0, 0
	distinct := map[string]bool{}
	type failure struct {
		hist    int
		at      int
		checker int
		got     fw.Outcome
		prev    fw.Outcome
	}
	type ctxFailure struct {
		at        int
		got, want string
	}
	ctxFails := make([][]ctxFailure, len(histories))
	type walkerFailure struct {
		at, checker   int
		before, after string
	}
	walkerFails := make([][]walkerFailure, len(histories))
	fails := make([][]failure, len(histories))
	stats := make([][3]int, len(histories))
	// per-visit outcomes of the modelled visitors (input of the model execution, see model.go)
	modelled := map[int]string{}
	{
		names := map[string]bool{}
		for _, v := range absconv.Visitors(infos) {
			names[v.Name] = true
		}
		for ci, info := range infos {
			if names[info.Name] {
				modelled[ci] = info.Name
			}
		}
	}
	observed := make([][]map[string]fw.Outcome, len(histories))
	fw.Parallel(len(histories), func(hi int) {
		h := histories[hi]
		observed[hi] = make([]map[string]fw.Outcome, len(h))
		set, err := fw.NewSet(fset, infos)
		if err != nil {
			fails[hi] = append(fails[hi], failure{hi, -1, 0, fw.Outcome{Panic: "NewSet: " + err.Error()}, fw.Outcome{}})
			return
		}
		set.Ctx.Require.PkgRenames = true // integrator-side switch: lets the oracle watch the rename table as well
		walker0 := make([]string, len(set.Checkers))
		for ci, c := range set.Checkers {
			walker0[ci] = fw.WalkerState(c)
		}
		walkerReported := map[int]bool{}
		reported := map[int]bool{}
		ctxReported := false
		prev := make([]fw.Outcome, len(set.Checkers))
		for at, f := range h {
			if at > 0 && h[at-1].Pkg != f.Pkg {
				stats[hi][2]++
			}
			set.Enter(f, false)
			// the shared context itself: after SetPackageInfo/SetFileInfo it must look as if this were the first file ever
			if got, want := ctxView(set.Ctx), freshCtxView(set.Ctx, f); got != want && !ctxReported {
				ctxReported = true
				ctxFails[hi] = append(ctxFails[hi], ctxFailure{at, got, want})
			}
			for ci, c := range set.Checkers {
				got := fw.SafeCheck(c, f)
				stats[hi][0]++
				if name, ok := modelled[ci]; ok {
					if observed[hi][at] == nil {
						observed[hi][at] = map[string]fw.Outcome{}
					}
					observed[hi][at][name] = got
				}
				// walker protocol state (astwalk flags) must be back to its post-construction value after every file
				if ws := fw.WalkerState(c); ws != walker0[ci] && !walkerReported[ci] && got.Panic == "" {
					walkerReported[ci] = true
					walkerFails[hi] = append(walkerFails[hi], walkerFailure{at, ci, walker0[ci], ws})
				}
				if len(got.Ws) > 0 {
					stats[hi][1]++
				}
				if !got.Equal(fresh.Get(infos[ci], f)) && !reported[ci] {
					reported[ci] = true
					fails[hi] = append(fails[hi], failure{hi, at, ci, got, prev[ci]})
				}
				prev[ci] = got
			}
		}
	})
	for hi := range histories {
		visits += stats[hi][0]
		nonEmpty += stats[hi][1]
		pkgSwitches += stats[hi][2]
		for _, f := range histories[hi] {
			distinct[f.Path] = true
		}
	}
	meta.Distribution["history_s"] = time.Since(t2).Seconds()
	meta.Distribution["histories"] = len(histories)
	meta.Distribution["package_switches"] = pkgSwitches
	meta.Distribution["visits_with_warnings"] = nonEmpty
	meta.Evaluations = visits
	meta.Distinct = nonEmpty

	for hi := range walkerFails {
		for _, wf := range walkerFails[hi] {
			f := histories[hi][wf.at]
			meta.Fail("C03/"+infos[wf.checker].Name+"/walker-state-not-restored",
				fmt.Sprintf("%s: after Check(%s) the astwalk protocol state differs from its state after construction (it leaks into the next file)", infos[wf.checker].Name, f.ID()),
				map[string]interface{}{"checker": infos[wf.checker].Name, "file": f.Path, "source": string(f.Src), "state_after_construction": wf.before, "state_after_check": wf.after,
					"replay": "NewChecker(" + infos[wf.checker].Name + "); Check(file); inspect the walker's / WalkHandler's fields"})
		}
	}
	for hi := range ctxFails {
		for _, cf := range ctxFails[hi] {
			h := histories[hi]
			var prevDesc []visitDesc
			if cf.at > 0 {
				prevDesc = descs(h[cf.at-1 : cf.at+1])
			} else {
				prevDesc = descs(h[:1])
			}
			field := "context"
			for _, fl := range []string{"Filename", "PkgObjects", "PkgRenames"} {
				if fieldOf(cf.got, fl) != fieldOf(cf.want, fl) {
					field = fl
					break
				}
			}
			meta.Fail("C03/linter.Context/stale-"+field, "after SetPackageInfo+SetFileInfo the long-lived context differs from a new context prepared for the same file (field "+field+")",
				map[string]interface{}{"history_tail": prevDesc, "position_in_history": cf.at, "long_lived_context": cf.got, "fresh_context": cf.want,
					"replay": "NewContext once; SetPackageInfo/SetFileInfo for the two files in order; compare Filename/PkgObjects/PkgRenames with a new context that only saw the second file"})
		}
	}

	// report + shrink
	nFail := 0
	nondet := map[string]bool{}
	affected := map[string]bool{}
	for hi := range fails {
		for _, fl := range fails[hi] {
			nFail++
			if fl.at < 0 {
				meta.Fail("C03/harness/new-set", fl.got.Panic, nil)
				continue
			}
			info := infos[fl.checker]
			affected[info.Name] = true
			h := histories[hi][:fl.at+1]
			target := h[len(h)-1]
			want := fresh.Get(info, target)
			// like with like: if brand-new instances disagree among themselves on this file, the difference is
			// nondeterminism (C02's subject, reported there), not an effect of the history
			unstable, explains := fw.FreshUnstable(info, target, fl.got, want)
			if os.Getenv("VERIF_DEBUG") != "" {
				fmt.Fprintf(os.Stderr, "GUARD %s %s hist=%d at=%d unstable=%v explains=%v\n", info.Name, target.ID(), hi, fl.at, unstable, explains)
			}
			if unstable && explains {
				nondet[info.Name+" on "+target.ID()] = true
				continue
			}
			if os.Getenv("VERIF_DEBUG") != "" {
				fmt.Fprintf(os.Stderr, "DEBUG %s %s\n got=%v\n want=%v\n", info.Name, target.ID(), fw.Strs(fl.got.Ws), fw.Strs(want.Ws))
			}
			key, cls := classify(info.Name, fl.got, want, fl.prev)
			small := h
			// confirm on a single-checker set and shrink (keeps the witness honest: replayable in isolation)
			if bad, _ := replayOne(fset, info, h, want); bad {
				small = shrink(fset, info, h, want, 400)
			}
			_, gotSmall := replayOne(fset, info, small, want)
			meta.Fail(key, fmt.Sprintf("%s: %s (history of %d visits shrunk to %d)", info.Name, cls, len(h), len(small)),
				map[string]interface{}{"checker": info.Name, "history": descs(small), "after_history": fw.Strs(gotSmall.Ws), "after_history_panic": gotSmall.Panic,
					"fresh_instance": fw.Strs(want.Ws), "fresh_panic": want.Panic,
					"replay": "vh c03 (seed " + fmt.Sprint(seed) + "): NewChecker once, SetPackageInfo/SetFileInfo/Check for each visit in order; compare the last visit with a new instance"})
		}
	}
	// a stale buffer in linter.Checker itself shows up in (nearly) every checker that warns at all: name the common cause once
	if len(affected) > len(infos)/2 {
		meta.Fail("C03/linter.Checker/stale-warnings", fmt.Sprintf("%d of %d checkers are history dependent: the cause is in the shared linter.Checker / walker layer, not in one checker", len(affected), len(infos)), nil)
	}
	meta.Distribution["failing_checker_history_pairs"] = nFail
	for k := range nondet {
		meta.Notes = append(meta.Notes, "not counted as history dependence (fresh instances already disagree among themselves; see C02): "+k)
	}
	sort.Strings(meta.Notes)

	for i := 0; i < 3 && i < len(histories); i++ {
		h := histories[i]
		meta.AddSample(map[string]interface{}{"history": descs(h), "checkers": len(infos), "all_visits_equal_fresh": len(fails[i]) == 0})
	}

	// model execution: the Coq models of the modelled visitors over the same histories, converted file by file
	modelStream(meta, outDir, infos, histories, usedList, fresh, func(hi, at int, name string) (fw.Outcome, bool) {
		if observed[hi] == nil || observed[hi][at] == nil {
			return fw.Outcome{}, false
		}
		o, ok := observed[hi][at][name]
		return o, ok
	})

	// CLI: permuted and split package arguments; twin packages (same file names, same text) alone vs together
	curTier = tier
	cliStream(meta, tier, seed, s1)
	twinStream(meta, tier, seed, outDir, s1, s2)

	// go/analysis front-end: histories of passes (runs last: the analyzer rewrites the registered parameter cells)
	analyzerStream(meta, tier, seed, fset, s1, infos, fresh)

	meta.Rule = "histories = random sequences of (package, file) visits over S1 (every example package of /repo/checkers/testdata) + S2 (corpus/framework), " +
		"short (2..12 visits, new checker set each) and long walks, plus the CLI's own order over the whole corpus; every visit runs all registered checkers on ONE long-lived set " +
		"(NewContext + NewChecker once; SetPackageInfo on package change, SetFileInfo, Check) and is compared (offset, text, fix, panic) with a fresh context+checker that saw only that file; " +
		"evaluations = (visit, checker) pairs compared; distinct_nontrivial = those where the checker produced at least one warning"
	return meta
}

// ctxView renders the per-file part of the shared context (names only, so that two contexts can be compared).
func ctxView(c *linter.Context) string {
	var po, pr []string
	for k, v := range c.PkgObjects {
		path := ""
		if k != nil && k.Imported() != nil {
			path = k.Imported().Path()
		}
		po = append(po, v+"="+path)
	}
	sort.Strings(po)
	for k, v := range c.PkgRenames {
		pr = append(pr, k+"="+v)
	}
	sort.Strings(pr)
	return "Filename:" + c.Filename + "|PkgObjects:" + strings.Join(po, ",") + "|PkgRenames:" + strings.Join(pr, ",")
}

func fieldOf(view, field string) string {
	for _, part := range strings.Split(view, "|") {
		if strings.HasPrefix(part, field+":") {
			return part
		}
	}
	return ""
}

func freshCtxView(like *linter.Context, f *fw.File) string {
	ctx := linter.NewContext(f.Pkg.Fset, fw.Sizes)
	ctx.Require = like.Require
	ctx.SetPackageInfo(f.Pkg.Info, f.Pkg.Types)
	ctx.SetFileInfo(f.Name, f.AST)
	return ctxView(ctx)
}

// adjacentPairs returns f1,g1,f2,g2,...: g_i has no imports (or fewer than f_i) and uses identifiers that are
// import names of f_i — within one package where possible, across packages otherwise.
func adjacentPairs(rng *rand.Rand, files []*fw.File, max int) []*fw.File {
	importNames := func(f *fw.File) map[string]bool {
		m := map[string]bool{}
		for _, im := range f.AST.Imports {
			if im.Name != nil {
				m[im.Name.Name] = true
			} else {
				p := strings.Trim(im.Path.Value, "\"")
				if i := strings.LastIndex(p, "/"); i >= 0 {
					p = p[i+1:]
				}
				m[p] = true
			}
		}
		return m
	}
	idents := func(f *fw.File) map[string]bool {
		m := map[string]bool{}
		ast.Inspect(f.AST, func(n ast.Node) bool {
			if id, ok := n.(*ast.Ident); ok {
				m[id.Name] = true
			}
			return true
		})
		return m
	}
	type fi struct {
		f   *fw.File
		imp map[string]bool
		ids map[string]bool
	}
	var all []fi
	for _, f := range files {
		all = append(all, fi{f, importNames(f), idents(f)})
	}
	var out []*fw.File
	add := func(a, b *fw.File) { out = append(out, a, b) }
	// same package first
	for _, g := range all {
		for _, f := range all {
			if f.f == g.f || f.f.Pkg != g.f.Pkg || len(f.imp) <= len(g.imp) {
				continue
			}
			add(f.f, g.f)
		}
	}
	// across packages: an import name of f occurs as an identifier of g and is not an import of g
	var cross [][2]*fw.File
	for _, g := range all {
		if len(g.imp) > 2 {
			continue
		}
		for _, f := range all {
			if f.f.Pkg == g.f.Pkg {
				continue
			}
			hit := false
			for n := range f.imp {
				if g.ids[n] && !g.imp[n] {
					hit = true
					break
				}
			}
			if hit {
				cross = append(cross, [2]*fw.File{f.f, g.f})
			}
		}
	}
	rng.Shuffle(len(cross), func(i, j int) { cross[i], cross[j] = cross[j], cross[i] })
	for _, c := range cross {
		if len(out) >= 2*max {
			break
		}
		add(c[0], c[1])
	}
	if len(out) > 2*max {
		out = out[:2*max]
	}
	return out
}

func genHistory(rng *rand.Rand, pkgs []*fw.Pkg, n int) []*fw.File {
	var h []*fw.File
	for len(h) < n {
		p := pkgs[rng.Intn(len(pkgs))]
		switch rng.Intn(4) {
		case 0: // whole package in order (CLI shape)
			h = append(h, p.Files...)
		case 1: // same file twice in a row
			f := p.Files[rng.Intn(len(p.Files))]
			h = append(h, f, f)
		default:
			h = append(h, p.Files[rng.Intn(len(p.Files))])
		}
	}
	return h[:n]
}

// ---- CLI stream ----

// cliTimeout is the wall-clock limit of one CLI run. It is generous (a normal run takes a few seconds) and a run that
// exceeds it is retried once and then only NOTED: termination is C01's subject, and a limit hit because the machine is
// loaded says nothing about history independence.
func cliTimeout(tier string) time.Duration {
	if tier == "thorough" {
		return 20 * time.Minute
	}
	return 8 * time.Minute
}

var curTier = "quick"

func runCLI(dir string, pkgArgs []string) (lines []string, code int, err error) {
	args := append([]string{"check", "-enableAll"}, pkgArgs...)
	var out string
	for attempt := 0; attempt < 2; attempt++ {
		out, code, err = common.Run(cliTimeout(curTier), dir, common.GoEnv(), filepath.Join(common.BinDir(), "go-critic"), args...)
		if err == nil && code != -1 {
			break
		}
	}
	if err == nil && code == -1 {
		err = fmt.Errorf("killed by a signal (not by this harness): no observation")
	}
	if err != nil {
		return nil, code, err
	}
	for _, l := range strings.Split(out, "\n") {
		if strings.TrimSpace(l) != "" {
			lines = append(lines, l)
		}
	}
	return lines, code, nil
}

func cliStream(meta *common.Meta, tier string, seed int64, s1 []*fw.Pkg) {
	rng := common.NewRand(seed, "c03-cli")
	rounds, k := 1, 10
	if tier == "thorough" {
		rounds, k = 8, 12
	}
	runs := 0
	for r := 0; r < rounds; r++ {
		// packages that one go-critic process can load together (see fw.Batches), stateful checkers' own examples first
		pool := append([]*fw.Pkg(nil), s1...)
		rng.Shuffle(len(pool), func(i, j int) { pool[i], pool[j] = pool[j], pool[i] })
		if r == 0 {
			sort.SliceStable(pool, func(i, j int) bool { return pri(pool[i].Name) < pri(pool[j].Name) })
		}
		batch := fw.Batches(pool)[0]
		if len(batch) > k {
			batch = batch[:k]
		}
		var args []string
		for _, p := range batch {
			args = append(args, "./checkers/testdata/"+p.Name)
		}
		base, code0, err := runCLI(common.RepoDir, args)
		runs++
		if err != nil {
			meta.Notes = append(meta.Notes, fmt.Sprintf("CLI stage: go-critic check %v did not finish within the wall-clock limit twice (machine load? not a verdict of this property): %v", args, err))
			continue
		}
		if code0 != 0 && code0 != 1 {
			meta.Fail("C03/cli/run", fmt.Sprintf("go-critic check did not finish normally: exit=%d", code0), args)
			continue
		}
		sortedBase := append([]string(nil), base...)
		sort.Strings(sortedBase)
		// permutation
		p2 := append([]string(nil), args...)
		rng.Shuffle(len(p2), func(i, j int) { p2[i], p2[j] = p2[j], p2[i] })
		got, _, err := runCLI(common.RepoDir, p2)
		runs++
		if err == nil {
			s := append([]string(nil), got...)
			sort.Strings(s)
			if strings.Join(s, "\n") != strings.Join(sortedBase, "\n") {
				meta.Fail("C03/cli/argument-order", "sorted output changes when the package arguments are permuted", map[string]interface{}{"args": args, "permuted": p2, "diff": diffLines(sortedBase, s)})
			}
		}
		// split into groups (separate processes), union of outputs
		cut1 := 1 + rng.Intn(len(p2)-1)
		var union []string
		incomplete := false
		for _, grp := range [][]string{p2[:cut1], p2[cut1:]} {
			got, _, err := runCLI(common.RepoDir, grp)
			runs++
			if err != nil {
				meta.Notes = append(meta.Notes, fmt.Sprintf("CLI stage: go-critic check %v did not finish within the wall-clock limit twice (not a verdict): %v", grp, err))
				incomplete = true
			}
			union = append(union, got...)
		}
		sort.Strings(union)
		if !incomplete && strings.Join(union, "\n") != strings.Join(sortedBase, "\n") {
			meta.Fail("C03/cli/argument-grouping", "sorted output changes when the package arguments are split over two runs", map[string]interface{}{"args": args, "groups": [][]string{p2[:cut1], p2[cut1:]}, "diff": diffLines(sortedBase, union)})
		}
		if r == 0 {
			meta.AddSample(map[string]interface{}{"cli_args": args, "permuted": p2, "split_at": cut1, "diagnostic_lines": len(base)})
		}
		if len(base) == 0 {
			meta.Fail("C03/cli/run", "no diagnostics at all on example packages (stream would be vacuous)", args)
		}
	}
	meta.Distribution["cli_runs"] = runs
}

func pri(name string) int {
	switch name {
	case "ifElseChain", "dupCase", "typeDefFirst", "boolExprSimplify", "typeSwitchVar":
		return 0
	}
	return 1
}

func diffLines(a, b []string) []string {
	ma := map[string]int{}
	for _, l := range a {
		ma[l]++
	}
	var d []string
	for _, l := range b {
		if ma[l] > 0 {
			ma[l]--
		} else {
			d = append(d, "+ "+l)
		}
	}
	for l, n := range ma {
		for ; n > 0; n-- {
			d = append(d, "- "+l)
		}
	}
	sort.Strings(d)
	if len(d) > 12 {
		d = d[:12]
	}
	return d
}
