// Package c10: "simplification suggestions preserve program behaviour".
//
// Tie: generated boolean expressions are analysed by the real boolExprSimplify checker (public
// linter API); every expression is converted to a Model_Expr term and Coq compares the model's
// diagnostics (walk_exprs: which expressions are reported, with the exact suggestion text) with the
// observed ones.  The embedded rewrite rules are tied by comparing the model's rule table with the
// rule source shipped in checkers/rules/rules.go and by matching on generated programs.
//
// Oracle (never consults the model): compile-and-run differential execution of original vs suggested
// code over an input grid.
package c10

import (
	"fmt"
	"go/ast"
	"path/filepath"
	"regexp"
	"sort"
	"strings"

	"verifharness/internal/common"
	"verifharness/internal/coqfmt"
	"verifharness/internal/exprgen"
)

type boolCase struct {
	fn      string
	src     string
	flavour exprgen.Flavour
	term    string
	msgs    []string
}

var oracleOnlyRe = regexp.MustCompile(`\b(mc|mc2)\b|\bfa\[`)

var simplifyRe = regexp.MustCompile("^can simplify `(.*)` to `(.*)`$")

func Run(tier string, seed int64, outDir string) *common.Meta {
	meta := &common.Meta{Property: "C10", Distribution: map[string]interface{}{}}
	nExpr, nPairs := 1500, 800
	if tier == "thorough" {
		nExpr, nPairs = 24000, 6000
	}
	runBool(meta, seed, outDir, nExpr, nPairs)
	runRules(meta, tier, seed, outDir)
	runNewDeref(meta, outDir)
	runUnlambdaTie(meta, outDir)
	runSynthDiff(meta, outDir)
	runGenericBool(meta, seed, outDir)
	runPrimTie(meta, outDir)
	meta.Rule = "distinct_nontrivial = number of distinct generated expressions/programs on which the real checker emitted at least one diagnostic (each compared with the model's diagnostic text in Coq and executed differentially)"
	return meta
}

// ---------------------------------------------------------------- boolExprSimplify

func genBoolFuncs(meta *common.Meta, seed int64, n int) []*boolCase {
	r := common.NewRand(seed, "c10-bool")
	shapes := map[string]int{}
	var out []*boolCase
	seen := map[string]bool{}
	rejected := 0
	for len(out) < n {
		fl := exprgen.Flavour(r.Intn(int(exprgen.NFlavours)))
		g := &exprgen.G{R: r, Fl: fl, Shapes: shapes}
		e := g.BoolExpr()
		if seen[e] {
			continue
		}
		seen[e] = true
		// the generator is typed by construction except for constant-expression errors
		// (constant overflow, constant division by zero): those are rejected by go/types here
		probe := "package p\n" + exprgen.LintPreamble + "func f(" + exprgen.Params + ") bool { return " + e + " }\n"
		if _, err := exprgen.Load("p.go", probe); err != nil {
			rejected++
			if rejected > 20*n {
				panic("generator produces mostly ill-typed expressions: " + err.Error())
			}
			continue
		}
		out = append(out, &boolCase{fn: fmt.Sprintf("f%d", len(out)), src: e, flavour: fl})
	}
	meta.Distribution["bool_shapes_generated"] = shapes
	meta.Distribution["bool_rejected_by_typecheck"] = rejected
	return out
}

func runBool(meta *common.Meta, seed int64, outDir string, nExpr, nPairs int) {
	cases := genBoolFuncs(meta, seed, nExpr)
	var src strings.Builder
	src.WriteString("package p\n" + exprgen.LintPreamble)
	for _, c := range cases {
		fmt.Fprintf(&src, "func %s(%s) bool { return %s }\n", c.fn, exprgen.Params, c.src)
	}
	l, err := exprgen.Load("p.go", src.String())
	if err != nil {
		panic(err)
	}
	warns, err := l.Run("boolExprSimplify")
	if err != nil {
		panic(err)
	}
	byFn := map[string]*boolCase{}
	for _, c := range cases {
		byFn[c.fn] = c
	}
	for _, w := range warns {
		fn := l.FuncOf(w.Pos)
		c := byFn[fn]
		if c == nil {
			meta.TieBroken = append(meta.TieBroken, "boolExprSimplify warning outside generated functions: "+w.Text)
			continue
		}
		c.msgs = append(c.msgs, w.Text)
	}
	// convert
	conv := exprgen.NewConv(l.Info, l.File)
	for _, d := range l.File.Decls {
		fd, ok := d.(*ast.FuncDecl)
		if !ok || byFn[fd.Name.Name] == nil {
			continue
		}
		ret := fd.Body.List[0].(*ast.ReturnStmt).Results[0]
		if oracleOnlyRe.MatchString(byFn[fd.Name.Name].src) {
			// struct fields, array elements and complex operands are outside the model's fragment: these
			// expressions are executed by the differential oracle but not compared with the model
			byFn[fd.Name.Name].term = ""
			continue
		}
		t, err := conv.Expr(ret)
		if err != nil {
			panic(fmt.Sprintf("generated expression outside the model fragment: %s: %v", byFn[fd.Name.Name].src, err))
		}
		byFn[fd.Name.Name].term = t
		if !conv.FloatFlagsAgree(ret) {
			byFn[fd.Name.Name].term = ""
		}
	}
	// cases files
	const shards = 8
	hdr := "From GC Require Import Base Model_Expr Model_BoolSimp.\n" +
		"(* (expression, diagnostics of the real boolExprSimplify inside it, in emission order) *)\n" +
		"Definition case_ok (c : expr * list string) : bool :=\n" +
		"  is_bool_ty (typeof (fst c)) && list_eqb String.eqb (walk_exprs (fst c)) (snd c).\n" +
		"Definition cases : list (expr * list string) := [\n"
	bodies := make([][]string, shards)
	idx := make([][]string, shards)
	flagged := 0
	flDist := map[string]int{}
	ruleDist := map[string]int{}
	dropped := 0
	for i, c := range cases {
		if c.term == "" {
			dropped++
			continue
		}
		sh := i % shards
		bodies[sh] = append(bodies[sh], "("+c.term+", "+coqfmt.StrList(c.msgs)+")")
		idx[sh] = append(idx[sh], fmt.Sprintf("%s: %s => %q", c.flavour, c.src, c.msgs))
		flDist[c.flavour.String()]++
		if len(c.msgs) > 0 {
			flagged++
			if flagged <= 4 {
				meta.AddSample(map[string]interface{}{"checker": "boolExprSimplify", "expr": c.src, "diagnostics": c.msgs})
			}
		}
	}
	for sh := 0; sh < shards; sh++ {
		if len(bodies[sh]) == 0 {
			continue
		}
		name := fmt.Sprintf("cases_c10_bool_%d", sh)
		common.WriteFile(filepath.Join(outDir, name+".v"), hdr+strings.Join(bodies[sh], ";\n")+"\n].\nDefinition M := Eval vm_compute in mismatches case_ok cases.\nPrint M.\n")
		common.WriteFile(filepath.Join(outDir, name+".index.txt"), strings.Join(idx[sh], "\n")+"\n")
		meta.CaseFiles = append(meta.CaseFiles, name+".v")
	}
	meta.Evaluations += len(cases)
	meta.Distinct += flagged
	meta.Distribution["bool_flavours"] = flDist
	meta.Distribution["bool_flagged"] = flagged
	meta.Distribution["bool_dropped_untyped_float_context_or_oracle_only"] = dropped
	meta.Distribution["bool_model_constructors"] = conv.Stats

	// ---- oracle: compile and run original vs suggestion
	r := common.NewRand(seed, "c10-bool-grid")
	var dcs []*exprgen.DiffCase
	for _, c := range cases {
		for _, m := range c.msgs {
			sm := simplifyRe.FindStringSubmatch(m)
			if sm == nil {
				meta.Fail("C10/boolExprSimplify/message-format", "diagnostic does not have the documented shape", m)
				continue
			}
			ruleDist[classifyRewrite(sm[1], sm[2])]++
			if len(dcs) >= nPairs {
				continue
			}
			dcs = append(dcs, &exprgen.DiffCase{ID: len(dcs), Kind: "expr", Orig: sm[1], New: sm[2],
				Inputs: exprgen.Grid(r, sm[1], 160), Tag: c})
		}
	}
	meta.Distribution["bool_rewrite_kinds"] = ruleDist
	mm, evals, err := exprgen.RunDiff(filepath.Join(outDir, "diff_bool"), dcs)
	if err != nil {
		panic(err)
	}
	meta.Evaluations += evals
	meta.Distribution["bool_pairs_executed"] = len(dcs)
	meta.Distribution["bool_pair_evaluations"] = evals
	sort.SliceStable(mm, func(i, j int) bool { return len(mm[i].Case.Orig) < len(mm[j].Case.Orig) })
	for _, m := range mm {
		c := m.Case.Tag.(*boolCase)
		key := "C10/boolExprSimplify/" + defectClass(c, m.Case.Orig, m.Case.New)
		meta.Fail(key, fmt.Sprintf("`%s` => `%s` changes behaviour: original %s, suggestion %s", m.Case.Orig, m.Case.New, m.Orig, m.New),
			map[string]interface{}{"original": m.Case.Orig, "suggestion": m.Case.New, "input": m.Input, "original_result": m.Orig, "suggested_result": m.New,
				"flavour": c.flavour.String()})
	}
}

var nonDecimalRe = regexp.MustCompile(`\b0[0-9xXoObB_][0-9a-fA-F_]*\b|\b[0-9]+_[0-9_]*\b`)
var incdecRe = regexp.MustCompile(`[+-]\s*1\b`)

// defectClass attributes a failing rewrite to a stable class from the witness alone.  The generator
// never mixes float operands with non-decimal literal spellings (see exprgen.Flavour).
func defectClass(c *boolCase, orig, sugg string) string {
	switch {
	case c.flavour == exprgen.FlFloat && len(incdecRe.FindAllString(orig, -1)) > len(incdecRe.FindAllString(sugg, -1)):
		return "incdec-float"
	case c.flavour == exprgen.FlIntLit && nonDecimalRe.MatchString(orig) && (strings.Count(orig, "&&")+strings.Count(orig, "||") > strings.Count(sugg, "&&")+strings.Count(sugg, "||")):
		return "octal-bound"
	}
	return "unclassified-" + c.flavour.String()
}

// classifyRewrite: coarse histogram of what the checker did (for the evidence distribution only)
func classifyRewrite(orig, sugg string) string {
	var k []string
	if strings.Count(orig, "!") > strings.Count(sugg, "!") {
		k = append(k, "negation")
	}
	if strings.Count(orig, "&&")+strings.Count(orig, "||") > strings.Count(sugg, "&&")+strings.Count(sugg, "||") {
		k = append(k, "merge")
	}
	if len(incdecRe.FindAllString(orig, -1)) > len(incdecRe.FindAllString(sugg, -1)) {
		k = append(k, "incdec")
	}
	if len(k) == 0 {
		return "other"
	}
	return strings.Join(k, "+")
}
