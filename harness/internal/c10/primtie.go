package c10

import (
	"bytes"
	"fmt"
	"path/filepath"
	"strings"

	"verifharness/internal/common"
	"verifharness/internal/coqfmt"
)

// runPrimTie: the library functions the model gives Gallina definitions to are called IN PROCESS on a grid of
// byte strings (empty, repeated, overlapping, upper/lower case, non-ASCII and invalid UTF-8 where the model claims
// them) and Coq compares prim_apply with the observed results: a model function that misstates the Go function
// (LastIndex of the empty string, overlapping Replace, HasSuffix ...) breaks this tie.
func runPrimTie(meta *common.Meta, outDir string) {
	ascii := []string{"", "a", "A", "ab", "aB", "ba", "aa", "aaa", "abab", "Go", "gO", "a-b", "abcabc", "bc", "Z[", "z{", "@`"}
	raw := append(append([]string{}, ascii...), "é", "aé", "\xff", "a\xffb", "\xc3")
	var items, idx []string
	add := func(prim string, args []string, res string, desc string) {
		items = append(items, fmt.Sprintf("(%s, [%s], %s)", prim, strings.Join(args, "; "), res))
		idx = append(idx, desc)
	}
	vs := func(s string) string { return "VStr " + coqfmt.Str(s) }
	vb := func(s string) string { return "VBytes " + coqfmt.Str(s) }
	vi := func(n int) string { return fmt.Sprintf("VInt (%d)%%Z", n) }
	vbool := func(b bool) string { return fmt.Sprintf("VBool %v", b) }
	for _, s := range raw {
		for _, t := range raw {
			d := fmt.Sprintf("(%q, %q)", s, t)
			add("PStrIndex", []string{vs(s), vs(t)}, vi(strings.Index(s, t)), "strings.Index"+d)
			add("PStrLastIndex", []string{vs(s), vs(t)}, vi(strings.LastIndex(s, t)), "strings.LastIndex"+d)
			add("PStrContains", []string{vs(s), vs(t)}, vbool(strings.Contains(s, t)), "strings.Contains"+d)
			add("PStrHasPrefix", []string{vs(s), vs(t)}, vbool(strings.HasPrefix(s, t)), "strings.HasPrefix"+d)
			add("PStrHasSuffix", []string{vs(s), vs(t)}, vbool(strings.HasSuffix(s, t)), "strings.HasSuffix"+d)
			add("PStrCompare", []string{vs(s), vs(t)}, vi(strings.Compare(s, t)), "strings.Compare"+d)
			add("PBytesIndex", []string{vb(s), vb(t)}, vi(bytes.Index([]byte(s), []byte(t))), "bytes.Index"+d)
			add("PBytesLastIndex", []string{vb(s), vb(t)}, vi(bytes.LastIndex([]byte(s), []byte(t))), "bytes.LastIndex"+d)
			add("PBytesContains", []string{vb(s), vb(t)}, vbool(bytes.Contains([]byte(s), []byte(t))), "bytes.Contains"+d)
			add("PBytesCompare", []string{vb(s), vb(t)}, vi(bytes.Compare([]byte(s), []byte(t))), "bytes.Compare"+d)
			add("PBytesEqual", []string{vb(s), vb(t)}, vbool(bytes.Equal([]byte(s), []byte(t))), "bytes.Equal"+d)
			add("PBytesHasPrefix", []string{vb(s), vb(t)}, vbool(bytes.HasPrefix([]byte(s), []byte(t))), "bytes.HasPrefix"+d)
			add("PBytesHasSuffix", []string{vb(s), vb(t)}, vbool(bytes.HasSuffix([]byte(s), []byte(t))), "bytes.HasSuffix"+d)
		}
	}
	// the UTF-8 decoding functions: ASCII operands (the model answers None elsewhere, which is not compared)
	for _, s := range ascii {
		add("PStrToLower", []string{vs(s)}, "VStr "+coqfmt.Str(strings.ToLower(s)), fmt.Sprintf("strings.ToLower(%q)", s))
		add("PStrToUpper", []string{vs(s)}, "VStr "+coqfmt.Str(strings.ToUpper(s)), fmt.Sprintf("strings.ToUpper(%q)", s))
		for _, t := range ascii {
			d := fmt.Sprintf("(%q, %q)", s, t)
			add("PStrEqualFold", []string{vs(s), vs(t)}, vbool(strings.EqualFold(s, t)), "strings.EqualFold"+d)
			add("PBytesEqualFold", []string{vb(s), vb(t)}, vbool(bytes.EqualFold([]byte(s), []byte(t))), "bytes.EqualFold"+d)
			add("PStrIndexAny", []string{vs(s), vs(t)}, vi(strings.IndexAny(s, t)), "strings.IndexAny"+d)
			add("PStrContainsAny", []string{vs(s), vs(t)}, vbool(strings.ContainsAny(s, t)), "strings.ContainsAny"+d)
		}
	}
	// Replace / ReplaceAll: non-empty old (or old == new, or n == 0), every count
	small := []string{"", "a", "aa", "aaa", "abab", "ab", "ba", "b", "\xffa"}
	for _, s := range small {
		for _, o := range small {
			for _, n := range []string{"", "a", "b", "aa", "xy"} {
				if o == "" && o != n {
					continue // outside the fragment unless Go returns s at once
				}
				for _, k := range []int{-1, 0, 1, 2, 5} {
					if o == "" && k != 0 && o != n {
						continue
					}
					add("PStrReplace", []string{vs(s), vs(o), vs(n), vi(k)}, "VStr "+coqfmt.Str(strings.Replace(s, o, n, k)), fmt.Sprintf("strings.Replace(%q, %q, %q, %d)", s, o, n, k))
					add("PBytesReplace", []string{vb(s), vb(o), vb(n), vi(k)}, "VBytes "+coqfmt.Str(string(bytes.Replace([]byte(s), []byte(o), []byte(n), k))), fmt.Sprintf("bytes.Replace(%q, %q, %q, %d)", s, o, n, k))
				}
				add("PStrReplaceAll", []string{vs(s), vs(o), vs(n)}, "VStr "+coqfmt.Str(strings.ReplaceAll(s, o, n)), fmt.Sprintf("strings.ReplaceAll(%q, %q, %q)", s, o, n))
				add("PBytesReplaceAll", []string{vb(s), vb(o), vb(n)}, "VBytes "+coqfmt.Str(string(bytes.ReplaceAll([]byte(s), []byte(o), []byte(n)))), fmt.Sprintf("bytes.ReplaceAll(%q, %q, %q)", s, o, n))
			}
		}
	}
	const shards = 4
	hdr := "From GC Require Import Base Model_Expr.\n" +
		"(* (library function, arguments, the result the real function returned in the harness process) *)\n" +
		"Definition case_ok (c : prim * list value * value) : bool :=\n" +
		"  let '(p, args, r) := c in match prim_apply p args with Some (RVal v) => value_eqb v r | _ => false end.\n" +
		"Definition cases : list (prim * list value * value) := [\n"
	for sh := 0; sh < shards; sh++ {
		var b, ix []string
		for i := range items {
			if i%shards == sh {
				b = append(b, items[i])
				ix = append(ix, idx[i])
			}
		}
		name := fmt.Sprintf("cases_c10_prims_%d", sh)
		common.WriteFile(filepath.Join(outDir, name+".v"), hdr+strings.Join(b, ";\n")+"\n].\nDefinition M := Eval vm_compute in mismatches case_ok cases.\nPrint M.\n")
		common.WriteFile(filepath.Join(outDir, name+".index.txt"), strings.Join(ix, "\n")+"\n")
		meta.CaseFiles = append(meta.CaseFiles, name+".v")
	}
	meta.Evaluations += len(items)
	meta.Distribution["library_function_calls_compared_with_model"] = len(items)
}
