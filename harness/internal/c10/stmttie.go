package c10

import (
	"fmt"
	"go/ast"
	"path/filepath"
	"strings"

	"verifharness/internal/common"
	"verifharness/internal/coqfmt"
	"verifharness/internal/exprgen"
)

// runStmtTie: the generated uses of the statement rules (assignOp, valSwap, switchTrue) are converted to
// Model_Stmt terms and Coq compares the model's decision AND message text (assign_op_msgs, val_swap_msgs,
// switch_true_msgs) with what the real checkers reported on the same function bodies.  Bodies with operands
// outside the fragment (maps, pointers to arrays, strings elements ...) stay with the differential oracle only.
func runStmtTie(meta *common.Meta, outDir string, l *exprgen.Linted, progs []*ruleProg, obs map[string][]string) {
	which := map[string]string{"assignOp": "AO", "valSwap": "VS", "switchTrue": "ST"}
	byFn := map[string]*ruleProg{}
	for _, p := range progs {
		if _, ok := which[p.checker]; ok && p.kind == "stmts" {
			byFn[p.fn] = p
		}
	}
	conv := exprgen.NewConv(l.Info, l.File)
	var bodies, idx []string
	outside := map[string]int{}
	compared := map[string]int{}
	flagged := map[string]int{}
	shapes := map[string]int{}
	for _, d := range l.File.Decls {
		fd, ok := d.(*ast.FuncDecl)
		if !ok || byFn[fd.Name.Name] == nil {
			continue
		}
		p := byFn[fd.Name.Name]
		list := fd.Body.List
		// the trailing `_, _, ... = a, b, ...` keeps the parameters used
		if n := len(list); n > 0 {
			if as, ok := list[n-1].(*ast.AssignStmt); ok && len(as.Lhs) > 2 {
				list = list[:n-1]
			}
		}
		term, err := conv.Stmts(list)
		if err != nil {
			outside[p.checker]++
			continue
		}
		var msgs []string
		for _, m := range obs[p.fn] {
			msgs = append(msgs, strings.ReplaceAll(m, " ", ""))
		}
		compared[p.checker]++
		if len(msgs) > 0 {
			flagged[p.checker]++
		}
		for _, st := range list {
			shapes[fmt.Sprintf("%T", st)]++
		}
		bodies = append(bodies, fmt.Sprintf("(%s, %s, %s)", which[p.checker], term, coqfmt.StrList(msgs)))
		idx = append(idx, fmt.Sprintf("%s: %s => %q", p.checker, strings.ReplaceAll(p.body, "\n", " "), obs[p.fn]))
	}
	const shards = 2
	hdr := "From GC Require Import Base Model_Expr Model_BoolSimp Model_Claims Model_Stmt.\n" +
		"Inductive which := AO | VS | ST.\n" +
		"(* (rule group, the statements of the function body, the real checker's messages with blanks removed) *)\n" +
		"Definition model_msgs (w : which) (l : list stmt) : list string :=\n" +
		"  map strip_spaces match w with AO => flat_map assign_op_msgs l | VS => val_swap_msgs l | ST => flat_map switch_true_msgs l end.\n" +
		"Definition case_ok (c : which * list stmt * list string) : bool := let '(w, l, obs) := c in list_eqb String.eqb (model_msgs w l) obs.\n" +
		"Definition cases : list (which * list stmt * list string) := [\n"
	for sh := 0; sh < shards; sh++ {
		var b, ix []string
		for i := range bodies {
			if i%shards == sh {
				b = append(b, bodies[i])
				ix = append(ix, idx[i])
			}
		}
		if len(b) == 0 {
			continue
		}
		name := fmt.Sprintf("cases_c10_stmt_%d", sh)
		common.WriteFile(filepath.Join(outDir, name+".v"), hdr+strings.Join(b, ";\n")+"\n].\nDefinition M := Eval vm_compute in mismatches case_ok cases.\nPrint M.\n")
		common.WriteFile(filepath.Join(outDir, name+".index.txt"), strings.Join(ix, "\n")+"\n")
		meta.CaseFiles = append(meta.CaseFiles, name+".v")
	}
	meta.Evaluations += len(bodies)
	meta.Distribution["stmt_tie_compared"] = compared
	meta.Distribution["stmt_tie_flagged"] = flagged
	meta.Distribution["stmt_tie_outside_fragment"] = outside
	meta.Distribution["stmt_tie_statement_kinds"] = shapes
	meta.Distribution["stmt_tie_model_constructors"] = conv.Stats
}
