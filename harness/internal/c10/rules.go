package c10

import (
	"fmt"
	"go/ast"
	"go/parser"
	"go/token"
	"go/types"
	"os"
	"path/filepath"
	"regexp"
	"sort"
	"strconv"
	"strings"

	"github.com/go-critic/go-critic/checkers/rulesdata"
	"github.com/go-critic/go-critic/linter"
	"github.com/quasilyte/go-ruleguard/ruleguard/ir"

	"verifharness/internal/common"
	"verifharness/internal/coqfmt"
	"verifharness/internal/exprgen"
	"verifharness/internal/valdiff"
)

// rule groups of checkers/rules/rules.go whose diagnostics promise an equivalent rewrite and that
// Model_Rewrites covers (source text tie) and the differential oracle executes
var coveredGroups = []string{"sloppyLen", "emptyStringTest", "stringXbytes", "wrapperFunc", "assignOp", "switchTrue", "unslice",
	"stringsCompare", "yodaStyleExpr", "valSwap", "stringConcatSimplify", "timeExprSimplify", "offBy1", "equalFold"}

type shippedRule struct {
	group    string
	patterns []string
	where    string
	suggest  string
	report   string
}

// extractRules reads the rule source the embedded checkers are generated from.
func extractRules(path string) ([]shippedRule, error) {
	src, err := os.ReadFile(path)
	if err != nil {
		return nil, err
	}
	fset := token.NewFileSet()
	f, err := parser.ParseFile(fset, path, src, 0)
	if err != nil {
		return nil, err
	}
	text := func(n ast.Node) string {
		return string(src[fset.Position(n.Pos()).Offset:fset.Position(n.End()).Offset])
	}
	lit := func(e ast.Expr) string {
		if bl, ok := e.(*ast.BasicLit); ok && bl.Kind == token.STRING {
			if s, err := strconv.Unquote(bl.Value); err == nil {
				return s
			}
		}
		return text(e)
	}
	covered := map[string]bool{}
	for _, g := range coveredGroups {
		covered[g] = true
	}
	var out []shippedRule
	for _, d := range f.Decls {
		fd, ok := d.(*ast.FuncDecl)
		if !ok || !covered[fd.Name.Name] {
			continue
		}
		for _, st := range fd.Body.List {
			es, ok := st.(*ast.ExprStmt)
			if !ok {
				continue
			}
			r := shippedRule{group: fd.Name.Name}
			isRule := false
			at := ""
			var cur ast.Expr = es.X
			for {
				call, ok := cur.(*ast.CallExpr)
				if !ok {
					break
				}
				sel, ok := call.Fun.(*ast.SelectorExpr)
				if !ok {
					break
				}
				switch sel.Sel.Name {
				case "Match":
					isRule = true
					for _, a := range call.Args {
						r.patterns = append(r.patterns, lit(a))
					}
				case "Where":
					r.where = strings.Join(strings.Fields(text(call.Args[0])), " ")
				case "Suggest":
					r.suggest = lit(call.Args[0])
				case "Report":
					r.report = lit(call.Args[0])
				case "At":
					at = " @At(" + text(call.Args[0]) + ")"
				}
				cur = sel.X
			}
			r.where += at
			if isRule {
				out = append(out, r)
			}
		}
	}
	return out, nil
}

// executedRules reads the same table from the precompiled IR that the embedded checkers actually execute
// (checkers/rulesdata.PrecompiledRules): a rule whose data drifted from rules.go shows up here.
func executedRules() []shippedRule {
	covered := map[string]bool{}
	for _, g := range coveredGroups {
		covered[g] = true
	}
	var out []shippedRule
	for _, g := range rulesdata.PrecompiledRules.RuleGroups {
		if !covered[g.Name] {
			continue
		}
		for _, r := range g.Rules {
			sr := shippedRule{group: g.Name, suggest: r.SuggestTemplate, report: r.ReportTemplate}
			for _, p := range r.SyntaxPatterns {
				sr.patterns = append(sr.patterns, p.Value)
			}
			sr.where = strings.Join(strings.Fields(r.WhereExpr.Src), " ")
			if r.LocationVar != "" {
				sr.where += " @At(m[\"" + r.LocationVar + "\"])"
			}
			out = append(out, sr)
		}
	}
	return out
}

func (r shippedRule) coq() string {
	return fmt.Sprintf("{| r_group := %s; r_patterns := %s; r_where := %s; r_suggest := %s; r_report := %s |}",
		coqfmt.Str(r.group), coqfmt.StrList(r.patterns), coqfmt.Str(r.where), coqfmt.Str(r.suggest), coqfmt.Str(r.report))
}

// one generated use of a rule
type ruleProg struct {
	fn      string
	checker string
	kind    string // "expr" | "stmts"
	body    string
	spec    int // index into ruleSpecs
}

type ruleSpec struct {
	checker string
	kind    string
	gen     func(p func(...string) string) string
	// rewrite derives (original, replacement) from a diagnostic; ok=false: the diagnostic makes no equivalence claim
	rewrite func(l *exprgen.Linted, w linter.Warning, body string) (orig, repl string, ok bool)
	class   func(orig, repl string) string
	// classIn, when set, attributes a failing rewrite using the failing input as well
	classIn func(orig string, in exprgen.Input) string
	weight  int // how many instances relative to the default (0 = 1)
	// fixed: instances every run contains (the boundary questions of the matcher: how the literal 1 is matched,
	// which operand forms count as $x), besides the sampled ones
	fixed []string
}

var (
	canBeRe      = regexp.MustCompile("^(.*) can be (.*)$")
	replaceRe    = regexp.MustCompile("^replace `(.*)` with `(.*)`$")
	simplifyToRe = regexp.MustCompile("^could simplify (.*) to (.*)$")
	useInsteadRe = regexp.MustCompile("^use (.*) instead of (.*)$")
	yodaRe       = regexp.MustCompile("^consider to change order in expression to (.*)$")
	swapRe       = regexp.MustCompile("^can re-write as `(.*)`$")
	swapStmtsRe  = regexp.MustCompile(`tmp := [^;]+; [^;]+; [^;]+ = tmp`)
	deferRe      = regexp.MustCompile("^can rewrite as `(.*)`$")
	useMethodRe  = regexp.MustCompile("^use (.*) method in `(.*)`$")
)

func fromQuickFix(l *exprgen.Linted, w linter.Warning, _ string) (string, string, bool) {
	if !w.HasQuickFix() {
		return "", "", false
	}
	from := l.Fset.Position(w.Suggestion.From).Offset
	to := l.Fset.Position(w.Suggestion.To).Offset
	return l.Src[from:to], string(w.Suggestion.Replacement), true
}

func fromRegexp(re *regexp.Regexp, origIdx, replIdx int) func(*exprgen.Linted, linter.Warning, string) (string, string, bool) {
	return func(_ *exprgen.Linted, w linter.Warning, _ string) (string, string, bool) {
		m := re.FindStringSubmatch(w.Text)
		if m == nil || m[origIdx] == m[replIdx] {
			// "could simplify X to X": go/printer drops the parentheses around parameter types, the
			// message shows no rewrite that could be executed
			return "", "", false
		}
		return m[origIdx], m[replIdx], true
	}
}

func impure(s string) bool { return impureRe.MatchString(s) }

var impureRe = regexp.MustCompile(`\b(fi|gi|hi|fu|ff|hf|fs|fb|fbs|fxs)\(`)

func classPurity(orig, _ string) string {
	if impure(orig) {
		return "impure-operand"
	}
	return "unclassified"
}

var tsRe = regexp.MustCompile(`tS(\d+)\(`)

// fmtOperand: operands for the fmt-related rewrite rules: plain strings, and defined string types with every
// subset of the methods fmt consults (String, Error, Format, GoString), a pointer with a String method, nil
func fmtOperand(p func(...string) string) string {
	if p("plain", "cat", "cat", "cat") == "plain" {
		return p("s", "fs()", "ms", "string(bs)", `"a%b"`, "(&pS{s})", "(*pS)(nil)", "a", "p")
	}
	k := p("0", "1", "2", "3", "4", "5", "6", "7", "8", "9", "10", "11", "12", "13", "14", "15")
	return "tS" + k + "(" + p("s", `"x"`, "fs()") + ")"
}

// fmtClass names the cause: which method of the operand fmt consults before the one the rewrite relies on
func fmtClass(orig, repl string) string {
	viaString := strings.HasSuffix(strings.TrimSpace(repl), ".String()") || strings.Contains(repl, ".String())")
	if m := tsRe.FindStringSubmatch(orig); m != nil {
		k, _ := strconv.Atoi(m[1])
		switch {
		case viaString && k&4 != 0:
			return "formatter-before-stringer"
		case viaString && k&2 != 0:
			return "error-before-stringer"
		case !viaString && k != 0:
			return "defined-string-with-methods"
		}
		return "defined-string-" + exprgen.FmtMethods(k)
	}
	switch {
	case strings.Contains(orig, "(*pS)(nil)"):
		return "nil-pointer-stringer"
	case strings.Contains(orig, "pS{"):
		return "pointer-stringer"
	}
	return classPurity(orig, "")
}

// deferUnlambda: `defer func() { f(args) }()` => `defer f(args)` evaluates f when the defer statement runs
var deferSpecs = []ruleSpec{
	{checker: "deferUnlambda", kind: "stmts",
		gen: func(p func(...string) string) string {
			// callee forms: a declared function, a package-qualified function, a func-typed variable, a method of
			// a pointer variable, a func-typed field reached through a pointer variable — each with and without
			// a re-assignment of the variable between the defer statement and the function's end
			re := func(stmt string) string {
				if p("y", "y", "n") == "y" {
					return "; " + stmt
				}
				return ""
			}
			switch p("var", "var", "pkgfn", "late", "ptrmeth", "ptrmeth2", "ptrfield", "qual") {
			case "ptrmeth":
				return "func() { wp := w; defer func() { wp.flush() }()" + re("wp = &wr{}") + " }()"
			case "ptrmeth2":
				return "func() { wp := w; defer func() { wp.refill() }()" + re("wp = &wr{avail: 3}") + " }()"
			case "ptrfield":
				return "func() { ob := &obj{f: hi}; defer func() { ob.f(1) }()" + re("ob = &obj{f: hj}") + " }()"
			case "qual":
				return "func() { defer func() { strings.ToUpper(\"a\") }(); c = 2 }()"
			case "pkgfn":
				return "func() { defer func() { setG() }(); gxs = nil }(); c = len(gxs)"
			case "late":
				return "cl := func() { c = 1 }; func() { defer func() { cl() }(); cl = func() { c = 7 } }()"
			}
			return "var cl func(); func() { defer func() { cl() }(); cl = func() { c = 7 } }()"
		},
		rewrite: func(l *exprgen.Linted, w linter.Warning, body string) (string, string, bool) {
			m := deferRe.FindStringSubmatch(w.Text)
			orig := regexp.MustCompile(`defer func\(\) \{ [^}]*\}\(\)`).FindString(body)
			if m == nil || orig == "" {
				return "", "", false
			}
			return orig, m[1], true
		},
		class: func(orig, _ string) string {
			if strings.Contains(orig, "cl = func()") {
				return "func-variable-evaluated-at-defer"
			}
			if strings.Contains(orig, "wp.") || strings.Contains(orig, "ob.f(") {
				return "receiver-variable-evaluated-at-defer"
			}
			return "unclassified"
		}},
}

// rules rewriting fmt calls (oracle only): the result depends on the operand's method set
var fmtSpecs = []ruleSpec{
	{checker: "redundantSprint", kind: "expr", weight: 4,
		gen: func(p func(...string) string) string {
			x := fmtOperand(p)
			return p("fmt.Sprint("+x+")", `fmt.Sprintf("%s", `+x+")", `fmt.Sprintf("%v", `+x+")")
		},
		rewrite: fromQuickFix, class: fmtClass},
	{checker: "preferFprint", kind: "stmts", weight: 2,
		gen: func(p func(...string) string) string {
			x := fmtOperand(p)
			call := p("fmt.Sprint("+x+", a)", `fmt.Sprintf("%v|%s", `+x+", t)", "fmt.Sprintln("+x+")")
			switch p("w", "io", "ws") {
			case "w":
				return "bw := &bytes.Buffer{}; bw.Write([]byte(" + call + ")); s = bw.String()"
			case "ws":
				return "bw := &bytes.Buffer{}; bw.WriteString(" + call + "); s = bw.String()"
			}
			return "bw := &strings.Builder{}; bw.WriteString(" + call + "); s = bw.String()"
		},
		rewrite: fromQuickFix, class: fmtClass},
}

// hand-written checkers whose diagnostics promise an equivalent rewrite (oracle only)
var handSpecs = []ruleSpec{
	{checker: "underef", kind: "stmts",
		gen: func(p func(...string) string) string {
			switch p("a", "s", "w", "i") {
			case "a":
				return "pa := &[3]int{a, b, c}; c = (*pa)[" + p("0", "1", "a") + "] + 1"
			case "s":
				return "ps := &st{a}; c = (*ps).n + b"
			case "w":
				return "ps := &st{a}; (*ps).n = b; c = ps.n"
			}
			return "pa := &[3]int{a, b, c}; (*pa)[" + p("0", "2", "fi()") + "] = 7; c = pa[0] + pa[2]"
		},
		rewrite: fromRegexp(simplifyToRe, 1, 2), class: classPurity},
	{checker: "newDeref", kind: "stmts",
		gen: func(p func(...string) string) string {
			return p("c = *new(int) + a", "p = *new(float64) + q", "s = *new(string) + t", "k = *new(bool) || l", "u = *new(uint) + v",
				"xs = *new([]int)", "var z st = *new(st); c = z.n", "c = int(*new(int32)) + a", "p = float64(*new(float32))", "c = len(*new([2]int))",
				"c = len(*new(map[string]int))", "var pp *int = *new(*int); k = pp == nil")
		},
		rewrite: fromRegexp(replaceRe, 1, 2), class: classPurity},
	{checker: "typeUnparen", kind: "stmts",
		gen: func(p func(...string) string) string {
			return p("var z (int) = a; c = z", "var zz [](int) = xs; c = len(zz)", "f := func(x (int)) int { return x + 1 }; c = f(a)",
				"var z *(int) = &a; c = *z + 1", "var m map[(string)]int; c = len(m)", "c = int((uint)(u))")
		},
		rewrite: fromRegexp(simplifyToRe, 1, 2), class: classPurity},
	{checker: "unlambda", kind: "stmts", weight: 2,
		// callee forms: package function, package-qualified function, method value of a struct variable /
		// of a pointer variable, func-typed struct field (value and pointer), func-typed package variable,
		// func-typed local captured by reference — each optionally followed by a reassignment of what the
		// callee expression reads, before the function value is called
		gen: func(p func(...string) string) string {
			re := func(stmt string) string { // reassignment or not
				if p("y", "y", "n") == "y" {
					return stmt + "; "
				}
				return ""
			}
			switch p("pkg", "sel", "mv", "mp", "fv", "fp", "gv", "lv", "lv0", "var", "var2") {
			case "var": // the variadic argument is not the parameter itself
				return "f := func(ys ...int) int { return vsum(rev(ys)...) }; c = f(a, b, 7)"
			case "var2":
				return "f := func(ys ...int) int { return vsum(ys...) }; c = f(a, b, 7)"
			case "pkg":
				return "f := func(x int) int { return hi(x) }; c = f(a) + f(b)"
			case "sel":
				return "f := func(x string) string { return strings.ToUpper(x) }; s = f(t)"
			case "mv":
				return "sv := st{a}; f := func(x int) int { return sv.add(x) }; " + re("sv.n = "+p("b", "a + 1", "7")) + "c = f(1)"
			case "mp":
				return "ps := &st{a}; f := func(x int) int { return ps.add(x) }; " + re(p("ps = &st{b}", "ps.n = b")) + "c = f(1)"
			case "fv":
				return "ob := obj{f: hi}; f := func(x int) int { return ob.f(x) }; " + re(p("ob.f = hj", "ob = obj{f: hj}")) + "c = f(a)"
			case "fp":
				return "ob := &obj{f: hi}; f := func(x int) int { return ob.f(x) }; " + re(p("ob.f = hj", "ob = &obj{f: hj}")) + "c = f(a)"
			case "gv":
				return "gf = hi; f := func(x int) int { return gf(x) }; " + re("gf = hj") + "c = f(a)"
			case "lv0":
				return "f := func() int { return fi() }; c = f() + f()"
			}
			return "lf := hi; f := func(x int) int { return lf(x) }; " + re("lf = hj") + "c = f(a)"
		},
		rewrite: fromRegexp(replaceRe, 1, 2),
		class: func(orig, _ string) string {
			switch {
			case strings.Contains(orig, "sv.add"):
				return "method-value-capture"
			case strings.Contains(orig, "ob.f("):
				return "func-field-callee"
			case strings.Contains(orig, "gf(x)") || strings.Contains(orig, "lf(x)"):
				return "func-variable-callee"
			case strings.Contains(orig, "ps.add"):
				return "pointer-method-value"
			case strings.Contains(orig, "(ys)..."):
				return "variadic-argument-not-parameter"
			}
			return classPurity(orig, "")
		}},
}

// wrapperFunc's strings.Cut rules match statement SEQUENCES; the quick fix carries a `{ ... }` placeholder, so the
// replacement the message describes is built here.  Separators of every length (the rewrite keeps `$s[$i+1:]`
// = everything after the FIRST BYTE of the separator; Cut returns what follows the whole separator).
var cutSeps = []string{`","`, `"="`, `", "`, `"::"`, `"abc"`, `"é"`, "t"}

func cutBody(form, sep string, cut bool) string {
	switch form {
	case "if", "ifge":
		cond := "i != -1"
		if form == "ifge" {
			cond = "i >= 0"
		}
		if cut {
			return "var x1, y1 string; var ok bool; if x1, y1, ok = strings.Cut(s, " + sep + "); ok { c = 1 }; s, t = x1, y1"
		}
		return "var x1, y1 string; if i := strings.Index(s, " + sep + "); " + cond + " { x1, y1 = s[:i], s[i+1:]; c = 1 }; s, t = x1, y1"
	}
	// the unguarded sequence, on a string that contains the separator
	if cut {
		return "var x1, y1 string; s2 := s + " + sep + " + s; x1, y1, _ = strings.Cut(s2, " + sep + "); s, t = x1, y1"
	}
	return "var x1, y1 string; s2 := s + " + sep + " + s; i := strings.Index(s2, " + sep + "); x1, y1 = s2[:i], s2[i+1:]; s, t = x1, y1"
}

var cutSpec = ruleSpec{checker: "wrapperFunc", kind: "stmts",
	gen: func(p func(...string) string) string {
		return cutBody(p("if", "ifge", "seq"), p(cutSeps...), false)
	},
	rewrite: func(l *exprgen.Linted, w linter.Warning, body string) (string, string, bool) {
		if !strings.Contains(w.Text, "strings.Cut(") {
			return "", "", false
		}
		for _, form := range []string{"if", "ifge", "seq"} {
			for _, sep := range cutSeps {
				if cutBody(form, sep, false) == body {
					return body, cutBody(form, sep, true), true
				}
			}
		}
		return "", "", false
	},
	class: func(orig, _ string) string { return "unclassified" },
	classIn: func(orig string, in exprgen.Input) string {
		sep := in.T
		for _, lit := range cutSeps {
			if lit != "t" && strings.Contains(orig, ", "+lit+")") {
				sep, _ = strconv.Unquote(lit)
			}
		}
		if !strings.Contains(orig, "s2 :=") && !strings.Contains(in.S, sep) {
			// `if x, y, ok = strings.Cut(s, sep); ok {` assigns x = s, y = "" before ok is looked at
			return "cut-assigns-when-separator-absent"
		}
		if len(sep) != 1 {
			return "cut-separator-not-one-byte"
		}
		return "unclassified"
	}}

var ruleSpecs = append([]ruleSpec{cutSpec,
	{checker: "sloppyLen", kind: "expr",
		gen: func(p func(...string) string) string {
			return "len(" + p("s", "xs", "bs", "fs()", "fxs()", "s + t", "ms", "mi", "mm", "ma", "pa", "w.buf") + ") " + p("<= 0", "<= 0", "<= 00")
		},
		rewrite: func(l *exprgen.Linted, w linter.Warning, b string) (string, string, bool) {
			if strings.Contains(w.Text, " is always ") {
				return "", "", false
			}
			return fromRegexp(canBeRe, 1, 2)(l, w, b)
		}, class: classPurity},
	{checker: "emptyStringTest", kind: "expr",
		gen: func(p func(...string) string) string {
			return "len(" + p("s", "t", "fs()", "s + t", "string(bs)", "ms", "mm[0]", "string(ms)") + ") " + p("!= 0", "> 0", "== 0", "<= 0")
		},
		rewrite: fromRegexp(replaceRe, 1, 2), class: classPurity},
	{checker: "stringXbytes", kind: "expr",
		gen: func(p func(...string) string) string {
			b := func() string { return p("bs", "fbs()", "[]byte(s)", "bs[:]") }
			switch p("a", "b", "c", "d", "e") {
			case "a":
				return "string(" + b() + ") == \"\""
			case "b":
				return "string(" + b() + ") != \"\""
			case "c":
				return "len(string(" + b() + ")) + a"
			case "d":
				return "string(" + b() + ") == string(" + b() + ")"
			}
			return "string(" + b() + ") != string(" + b() + ")"
		},
		rewrite: fromQuickFix, class: classPurity},
	{checker: "wrapperFunc", kind: "expr",
		gen: func(p func(...string) string) string {
			s := func() string { return p("s", "t", "fs()", `"ab"`, "s + t", `""`) }
			switch p("s", "s", "b", "b", "any", "repl", "brepl") {
			case "s":
				return "strings.Index(" + s() + ", " + s() + ") " + p(">= 0", "!= -1")
			case "any":
				return "strings.IndexAny(" + s() + ", " + s() + ") " + p(">= 0", "!= -1")
			case "repl":
				return "strings.Replace(" + s() + ", " + s() + ", " + s() + ", -1)"
			case "brepl":
				bb := func() string { return p("bs", "fbs()", "[]byte(s)", `[]byte("a")`) }
				return "string(bytes.Replace(" + bb() + ", " + bb() + ", " + bb() + ", -1))"
			}
			b := func() string { return p("bs", "fbs()", "[]byte(s)", `[]byte("a")`) }
			return "bytes.Index(" + b() + ", " + b() + ") " + p(">= 0", "!= -1")
		},
		rewrite: func(l *exprgen.Linted, w linter.Warning, body string) (string, string, bool) {
			if o, n, ok := fromQuickFix(l, w, body); ok {
				return o, n, ok
			}
			// the Report-only wrappers name the function to use: `X.Replace(a, b, c, -1)` => `X.ReplaceAll(a, b, c)`
			if m := useMethodRe.FindStringSubmatch(w.Text); m != nil && strings.HasSuffix(m[1], ".ReplaceAll") {
				orig := m[2]
				if i := strings.Index(orig, ".Replace("); i >= 0 && strings.HasSuffix(orig, ", -1)") {
					return orig, orig[:i] + ".ReplaceAll(" + strings.TrimSuffix(orig[i+len(".Replace("):], ", -1)") + ")", true
				}
			}
			return "", "", false
		}, class: classPurity},
	{checker: "stringsCompare", kind: "expr",
		gen: func(p func(...string) string) string {
			s := func() string { return p("s", "t", "fs()", `"ab"`, "s + t", `"é"`) }
			return "strings.Compare(" + s() + ", " + s() + ") " + p("== 0", "== -1", "< 0", "== 1", "> 0")
		},
		rewrite: fromQuickFix, class: classPurity},
	{checker: "yodaStyleExpr", kind: "expr",
		gen: func(p func(...string) string) string {
			switch p("i", "f", "s") {
			case "i":
				return p("1", "0", "7", "010") + " " + p("!=", "==") + " " + p("a", "fi()", "a + b", "xs[a]", "len(s)", "mi[0]", "ma[a]", "int(u)")
			case "f":
				return p("1.5", "0.0", "2") + " " + p("!=", "==") + " " + p("p", "ff()", "p + q")
			}
			return p(`"a"`, `""`, "`ab`") + " " + p("!=", "==") + " " + p("s", "fs()", "s + t", "ms", "mm[0]")
		},
		rewrite: func(l *exprgen.Linted, w linter.Warning, body string) (string, string, bool) {
			m := yodaRe.FindStringSubmatch(w.Text)
			if m == nil {
				return "", "", false
			}
			return body, m[1], true
		}, class: classPurity},
	{checker: "stringConcatSimplify", kind: "expr",
		gen: func(p func(...string) string) string {
			s := func() string { return p("s", "t", "fs()", `"a"`, "s", "string(fbs())") }
			switch p("2", "3", "g", "g") {
			case "2":
				return "strings.Join([]string{" + s() + ", " + s() + `}, "")`
			case "3":
				return "strings.Join([]string{" + s() + ", " + s() + ", " + s() + `}, "")`
			}
			return "strings.Join([]string{" + s() + ", " + p("string(fbs())", "fs()", "t", "string(fbs())") + "}, " + p(`"-"`, "t", "fs()", "fs()", "s") + ")"
		},
		rewrite: fromQuickFix,
		class: func(orig, _ string) string {
			if len(impureRe.FindAllString(orig, -1)) >= 2 {
				return "eval-order"
			}
			return "unclassified"
		}},
	{checker: "timeExprSimplify", kind: "expr",
		gen: func(p func(...string) string) string {
			return p("tm.Unix() / 1000", "tm.UnixNano() * 1000", "tm.Unix()/1000 + 1", "(&tm).Unix() / 1000")
		},
		rewrite: fromQuickFix,
		class: func(orig, _ string) string {
			if strings.Contains(orig, "UnixNano") {
				return "unixnano-mul"
			}
			return "unix-div"
		}},
	{checker: "unslice", kind: "expr",
		gen: func(p func(...string) string) string {
			// operands of every sliceable kind; the value itself is observed (a slice of an array or of a pointer
			// to an array is not the operand)
			return p("s[:]", "xs[:]", "bs[:]", "fs()[:]", "fxs()[:]", "(s + t)[:]", "len(xs[:])", "ms[:]", "mi[:]", "len(ma[:])", "len(pa[:])", "w.buf[:]", "mm[1][:]",
				"pa[:]", "ma[:]", "(&ma)[:]", "append(pa[:], 4)", "cap(ma[:]) + a")
		},
		rewrite: fromQuickFix, class: classPurity},
	{checker: "assignOp", kind: "stmts", weight: 5,
		fixed: []string{"a = a + 0x1", "a = a - 01", "a = a + 0b1", "a = a + 1_0", "p = p + 1.0", "p = p + 1", "p = p - 0x1", "mf = mf + 1", "mf = mf - 1",
			"w.avail = w.avail - 1", "w.avail = w.avail + 0x1", "a = a + cOne", "xs[a] = xs[a] + 0o1", "mi[0] = mi[0] - 1", "ma[1] = ma[1] + 1",
			"a = (a + 1)", "a = a + (1)", "(a) = a + 1", "a = (a) + 1", "u = u + 1", "s = s + \"1\"", "a = a + 2 - 1", "xs[a+1] = xs[a+1] + 1", "xs[a+1] = xs[1+a] + 1"},
		// every operator of the rule group, every operand type it can be applied to (int, uint, float64,
		// string, defined string type, slice element), both operand orders
		gen: func(p func(...string) string) string {
			type pool struct {
				xs, ys, ops []string
			}
			pools := []pool{
				{[]string{"a", "b", "xs[a]", "xs[fi()]", "mi[0]", "ma[1]", "pa[2]", "w.avail", "mi[a]", "xs[b+1]"}, []string{"1", "b", "c", "fi()", "3", "a", "cLim", "cOne", "0x1", "01", "a * b", "(b)"},
					[]string{"+", "-", "*", "/", "%", "&", "|", "^", "<<", ">>", "&^"}},
				{[]string{"u", "v"}, []string{"1", "v", "u", "fu()", "3"}, []string{"+", "*", "/", "%", "&", "|", "^", "<<", ">>", "&^"}},
				{[]string{"p", "q", "mf", "w.g"}, []string{"1", "q", "p", "ff()", "2.5", "1.0", "cF", "0x1"}, []string{"+", "-", "*", "/"}},
				{[]string{"s", "t"}, []string{"t", "s", `"a"`, "fs()", `"é"`}, []string{"+"}},
				{[]string{"ms"}, []string{"ms", `"a"`, "myStr(t)"}, []string{"+"}},
				{[]string{"mm[0]", "w.buf[0]"}, []string{"t", `"b"`, "1"}, []string{"+"}},
			}
			pl := pools[map[string]int{"i": 0, "u": 1, "f": 2, "s": 3, "m": 4, "e": 5}[p("i", "i", "u", "f", "s", "s", "m", "e")]]
			x, y, op := p(pl.xs...), p(pl.ys...), p(pl.ops...)
			if p("xy", "xy", "yx") == "yx" {
				return x + " = " + y + " " + op + " " + x
			}
			return x + " = " + x + " " + op + " " + y
		},
		rewrite: fromRegexp(replaceRe, 1, 2),
		class: func(orig, repl string) string {
			if impure(orig) {
				return "impure-operand"
			}
			// `x = y op x` rewritten to `x op= y`: only sound for commutative op on this operand type
			lhs := strings.TrimSpace(strings.SplitN(orig, "=", 2)[0])
			rhs := strings.TrimSpace(strings.SplitN(orig, "=", 2)[1])
			if !strings.HasPrefix(rhs, lhs+" ") {
				return "operand-order"
			}
			return "unclassified"
		}},
	{checker: "valSwap", kind: "stmts",
		gen: func(p func(...string) string) string {
			x := p("a", "xs[a]", "xs[fi()]", "s", "xs[0]", "xs[b]", "w.avail", "mi[0]", "ma[0]", "mf")
			y := p("b", "xs[b]", "xs[gi()]", "t", "xs[1]", "b", "c", "mi[1]", "ma[2]", "mg")
			if (x == "s") != (y == "t") || (x == "mf") != (y == "mg") {
				x, y = "a", "b"
			}
			switch p("plain", "plain", "plain", "around", "apart", "othertmp") {
			case "around": // the three statements inside a longer list
				return "c = 1; tmp := " + y + "; " + y + " = " + x + "; " + x + " = tmp; c = c + 2"
			case "apart": // not adjacent: no swap idiom
				return "tmp := " + y + "; c = 4; " + y + " = " + x + "; " + x + " = tmp"
			case "othertmp": // the third statement reads another variable
				if x == "a" || x == "xs[a]" || x == "xs[0]" || x == "xs[b]" || x == "w.avail" || x == "mi[0]" || x == "ma[0]" {
					return "tmp := " + y + "; " + y + " = " + x + "; " + x + " = c; _ = tmp"
				}
			}
			if p("v", "v", "v", "list") == "list" {
				// an operand reached THROUGH the other one: a linked list step
				return "pp := &node{a, &node{b, nil}}; tmp := pp; pp = pp.next; pp.next = tmp; c = pp.v; k = pp.next == nil"
			}
			return "tmp := " + y + "; " + y + " = " + x + "; " + x + " = tmp"
		},
		rewrite: func(l *exprgen.Linted, w linter.Warning, body string) (string, string, bool) {
			m := swapRe.FindStringSubmatch(w.Text)
			orig := swapStmtsRe.FindString(body)
			if m == nil || orig == "" {
				return "", "", false
			}
			return orig, m[1], true
		},
		class: func(orig, _ string) string {
			if impure(orig) {
				return "impure-operand"
			}
			if strings.Contains(orig, "tmp := b; b = xs[b]") || strings.Contains(orig, "pp = pp.next") {
				// the operand $x is reached through $y (index or pointer step): same cause
				return "index-depends-on-swapped-var"
			}
			return "unclassified"
		}},
	{checker: "switchTrue", kind: "stmts",
		gen: func(p func(...string) string) string {
			// the tag is matched by its spelling: the predeclared constant, and a variable that shadows it
			pro := p("", "", "", "true := l; k = true; ", "true := a > 1; k = true; ")
			tag := p("true", "true", "true", "true", "k", "false", "cT > 1")
			return pro + "switch " + tag + " {\n\tcase " + p("a > b", "fb()", "k", "a > cLim") + ":\n\t\tc = 1\n\tcase " + p("a == b", "fb()", "l") + ":\n\t\tc = 2\n\tdefault:\n\t\tc = 3\n\t}"
		},
		rewrite: func(l *exprgen.Linted, w linter.Warning, body string) (string, string, bool) {
			if !strings.Contains(w.Text, "replace 'switch true {}' with 'switch {}'") {
				return "", "", false
			}
			return body, strings.Replace(body, "switch true {", "switch {", 1), true
		}, class: func(orig, _ string) string {
			if strings.Contains(orig, "true :=") {
				return "shadowed-true"
			}
			return classPurity(orig, "")
		}},
}, append(append(handSpecs, fmtSpecs...), deferSpecs...)...)

const rulesLintHeader = "package p\n\nimport (\n\t\"bytes\"\n\t\"fmt\"\n\t\"strings\"\n\t\"time\"\n)\n\nvar _ = bytes.Equal\nvar _ = strings.Index\nvar _ time.Time\nvar _ = fmt.Sprint\n"

func runRules(meta *common.Meta, tier string, seed int64, outDir string) {
	// ---- tie: the rule source shipped in checkers/rules/rules.go vs the model's table
	shipped, err := extractRules(filepath.Join(common.RepoDir, "checkers", "rules", "rules.go"))
	if err != nil {
		panic(err)
	}
	var items []string
	for _, r := range shipped {
		items = append(items, r.coq())
	}
	common.WriteFile(filepath.Join(outDir, "cases_c10_rules.v"),
		"From GC Require Import Base Model_Expr Model_Rewrites.\n"+
			"(* the rules of the covered groups as they stand in checkers/rules/rules.go *)\n"+
			"Definition observed : list rule := [\n"+strings.Join(items, ";\n")+"\n].\n"+
			"Definition cases : list (rule * rule) := zip_rules shipped_rules observed.\n"+
			"Definition case_ok (c : rule * rule) : bool := rule_eqb (fst c) (snd c).\n"+
			"Definition M := Eval vm_compute in (if Nat.eqb (List.length shipped_rules) (List.length observed) then mismatches case_ok cases else [999%N]).\nPrint M.\n")
	// ... and the executed IR vs the model's table (the Where text of the IR is the filter's source as the
	// precompiler recorded it; local helper functions of rules.go are inlined there, see ir_where_of)
	execd := executedRules()
	var eitems, eidx []string
	for _, r := range execd {
		eitems = append(eitems, r.coq())
		eidx = append(eidx, fmt.Sprintf("IR %s: %q where %q suggest %q report %q", r.group, r.patterns, r.where, r.suggest, r.report))
	}
	common.WriteFile(filepath.Join(outDir, "cases_c10_rules_ir.v"),
		"From GC Require Import Base Model_Expr Model_Rewrites.\n"+
			"(* the rules of the covered groups as the binary executes them (rulesdata.PrecompiledRules) *)\n"+
			"Definition observed : list rule := [\n"+strings.Join(eitems, ";\n")+"\n].\n"+
			"Definition cases : list (rule * rule) := zip_rules (map ir_view shipped_rules) observed.\n"+
			"Definition case_ok (c : rule * rule) : bool := rule_eqb (fst c) (snd c).\n"+
			"Definition M := Eval vm_compute in (if Nat.eqb (List.length shipped_rules) (List.length observed) then mismatches case_ok cases else [999%N]).\nPrint M.\n")
	common.WriteFile(filepath.Join(outDir, "cases_c10_rules_ir.index.txt"), strings.Join(eidx, "\n")+"\n")
	meta.CaseFiles = append(meta.CaseFiles, "cases_c10_rules_ir.v")
	meta.Evaluations += len(execd)
	meta.Distribution["rules_compared_with_executed_ir"] = len(execd)
	var idx []string
	for _, r := range shipped {
		idx = append(idx, fmt.Sprintf("%s: %q where %q suggest %q report %q", r.group, r.patterns, r.where, r.suggest, r.report))
	}
	common.WriteFile(filepath.Join(outDir, "cases_c10_rules.index.txt"), strings.Join(idx, "\n")+"\n")
	meta.CaseFiles = append(meta.CaseFiles, "cases_c10_rules.v")
	meta.Evaluations += len(shipped)
	meta.Distribution["rules_compared_with_source"] = len(shipped)

	// ---- oracle: generated uses of every covered rule, original vs suggestion
	perRule := 24
	if tier == "thorough" {
		perRule = 200
	}
	r := common.NewRand(seed, "c10-rules")
	pick := func(xs ...string) string { return xs[r.Intn(len(xs))] }
	var progs []*ruleProg
	for si, sp := range ruleSpecs {
		seen := map[string]bool{}
		want := perRule
		if sp.weight > 0 {
			want *= sp.weight
		}
		for _, b := range sp.fixed {
			if !seen[b] {
				seen[b] = true
				progs = append(progs, &ruleProg{fn: fmt.Sprintf("r%d", len(progs)), checker: sp.checker, kind: sp.kind, body: b, spec: si})
			}
		}
		for tries := 0; tries < want*6 && len(seen) < want; tries++ {
			b := sp.gen(pick)
			if seen[b] {
				continue
			}
			seen[b] = true
			progs = append(progs, &ruleProg{fn: fmt.Sprintf("r%d", len(progs)), checker: sp.checker, kind: sp.kind, body: b, spec: si})
		}
	}
	const sig = exprgen.Params + ", tm time.Time"
	render := func(p *ruleProg) string {
		if p.kind == "stmts" {
			return fmt.Sprintf("func %s(%s) {\n\t%s\n\t_, _, _, _, _, _, _, _, _, _, _, _, _, _ = a, b, c, u, v, p, q, s, t, k, l, xs, bs, tm\n}\n", p.fn, sig, p.body)
		}
		return fmt.Sprintf("func %s(%s) interface{} {\n\treturn %s\n}\n", p.fn, sig, p.body)
	}
	var keep []*ruleProg
	for _, p := range progs {
		if _, err := exprgen.Load("p.go", rulesLintHeader+exprgen.LintPreamble+exprgen.FmtCatalogue()+render(p)); err == nil {
			keep = append(keep, p)
		}
	}
	var src strings.Builder
	src.WriteString(rulesLintHeader + exprgen.LintPreamble + exprgen.FmtCatalogue())
	byFn := map[string]*ruleProg{}
	for _, p := range keep {
		src.WriteString(render(p))
		byFn[p.fn] = p
	}
	l, err := exprgen.Load("p.go", src.String())
	if err != nil {
		panic(err)
	}
	specOf := map[string]ruleSpec{}
	for _, sp := range ruleSpecs {
		specOf[sp.checker] = sp
	}
	rg := common.NewRand(seed, "c10-rules-grid")
	var dcs []*exprgen.DiffCase
	fired := map[string]int{}
	type tag struct {
		p    *ruleProg
		text string
	}
	stmtObs := map[string][]string{}
	for si, sp := range ruleSpecs {
		ws, err := l.Run(sp.checker)
		if err != nil {
			panic(err)
		}
		for _, w := range ws {
			p := byFn[l.FuncOf(w.Pos)]
			if p == nil || p.spec != si {
				continue
			}
			stmtObs[p.fn] = append(stmtObs[p.fn], w.Text)
			orig, repl, ok := sp.rewrite(l, w, p.body)
			if !ok {
				continue
			}
			fired[sp.checker]++
			o, n := orig, repl
			squash := func(x string) string { return strings.Join(strings.Fields(x), "") }
			if squash(orig) == squash(p.body) {
				// $$ is printed by go/printer, the analysed text is the generator's spelling
				orig = p.body
				o = p.body
			}
			if p.kind == "expr" && orig != p.body {
				// the diagnostic covers a sub-expression: substitute inside the whole expression
				if !strings.Contains(p.body, orig) {
					meta.Fail("C10/"+sp.checker+"/range", "the diagnostic's original text does not occur in the analysed expression", map[string]interface{}{"expr": p.body, "message": w.Text, "original": orig})
					continue
				}
				o, n = p.body, strings.Replace(p.body, orig, "("+repl+")", 1)
			}
			if p.kind == "stmts" && orig != p.body && !strings.Contains(p.body, orig) {
				// go/printer's spelling of the cause vs the generator's: match modulo white space
				var parts []string
				for _, f := range strings.Fields(orig) {
					parts = append(parts, regexp.QuoteMeta(f))
				}
				if re, err := regexp.Compile(strings.Join(parts, `\s*`)); err == nil {
					if loc := re.FindStringIndex(p.body); loc != nil {
						orig = p.body[loc[0]:loc[1]]
					}
				}
			}
			if p.kind == "stmts" && orig != p.body {
				if !strings.Contains(p.body, orig) {
					meta.Fail("C10/"+sp.checker+"/range", "the diagnostic's original text does not occur in the analysed statements", map[string]interface{}{"stmts": p.body, "message": w.Text, "original": orig})
					continue
				}
				o, n = p.body, strings.Replace(p.body, orig, repl, 1)
			}
			dcs = append(dcs, &exprgen.DiffCase{ID: len(dcs), Kind: p.kind, Orig: o, New: n, Inputs: exprgen.Grid(rg, o+" tm", 100), Tag: tag{p, w.Text}})
		}
	}
	meta.Distribution["rules_fired"] = fired
	meta.Distribution["rule_programs"] = len(keep)
	runStmtTie(meta, outDir, l, keep, stmtObs)
	meta.Distinct += len(dcs)
	mm, evals, err := exprgen.RunDiff(filepath.Join(outDir, "diff_rules"), dcs)
	if err != nil {
		// a suggestion that does not compile is a C09 subject; report the build log as a tie problem of this oracle
		meta.Notes = append(meta.Notes, "rule differential program did not build: "+err.Error())
		meta.TieBroken = append(meta.TieBroken, "rule differential program did not build (see notes)")
		return
	}
	meta.Evaluations += evals
	meta.Distribution["rule_pair_evaluations"] = evals
	// suggestions the compiler rejects cannot be executed (their validity is C09's subject): listed, not judged here
	var notCompilable []string
	for _, c := range dcs {
		if c.Uncompilable {
			notCompilable = append(notCompilable, c.Tag.(tag).p.checker+": `"+c.Orig+"` => `"+c.New+"`")
		}
	}
	meta.Distribution["rule_pairs_not_compilable"] = notCompilable
	sort.SliceStable(mm, func(i, j int) bool { return len(mm[i].Case.Orig) < len(mm[j].Case.Orig) })
	for _, m := range mm {
		t := m.Case.Tag.(tag)
		key := "C10/" + t.p.checker + "/" + ruleSpecs[t.p.spec].class(m.Case.Orig, m.Case.New)
		if ci := ruleSpecs[t.p.spec].classIn; ci != nil {
			key = "C10/" + t.p.checker + "/" + ci(m.Case.Orig, m.Input)
		}
		meta.Fail(key, fmt.Sprintf("%s: `%s` => `%s` changes behaviour: original %s, suggestion %s", t.p.checker, m.Case.Orig, m.Case.New, m.Orig, m.New),
			map[string]interface{}{"original": m.Case.Orig, "suggestion": m.Case.New, "message": t.text, "input": m.Input, "original_result": m.Orig, "suggested_result": m.New})
	}
	if len(meta.Samples) < 8 && len(dcs) > 0 {
		meta.AddSample(map[string]interface{}{"checker": dcs[0].Tag.(tag).p.checker, "original": dcs[0].Orig, "suggestion": dcs[0].New})
	}
}

// ---------------------------------------------------------------- newDeref: ZeroValueOf table vs the model

var newDerefTypes = []string{"int", "float64", "string", "bool", "uint", "int32", "float32", "byte", "[]int", "map[string]int", "*int",
	"st", "[2]int", "complex128", "myInt", "myStr", "interface{}", "(int)", "error", "[]st", "*st", "struct{}", "func()", "chan int", "uintptr"}

func runNewDeref(meta *common.Meta, outDir string) {
	var src strings.Builder
	src.WriteString("package p\n" + exprgen.LintPreamble + "type myInt int\n")
	for i, t := range newDerefTypes {
		fmt.Fprintf(&src, "func d%d() interface{} { return *new(%s) }\n", i, t)
	}
	l, err := exprgen.Load("p.go", src.String())
	if err != nil {
		panic(err)
	}
	ws, err := l.Run("newDeref")
	if err != nil {
		panic(err)
	}
	msgs := map[string][]string{}
	for _, w := range ws {
		fn := l.FuncOf(w.Pos)
		msgs[fn] = append(msgs[fn], w.Text)
	}
	var bodies, idx []string
	for _, d := range l.File.Decls {
		fd, ok := d.(*ast.FuncDecl)
		if !ok || !strings.HasPrefix(fd.Name.Name, "d") || fd.Body == nil || len(fd.Body.List) != 1 {
			continue
		}
		rs, ok := fd.Body.List[0].(*ast.ReturnStmt)
		if !ok {
			continue
		}
		star, ok := rs.Results[0].(*ast.StarExpr)
		if !ok {
			continue
		}
		arg := star.X.(*ast.CallExpr).Args[0]
		typ := l.Info.TypeOf(arg)
		inner := arg
		for {
			p, ok := inner.(*ast.ParenExpr)
			if !ok {
				break
			}
			inner = p.X
		}
		class, dflt := "ZOther", false
		switch u := typ.Underlying().(type) {
		case *types.Basic:
			switch {
			case u.Info()&types.IsInteger != 0:
				class = "ZInt"
			case u.Info()&types.IsFloat != 0:
				class = "ZFloat"
			case u.Info()&types.IsString != 0:
				class = "ZString"
			case u.Info()&types.IsBoolean != 0:
				class = "ZBool"
			default:
				class = "ZOtherBasic"
			}
			if b, ok := typ.(*types.Basic); ok {
				switch b.Kind() {
				case types.Bool, types.Int, types.Float64, types.String:
					dflt = true
				}
			}
		case *types.Slice, *types.Map, *types.Pointer, *types.Interface:
			class = "ZNilable"
		case *types.Array, *types.Struct:
			class = "ZComposite"
		}
		_, isStar := inner.(*ast.StarExpr)
		bodies = append(bodies, fmt.Sprintf("((%s, %s, %v, %s, %v), %s)", coqfmt.Str(l.Text(arg)), coqfmt.Str(l.Text(inner)), isStar, class, dflt, coqfmt.StrList(msgs[fd.Name.Name])))
		idx = append(idx, fmt.Sprintf("*new(%s) => %q", l.Text(arg), msgs[fd.Name.Name]))
	}
	common.WriteFile(filepath.Join(outDir, "cases_c10_newderef.v"),
		"From GC Require Import Base Model_Expr Model_Rewrites.\n"+
			"Definition case_ok (c : (string * string * bool * zclass * bool) * list string) : bool :=\n"+
			"  let '((ctext, ttext, star, cl, d), obs) := c in list_eqb String.eqb (new_deref_msgs ctext ttext star cl d) obs.\n"+
			"Definition cases : list ((string * string * bool * zclass * bool) * list string) := [\n"+strings.Join(bodies, ";\n")+"\n].\n"+
			"Definition M := Eval vm_compute in mismatches case_ok cases.\nPrint M.\n")
	common.WriteFile(filepath.Join(outDir, "cases_c10_newderef.index.txt"), strings.Join(idx, "\n")+"\n")
	meta.CaseFiles = append(meta.CaseFiles, "cases_c10_newderef.v")
	meta.Evaluations += len(bodies)
	meta.Distribution["newderef_types_compared"] = len(bodies)
}

// ---------------------------------------------------------------- unlambda: callee forms vs the model's decision

var unlambdaBodies = []string{
	"f := func(x int) int { return hi(x) }; c = f(a)",
	"f := func(x string) string { return strings.ToUpper(x) }; s = f(t)",
	"sv := st{a}; f := func(x int) int { return sv.add(x) }; sv.n = b; c = f(1)",
	"ps := &st{a}; f := func(x int) int { return ps.add(x) }; ps = &st{b}; c = f(1)",
	"ob := obj{f: hi}; f := func(x int) int { return ob.f(x) }; ob.f = hj; c = f(a)",
	"ob := &obj{f: hi}; f := func(x int) int { return ob.f(x) }; ob.f = hj; c = f(a)",
	"gf = hi; f := func(x int) int { return gf(x) }; gf = hj; c = f(a)",
	"lf := hi; f := func(x int) int { return lf(x) }; lf = hj; c = f(a)",
	"f := func(x int) int { return (&st{a}).add(x) }; c = f(b)",
	"f := func(x int) int { return w.peek() + x }; c = f(b)",
}

func runUnlambdaTie(meta *common.Meta, outDir string) {
	const sig = exprgen.Params + ", tm time.Time"
	var src strings.Builder
	src.WriteString(rulesLintHeader + exprgen.LintPreamble)
	for i, b := range unlambdaBodies {
		fmt.Fprintf(&src, "func ul%d(%s) {\n\t%s\n\t_, _, _, _ = c, s, a, b\n}\n", i, sig, b)
	}
	l, err := exprgen.Load("p.go", src.String())
	if err != nil {
		panic(err)
	}
	ws, err := l.Run("unlambda")
	if err != nil {
		panic(err)
	}
	flagged := map[string]bool{}
	for _, w := range ws {
		flagged[l.FuncOf(w.Pos)] = true
	}
	var bodies, idx []string
	for _, d := range l.File.Decls {
		fd, ok := d.(*ast.FuncDecl)
		if !ok || !strings.HasPrefix(fd.Name.Name, "ul") {
			continue
		}
		var callee string
		ast.Inspect(fd.Body, func(n ast.Node) bool {
			fl, ok := n.(*ast.FuncLit)
			if !ok || callee != "" {
				return true
			}
			if len(fl.Body.List) != 1 {
				return false
			}
			ret, ok := fl.Body.List[0].(*ast.ReturnStmt)
			if !ok || len(ret.Results) != 1 {
				return false
			}
			call, ok := ret.Results[0].(*ast.CallExpr)
			if !ok {
				return false
			}
			isPtr := func(e ast.Expr) bool { _, ok := l.Info.TypeOf(e).Underlying().(*types.Pointer); return ok }
			switch fun := call.Fun.(type) {
			case *ast.Ident:
				switch l.Info.ObjectOf(fun).(type) {
				case *types.Func:
					callee = "CPkgFunc " + coqfmt.Str(fun.Name)
				case *types.Var:
					callee = "CFuncVar " + coqfmt.Str(fun.Name)
				}
			case *ast.SelectorExpr:
				x, ok := fun.X.(*ast.Ident)
				if !ok {
					return false
				}
				if _, isPkg := l.Info.ObjectOf(x).(*types.PkgName); isPkg {
					callee = "CPkgFunc " + coqfmt.Str(x.Name+"."+fun.Sel.Name)
					return false
				}
				switch l.Info.ObjectOf(fun.Sel).(type) {
				case *types.Var:
					callee = fmt.Sprintf("CFuncField %s %v %s", coqfmt.Str(x.Name), isPtr(x), coqfmt.Str(fun.Sel.Name))
				case *types.Func:
					callee = fmt.Sprintf("CMethod %s %v %s", coqfmt.Str(x.Name), isPtr(x), coqfmt.Str(fun.Sel.Name))
				}
			}
			return false
		})
		if callee == "" {
			continue // callee shapes outside the four modelled forms (composite receivers, non-call bodies)
		}
		bodies = append(bodies, fmt.Sprintf("(%s, %v)", callee, flagged[fd.Name.Name]))
		idx = append(idx, fmt.Sprintf("%s => flagged=%v", callee, flagged[fd.Name.Name]))
	}
	common.WriteFile(filepath.Join(outDir, "cases_c10_unlambda.v"),
		"From GC Require Import Base Model_Expr Model_Rewrites.\n"+
			"Definition case_ok (c : callee * bool) : bool := Bool.eqb (unlambda_flags (fst c)) (snd c).\n"+
			"Definition cases : list (callee * bool) := [\n"+strings.Join(bodies, ";\n")+"\n].\n"+
			"Definition M := Eval vm_compute in mismatches case_ok cases.\nPrint M.\n")
	common.WriteFile(filepath.Join(outDir, "cases_c10_unlambda.index.txt"), strings.Join(idx, "\n")+"\n")
	meta.CaseFiles = append(meta.CaseFiles, "cases_c10_unlambda.v")
	meta.Evaluations += len(bodies)
	meta.Distribution["unlambda_callee_forms_compared"] = len(bodies)
}

// ---------------------------------------------------------------- pattern-driven value-domain differential

// runSynthDiff: every pattern (also patterns a change ADDS to a group) of the rewrite groups, as executed,
// is instantiated by the synthesiser; original and suggestion are evaluated over value domains by parameter
// type (non-ASCII bytes, invalid UTF-8, surrogates, invalid runes, NaN, nil).
func runSynthDiff(meta *common.Meta, outDir string) {
	groups := map[string]bool{"redundantSprint": true, "equalFold": false}
	for _, g := range coveredGroups {
		groups[g] = true
	}
	delete(groups, "offBy1") // its suggestion is a bug fix, not an equivalence claim
	// equalFold ("consider replacing with"): not among the checkers C10 enumerates; its rule text is tied and its
	// semantics modelled (C10_equal_fold_*), but it is not executed as an equivalence claim
	groups["equalFold"] = false
	cases, hits, misses := valdiff.Collect(
		func(g string, r ir.Rule) bool { return groups[g] && r.SuggestTemplate != "" }, 1500,
		func(group string, w linter.Warning, l *exprgen.Linted) (token.Pos, token.Pos, string, string, bool) {
			if !w.HasQuickFix() {
				return 0, 0, "", "", false
			}
			return w.Suggestion.From, w.Suggestion.To, string(w.Suggestion.Replacement), "", true
		})
	meta.Distribution["synth_rewrite_patterns_hit"] = hits
	meta.Distribution["synth_rewrite_patterns_missed"] = misses
	meta.Distribution["synth_rewrite_cases"] = len(cases)
	mm, evals, err := valdiff.Run(filepath.Join(outDir, "valdiff_rules"), cases)
	if err != nil {
		meta.Notes = append(meta.Notes, err.Error())
		meta.TieBroken = append(meta.TieBroken, "value-domain differential program did not build (see notes)")
		return
	}
	meta.Evaluations += evals
	meta.Distribution["synth_rewrite_evaluations"] = evals
	specOf := map[string]ruleSpec{}
	for _, sp := range ruleSpecs {
		specOf[sp.checker] = sp
	}
	for _, m := range mm {
		class := valdiff.Class(m.Input)
		if sp, ok := specOf[m.Case.Group]; ok && sp.class != nil {
			if c := sp.class(m.Case.Expr, m.Case.New); c != "unclassified" && c != "impure-operand" {
				class = c
			}
		}
		if m.Case.Group == "redundantSprint" && class == "nil-operand" {
			class = "nil-pointer-stringer"
		}
		meta.Fail("C10/"+m.Case.Group+"/"+class,
			fmt.Sprintf("%s: `%s` => `%s` (pattern %s) changes behaviour on %s: original %s, suggestion %s", m.Case.Group, m.Case.Expr, m.Case.New, m.Case.Pattern, m.Input, m.Orig, m.New),
			map[string]interface{}{"pattern": m.Case.Pattern, "original": m.Case.Expr, "suggestion": m.Case.New, "arguments": m.Input, "original_result": m.Orig, "suggested_result": m.New})
	}
}

// ---------------------------------------------------------------- boolExprSimplify on type parameters

// runGenericBool: boolean expressions over operands whose type is a type parameter (constraints with float,
// integer, mixed and approximate terms); oracle only (the model has no type parameters): the generic
// function with the original and with the suggested expression is instantiated and run on the grid.
func runGenericBool(meta *common.Meta, seed int64, outDir string) {
	type gcase struct {
		constraint, inst, args, expr string
	}
	exprs := []string{"!(x < y)", "!(x >= y)", "!(x == y)", "x+1 > y", "x-1 >= y", "!(x <= y) && !(y < x)", "x > y || x == y", "!!(x < y)"}
	kinds := []struct{ constraint, inst, args string }{
		{"float32 | float64", "float64", "p, q"},
		{"~float64", "myF", "mf, mg"},
		{"int | float64", "float64", "p, q"},
		{"int | int64", "int", "a, b"},
		{"~int | ~uint", "int", "a, b"},
		{"~string", "string", "s, t"},
	}
	var cases []gcase
	var src strings.Builder
	src.WriteString("package p\n" + exprgen.LintPreamble)
	for _, k := range kinds {
		for _, e := range exprs {
			if strings.Contains(k.constraint, "string") && strings.ContainsAny(e, "+-") && strings.Contains(e, "1") {
				continue
			}
			fmt.Fprintf(&src, "func gb%d[T %s](x, y T) bool { return %s }\n", len(cases), k.constraint, e)
			cases = append(cases, gcase{k.constraint, k.inst, k.args, e})
		}
	}
	l, err := exprgen.Load("generic.go", src.String())
	if err != nil {
		panic(err)
	}
	ws, err := l.Run("boolExprSimplify")
	if err != nil {
		panic(err)
	}
	rg := common.NewRand(seed, "c10-generic-grid")
	var dcs []*exprgen.DiffCase
	for _, w := range ws {
		fn := l.FuncOf(w.Pos)
		var idx int
		if _, err := fmt.Sscanf(fn, "gb%d", &idx); err != nil {
			continue
		}
		m := simplifyRe.FindStringSubmatch(w.Text)
		if m == nil {
			continue
		}
		c := cases[idx]
		id := len(dcs)
		decl := func(name, body string) string {
			return fmt.Sprintf("func %s[T %s](x, y T) bool { return %s }", name, c.constraint, body)
		}
		whole := func(sub string) string { return strings.Replace(c.expr, m[1], sub, 1) }
		if !strings.Contains(strings.ReplaceAll(c.expr, " ", ""), strings.ReplaceAll(m[1], " ", "")) {
			continue
		}
		origBody, newBody := c.expr, m[2]
		if strings.ReplaceAll(c.expr, " ", "") != strings.ReplaceAll(m[1], " ", "") {
			newBody = whole(m[2])
		}
		dcs = append(dcs, &exprgen.DiffCase{ID: id, Kind: "expr",
			Decls: decl(fmt.Sprintf("gbo%d", id), origBody) + "\n" + decl(fmt.Sprintf("gbn%d", id), newBody),
			Orig:  fmt.Sprintf("gbo%d[%s](%s)", id, c.inst, c.args), New: fmt.Sprintf("gbn%d[%s](%s)", id, c.inst, c.args),
			Inputs: exprgen.Grid(rg, c.args+" "+c.expr, 80), Tag: c})
	}
	meta.Distribution["generic_bool_functions"] = len(cases)
	meta.Distribution["generic_bool_flagged"] = len(dcs)
	mm, evals, err := exprgen.RunDiff(filepath.Join(outDir, "diff_generic"), dcs)
	if err != nil {
		meta.Notes = append(meta.Notes, "generic differential program did not build: "+err.Error())
		meta.TieBroken = append(meta.TieBroken, "generic differential program did not build (see notes)")
		return
	}
	meta.Evaluations += evals
	for _, m := range mm {
		c := m.Case.Tag.(gcase)
		class := "type-parameter-operand"
		if strings.Contains(c.constraint, "float") {
			class = "float-type-parameter"
		}
		meta.Fail("C10/boolExprSimplify/"+class,
			fmt.Sprintf("func [T %s](x, y T): `%s` is simplified, instantiated with %s the result changes: original %s, suggestion %s", c.constraint, c.expr, c.inst, m.Orig, m.New),
			map[string]interface{}{"constraint": c.constraint, "expr": c.expr, "instantiation": c.inst, "input": m.Input, "original_result": m.Orig, "suggested_result": m.New})
	}
}
