package c10

import "verifharness/internal/common"

func runRules(meta *common.Meta, tier string, seed int64, outDir string) {}
