// Package coqfmt renders Go values as Coq terms for generated .v files.
package coqfmt

import (
	"fmt"
	"strings"
)

// Str renders s as a Coq term of type string. Printable ASCII is emitted as a literal,
// anything else as (bs [byte; ...]).
func Str(s string) string {
	printable := true
	for i := 0; i < len(s); i++ {
		if s[i] < 0x20 || s[i] > 0x7e {
			printable = false
			break
		}
	}
	if printable {
		return `"` + strings.ReplaceAll(s, `"`, `""`) + `"`
	}
	var b strings.Builder
	b.WriteString("(bs [")
	for i := 0; i < len(s); i++ {
		if i > 0 {
			b.WriteString(";")
		}
		fmt.Fprintf(&b, "%d", s[i])
	}
	b.WriteString("]%N)")
	return b.String()
}

func Bool(b bool) string {
	if b {
		return "true"
	}
	return "false"
}

func List(items []string) string {
	return "[" + strings.Join(items, "; ") + "]"
}

func StrList(ss []string) string {
	items := make([]string, len(ss))
	for i, s := range ss {
		items[i] = Str(s)
	}
	return List(items)
}

func OptStr(s *string) string {
	if s == nil {
		return "None"
	}
	return "(Some " + Str(*s) + ")"
}

func N(n int) string { return fmt.Sprintf("%d%%N", n) }

func Z(n int64) string {
	if n < 0 {
		return fmt.Sprintf("(%d)%%Z", n)
	}
	return fmt.Sprintf("%d%%Z", n)
}

func NList(ns []int) string {
	items := make([]string, len(ns))
	for i, n := range ns {
		items[i] = fmt.Sprintf("%d", n)
	}
	return "[" + strings.Join(items, "; ") + "]%N"
}
