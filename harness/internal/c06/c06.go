// Package c06: checker selection algebra — correspondence cases for Model_Select and
// an independent implementation-level oracle.
package c06

import (
	"fmt"
	"os"
	"path/filepath"
	"regexp"
	"sort"
	"strings"
	"time"

	"github.com/go-critic/go-critic/checkers/analyzer"
	"github.com/go-critic/go-critic/linter"

	"verifharness/internal/common"
	"verifharness/internal/coqfmt"
	"verifharness/internal/load"
	"verifharness/internal/probes"
)

type bridgeCase struct {
	Op       string   `json:"op"`
	Args     []string `json:"args,omitempty"`
	Registry string   `json:"registry,omitempty"`
}

type bridgeResult struct {
	Enabled     []string `json:"enabled"`
	Constructed []string `json:"constructed"`
	Err         string   `json:"err"`
	Panic       string   `json:"panic"`
	Defaults    []string `json:"defaults"`
}

type config struct {
	All      bool
	Enable   *string
	Disable  *string
	Registry string
}

func (c config) cliArgs() []string {
	var a []string
	if c.All {
		a = append(a, "-enableAll")
	}
	if c.Enable != nil {
		a = append(a, "-enable="+*c.Enable)
	}
	if c.Disable != nil {
		a = append(a, "-disable="+*c.Disable)
	}
	return a
}

func (c config) String() string {
	e, d := "<unset>", "<unset>"
	if c.Enable != nil {
		e = fmt.Sprintf("%q", *c.Enable)
	}
	if c.Disable != nil {
		d = fmt.Sprintf("%q", *c.Disable)
	}
	return fmt.Sprintf("all=%v enable=%s disable=%s reg=%s", c.All, e, d, c.Registry)
}

var alphabet = []string{
	"zzProbe05", "zzProbe63", "zzProbe00", "appendAssign", "hugeParam",
	"#diagnostic", "#style", "#performance", "#experimental", "#opinionated", "#security",
	"#unknown", "unknown", "", "#",
}

// analyzer-dialect extras (padding and the "<default>" token)
var alphabetPadded = []string{" zzProbe05", "#style ", " #experimental", "<default>", "\tappendAssign",
	// two names or tags separated by white space only: ONE element, which names nothing
	"zzProbe05 zzProbe63", "#style\t#performance", "appendAssign\nhugeParam", "#diagnostic #experimental", "zzProbe00  zzProbe05"}

// keys that are near misses of the two key kinds: tag words without '#', checker names with '#', doubled '#',
// case variants. None of them names anything.
var alphabetSpelling = []string{"style", "diagnostic", "experimental", "performance", "#appendAssign", "#zzProbe05", "##style", "#Style", "#STYLE", "AppendAssign", "appendassign", "# style", "#style#"}

func sp(s string) *string { return &s }

func keyLists(alpha []string, maxLen int) []*string {
	out := []*string{nil}
	var rec func(prefix []string, n int)
	rec = func(prefix []string, n int) {
		if n > 0 || len(prefix) > 0 {
			out = append(out, sp(strings.Join(prefix, ",")))
		}
		if len(prefix) == maxLen {
			return
		}
		for _, k := range alpha {
			rec(append(append([]string(nil), prefix...), k), n+1)
		}
	}
	rec(nil, 0)
	return out
}

// ---- independent oracle: the property's sentence, written directly ----
func oracleSelected(all bool, en, dis []string, name string, tags []string) bool {
	in := func(k string, l []string) bool {
		for _, x := range l {
			if x == k {
				return true
			}
		}
		return false
	}
	enabled := all || in(name, en)
	disabled := in(name, dis)
	for _, t := range tags {
		if in("#"+t, en) {
			enabled = true
		}
		if in("#"+t, dis) {
			disabled = true
		}
	}
	return enabled && !disabled
}

func noOptin(tags []string) bool {
	for _, t := range tags {
		switch t {
		case "experimental", "opinionated", "performance", "security":
			return false
		}
	}
	return true
}

func infoNamesTags(which string) (names []string, tags [][]string) {
	for _, info := range probes.InfoList(which) {
		names = append(names, info.Name)
		tags = append(tags, info.Tags)
	}
	return
}

func eqStrs(a, b []string) bool {
	if len(a) != len(b) {
		return false
	}
	for i := range a {
		if a[i] != b[i] {
			return false
		}
	}
	return true
}

func regDef(name string, which string) string {
	var items []string
	for _, info := range probes.InfoList(which) {
		items = append(items, fmt.Sprintf("{| cname := %s; ctags := %s |}", coqfmt.Str(info.Name), coqfmt.StrList(info.Tags)))
	}
	return fmt.Sprintf("Definition %s : list checker := [\n  %s\n].\n", name, strings.Join(items, ";\n  "))
}

func idxsOf(names []string, reg []string) []int {
	pos := map[string]int{}
	for i, n := range reg {
		pos[n] = i
	}
	var out []int
	for _, n := range names {
		out = append(out, pos[n])
	}
	return out
}

// Run produces the correspondence cases and runs the oracle.
func Run(tier string, seed int64, outDir string) *common.Meta {
	probes.Register()
	meta := &common.Meta{Property: "C06", Distribution: map[string]interface{}{}}
	rng := common.NewRand(seed, "c06")

	// 1. configurations
	maxLen := 2
	lists := keyLists(alphabet, maxLen)
	var exhaustive []config
	for _, all := range []bool{false, true} {
		for _, e := range lists {
			for _, d := range lists {
				exhaustive = append(exhaustive, config{all, e, d, "probe"})
			}
		}
	}
	nExh := len(exhaustive)
	if tier == "quick" {
		// keep every config with list length <= 1 on both sides, sample the rest
		var kept []config
		short := func(p *string) bool { return p == nil || !strings.Contains(*p, ",") }
		for _, c := range exhaustive {
			if (short(c.Enable) && short(c.Disable)) || rng.Intn(12) == 0 {
				kept = append(kept, c)
			}
		}
		exhaustive = kept
	}
	// length-3 and padded samples, and whole-registry samples
	nExtra := 400
	if tier == "thorough" {
		nExtra = 6000
	}
	full := append(append(append([]string(nil), alphabet...), alphabetPadded...), alphabetSpelling...)
	randList := func(alpha []string) *string {
		n := rng.Intn(5)
		if n == 4 {
			return nil
		}
		var ks []string
		for i := 0; i <= n; i++ {
			ks = append(ks, alpha[rng.Intn(len(alpha))])
		}
		return sp(strings.Join(ks, ","))
	}
	var extra []config
	for i := 0; i < nExtra; i++ {
		reg := "probe"
		if i%25 == 0 {
			reg = "all"
		}
		extra = append(extra, config{rng.Intn(4) == 0, randList(full), randList(full), reg})
	}
	// white space inside an element never separates keys
	for _, k := range alphabetPadded[5:] {
		extra = append(extra, config{false, sp(k), sp(""), "probe"}, config{false, sp(k), sp(""), "all"}, config{true, sp(""), sp(k), "probe"},
			config{false, sp("zzProbe63," + k), sp(""), "probe"}, config{false, sp("#style,#diagnostic"), sp(k), "all"})
	}
	// near-miss spellings: alone in -enable (an empty selection unless enableAll), alone in -disable, next to a real key
	for _, k := range alphabetSpelling {
		extra = append(extra, config{false, sp(k), nil, "probe"}, config{false, sp(k), sp(""), "all"}, config{true, nil, sp(k), "probe"},
			config{false, sp("#style,#diagnostic"), sp(k), "all"}, config{false, sp(k + ",zzProbe05"), sp("#performance"), "probe"})
	}
	// defaults on the real registry
	extra = append(extra, config{false, nil, nil, "all"}, config{true, nil, nil, "all"}, config{false, nil, nil, "real"})
	configs := append(exhaustive, extra...)
	meta.Distribution["configs_exhaustive_space_len<=2"] = nExh
	meta.Distribution["configs_run"] = len(configs)

	// 2. run both CLI mains through the bridge
	var bcases []bridgeCase
	for _, c := range configs {
		bcases = append(bcases, bridgeCase{"select", c.cliArgs(), c.Registry})
	}
	results := map[string][]bridgeResult{}
	for _, pkg := range []string{"./cmd/go-critic", "./cmd/gocritic"} {
		var res []bridgeResult
		if err := common.RunBridge(pkg, bcases, &res, outDir); err != nil {
			meta.TieBroken = append(meta.TieBroken, "hook: "+err.Error())
			return meta
		}
		if len(res) != len(configs) {
			meta.TieBroken = append(meta.TieBroken, fmt.Sprintf("hook %s: %d results for %d cases", pkg, len(res), len(configs)))
			return meta
		}
		results[pkg] = res
	}

	// 3. analyzer through its hook, in-process
	anRes := make([][]string, len(configs))
	for i, c := range configs {
		anRes[i] = analyzer.VerifFilter(c.All, c.Enable, c.Disable, probes.InfoList(c.Registry))
	}

	// 4. oracle (independent of the model)
	regNames := map[string][]string{}
	regTags := map[string][][]string{}
	for _, w := range []string{"probe", "real", "all"} {
		regNames[w], regTags[w] = infoNamesTags(w)
	}
	distinct := map[string]bool{}
	nontrivial := 0
	for i, c := range configs {
		names, tags := regNames[c.Registry], regTags[c.Registry]
		// CLI dialect: split at commas, blanks around an element dropped (as in the analyzer)
		en := []string{}
		if c.Enable != nil {
			en = trimSplit(*c.Enable)
		} else {
			for j, n := range names {
				if noOptin(tags[j]) {
					en = append(en, n)
				}
			}
		}
		dis := []string{""}
		if c.Disable != nil {
			dis = trimSplit(*c.Disable)
		}
		var want []string
		for j, n := range names {
			if oracleSelected(c.All, en, dis, n, tags[j]) {
				want = append(want, n)
			}
		}
		for _, pkg := range []string{"./cmd/go-critic", "./cmd/gocritic"} {
			r := results[pkg][i]
			if r.Panic != "" {
				meta.Fail("C06/"+pkg+"/panic", "selection panics: "+r.Panic, c.String())
				continue
			}
			if !eqStrs(r.Enabled, want) {
				meta.Fail("C06/"+pkg+"/selection", fmt.Sprintf("%s selects %v, the documented rule selects %v", pkg, r.Enabled, want), map[string]interface{}{"config": c.String(), "args": c.cliArgs()})
			}
			if (len(want) == 0) != (r.Err == "empty checkers set selected") {
				meta.Fail("C06/"+pkg+"/empty-selection", fmt.Sprintf("empty selection error mismatch: err=%q selected=%d", r.Err, len(want)), c.String())
			}
			// never initialise an unselected checker (probe constructors record themselves)
			var wantCtor []string
			for _, n := range want {
				if probes.IsProbe(n) {
					wantCtor = append(wantCtor, n)
				}
			}
			if !eqStrs(r.Constructed, wantCtor) {
				meta.Fail("C06/"+pkg+"/constructed", fmt.Sprintf("constructed %v, selected probes %v", r.Constructed, wantCtor), c.String())
			}
		}
		// analyzer dialect: trimmed keys, "<default>" handling, own default enable
		aen := "#diagnostic,#style,#security"
		if c.Enable != nil {
			aen = *c.Enable
		}
		adis := "<default>"
		if c.Disable != nil {
			adis = *c.Disable
		}
		if adis == "<default>" {
			if c.All {
				adis = ""
			} else {
				adis = "#experimental,#opinionated,#performance"
			}
		}
		trim := func(s string) []string {
			parts := strings.Split(s, ",")
			for k := range parts {
				parts[k] = strings.TrimSpace(parts[k])
			}
			return parts
		}
		var wantAn []string
		for j, n := range names {
			if oracleSelected(c.All, trim(aen), trim(adis), n, tags[j]) {
				wantAn = append(wantAn, n)
			}
		}
		if !eqStrs(anRes[i], wantAn) {
			meta.Fail("C06/analyzer/selection", fmt.Sprintf("analyzer selects %v, the documented rule selects %v", anRes[i], wantAn), c.String())
		}
		// "identically in the CLI, its twin binary, the analyzer": the same explicit flag texts select the same set
		// (the analyzer's "<default>" disable value is its own dialect and excluded)
		if c.Enable != nil && c.Disable != nil && *c.Disable != "<default>" && results["./cmd/go-critic"][i].Panic == "" {
			if cliSet := results["./cmd/go-critic"][i].Enabled; !eqStrs(cliSet, anRes[i]) {
				key := "C06/frontends/same-flag-text-selects-differently"
				if hasPadding(*c.Enable) || hasPadding(*c.Disable) {
					key = "C06/frontends/padded-key-selects-differently"
				}
				meta.Fail(key, fmt.Sprintf("-enable=%q -disable=%q enableAll=%v: the CLI selects %v, the analyzer selects %v", *c.Enable, *c.Disable, c.All, head(cliSet, 8), head(anRes[i], 8)), map[string]interface{}{"config": c.String(), "cli_args": c.cliArgs()})
			}
		}
		key := fmt.Sprint(results["./cmd/go-critic"][i].Enabled, anRes[i])
		if !distinct[key] && len(want) > 0 && len(want) < len(names) {
			nontrivial++
		}
		distinct[key] = true
	}
	// defaults: identical in CLI, twin, analyzer and docs marks on the real registry
	{
		names, tags := regNames["real"], regTags["real"]
		var want []string
		for j, n := range names {
			if noOptin(tags[j]) {
				want = append(want, n)
			}
		}
		i := len(configs) - 1 // {false,nil,nil,"real"}
		for _, pkg := range []string{"./cmd/go-critic", "./cmd/gocritic"} {
			if !eqStrs(results[pkg][i].Enabled, want) {
				meta.Fail("C06/"+pkg+"/default-set", fmt.Sprintf("default set %v differs from the no-opt-in set %v", results[pkg][i].Enabled, want), "no flags")
			}
		}
		if !eqStrs(anRes[i], want) {
			meta.Fail("C06/analyzer/default-set", fmt.Sprintf("analyzer default set differs from the CLI default set: analyzer=%v want=%v", anRes[i], want), "no flags")
		}
		if marks, err := docsMarks(); err != nil {
			meta.Notes = append(meta.Notes, "docs/overview.md not parsed: "+err.Error())
		} else {
			for j, n := range names {
				m, ok := marks[n]
				if !ok {
					meta.Fail("C06/docs/missing", "docs/overview.md has no row for "+n, n)
				} else if m != noOptin(tags[j]) {
					meta.Fail("C06/docs/mark", fmt.Sprintf("docs/overview.md marks %s enabled-by-default=%v, selection rule says %v", n, m, noOptin(tags[j])), n)
				}
			}
		}
	}
	inert := inertParameters(meta, outDir)
	meta.Evaluations = len(configs)*3 + inert
	meta.Distinct = nontrivial
	meta.Rule = "configurations = enableAll x enable list x disable list over an alphabet of own/other names, the six #tags, unknown and empty keys (exhaustive for lists of length <= 2 in thorough, all length <= 1 plus a 1/12 sample in quick), plus random lists up to length 4 with analyzer-dialect padding; each is run through both CLI mains (bridge), the analyzer hook and the Coq model; distinct_nontrivial counts distinct (CLI set, analyzer set) outcomes that select a proper non-empty subset"

	// 5. cases for the model
	var hdr strings.Builder
	hdr.WriteString("From GC Require Import Base Model_Select.\n")
	hdr.WriteString(regDef("reg_probe", "probe"))
	hdr.WriteString(regDef("reg_real", "real"))
	hdr.WriteString(regDef("reg_all", "all"))
	hdr.WriteString(`
Record case := { k_reg : list checker; k_all : bool; k_en : option string; k_dis : option string;
                 k_cli : list N; k_twin : list N; k_an : list N; k_cli_empty : bool }.
Definition nl_eqb := list_eqb N.eqb.
Definition case_ok (k : case) : bool :=
  let f := {| cf_all := k_all k; cf_enable := k_en k; cf_disable := k_dis k |} in
  let a := {| af_all := k_all k; af_enable := k_en k; af_disable := k_dis k |} in
  let m := selected_idxs (cli_selected (k_reg k) f) (k_reg k) in
  nl_eqb m (k_cli k) && nl_eqb m (k_twin k)
  && nl_eqb (selected_idxs (an_selected a) (k_reg k)) (k_an k)
  && Bool.eqb (match cli_init (fun _ => true) (k_reg k) f with InitErrEmpty => true | _ => false end) (k_cli_empty k).
Definition cases : list case := [
`)
	maxModel := 900
	if tier == "thorough" {
		maxModel = 20000
	}
	step := 1
	if len(configs) > maxModel {
		step = len(configs)/maxModel + 1
	}
	const shards = 8
	var bodies [shards][]string
	var idx [shards][]string
	nModel := 0
	for i, c := range configs {
		if i%step != 0 && i < len(configs)-3 && c.Registry == "probe" {
			continue
		}
		names := regNames[c.Registry]
		line := fmt.Sprintf("  {| k_reg := %s; k_all := %s; k_en := %s; k_dis := %s; k_cli := %s; k_twin := %s; k_an := %s; k_cli_empty := %s |}",
			"reg_"+c.Registry, coqfmt.Bool(c.All), coqfmt.OptStr(c.Enable), coqfmt.OptStr(c.Disable),
			coqfmt.NList(idxsOf(results["./cmd/go-critic"][i].Enabled, names)),
			coqfmt.NList(idxsOf(results["./cmd/gocritic"][i].Enabled, names)),
			coqfmt.NList(idxsOf(anRes[i], names)),
			coqfmt.Bool(results["./cmd/go-critic"][i].Err == "empty checkers set selected"))
		sh := nModel % shards
		bodies[sh] = append(bodies[sh], line)
		idx[sh] = append(idx[sh], c.String())
		nModel++
		if nModel%97 == 0 {
			meta.AddSample(map[string]interface{}{"config": c.String(), "cli": results["./cmd/go-critic"][i].Enabled, "analyzer": anRes[i]})
		}
	}
	for sh := 0; sh < shards; sh++ {
		name := fmt.Sprintf("cases_c06_%d", sh)
		common.WriteFile(filepath.Join(outDir, name+".v"), hdr.String()+strings.Join(bodies[sh], ";\n")+"\n].\nDefinition M := Eval vm_compute in mismatches case_ok cases.\nPrint M.\n")
		common.WriteFile(filepath.Join(outDir, name+".index.txt"), strings.Join(idx[sh], "\n")+"\n")
		meta.CaseFiles = append(meta.CaseFiles, name+".v")
	}
	meta.Distribution["model_cases"] = nModel

	// 6. end-to-end: the three binaries' own debug output
	endToEnd(meta, tier, seed, outDir, regNames["real"], regTags["real"])
	return meta
}

var enabledRE = regexp.MustCompile(`debug: (\w+) is enabled`)

func parseEnabled(out string) []string {
	var names []string
	for _, m := range enabledRE.FindAllStringSubmatch(out, -1) {
		names = append(names, m[1])
	}
	sort.Strings(names)
	return names
}

func endToEnd(meta *common.Meta, tier string, seed int64, outDir string, names []string, tags [][]string) {
	rng := common.NewRand(seed, "c06-e2e")
	bin := common.BinDir()
	ws := filepath.Join(outDir, "ws")
	common.WriteFile(filepath.Join(ws, "go.mod"), "module e2e\n\ngo 1.20\n")
	common.WriteFile(filepath.Join(ws, "a.go"), "package e2e\n\nfunc F(xs []int) int { return len(xs) }\n")
	// a file on which many checkers, rule groups among them, have something to say: which rules fire is observable
	common.WriteFile(filepath.Join(ws, "b.go"), "package e2e\n\nimport \"strings\"\n\nfunc P(xs []int, s string, IN int) (int, bool) {\n\tn := 0\n\tn = n + 1\n\tif len(xs) >= 0 {\n\t\tn++\n\t}\n\tif len(s) == 0 {\n\t\tn++\n\t}\n\tys := xs[:]\n\tb := strings.Index(s, \"x\") >= 0\n\tif !(n != 1) {\n\t\tn--\n\t}\n\tswitch {\n\tcase n > 1:\n\t\tn++\n\t}\n\tvar err error\n\t_ = err\n\tzs := append(ys, 1)\n\tys = append(zs, 2)\n\treturn n + len(ys) + IN, b\n}\n")
	ref := referenceMessages(meta, ws, names)
	n := 6
	if tier == "thorough" {
		n = 150
	}
	alpha := []string{"appendAssign", "hugeParam", "#diagnostic", "#style", "#performance", "#experimental", "#opinionated", "#security", "unknown", "", "sloppyLen", "ruleguard", " sloppyLen", "#style ", " #performance"}
	cfgs := []config{{false, nil, nil, "real"}, {true, nil, nil, "real"}, {false, sp("unknown"), nil, "real"}, {true, nil, sp("#diagnostic,#style,#performance"), "real"}}
	// near-miss spellings of keys (a tag word without '#', a checker name with '#')
	cfgs = append(cfgs, config{false, sp("style"), nil, "real"}, config{true, nil, sp("experimental,#sloppyLen,##style"), "real"})
	n += 2
	for len(cfgs) < n {
		mk := func() *string {
			k := rng.Intn(4)
			if k == 3 {
				return nil
			}
			var ks []string
			for i := 0; i <= k; i++ {
				ks = append(ks, alpha[rng.Intn(len(alpha))])
			}
			return sp(strings.Join(ks, ","))
		}
		cfgs = append(cfgs, config{rng.Intn(5) == 0, mk(), mk(), "real"})
	}
	env := common.GoEnv()
	ran := 0
	for _, c := range cfgs {
		en := []string{}
		if c.Enable != nil {
			en = trimSplit(*c.Enable)
		} else {
			for j, nme := range names {
				if noOptin(tags[j]) {
					en = append(en, nme)
				}
			}
		}
		dis := []string{""}
		if c.Disable != nil {
			dis = trimSplit(*c.Disable)
		}
		var want []string
		for j, nme := range names {
			if oracleSelected(c.All, en, dis, nme, tags[j]) {
				want = append(want, nme)
			}
		}
		sort.Strings(want)
		for _, exe := range []string{"go-critic", "gocritic"} {
			args := append([]string{"check", "-v"}, c.cliArgs()...)
			// parameters of unselected checkers must be inert
			if !contains(want, "ruleguard") {
				args = append(args, "-@ruleguard.rules=/nonexistent/rules.go", "-@ruleguard.failOn=all")
			}
			args = append(args, "./...")
			out, code, err := common.Run(120*time.Second, ws, env, filepath.Join(bin, exe), args...)
			ran++
			if err != nil {
				meta.Fail("C06/"+exe+"/e2e-run", "binary did not finish: "+err.Error(), args)
				continue
			}
			got := parseEnabled(out)
			if !eqStrs(got, want) {
				meta.Fail("C06/"+exe+"/e2e-selection", fmt.Sprintf("'is enabled' lines %v differ from the documented rule %v", got, want), args)
			}
			if len(want) == 0 && (code == 0 || !strings.Contains(out, "empty checkers set selected")) {
				meta.Fail("C06/"+exe+"/e2e-empty", fmt.Sprintf("empty selection: exit=%d output=%q", code, tail(out)), args)
			}
			if len(want) > 0 && strings.Contains(out, "init checkers:") {
				meta.Fail("C06/"+exe+"/e2e-inert-params", "initialisation failed although only unselected checkers had bad parameters: "+tail(out), args)
			}
			// every diagnostic line is attributed to a selected checker
			for _, line := range strings.Split(out, "\n") {
				if m := diagRE.FindStringSubmatch(line); m != nil && !contains(want, m[1]) {
					meta.Fail("C06/"+exe+"/e2e-attribution", "diagnostic attributed to unselected checker: "+line, args)
				}
			}
			checkOwnMessages(meta, exe, args, out, ref)
			if exe == "go-critic" {
				ran += envInvariance(meta, ws, env, bin, exe, args, out)
			}
		}
	}
	// the analysis binaries, in the analyzer's flag dialect: 'is enabled' lines of -debug-init, and an
	// empty selection must be a reported error (non-zero exit, message), never a silent clean run
	anCfgs := []struct {
		all     bool
		enable  *string
		disable *string
	}{
		{false, nil, nil}, {true, nil, nil}, {true, nil, sp("#experimental,#opinionated")}, {false, sp("captLocal"), sp("#style")},
		{false, sp("#performance"), nil}, {false, sp("nosuchchecker"), nil}, {false, sp("appendAssign,hugeParam"), sp("")},
		{true, nil, sp("#diagnostic,#style,#performance")}, {false, sp("#security"), sp("")},
	}
	trim := func(s string) []string {
		parts := strings.Split(s, ",")
		for k := range parts {
			parts[k] = strings.TrimSpace(parts[k])
		}
		return parts
	}
	for _, c := range anCfgs {
		aen := "#diagnostic,#style,#security"
		if c.enable != nil {
			aen = *c.enable
		}
		adis := "<default>"
		if c.disable != nil {
			adis = *c.disable
		}
		if adis == "<default>" {
			if c.all {
				adis = ""
			} else {
				adis = "#experimental,#opinionated,#performance"
			}
		}
		var want []string
		for j, nme := range names {
			if oracleSelected(c.all, trim(aen), trim(adis), nme, tags[j]) {
				want = append(want, nme)
			}
		}
		sort.Strings(want)
		for _, exe := range []string{"go-critic-analysis", "gocritic-analysis"} {
			args := []string{"-debug-init"}
			if c.all {
				args = append(args, "-enable-all")
			}
			if c.enable != nil {
				args = append(args, "-enable="+*c.enable)
			}
			if c.disable != nil {
				args = append(args, "-disable="+*c.disable)
			}
			args = append(args, "./...")
			out, code, err := common.Run(120*time.Second, ws, env, filepath.Join(bin, exe), args...)
			ran++
			if err != nil {
				meta.Fail("C06/"+exe+"/e2e-run", "binary did not finish: "+err.Error(), args)
				continue
			}
			got := parseEnabled(out)
			if !eqStrs(got, want) {
				meta.Fail("C06/"+exe+"/e2e-selection", fmt.Sprintf("'is enabled' lines %v differ from the documented rule %v", head(got, 6), head(want, 6)), args)
			}
			if len(want) == 0 && (code == 0 || !strings.Contains(out, "empty checkers set selected")) {
				meta.Fail("C06/"+exe+"/e2e-empty", fmt.Sprintf("empty selection is not reported as an error: exit=%d output=%q", code, tail(out)), args)
			}
			checkOwnMessages(meta, exe, args, out, ref)
			if exe == "go-critic-analysis" {
				ran += envInvariance(meta, ws, env, bin, exe, args, out)
			}
		}
	}
	// the same -enable / -disable texts given to a CLI and to an analysis binary select the same checkers
	// (lists as people type them: ", " and " ," separators, a leading blank after the '=')
	seps := []string{",", ", ", " ,", " , "}
	same := [][2]string{{" sloppyLen", ""}, {"#diagnostic, #style", "#experimental, #opinionated"}, {"assignOp,dupSubExpr sloppyLen", ""}, {"#diagnostic", "#experimental\t#opinionated"}}
	nSame := 6
	if tier == "thorough" {
		nSame = 40
	}
	for len(same) < nSame {
		mk := func() string {
			k := 1 + rng.Intn(3)
			var ks []string
			for i := 0; i < k; i++ {
				ks = append(ks, alpha[rng.Intn(len(alpha))])
			}
			return strings.Join(ks, seps[rng.Intn(len(seps))])
		}
		same = append(same, [2]string{mk(), mk()})
	}
	for _, sd := range same {
		sets := map[string][]string{}
		var exes []string
		for _, exe := range []string{"go-critic", "go-critic-analysis"} {
			args := []string{"check", "-v"}
			if exe != "go-critic" {
				args = []string{"-debug-init"}
			}
			args = append(args, "-enable="+sd[0], "-disable="+sd[1], "./...")
			out, _, err := common.Run(120*time.Second, ws, env, filepath.Join(bin, exe), args...)
			ran++
			if err != nil {
				meta.Fail("C06/"+exe+"/e2e-run", "binary did not finish: "+err.Error(), args)
				continue
			}
			sets[exe] = parseEnabled(out)
			exes = append(exes, exe)
		}
		if len(exes) == 2 && !eqStrs(sets[exes[0]], sets[exes[1]]) {
			key := "C06/frontends/same-flag-text-selects-differently"
			if hasPadding(sd[0]) || hasPadding(sd[1]) {
				key = "C06/frontends/padded-key-selects-differently"
			}
			meta.Fail(key, fmt.Sprintf("-enable=%q -disable=%q: go-critic check enables %v, go-critic-analysis enables %v", sd[0], sd[1], head(sets["go-critic"], 8), head(sets["go-critic-analysis"], 8)), map[string]interface{}{"enable": sd[0], "disable": sd[1], "binaries": exes})
		}
	}
	ran += inertOutOfDomain(meta, ws, env, bin)
	meta.Distribution["end_to_end_runs"] = ran
	os.RemoveAll(ws)
}

// trimSplit is the property's reading of a key list: elements separated by commas, blanks around them insignificant.
func trimSplit(s string) []string {
	parts := strings.Split(s, ",")
	for k := range parts {
		parts[k] = strings.TrimSpace(parts[k])
	}
	return parts
}

// hasPadding: some element of the comma-separated list changes under strings.TrimSpace
func hasPadding(list string) bool {
	for _, k := range strings.Split(list, ",") {
		if strings.TrimSpace(k) != k {
			return true
		}
	}
	return false
}

func head(l []string, n int) []string {
	if len(l) > n {
		return l[:n]
	}
	return l
}

var diagRE = regexp.MustCompile(`^\S+\.go:\d+:\d+: (\w+): `)

func contains(l []string, s string) bool {
	for _, x := range l {
		if x == s {
			return true
		}
	}
	return false
}

func tail(s string) string {
	if len(s) > 300 {
		return s[len(s)-300:]
	}
	return s
}

var docRowRE = regexp.MustCompile(`(?m)^\|:(heavy|white)_check_mark:\[(\w+)\]`)

// docsMarks parses docs/overview.md: checker -> marked enabled by default.
func docsMarks() (map[string]bool, error) {
	data, err := os.ReadFile(filepath.Join(common.RepoDir, "docs", "overview.md"))
	if err != nil {
		return nil, err
	}
	marks := map[string]bool{}
	for _, m := range docRowRE.FindAllStringSubmatch(string(data), -1) {
		marks[m[2]] = m[1] == "heavy"
	}
	if len(marks) == 0 {
		return nil, fmt.Errorf("no rows recognised")
	}
	return marks, nil
}

// GenRegistry is the translator for gen/Registry.v.
func GenRegistry(outDir string) error {
	probes.Register()
	var b strings.Builder
	b.WriteString("(* GENERATED by vh gen registry from linter.GetCheckersInfo() after InitEmbeddedRules — do not edit *)\n")
	b.WriteString("From GC Require Import Base Model_Select.\n")
	b.WriteString(regDef("registry", "real"))
	var emb []string
	type prm struct{ checker, name, kind, def string }
	var prms []prm
	for _, info := range probes.InfoList("real") {
		if info.EmbeddedRuleguard {
			emb = append(emb, info.Name)
		}
		var pn []string
		for k := range info.Params {
			pn = append(pn, k)
		}
		sort.Strings(pn)
		for _, k := range pn {
			v := info.Params[k].Value
			prms = append(prms, prm{info.Name, k, fmt.Sprintf("%T", v), fmt.Sprint(v)})
		}
	}
	fmt.Fprintf(&b, "Definition registry_embedded : list string := %s.\n", coqfmt.StrList(emb))
	var items []string
	for _, p := range prms {
		items = append(items, fmt.Sprintf("(%s, %s, %s, %s)", coqfmt.Str(p.checker), coqfmt.Str(p.name), coqfmt.Str(p.kind), coqfmt.Str(p.def)))
	}
	fmt.Fprintf(&b, "Definition registry_params : list (string * string * string * string) := [\n  %s\n].\n", strings.Join(items, ";\n  "))
	// docs marks
	marks, err := docsMarks()
	if err != nil {
		return err
	}
	var mn []string
	for n := range marks {
		mn = append(mn, n)
	}
	sort.Strings(mn)
	items = nil
	for _, n := range mn {
		items = append(items, fmt.Sprintf("(%s, %s)", coqfmt.Str(n), coqfmt.Bool(marks[n])))
	}
	fmt.Fprintf(&b, "Definition docs_overview_marks : list (string * bool) := [\n  %s\n].\n", strings.Join(items, ";\n  "))
	common.WriteFile(filepath.Join(outDir, "Registry.v"), b.String())
	_ = linter.GetCheckersInfo
	return nil
}

var ownDiagRE = regexp.MustCompile(`^(\S+\.go):(\d+):(\d+): (\w+): (.*)$`)

// referenceMessages: what every registered checker, run through the library on the workspace, reports:
// checker -> set of "base.go:line:col: message". A front-end may only print, under a checker's name, what that
// checker itself reports.
func referenceMessages(meta *common.Meta, ws string, names []string) map[string]map[string]bool {
	ref := map[string]map[string]bool{}
	fset, pkgs, err := load.Packages(ws, common.GoEnv(), "./...")
	if err != nil {
		meta.Notes = append(meta.Notes, "e2e reference: load failed: "+err.Error())
		return nil
	}
	sel := map[string]bool{}
	for _, n := range names {
		if n != "ruleguard" {
			sel[n] = true
		}
	}
	ctx := load.NewContext(fset)
	cs, err := load.Checkers(ctx, sel)
	if err != nil {
		meta.Notes = append(meta.Notes, "e2e reference: "+err.Error())
		return nil
	}
	for _, pkg := range pkgs {
		load.CheckPackage(ctx, cs, pkg, func(full string, c *linter.Checker, ws []linter.Warning) {
			for _, w := range ws {
				pos := fset.Position(w.Pos)
				if ref[c.Info.Name] == nil {
					ref[c.Info.Name] = map[string]bool{}
				}
				ref[c.Info.Name][fmt.Sprintf("%s:%d:%d: %s", filepath.Base(pos.Filename), pos.Line, pos.Column, w.Text)] = true
			}
		})
	}
	meta.Distribution["e2e_reference_checkers_with_findings"] = len(ref)
	return ref
}

func checkOwnMessages(meta *common.Meta, exe string, args []string, out string, ref map[string]map[string]bool) {
	if ref == nil {
		return
	}
	for _, line := range strings.Split(out, "\n") {
		m := ownDiagRE.FindStringSubmatch(line)
		if m == nil || m[4] == "ruleguard" {
			continue
		}
		key := fmt.Sprintf("%s:%s:%s: %s", filepath.Base(m[1]), m[2], m[3], m[5])
		if !ref[m[4]][key] {
			owner := ""
			for c, set := range ref {
				if set[key] {
					owner = c
				}
			}
			what := fmt.Sprintf("%s prints %q under the name of %s, which does not report that itself", exe, line, m[4])
			if owner != "" {
				what += " (it is what " + owner + " reports)"
			}
			meta.Fail("C06/"+exe+"/e2e-message-not-of-this-checker", what, map[string]interface{}{"exe": exe, "args": args, "line": line})
		}
	}
}

// envInvariance repeats a run under the tool's own debugging environment variables (GOCRITIC_RULEGUARD_DEBUG, DEBUG):
// the selection ('is enabled' lines) and the diagnostics must be what they are without them.
func envInvariance(meta *common.Meta, ws string, env []string, bin, exe string, args []string, plain string) int {
	dbgEnv := append(append([]string(nil), env...), "GOCRITIC_RULEGUARD_DEBUG=1", "DEBUG=1")
	out, _, err := common.Run(120*time.Second, ws, dbgEnv, filepath.Join(bin, exe), args...)
	if err != nil {
		meta.Fail("C06/"+exe+"/e2e-run", "binary did not finish under GOCRITIC_RULEGUARD_DEBUG=1: "+err.Error(), args)
		return 1
	}
	diags := func(s string) []string {
		seen := map[string]bool{}
		var l []string
		for _, line := range strings.Split(s, "\n") {
			if ownDiagRE.MatchString(line) && !seen[line] {
				seen[line] = true
				l = append(l, line)
			}
		}
		sort.Strings(l)
		return l
	}
	a, b := diags(plain), diags(out)
	if !eqStrs(a, b) || !eqStrs(parseEnabled(plain), parseEnabled(out)) {
		missing, extra := 0, []string{}
		in := map[string]bool{}
		for _, x := range a {
			in[x] = true
		}
		for _, x := range b {
			if !in[x] {
				extra = append(extra, x)
			}
		}
		missing = len(a) + len(extra) - len(b)
		meta.Fail("C06/"+exe+"/e2e-output-depends-on-debug-environment", fmt.Sprintf("%s %v: with GOCRITIC_RULEGUARD_DEBUG=1 DEBUG=1 the run prints %d diagnostics (%d without); extra: %v; missing: %d; enabled sets equal: %v", exe, args, len(b), len(a), head(extra, 3), missing, eqStrs(parseEnabled(plain), parseEnabled(out))), map[string]interface{}{"exe": exe, "args": args, "env": "GOCRITIC_RULEGUARD_DEBUG=1 DEBUG=1"})
	}
	return 1
}
