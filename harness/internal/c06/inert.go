package c06

import (
	"fmt"
	"sort"

	"github.com/go-critic/go-critic/linter"

	"verifharness/internal/common"
)

// inertParameters: "a checker that is not selected is never initialised, so its parameters are inert" — a
// parameter flag of one checker must not change any other checker's parameter cell (the cells are what a
// selected checker reads).  Every parameter of every checker is set to a non-default value on both CLI mains
// and all other cells must keep their defaults.
func inertParameters(meta *common.Meta, outDir string) int {
	type bcase struct {
		Op       string   `json:"op"`
		Args     []string `json:"args"`
		Registry string   `json:"registry"`
	}
	type bres struct {
		Params map[string]string `json:"params"`
		Err    string            `json:"err"`
	}
	type prm struct{ key, flag string }
	var prms []prm
	for _, info := range linter.GetCheckersInfo() {
		var names []string
		for n := range info.Params {
			names = append(names, n)
		}
		sort.Strings(names)
		for _, n := range names {
			var v string
			switch x := info.Params[n].Value.(type) {
			case bool:
				v = fmt.Sprint(!x)
			case int:
				v = fmt.Sprint(x + 7)
			case string:
				if info.Name == "ruleguard" {
					continue // its strings are validated by the constructor, which is C18's subject
				}
				v = x + "x"
			}
			prms = append(prms, prm{info.Name + "." + n, "-@" + info.Name + "." + n + "=" + v})
		}
	}
	cases := []bcase{{Op: "params", Registry: "real"}}
	for _, p := range prms {
		cases = append(cases, bcase{Op: "params", Args: []string{p.flag}, Registry: "real"})
	}
	n := 0
	for _, pkg := range []string{"./cmd/go-critic", "./cmd/gocritic"} {
		var res []bres
		if err := common.RunBridge(pkg, cases, &res, outDir); err != nil || len(res) != len(cases) {
			meta.TieBroken = append(meta.TieBroken, fmt.Sprintf("hook params %s: %v", pkg, err))
			continue
		}
		def := res[0].Params
		for i, p := range prms {
			r := res[i+1]
			n++
			if r.Err != "" {
				continue
			}
			if r.Params[p.key] == def[p.key] {
				meta.Fail("C06/"+pkg[6:]+"/parameter-flag-without-effect", fmt.Sprintf("%s: %s leaves the cell at %s", pkg, p.flag, def[p.key]), p.flag)
			}
			for k, v := range r.Params {
				if k != p.key && v != def[k] {
					meta.Fail("C06/"+pkg[6:]+"/parameter-of-another-checker-changed", fmt.Sprintf("%s: the flag %s changes the parameter %s from %s to %s: a checker's parameters are not inert for the others", pkg, p.flag, k, def[k], v),
						map[string]string{"flag": p.flag, "changed": k, "from": def[k], "to": v})
				}
			}
		}
	}
	return n
}
