package c06

import (
	"fmt"
	"path/filepath"
	"sort"
	"strings"
	"time"

	"github.com/go-critic/go-critic/linter"

	"verifharness/internal/common"
)

// inertParameters: "a checker that is not selected is never initialised, so its parameters are inert" — a
// parameter flag of one checker must not change any other checker's parameter cell (the cells are what a
// selected checker reads).  Every parameter of every checker is set to a non-default value on both CLI mains
// and all other cells must keep their defaults.
func inertParameters(meta *common.Meta, outDir string) int {
	type bcase struct {
		Op       string   `json:"op"`
		Args     []string `json:"args"`
		Registry string   `json:"registry"`
	}
	type bres struct {
		Params map[string]string `json:"params"`
		Err    string            `json:"err"`
	}
	type prm struct{ key, flag string }
	var prms []prm
	for _, info := range linter.GetCheckersInfo() {
		var names []string
		for n := range info.Params {
			names = append(names, n)
		}
		sort.Strings(names)
		for _, n := range names {
			var v string
			switch x := info.Params[n].Value.(type) {
			case bool:
				v = fmt.Sprint(!x)
			case int:
				v = fmt.Sprint(x + 7)
			case string:
				if info.Name == "ruleguard" {
					continue // its strings are validated by the constructor, which is C18's subject
				}
				v = x + "x"
			}
			prms = append(prms, prm{info.Name + "." + n, "-@" + info.Name + "." + n + "=" + v})
		}
	}
	cases := []bcase{{Op: "params", Registry: "real"}}
	for _, p := range prms {
		cases = append(cases, bcase{Op: "params", Args: []string{p.flag}, Registry: "real"})
	}
	n := 0
	for _, pkg := range []string{"./cmd/go-critic", "./cmd/gocritic"} {
		var res []bres
		if err := common.RunBridge(pkg, cases, &res, outDir); err != nil || len(res) != len(cases) {
			meta.TieBroken = append(meta.TieBroken, fmt.Sprintf("hook params %s: %v", pkg, err))
			continue
		}
		def := res[0].Params
		for i, p := range prms {
			r := res[i+1]
			n++
			if r.Err != "" {
				continue
			}
			if r.Params[p.key] == def[p.key] {
				meta.Fail("C06/"+pkg[6:]+"/parameter-flag-without-effect", fmt.Sprintf("%s: %s leaves the cell at %s", pkg, p.flag, def[p.key]), p.flag)
			}
			for k, v := range r.Params {
				if k != p.key && v != def[k] {
					meta.Fail("C06/"+pkg[6:]+"/parameter-of-another-checker-changed", fmt.Sprintf("%s: the flag %s changes the parameter %s from %s to %s: a checker's parameters are not inert for the others", pkg, p.flag, k, def[k], v),
						map[string]string{"flag": p.flag, "changed": k, "from": def[k], "to": v})
				}
			}
		}
	}
	return n
}

// inertOutOfDomain: "a checker that is not selected is never initialised, so its parameters are inert" — also for
// values no constructor would accept. Every parameter of every checker EXCEPT the selected one is set to boundary
// and out-of-domain values of its type (negative, zero, huge and minimal integers; empty, unknown and
// separator-only strings; both booleans) on all four binaries; the run must select exactly the one checker and
// must not fail. When a batch fails, each flag is retried alone so that the witness names the parameter.
func inertOutOfDomain(meta *common.Meta, ws string, env []string, bin string) int {
	selected := ""
	for _, info := range linter.GetCheckersInfo() {
		if len(info.Params) == 0 && info.Name == "sloppyLen" {
			selected = info.Name
		}
	}
	if selected == "" {
		for _, info := range linter.GetCheckersInfo() {
			if len(info.Params) == 0 {
				selected = info.Name
				break
			}
		}
	}
	type class struct {
		name string
		i    string
		s    string
		b    string
	}
	classes := []class{
		{"negative/empty/true", "-1", "", "true"},
		{"zero/unknown/false", "0", "verif-unknown-value", "false"},
		{"huge/separators/true", "4611686018427387904", " , ,", "true"},
		{"minimal/blank/false", "-9223372036854775808", " ", "false"},
	}
	flagsOf := func(c class) []string {
		var out []string
		for _, info := range linter.GetCheckersInfo() {
			if info.Name == selected {
				continue
			}
			var names []string
			for n := range info.Params {
				names = append(names, n)
			}
			sort.Strings(names)
			for _, n := range names {
				v := ""
				switch info.Params[n].Value.(type) {
				case bool:
					v = c.b
				case int:
					v = c.i
				case string:
					v = c.s
				}
				out = append(out, "-@"+info.Name+"."+n+"="+v)
			}
		}
		return out
	}
	runs := 0
	try := func(exe string, flags []string) (ok bool, detail string) {
		var args []string
		if exe == "go-critic" || exe == "gocritic" {
			args = append([]string{"check", "-v", "-enable=" + selected}, flags...)
		} else {
			args = append([]string{"-debug-init", "-enable=" + selected, "-disable="}, flags...)
		}
		args = append(args, "./...")
		out, code, err := common.Run(120*time.Second, ws, env, filepath.Join(bin, exe), args...)
		runs++
		if err != nil {
			return false, "did not finish: " + err.Error()
		}
		got := parseEnabled(out)
		if len(got) != 1 || got[0] != selected || (code != 0 && code != 1 && code != 3) ||
			strings.Contains(out, "init checkers:") || strings.Contains(out, "assign checker params:") || strings.Contains(out, "parse args:") || strings.Contains(out, "init error") || strings.Contains(out, "panic:") {
			return false, fmt.Sprintf("exit=%d enabled=%v output: %s", code, head(got, 4), tail(out))
		}
		return true, ""
	}
	for _, exe := range []string{"go-critic", "gocritic", "go-critic-analysis", "gocritic-analysis"} {
		for _, c := range classes {
			flags := flagsOf(c)
			ok, detail := try(exe, flags)
			if ok {
				continue
			}
			culprits := 0
			for _, f := range flags {
				if ok1, d1 := try(exe, []string{f}); !ok1 {
					culprits++
					meta.Fail("C06/"+exe+"/e2e-inert-params-out-of-domain", fmt.Sprintf("%s with only %s selected fails because of %s, a parameter of a checker that is not selected: %s", exe, selected, f, d1), map[string]interface{}{"exe": exe, "flag": f, "selected": selected, "value_class": c.name})
				}
			}
			if culprits == 0 {
				meta.Fail("C06/"+exe+"/e2e-inert-params-out-of-domain", fmt.Sprintf("%s with only %s selected fails when every other checker's parameters are set to %s values: %s", exe, selected, c.name, detail), map[string]interface{}{"exe": exe, "flags": flags, "selected": selected})
			}
		}
	}
	return runs
}
