package c19

// targets.go — "reported as a load error or analysed as far as its type information allows": every target of a run
// is accounted for. Each target directory carries one captLocal finding with a target-unique parameter name in a
// well-formed function, so "analysed" is observable; "reported" means a non-zero status and an output line that is
// not a diagnostic and names the target. A target that is neither (the run is silent about it) fails the oracle.
// Targets: broken packages of several kinds, and arguments that yield no package at all (missing directory, missing
// file, directory without Go files, pattern without match, unknown import path, a package on which `go list` itself
// gives up), each alone and next to a healthy package, in both argument orders.

import (
	"fmt"
	"path/filepath"
	"regexp"
	"sort"
	"strings"
	"time"

	"verifharness/internal/common"
	"verifharness/internal/coqfmt"
)

type target struct {
	class string
	group string            // defect-key component: targets that fail for the same reason share it
	arg   string            // command-line argument naming it
	token string            // what a message about it has to contain
	files map[string]string // relative to the stage directory; nil: nothing on disk
	ids   []string          // planted finding ids that an analysis of the target would print
}

func planted(id string) string {
	return "func F_" + id + "(IN_" + id + " int) int { return IN_" + id + " }\n"
}

var targetDiagRE = regexp.MustCompile("^\\S+:\\d+:\\d+: captLocal: `IN_(\\w+)' should not be capitalized$")

func targetStage(meta *common.Meta, tier, base, bin, outDir string) int {
	dir := filepath.Join(base, "tg")
	mk := func(class, id string, files map[string]string, arg string, analysable bool) target {
		t := target{class: class, arg: arg, token: strings.Trim(strings.TrimSuffix(arg, "/..."), "./"), files: files}
		if analysable {
			t.ids = []string{id}
		}
		t.group = class
		switch {
		case strings.Contains(class, "invalid-import-path"):
			t.group = "go-list-gives-up"
		case files == nil || !analysable || class == "only-a-package-clause-missing":
			t.group = "argument-yields-no-package"
		}
		return t
	}
	targets := []target{
		mk("syntax-error", "syn", map[string]string{"syn/a.go": "package syn\n\n" + planted("syn") + "\nfunc G( {\n"}, "./tg/syn", true),
		mk("syntax-error-other-file", "syn2", map[string]string{"syn2/a.go": "package syn2\n\nfunc G( {\n", "syn2/b.go": "package syn2\n\n" + planted("syn2")}, "./tg/syn2", true),
		mk("type-error", "typ", map[string]string{"typ/a.go": "package typ\n\n" + planted("typ") + "\nfunc G(n int) string { return n + \"x\" }\n"}, "./tg/typ", true),
		mk("unresolved-import", "unres", map[string]string{"unres/a.go": "package unres\n\nimport nope \"example.com/does/not/exist\"\n\n" + planted("unres") + "\nvar _ = nope.X\n"}, "./tg/unres", true),
		mk("mixed-packages", "mixed", map[string]string{"mixed/a.go": "package mixed\n\n" + planted("mixed"), "mixed/c.go": "package other\n\nfunc H() {}\n"}, "./tg/mixed", true),
		mk("invalid-import-path", "imp", map[string]string{"imp/a.go": "package imp\n\nimport \"\"\n\n" + planted("imp")}, "./tg/imp", true),
		mk("only-a-package-clause-missing", "nopkg", map[string]string{"nopkg/a.go": "\n" + planted("nopkg")}, "./tg/nopkg", true),
		// a good file next to a file that is broken at or before its package clause
		mk("clause-misspelt-next-to-good-file", "cm", map[string]string{"cm/good.go": "package cm\n\n" + planted("cm"), "cm/bad.go": "packag cm\n"}, "./tg/cm", true),
		mk("zero-byte-file-next-to-good-file", "cz", map[string]string{"cz/good.go": "package cz\n\n" + planted("cz"), "cz/bad.go": ""}, "./tg/cz", true),
		mk("conflict-marker-next-to-good-file", "cc", map[string]string{"cc/good.go": "package cc\n\n" + planted("cc"), "cc/bad.go": "<<<<<<< HEAD\npackage cc\n=======\n>>>>>>> x\n"}, "./tg/cc", true),
		mk("missing-directory", "", nil, "./tg/nosuchdir", false),
		mk("missing-file", "", nil, "./tg/nosuchfile.go", false),
		mk("pattern-without-match", "", nil, "./tg/nosuchtree/...", false),
		mk("directory-without-go-files", "", map[string]string{"nogo/README.txt": "no Go here\n"}, "./tg/nogo", false),
		mk("unknown-import-path", "", nil, "example.com/verif/nowhere", false),
		mk("import-path-not-in-module", "", nil, "urws/tg/notthere", false),
		// a healthy package below a pattern whose other member makes `go list` give up
		mk("sibling-of-invalid-import-path", "sib", map[string]string{"tree/ok/a.go": "package ok\n\n" + planted("sib"), "tree/bad/a.go": "package bad\n\nimport \"\"\n\nfunc G() {}\n"}, "./tg/tree/...", true),
	}
	for i := range targets {
		if targets[i].class == "unknown-import-path" {
			targets[i].token = "example.com/verif/nowhere"
		}
	}
	healthy := target{class: "healthy", arg: "./tg/good", token: "tg/good", files: map[string]string{"good/a.go": "package good\n\n" + planted("good")}, ids: []string{"good"}}
	for _, t := range append(targets, healthy) {
		names := make([]string, 0, len(t.files))
		for n := range t.files {
			names = append(names, n)
		}
		sort.Strings(names)
		for _, n := range names {
			common.WriteFile(filepath.Join(dir, n), t.files[n])
		}
	}
	type run struct {
		exe  string
		ts   []target
		out  string
		code int
		err  error
		args []string
	}
	var jobs []*run
	for _, t := range targets {
		sets := [][]target{{t}, {healthy, t}, {t, healthy}}
		for si, ts := range sets {
			exes := []string{"go-critic", "gocritic", "go-critic-analysis"}
			if tier == "quick" && si == 1 {
				exes = []string{"go-critic", "go-critic-analysis"}
			}
			if tier == "quick" && si == 2 {
				exes = []string{"gocritic"}
			}
			for _, exe := range exes {
				r := &run{exe: exe, ts: ts}
				if strings.HasSuffix(exe, "-analysis") {
					r.args = []string{"-enable=captLocal"}
				} else {
					r.args = []string{"check", "-enable=captLocal"}
				}
				for _, x := range ts {
					r.args = append(r.args, x.arg)
				}
				jobs = append(jobs, r)
			}
		}
	}
	sem := make(chan struct{}, 6)
	done := make(chan struct{})
	for _, j := range jobs {
		j := j
		go func() {
			sem <- struct{}{}
			j.out, j.code, j.err = common.Run(180*time.Second, base, common.GoEnv(), filepath.Join(bin, j.exe), j.args...)
			<-sem
			done <- struct{}{}
		}()
	}
	for range jobs {
		<-done
	}
	outcomes := map[string]int{}
	for _, j := range jobs {
		front := "cli"
		if strings.HasSuffix(j.exe, "-analysis") {
			front = "analyzer"
		}
		var classes []string
		for _, t := range j.ts {
			classes = append(classes, t.class)
		}
		label := strings.Join(classes, "+")
		if j.err != nil {
			meta.Fail("C19/"+front+"/hang-on-target:"+label, j.err.Error(), j.args)
			continue
		}
		if panicRE.MatchString(j.out) {
			meta.Fail("C19/"+front+"/panic-on-target:"+label, fmt.Sprintf("%s %v crashes (exit %d): %s", j.exe, j.args, j.code, firstLines(j.out, 8)), map[string]interface{}{"args": j.args, "targets": j.ts})
			continue
		}
		seen := map[string]bool{}
		var messages []string
		for _, l := range strings.Split(j.out, "\n") {
			if m := targetDiagRE.FindStringSubmatch(l); m != nil {
				seen[m[1]] = true
			} else if strings.TrimSpace(l) != "" {
				messages = append(messages, l)
			}
		}
		status := make([]string, len(j.ts))
		anyReported := false
		for ti, t := range j.ts {
			analysed := len(t.ids) > 0
			for _, id := range t.ids {
				if !seen[id] {
					analysed = false
				}
			}
			reported := false
			if j.code != 0 {
				for _, m := range messages {
					if strings.Contains(m, t.token) {
						reported = true
					}
				}
			}
			switch {
			case analysed:
				status[ti] = "analysed"
			case reported:
				status[ti] = "reported"
				anyReported = true
			default:
				status[ti] = "SILENT"
			}
		}
		for ti, t := range j.ts {
			if status[ti] == "SILENT" && anyReported {
				// the run stopped with a load error about another argument: a clean failure
				status[ti] = "run-stopped-by-reported-error"
			}
			outcomes[front+":"+t.class+":"+status[ti]]++
			if status[ti] != "SILENT" {
				continue
			}
			witness := map[string]interface{}{"exe": j.exe, "args": j.args, "cwd": "module urws (harness/internal/userrules) with the stage's tg/ tree", "files": filesOf(j.ts), "exit": j.code, "output": firstLines(j.out, 6)}
			if t.class == "healthy" {
				meta.Fail("C19/"+front+"/healthy-package-lost-next-to:"+otherGroup(j.ts), fmt.Sprintf("%s %v (exit %d): nothing is said about %s and its finding is not printed; output: %s", j.exe, j.args, j.code, t.arg, firstLines(j.out, 4)), witness)
			} else {
				meta.Fail("C19/"+front+"/target-neither-reported-nor-analysed:"+t.group, fmt.Sprintf("%s %v (exit %d): target %s is neither reported as a load error (non-zero status and a message naming it) nor analysed (its planted finding is not printed); output: %s", j.exe, j.args, j.code, t.arg, firstLines(j.out, 4)), witness)
			}
		}
	}
	meta.Distribution["target_outcomes"] = outcomes
	// model cases: the CLI step machine with the "every argument yields a package" input
	var lines, idx []string
	for _, j := range jobs {
		if strings.HasSuffix(j.exe, "-analysis") || j.err != nil {
			continue
		}
		yield, goListCrash := true, false
		for _, t := range j.ts {
			if t.group == "argument-yields-no-package" {
				yield = false
			}
			if t.group == "go-list-gives-up" {
				goListCrash = true
			}
		}
		if goListCrash {
			// `go list` panics while streaming; go/packages sometimes accepts the part already written: what the
			// arguments yield is not a function of the inputs here (recorded finding), so it is no model case
			continue
		}
		obs := "Ran"
		if j.code != 0 && !targetDiagLine(j.out) {
			step := ""
			for _, s := range []string{"parse args", "load packages", "load program", "init checkers"} {
				if strings.Contains(j.out, s+": ") {
					step = s
					break
				}
			}
			obs = "(Fatal " + coqfmt.Str(step) + ")"
		}
		lines = append(lines, fmt.Sprintf("  ({| tc_base := {| args_parse_ok := true; load_ok := true; go_version_ok := true; selection_nonempty := true; first_ctor_error := false |}; tc_all_targets_yield := %s |}, %s)", coqfmt.Bool(yield), obs))
		idx = append(idx, fmt.Sprintf("%s %v -> exit %d: %s", j.exe, j.args, j.code, firstLines(j.out, 1)))
	}
	common.WriteFile(filepath.Join(outDir, "cases_c19_targets.v"), "From GC Require Import Base Model_Init.\n"+`
Definition oc_eqb (a b : cli_outcome) : bool :=
  match a, b with
  | Fatal x, Fatal y => String.eqb x y
  | CliPanic x, CliPanic y => String.eqb x y
  | Ran, Ran => true
  | _, _ => false end.
Definition case_ok (k : target_config * cli_outcome) : bool := oc_eqb (run_cli_targets (fst k)) (snd k).
Definition cases : list (target_config * cli_outcome) := [
`+strings.Join(lines, ";\n")+"\n].\nDefinition M := Eval vm_compute in mismatches case_ok cases.\nPrint M.\n")
	common.WriteFile(filepath.Join(outDir, "cases_c19_targets.index.txt"), strings.Join(idx, "\n")+"\n")
	meta.CaseFiles = append(meta.CaseFiles, "cases_c19_targets.v")
	return len(jobs)
}

func targetDiagLine(out string) bool {
	for _, l := range strings.Split(out, "\n") {
		if targetDiagRE.MatchString(l) {
			return true
		}
	}
	return false
}

func otherGroup(ts []target) string {
	for _, t := range ts {
		if t.class != "healthy" {
			return t.group
		}
	}
	return "healthy"
}

func filesOf(ts []target) map[string]string {
	out := map[string]string{}
	for _, t := range ts {
		for n, s := range t.files {
			out["tg/"+n] = s
		}
	}
	return out
}

// profileStage: a profile that cannot be written (-cpuprofile / -memprofile below a directory that does not exist) is
// an error of the run's last steps: non-zero status, a message naming the path, no crash — and the diagnostics,
// which were complete before, are still printed.
func profileStage(meta *common.Meta, base, bin string) int {
	runs := 0
	for _, exe := range []string{"go-critic", "gocritic"} {
		for _, flag := range []string{"-cpuprofile", "-memprofile"} {
			path := filepath.Join(base, "no-such-dir-verif", "p.prof")
			args := []string{"check", "-enable=captLocal", "-exitCode=7", flag + "=" + path, "./p1"}
			out, code, err := common.Run(120*time.Second, base, common.GoEnv(), filepath.Join(bin, exe), args...)
			runs++
			switch {
			case err != nil:
				meta.Fail("C19/cli/hang:unwritable-profile", err.Error(), args)
			case panicRE.MatchString(out):
				meta.Fail("C19/cli/panic:unwritable-profile", fmt.Sprintf("%s %v panics: %s", exe, args, firstLines(out, 6)), args)
			case code == 0:
				meta.Fail("C19/cli/invalid-config-exit-0:unwritable-profile", fmt.Sprintf("%s %v exits 0 although the profile cannot be written: %s", exe, args, firstLines(out, 3)), args)
			case !strings.Contains(out, "no-such-dir-verif"):
				meta.Fail("C19/cli/message-does-not-name-problem:unwritable-profile", fmt.Sprintf("%s %v: %s", exe, args, firstLines(out, 3)), args)
			case !diagLineRE.MatchString(out):
				meta.Fail("C19/cli/diagnostics-lost:unwritable-profile", fmt.Sprintf("%s %v: the captLocal diagnostic of ./p1 is not printed: %s", exe, args, firstLines(out, 3)), args)
			}
		}
	}
	return runs
}

// versionStage: -go values that have the documented shape but name no Go release: major version 0. (The bare prefix
// "go" is a spelling of "the latest version" that the repository's own suite asserts; it is not in the list.) A front-end that accepts one of them must at least not treat it as "the latest version";
// the observable is octalLiteral (>= 1.13): `0755` is reported for the latest version and must not be reported for
// a version that is older than every release. Refusing the value (non-zero status, message quoting it) is fine.
func versionStage(meta *common.Meta, base, bin string) int {
	common.WriteFile(filepath.Join(base, "verpkg", "a.go"), "package verpkg\n\nconst Perm = 0755\n")
	runs := 0
	for _, v := range []string{"0.7", "0.0", "go0.1", "0.13", "00.5"} {
		for _, exe := range []string{"go-critic", "gocritic", "go-critic-analysis", "gocritic-analysis"} {
			front := "cli"
			args := []string{"check", "-enable=octalLiteral", "-go=" + v, "./verpkg"}
			if strings.HasSuffix(exe, "-analysis") {
				front = "analyzer"
				args = []string{"-enable=octalLiteral", "-disable=", "-go=" + v, "./verpkg"}
			}
			out, code, err := common.Run(120*time.Second, base, common.GoEnv(), filepath.Join(bin, exe), args...)
			runs++
			if err != nil {
				meta.Fail("C19/"+front+"/hang:version-naming-no-release", err.Error(), args)
				continue
			}
			if panicRE.MatchString(out) {
				meta.Fail("C19/"+front+"/panic:version-naming-no-release", fmt.Sprintf("%s %v: %s", exe, args, firstLines(out, 5)), args)
				continue
			}
			refused := code != 0 && !strings.Contains(out, "octalLiteral: ") && strings.Contains(out, v)
			if !refused && strings.Contains(out, "octalLiteral: ") {
				meta.Fail("C19/"+front+"/version-naming-no-release-taken-for-latest", fmt.Sprintf("%s %v: -go=%s names no Go release, yet it is accepted and treated as the LATEST version (octalLiteral, gated >= 1.13, reports): %s", exe, args, v, firstLines(out, 2)), map[string]interface{}{"exe": exe, "args": args, "file": "package verpkg\n\nconst Perm = 0755\n"})
			}
		}
	}
	return runs
}
