package c19

// rulefaults.go — a user rule file that cannot be loaded (syntax error, DSL error, unresolvable import, unreadable)
// under every way of spelling -@ruleguard.failOn: absent, empty, only separators, blank elements, each class, all.
// Whatever the policy decides (C18 owns the policy), the front-ends never crash, agree on the outcome class, and
// `failOn=all` is an initialisation error that names the file.

import (
	"fmt"
	"os"
	"path/filepath"
	"strings"
	"time"

	"verifharness/internal/common"
)

func ruleFaultStage(meta *common.Meta, tier, base, rulesDir, bin string) int {
	good := filepath.Join(rulesDir, "good.go")
	unreadable := filepath.Join(rulesDir, "isdir.go")
	common.Must(os.MkdirAll(unreadable, 0o755))
	faultFiles := []string{"broken.go", "dslerr.go", "importerr.go", "isdir.go"}
	type fo struct {
		name string
		val  *string
	}
	s := func(x string) *string { return &x }
	failOns := []fo{{"absent", nil}, {"empty", s("")}, {"comma", s(",")}, {"blank", s(" ")}, {"blank-elements", s(" , dsl")},
		{"trailing-comma", s("dsl,")}, {"leading-comma", s(",import")}, {"dsl", s("dsl")}, {"import", s("import")}, {"all", s("all")}}
	type job struct {
		exe, file string
		f         fo
		args      []string
		out       string
		code      int
		err       error
	}
	var jobs []*job
	for _, ff := range faultFiles {
		for _, f := range failOns {
			exes := []string{"go-critic"}
			if f.name == "all" || f.name == "comma" || f.name == "blank-elements" {
				exes = []string{"go-critic", "go-critic-analysis"}
			}
			if tier != "quick" || f.val == nil || *f.val == "" {
				exes = []string{"go-critic", "gocritic", "go-critic-analysis", "gocritic-analysis"}
			}
			for _, exe := range exes {
				var args []string
				if strings.HasSuffix(exe, "-analysis") {
					args = []string{"-enable=ruleguard,captLocal", "-disable="}
				} else {
					args = []string{"check", "-enable=ruleguard,captLocal"}
				}
				args = append(args, "-@ruleguard.rules="+good+","+filepath.Join(rulesDir, ff))
				if f.val != nil {
					args = append(args, "-@ruleguard.failOn="+*f.val)
				}
				args = append(args, "./p1")
				jobs = append(jobs, &job{exe: exe, file: ff, f: f, args: args})
			}
		}
	}
	sem := make(chan struct{}, 6)
	done := make(chan struct{})
	for _, j := range jobs {
		j := j
		go func() {
			sem <- struct{}{}
			j.out, j.code, j.err = common.Run(180*time.Second, base, common.GoEnv(), filepath.Join(bin, j.exe), j.args...)
			<-sem
			done <- struct{}{}
		}()
	}
	for range jobs {
		<-done
	}
	classes := map[string]map[string]string{} // file|failOn -> exe -> class
	dist := map[string]int{}
	for _, j := range jobs {
		front := "cli"
		if strings.HasSuffix(j.exe, "-analysis") {
			front = "analyzer"
		}
		label := strings.TrimSuffix(j.file, ".go") + "/failOn-" + j.f.name
		if j.err != nil {
			meta.Fail("C19/"+front+"/hang:rule-file-fault", fmt.Sprintf("%s %v does not finish: %v", j.exe, j.args, j.err), j.args)
			continue
		}
		class := "ran"
		diag := diagLineRE.MatchString(j.out)
		switch {
		case panicRE.MatchString(j.out):
			class = "panic"
			meta.Fail("C19/"+front+"/panic:rule-file-fault", fmt.Sprintf("%s %v panics (exit %d) on a rule file that does not load (%s): %s", j.exe, j.args, j.code, label, firstLines(j.out, 6)), map[string]interface{}{"exe": j.exe, "args": j.args, "rule_file": j.file, "failOn": j.f.name})
		case j.code != 0 && !diag:
			class = "init-error"
		case j.code == 0 && !diag:
			class = "silent"
			meta.Fail("C19/"+front+"/rule-file-fault-nothing-analysed", fmt.Sprintf("%s %v exits 0 without the captLocal diagnostic of ./p1 (%s): %s", j.exe, j.args, label, firstLines(j.out, 4)), j.args)
		}
		if j.f.name == "all" && class != "init-error" && class != "panic" {
			meta.Fail("C19/"+front+"/invalid-config-exit-0:rule-file-fault-failOn-all", fmt.Sprintf("%s %v: failOn=all and a rule file that does not load, yet the run goes on (exit %d): %s", j.exe, j.args, j.code, firstLines(j.out, 4)), j.args)
		}
		if j.f.name == "all" && class == "init-error" && !strings.Contains(j.out, j.file) {
			meta.Fail("C19/"+front+"/message-does-not-name-problem:rule-file-fault", fmt.Sprintf("%s %v: %s", j.exe, j.args, firstLines(j.out, 4)), j.args)
		}
		k := j.file + "|" + j.f.name
		if classes[k] == nil {
			classes[k] = map[string]string{}
		}
		classes[k][j.exe] = class
		dist[front+":"+class]++
	}
	for k, m := range classes {
		ref, refExe := "", ""
		for exe, c := range m {
			if ref == "" {
				ref, refExe = c, exe
			} else if c != ref {
				meta.Fail("C19/frontends/rule-file-fault-outcome-differs", fmt.Sprintf("%s: %s -> %s but %s -> %s", k, refExe, ref, exe, c), k)
			}
		}
	}
	meta.Distribution["rule_file_fault_outcomes"] = dist
	return len(jobs)
}
