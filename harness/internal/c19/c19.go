// Package c19: configuration and load errors fail cleanly on every front-end.
package c19

import (
	"fmt"
	"go/ast"
	"go/importer"
	"go/parser"
	"go/token"
	"go/types"
	"io"
	"log"
	"os"
	"path/filepath"
	"regexp"
	"runtime"
	"sort"
	"strings"
	"time"

	"github.com/go-critic/go-critic/checkers/analyzer"
	"golang.org/x/tools/go/analysis"

	"verifharness/internal/common"
	"verifharness/internal/coqfmt"
	"verifharness/internal/userrules"
)

// ---------- analyzer passes in-process ----------

type anCfg struct {
	GoOK   bool // newGocritic succeeds: -go parses and the selection is non-empty
	CtorOK bool
	Empty  bool // make newGocritic fail through an empty selection instead of a bad -go
	Debug  bool // -debug-init set (must not change any outcome)
	BadGo  string
}

func setFlags(c anCfg) {
	fl := &analyzer.Analyzer.Flags
	goV := "1.20"
	enable := "captLocal"
	rules := ""
	if !c.GoOK {
		if c.Empty {
			enable = "nosuchchecker"
		} else {
			goV = "1.x"
			if c.BadGo != "" {
				goV = c.BadGo
			}
		}
	}
	common.Must(fl.Set("debug-init", fmt.Sprint(c.Debug)))
	if !c.CtorOK {
		enable += ",ruleguard"
		rules = "/nonexistent-verif/rules-*.go"
	}
	common.Must(fl.Set("go", goV))
	common.Must(fl.Set("enable", enable))
	common.Must(fl.Set("disable", ""))
	common.Must(fl.Set("@ruleguard.rules", rules))
}

type passEnv struct {
	fset  *token.FileSet
	files []*ast.File
	pkg   *types.Package
	info  *types.Info
}

func newPassEnv() *passEnv {
	fset := token.NewFileSet()
	f, err := parser.ParseFile(fset, "a.go", "package p\n\nfunc F(IN int) int { return IN }\n", parser.ParseComments)
	common.Must(err)
	info := &types.Info{Types: map[ast.Expr]types.TypeAndValue{}, Defs: map[*ast.Ident]types.Object{}, Uses: map[*ast.Ident]types.Object{},
		Implicits: map[ast.Node]types.Object{}, Selections: map[*ast.SelectorExpr]*types.Selection{}, Scopes: map[ast.Node]*types.Scope{}}
	conf := types.Config{Importer: importer.Default()}
	pkg, err := conf.Check("p", fset, []*ast.File{f}, info)
	common.Must(err)
	return &passEnv{fset, []*ast.File{f}, pkg, info}
}

func (e *passEnv) run() (class string) {
	var diags []analysis.Diagnostic
	pass := &analysis.Pass{
		Analyzer:   analyzer.Analyzer,
		Fset:       e.fset,
		Files:      e.files,
		Pkg:        e.pkg,
		TypesInfo:  e.info,
		TypesSizes: types.SizesFor("gc", runtime.GOARCH),
		Report:     func(d analysis.Diagnostic) { diags = append(diags, d) },
		ResultOf:   map[*analysis.Analyzer]interface{}{},
	}
	defer func() {
		if r := recover(); r != nil {
			class = "panic"
		}
	}()
	_, err := analyzer.Analyzer.Run(pass)
	switch {
	case err != nil && strings.HasPrefix(err.Error(), "init error:"):
		return "initerror"
	case err != nil:
		return "ctorerror"
	case len(diags) > 0:
		return "diags"
	default:
		return "skipped"
	}
}

// strings that are not '<int>.<int>' with an optional go prefix (the documented format)
var malformedVersions = []string{"1.x", "abc", "1.21.x", "1.2.3", "1.", ".5", "1..2", "v1.2", "1.21.0", "go1.18.rc1", "1,5", "1.5 ", "0x1.2"}

var classCoq = map[string]string{"diags": "PassDiags", "initerror": "PassInitError", "ctorerror": "PassCtorError", "skipped": "PassSkipped", "panic": "PassPanic"}

func Run(tier string, seed int64, outDir string) *common.Meta {
	meta := &common.Meta{Property: "C19", Distribution: map[string]interface{}{}}
	rng := common.NewRand(seed, "c19")
	env := newPassEnv()

	// 1. histories of passes with changing flags, from a fresh global state each
	nHist := 250
	if tier == "thorough" {
		nHist = 4000
	}
	var lines, idx []string
	classCount := map[string]int{}
	distinct := map[string]bool{}
	// exhaustive for length <= 3 over the 5 configurations, then random longer ones
	cfgs := []anCfg{{GoOK: true, CtorOK: true}, {CtorOK: true}, {GoOK: true}, {}, {CtorOK: true, Empty: true}}
	var hists [][]anCfg
	var rec func(pref []anCfg)
	rec = func(pref []anCfg) {
		if len(pref) > 0 {
			hists = append(hists, append([]anCfg(nil), pref...))
		}
		if len(pref) == 3 {
			return
		}
		for _, c := range cfgs {
			rec(append(pref, c))
		}
	}
	rec(nil)
	for len(hists) < nHist+155 {
		n := 4 + rng.Intn(5)
		var h []anCfg
		for i := 0; i < n; i++ {
			h = append(h, cfgs[rng.Intn(len(cfgs))])
		}
		hists = append(hists, h)
	}
	// benign variations that must not change any outcome: -debug-init, other malformed -go spellings
	log.SetOutput(io.Discard)
	defer log.SetOutput(os.Stderr)
	for hi := range hists {
		dbg := hi%3 == 1
		for j := range hists[hi] {
			hists[hi][j].Debug = dbg
			if !hists[hi][j].GoOK && !hists[hi][j].Empty {
				hists[hi][j].BadGo = malformedVersions[(hi+j)%len(malformedVersions)]
			}
		}
	}
	evals := 0
	for _, h := range hists {
		analyzer.VerifResetGlobal()
		var obs, hc []string
		desc := ""
		sawInitErr := false
		for _, c := range h {
			setFlags(c)
			cl := env.run()
			evals++
			classCount[cl]++
			obs = append(obs, classCoq[cl])
			hc = append(hc, fmt.Sprintf("{| an_go_ok := %s; an_ctor_ok := %s |}", coqfmt.Bool(c.GoOK), coqfmt.Bool(c.CtorOK)))
			desc += fmt.Sprintf("[init_ok=%v ctor_ok=%v empty=%v debug-init=%v go=%q -> %s] ", c.GoOK, c.CtorOK, c.Empty, c.Debug, c.BadGo, cl)
			// oracle: never panic; never diagnostics after an init error was reported
			if cl == "panic" {
				key := "C19/analyzer/panic"
				if sawInitErr {
					key = "C19/analyzer/panic-on-pass-after-init-error"
				}
				meta.Fail(key, "analyzer pass panics: "+desc, desc)
			}
			if sawInitErr && cl == "diags" {
				meta.Fail("C19/analyzer/diagnostics-after-init-error", "a pass after a reported initialisation error produced diagnostics: "+desc, desc)
			}
			if cl == "initerror" {
				sawInitErr = true
			}
		}
		// oracle: an invalid configuration from the start never analyses anything
		if !h[0].GoOK && obs[0] != "PassInitError" {
			key := "C19/analyzer/invalid-config-not-reported"
			if h[0].Empty {
				key = "C19/analyzer/empty-selection-silent"
			}
			meta.Fail(key, "first pass under an invalid configuration did not return an init error: "+desc, desc)
		}
		distinct[strings.Join(obs, ",")] = true
		lines = append(lines, fmt.Sprintf("  (%s, %s)", coqfmt.List(hc), coqfmt.List(obs)))
		idx = append(idx, desc)
	}
	analyzer.VerifResetGlobal()
	setFlags(anCfg{GoOK: true, CtorOK: true})
	meta.Distribution["analyzer_pass_classes"] = classCount
	meta.Distribution["analyzer_histories"] = len(hists)
	hdr := "From GC Require Import Base Model_Init.\n"
	common.WriteFile(filepath.Join(outDir, "cases_c19_analyzer.v"), hdr+`
Definition pr_eqb (a b : pass_result) : bool :=
  match a, b with
  | PassDiags, PassDiags | PassInitError, PassInitError | PassCtorError, PassCtorError
  | PassSkipped, PassSkipped | PassPanic, PassPanic => true
  | _, _ => false end.
Definition case_ok (k : list an_config * list pass_result) : bool :=
  list_eqb pr_eqb (run_passes run_pass g0 (fst k)) (snd k).
Definition cases : list (list an_config * list pass_result) := [
`+strings.Join(lines, ";\n")+"\n].\nDefinition M := Eval vm_compute in mismatches case_ok cases.\nPrint M.\n")
	common.WriteFile(filepath.Join(outDir, "cases_c19_analyzer.index.txt"), strings.Join(idx, "\n")+"\n")
	meta.CaseFiles = append(meta.CaseFiles, "cases_c19_analyzer.v")
	for i := 0; i < 3; i++ {
		meta.AddSample(idx[len(idx)-1-i*7])
	}

	// 2. fault matrix on the binaries
	evals += faultMatrix(meta, tier, outDir)

	meta.Evaluations = evals
	meta.Distinct = len(distinct)
	meta.Rule = "analyzer: all histories of length <= 3 over 5 flag configurations (valid, bad -go, constructor error, both, empty selection) plus random histories of length 4..8, each from a reset global state, run through Analyzer.Run in-process and compared with the model's run_passes; binaries: invalid-configuration classes (and pairs, which tie the step order) x package counts 1..3 x CLI, twin and both analysis binaries; broken target packages. distinct_nontrivial = distinct observed outcome sequences"
	return meta
}

type fault struct {
	name     string
	cliArgs  []string
	anArgs   []string // nil: not expressible for the analyzer
	keywords []string // one of them must appear in the message
	// model inputs
	parseOK, goOK, nonEmpty, ctorErr bool
	envExtra                         []string
	loadOK                           bool
	timeout                          time.Duration // 0: the default
}

var diagLineRE = regexp.MustCompile(`(?m)\.go:\d+:\d+: captLocal: `)
var panicRE = regexp.MustCompile(`(?m)^panic: |^goroutine \d+ \[`)

func faultMatrix(meta *common.Meta, tier string, outDir string) int {
	t0 := time.Now()
	base := filepath.Join(outDir, "fm")
	os.RemoveAll(base)
	defer os.RemoveAll(base)
	// a module in which user rule files load (it requires the dsl package), so that "some files loaded, then
	// the failure" states exist; p1..p3 each hold one captLocal trigger and one user-rule trigger
	rdir := userrules.Workspace(base)
	for _, p := range []string{"p1", "p2", "p3"} {
		common.WriteFile(filepath.Join(base, p, "a.go"), "package "+p+"\n\nfunc F(IN int) int { return IN }\n\nfunc G(s string) bool { return len(s) == 0 }\n")
	}
	rules := filepath.Join(rdir, "good.go")
	faults := []fault{
		{name: "bad-go-version", cliArgs: []string{"-go=1.x"}, anArgs: []string{"-go=1.x"}, keywords: []string{"1.x", "version"}, parseOK: true, goOK: false, nonEmpty: true, loadOK: true},
		{name: "empty-selection", cliArgs: []string{"-enable=nosuchchecker"}, anArgs: []string{"-enable=nosuchchecker"}, keywords: []string{"empty"}, parseOK: true, goOK: true, nonEmpty: false, loadOK: true},
		{name: "unknown-failOn", cliArgs: []string{"-enable=ruleguard", "-@ruleguard.rules=" + rules, "-@ruleguard.failOn=bogus"}, anArgs: []string{"-enable=ruleguard", "-disable=", "-@ruleguard.rules=" + rules, "-@ruleguard.failOn=bogus"}, keywords: []string{"bogus", "failOn"}, parseOK: true, goOK: true, nonEmpty: true, ctorErr: true, loadOK: true},
		{name: "unknown-failOn+legacy-failOnError", cliArgs: []string{"-enable=ruleguard", "-@ruleguard.rules=" + rules, "-@ruleguard.failOn=bogus", "-@ruleguard.failOnError"}, anArgs: []string{"-enable=ruleguard", "-disable=", "-@ruleguard.rules=" + rules, "-@ruleguard.failOn=bogus", "-@ruleguard.failOnError"}, keywords: []string{"bogus", "failOn"}, parseOK: true, goOK: true, nonEmpty: true, ctorErr: true, loadOK: true},
		{name: "rules-no-match", cliArgs: []string{"-enable=ruleguard,captLocal", "-@ruleguard.rules=/nonexistent-verif/r-*.go"}, anArgs: []string{"-enable=ruleguard,captLocal", "-disable=", "-@ruleguard.rules=/nonexistent-verif/r-*.go"}, keywords: []string{"no file matching"}, parseOK: true, goOK: true, nonEmpty: true, ctorErr: true, loadOK: true},
		{name: "unparsable-param", cliArgs: []string{"-@hugeParam.sizeThreshold=x"}, anArgs: []string{"-@hugeParam.sizeThreshold=x"}, keywords: []string{"invalid value", "sizeThreshold"}, parseOK: false, goOK: true, nonEmpty: true, loadOK: true},
		{name: "bad-go-version+empty-selection", cliArgs: []string{"-go=abc", "-enable=nosuchchecker"}, anArgs: nil, keywords: []string{"abc", "version"}, parseOK: true, goOK: false, nonEmpty: false, loadOK: true},
		{name: "unparsable-param+bad-go-version", cliArgs: []string{"-@hugeParam.sizeThreshold=x", "-go=abc"}, anArgs: nil, keywords: []string{"invalid value", "sizeThreshold"}, parseOK: false, goOK: false, nonEmpty: true, loadOK: true},
		{name: "rules-no-match+empty-after-disable", cliArgs: []string{"-enable=ruleguard", "-disable=ruleguard", "-@ruleguard.rules=/nonexistent-verif/r-*.go"}, anArgs: nil, keywords: []string{"empty"}, parseOK: true, goOK: true, nonEmpty: false, loadOK: true},
		{name: "loader-failure+bad-go-version", cliArgs: []string{"-go=abc"}, anArgs: nil, keywords: []string{"load packages", "flag"}, parseOK: true, goOK: false, nonEmpty: true, loadOK: false, envExtra: []string{"GOFLAGS=-mod=mod -nosuchflagverif"}},
		{name: "bad-go-version-3-components", cliArgs: []string{"-go=1.21.x"}, anArgs: []string{"-go=1.21.x"}, keywords: []string{"1.21.x", "version"}, parseOK: true, goOK: false, nonEmpty: true, loadOK: true},
		{name: "bad-go-version-go-prefix-only", cliArgs: []string{"-go=go1.18.rc1", "-v"}, anArgs: []string{"-go=go1.18.rc1", "-debug-init"}, keywords: []string{"rc1", "version"}, parseOK: true, goOK: false, nonEmpty: true, loadOK: true},
		{name: "bad-go-version-verbose", cliArgs: []string{"-go=1.x", "-v"}, anArgs: []string{"-go=1.x", "-debug-init"}, keywords: []string{"1.x", "version"}, parseOK: true, goOK: false, nonEmpty: true, loadOK: true},
		{name: "empty-selection-verbose", cliArgs: []string{"-enable=nosuchchecker", "-v"}, anArgs: []string{"-enable=nosuchchecker", "-debug-init"}, keywords: []string{"empty"}, parseOK: true, goOK: true, nonEmpty: false, loadOK: true},
		// a rules list is judged element by element: one unmatched element (glob or plain path, first or last) is an error
		{name: "rules-list-partly-unmatched", cliArgs: []string{"-enable=ruleguard,captLocal", "-@ruleguard.rules=" + rules + ",/nonexistent-verif/r-*.go"}, anArgs: []string{"-enable=ruleguard,captLocal", "-disable=", "-@ruleguard.rules=" + rules + ",/nonexistent-verif/r-*.go"}, keywords: []string{"no file matching"}, parseOK: true, goOK: true, nonEmpty: true, ctorErr: true, loadOK: true},
		{name: "rules-list-first-unmatched", cliArgs: []string{"-enable=ruleguard,captLocal", "-@ruleguard.rules=/nonexistent-verif/r-*.go," + rules}, anArgs: []string{"-enable=ruleguard,captLocal", "-disable=", "-@ruleguard.rules=/nonexistent-verif/r-*.go," + rules}, keywords: []string{"no file matching"}, parseOK: true, goOK: true, nonEmpty: true, ctorErr: true, loadOK: true},
		{name: "rules-plain-path-missing", cliArgs: []string{"-enable=ruleguard,captLocal", "-@ruleguard.rules=" + rules + ",/nonexistent-verif/plain.go"}, anArgs: []string{"-enable=ruleguard,captLocal", "-disable=", "-@ruleguard.rules=" + rules + ",/nonexistent-verif/plain.go"}, keywords: []string{"no file matching"}, parseOK: true, goOK: true, nonEmpty: true, ctorErr: true, loadOK: true},
		{name: "rules-malformed-pattern", cliArgs: []string{"-enable=ruleguard,captLocal", "-@ruleguard.rules=/nonexistent-verif/[bad," + rules}, anArgs: []string{"-enable=ruleguard,captLocal", "-disable=", "-@ruleguard.rules=/nonexistent-verif/[bad," + rules}, keywords: []string{"pattern"}, parseOK: true, goOK: true, nonEmpty: true, ctorErr: true, loadOK: true},
		// numeric flags outside their domain (the pool size must be positive)
		{name: "zero-concurrency", cliArgs: []string{"-enable=captLocal", "-concurrency=0"}, anArgs: nil, keywords: []string{"concurrency"}, parseOK: false, goOK: true, nonEmpty: true, loadOK: true, timeout: 25 * time.Second},
		{name: "negative-concurrency", cliArgs: []string{"-enable=captLocal", "-concurrency=-1"}, anArgs: nil, keywords: []string{"concurrency"}, parseOK: false, goOK: true, nonEmpty: true, loadOK: true, timeout: 25 * time.Second},
		{name: "huge-negative-concurrency+bad-go-version", cliArgs: []string{"-concurrency=-9223372036854775808", "-go=abc"}, anArgs: nil, keywords: []string{"concurrency"}, parseOK: false, goOK: false, nonEmpty: true, loadOK: true, timeout: 25 * time.Second},
		{name: "valid", cliArgs: []string{"-enable=captLocal"}, anArgs: []string{"-enable=captLocal"}, parseOK: true, goOK: true, nonEmpty: true, loadOK: true},
		{name: "valid", cliArgs: []string{"-enable=captLocal", "-concurrency=1"}, anArgs: nil, parseOK: true, goOK: true, nonEmpty: true, loadOK: true},
	}
	bin := common.BinDir()
	runs := 0
	var lines, idx []string
	counts := []int{1, 2, 3}
	if tier == "quick" {
		counts = []int{1, 3}
	}
	type mjob struct {
		f    fault
		n    int
		exe  string
		isAn bool
		args []string
		env  []string
		to   time.Duration
		out  string
		code int
		err  error
	}
	var mjobs []*mjob
	for _, f := range faults {
		for _, n := range counts {
			pkgs := []string{"./p1", "./p2", "./p3"}[:n]
			for _, exe := range []string{"go-critic", "gocritic", "go-critic-analysis", "gocritic-analysis", "go-critic -exitCode=0", "gocritic -exitCode=0"} {
				isAn := strings.HasSuffix(exe, "-analysis")
				var args []string
				if isAn {
					if f.anArgs == nil {
						continue
					}
					args = append(append([]string(nil), f.anArgs...), pkgs...)
				} else {
					args = append(append([]string{"check"}, f.cliArgs...), pkgs...)
				}
				// the status chosen for "issues found" must not become the status of a configuration error
				if strings.HasSuffix(exe, " -exitCode=0") {
					if n != 1 || f.name == "valid" {
						continue
					}
					exe = strings.TrimSuffix(exe, " -exitCode=0")
					args = append([]string{"check", "-exitCode=0"}, args[1:]...)
				}
				env := append(common.GoEnv(), f.envExtra...)
				to := 180 * time.Second
				if f.timeout != 0 {
					to = f.timeout
				}
				mjobs = append(mjobs, &mjob{f: f, n: n, exe: exe, isAn: isAn, args: args, env: env, to: to})
			}
		}
	}
	// the runs are independent processes: a pool of six runs them, the verdicts are taken in matrix order
	{
		sem := make(chan struct{}, 6)
		done := make(chan struct{})
		for _, j := range mjobs {
			j := j
			go func() {
				sem <- struct{}{}
				j.out, j.code, j.err = common.Run(j.to, base, j.env, filepath.Join(bin, j.exe), j.args...)
				<-sem
				done <- struct{}{}
			}()
		}
		for range mjobs {
			<-done
		}
	}
	for _, j := range mjobs {
		{
			{
				f, n, exe, isAn, args, out, code, err := j.f, j.n, j.exe, j.isAn, j.args, j.out, j.code, j.err
				runs++
				if err != nil {
					meta.Fail("C19/cli/hang:"+strings.Split(f.name, "+")[0], fmt.Sprintf("%s %v does not finish under an invalid configuration: %v", exe, args, err), map[string]interface{}{"exe": exe, "args": args, "packages": n})
					continue
				}
				panicked := panicRE.MatchString(out)
				diagLines := len(diagLineRE.FindAllString(out, -1))
				front := "cli"
				if isAn {
					front = "analyzer"
				}
				if panicked {
					meta.Fail("C19/"+front+"/panic:"+strings.Split(f.name, "+")[0], fmt.Sprintf("%s %v panics (exit %d): %s", exe, args, code, firstLines(out, 6)), map[string]interface{}{"exe": exe, "args": args, "packages": n})
				}
				if f.name != "valid" {
					if code == 0 {
						meta.Fail("C19/"+front+"/invalid-config-exit-0:"+strings.Split(f.name, "+")[0], fmt.Sprintf("%s %v exits 0 under an invalid configuration; output: %s", exe, args, firstLines(out, 4)), map[string]interface{}{"exe": exe, "args": args, "packages": n})
					}
					if !panicked && code != 0 {
						named := false
						for _, k := range f.keywords {
							if strings.Contains(out, k) {
								named = true
							}
						}
						if !named {
							meta.Fail("C19/"+front+"/message-does-not-name-problem:"+strings.Split(f.name, "+")[0], fmt.Sprintf("%s %v: message does not name the problem: %s", exe, args, firstLines(out, 4)), args)
						}
					}
					if diagLines > 0 {
						meta.Fail("C19/"+front+"/analysed-under-invalid-config:"+strings.Split(f.name, "+")[0], fmt.Sprintf("%s %v printed %d diagnostics although the configuration is invalid", exe, args, diagLines), args)
					}
				} else if diagLines != n {
					meta.Fail("C19/"+front+"/valid-run-wrong", fmt.Sprintf("%s %v: %d diagnostics for %d packages: %s", exe, args, diagLines, n, firstLines(out, 6)), args)
				}
				if !isAn {
					// model case: observed outcome class of the CLI step machine
					obs := "Ran"
					switch {
					case panicked:
						obs = `(CliPanic "SetGoVersion")`
					case code != 0 && diagLines == 0:
						step := ""
						for _, s := range []string{"parse args", "load packages", "load program", "init checkers"} {
							if strings.Contains(out, s+": ") {
								step = s
								break
							}
						}
						obs = "(Fatal " + coqfmt.Str(step) + ")"
					}
					lines = append(lines, fmt.Sprintf("  ({| args_parse_ok := %s; load_ok := %s; go_version_ok := %s; selection_nonempty := %s; first_ctor_error := %s |}, %s)",
						coqfmt.Bool(f.parseOK), coqfmt.Bool(f.loadOK), coqfmt.Bool(f.goOK), coqfmt.Bool(f.nonEmpty), coqfmt.Bool(f.ctorErr), obs))
					idx = append(idx, fmt.Sprintf("%s %v -> exit %d: %s", exe, args, code, firstLines(out, 2)))
				}
				if runs%11 == 0 {
					meta.AddSample(map[string]interface{}{"exe": exe, "args": args, "exit": code, "output": firstLines(out, 3)})
				}
			}
		}
	}
	common.WriteFile(filepath.Join(outDir, "cases_c19_cli.v"), "From GC Require Import Base Model_Init.\n"+`
Definition oc_eqb (a b : cli_outcome) : bool :=
  match a, b with
  | Fatal x, Fatal y => String.eqb x y
  | CliPanic x, CliPanic y => String.eqb x y
  | Ran, Ran => true
  | _, _ => false end.
Definition case_ok (k : cli_config * cli_outcome) : bool := oc_eqb (run_cli (fst k)) (snd k).
Definition cases : list (cli_config * cli_outcome) := [
`+strings.Join(lines, ";\n")+"\n].\nDefinition M := Eval vm_compute in mismatches case_ok cases.\nPrint M.\n")
	common.WriteFile(filepath.Join(outDir, "cases_c19_cli.index.txt"), strings.Join(idx, "\n")+"\n")
	meta.CaseFiles = append(meta.CaseFiles, "cases_c19_cli.v")

	// 2b. the sub-command itself is part of the configuration: an unknown one must not look like a clean run
	for _, exe := range []string{"go-critic", "gocritic"} {
		for _, args := range [][]string{{"chek", "./p1"}, {"Check", "./p1"}, {"-enable=captLocal", "./p1"}} {
			out, code, err := common.Run(60*time.Second, base, common.GoEnv(), filepath.Join(bin, exe), args...)
			runs++
			if err != nil {
				meta.Fail("C19/cli/hang:unknown-subcommand", err.Error(), args)
				continue
			}
			if code == 0 {
				meta.Fail("C19/cli/invalid-config-exit-0:unknown-subcommand", fmt.Sprintf("%s %v exits 0 although %q is not a sub-command; output: %s", exe, args, args[0], firstLines(out, 3)), map[string]interface{}{"exe": exe, "args": args})
			} else if !strings.Contains(out, args[0]) && !strings.Contains(out, "command") {
				meta.Fail("C19/cli/message-does-not-name-problem:unknown-subcommand", fmt.Sprintf("%s %v: %s", exe, args, firstLines(out, 3)), args)
			}
		}
	}

	// 3. broken target packages: must never crash the run
	broken := map[string]map[string]string{
		"syntax-error":                    {"a.go": "package b\n\nfunc F( {\n"},
		"type-error":                      {"a.go": "package b\n\nfunc F(IN int) string { return IN + \"x\" }\n\nfunc G(xs []int) bool { return len(xs) >= 0 }\n"},
		"unresolved-import":               {"a.go": "package b\n\nimport (\n\tnope \"example.com/does/not/exist\"\n\t\"fmt\"\n)\n\nfunc F(IN int) { fmt.Println(nope.X, IN) }\n"},
		"mixed-packages":                  {"a.go": "package b\n\nfunc F(IN int) int { return IN }\n", "c.go": "package c\n\nfunc G(IN int) int { return IN }\n"},
		"invalid-import-path":             {"a.go": "package b\n\nimport \"\"\n\nfunc F(IN int) int { return IN }\n"},
		"self-import":                     {"a.go": "package b\n\nimport b \"urws/broken/self-import\"\n\nfunc F(IN int) int { return IN + b.X }\n"},
		"blank-and-dot-import-of-missing": {"a.go": "package b\n\nimport (\n\t_ \"example.com/none/a\"\n\t. \"example.com/none/b\"\n)\n\nfunc F(IN int) int { return IN }\n"},
		"package-name-with-test-suffix":   {"a.go": "package b_test\n\nfunc F(IN int) int { return IN }\n"},
		// two directories whose package clauses end in _test (in ordinary files) and whose import paths agree up to the last five bytes
		"two-test-suffix-packages": {"unslice/a.go": "package checker_test\n\nfunc F(IN int) int { return IN }\n", "underef/a.go": "package checker_test\n\nfunc G(IN int) int { return IN }\n"},
		// ill-typed declaration and assignment forms (the walkers index Lhs/Rhs/Names/Values by position)
		"assignment-mismatch": {"a.go": "package b\n\nfunc pair() (int, int) { return 1, 2 }\n\nfunc F(IN int) int {\n\ta, b, c := pair(), IN\n\tvar d, e = pair(), IN, 3\n\tvar f, g int = 1\n\tx, y := 1\n\tvar h, i = <-make(chan int), 2, 3\n\ta, b = pair(), 1, 2\n\treturn a + b + c + d + e + f + g + x + y + h + i\n}\n"},
		// faults AT and BEFORE the package clause, next to a good file: go/parser hands over an *ast.File without
		// positions (Package == NoPos, Name nil or "_") for them
		"clause-misspelt":        {"good.go": "package b\n\nfunc F(IN int) int { return IN }\n", "bad.go": "packag b\n"},
		"clause-zero-byte-file":  {"good.go": "package b\n\nfunc F(IN int) int { return IN }\n", "bad.go": ""},
		"clause-only-comments":   {"good.go": "package b\n\nfunc F(IN int) int { return IN }\n", "bad.go": "// Copyright.\n\n/* nothing else */\n"},
		"clause-bom-garbage":     {"good.go": "package b\n\nfunc F(IN int) int { return IN }\n", "bad.go": "\xef\xbb\xbf%%%\x00\n"},
		"clause-conflict-marker": {"good.go": "package b\n\nfunc F(IN int) int { return IN }\n", "bad.go": "<<<<<<< HEAD\npackage b\n=======\npackage b\n>>>>>>> other\n\nfunc G(IN int) int { return IN }\n"},
		"clause-keyword-as-name": {"good.go": "package b\n\nfunc F(IN int) int { return IN }\n", "bad.go": "package func\n\nfunc G(IN int) int { return IN }\n"},
		"clause-missing-name":    {"good.go": "package b\n\nfunc F(IN int) int { return IN }\n", "bad.go": "package\n\nfunc G(IN int) int { return IN }\n"},
		"clause-twice":           {"good.go": "package b\n\nfunc F(IN int) int { return IN }\n", "bad.go": "package b\npackage b\n\nfunc G(IN int) int { return IN }\n"},
		// syntax errors INSIDE import declarations: go/parser leaves ImportSpecs with a nil or empty Path
		"import-bare-identifier":       {"a.go": "package b\n\nimport foo\n\nfunc F(IN int) int { return IN }\n"},
		"import-group-bare-identifier": {"a.go": "package b\n\nimport (\n\t\"fmt\"\n\tfoo\n\t\"fmt\"\n)\n\nfunc F(IN int) { fmt.Println(IN) }\n"},
		"import-number-literal":        {"a.go": "package b\n\nimport 42\n\nfunc F(IN int) int { return IN }\n"},
		"import-unterminated-string":   {"a.go": "package b\n\nimport \"fmt\n\nfunc F(IN int) int { return IN }\n"},
		"import-alias-without-path":    {"a.go": "package b\n\nimport (\n\tf\n\t. \n\t_ \"os\"\n)\n\nfunc F(IN int) int { return IN }\n"},
		"import-after-declaration":     {"a.go": "package b\n\nfunc F(IN int) int { return IN }\n\nimport \"fmt\"\n\nimport fmt2\n"},
		"import-raw-and-rune-literals": {"a.go": "package b\n\nimport (\n\t`fmt`\n\t'x'\n\t\"\"\n)\n\nfunc F(IN int) { fmt.Println(IN) }\n"},
		"undefined-names":              {"a.go": "package b\n\nfunc F(IN int) int { x := undefinedFn(IN); return x.y[0] }\n\nfunc H(s string) bool { return len(s) == 0 }\n"},
	}
	type bjob struct {
		name  string
		files map[string]string
		exe   string
		args  []string
		out   string
		code  int
		err   error
	}
	var bjobs []*bjob
	var bnames []string
	for name := range broken {
		bnames = append(bnames, name)
	}
	sort.Strings(bnames)
	for _, name := range bnames {
		files := broken[name]
		dir := filepath.Join(base, "broken", name)
		for fn, src := range files {
			common.WriteFile(filepath.Join(dir, fn), src)
		}
		for _, exe := range []string{"go-critic", "gocritic", "go-critic-analysis"} {
			if exe == "gocritic" && !strings.HasPrefix(name, "clause-") {
				continue
			}
			var args []string
			pat := "./broken/" + name
			for fn := range files {
				if strings.Contains(fn, "/") {
					pat = "./broken/" + name + "/..."
				}
			}
			if exe != "go-critic-analysis" {
				args = []string{"check", "-enableAll", pat}
			} else {
				args = []string{pat}
			}
			bjobs = append(bjobs, &bjob{name: name, files: files, exe: exe, args: args})
		}
	}
	{
		sem := make(chan struct{}, 6)
		done := make(chan struct{})
		for _, j := range bjobs {
			j := j
			go func() {
				sem <- struct{}{}
				j.out, j.code, j.err = common.Run(180*time.Second, base, common.GoEnv(), filepath.Join(bin, j.exe), j.args...)
				<-sem
				done <- struct{}{}
			}()
		}
		for range bjobs {
			<-done
		}
	}
	for _, j := range bjobs {
		{
			name, files, exe, args, out, code, err := j.name, j.files, j.exe, j.args, j.out, j.code, j.err
			runs++
			if err != nil {
				meta.Fail("C19/"+exe+"/hang-on-broken-package:"+name, err.Error(), args)
				continue
			}
			if panicRE.MatchString(out) {
				meta.Fail("C19/"+exe+"/panic-on-broken-package:"+name, fmt.Sprintf("%s %v crashes on a package with %s (exit %d): %s", exe, args, name, code, firstLines(out, 8)), map[string]interface{}{"files": files, "args": args})
			}
		}
	}
	stageSeconds := map[string]float64{"fault matrix, sub-commands, broken packages": time.Since(t0).Seconds()}
	timed := func(name string, f func() int) {
		t := time.Now()
		runs += f()
		stageSeconds[name] = time.Since(t).Seconds()
	}
	timed("targets", func() int { return targetStage(meta, tier, base, bin, outDir) })
	timed("rule-file faults", func() int { return ruleFaultStage(meta, tier, base, rdir, bin) })
	timed("profiles", func() int { return profileStage(meta, base, bin) })
	timed("versions naming no release", func() int { return versionStage(meta, base, bin) })
	timed("crashing checker", func() int { return crashStage(meta, tier, base, rdir, bin, outDir) })
	timed("dispatcher", func() int {
		return dispatchStage(meta, tier, base, bin, outDir, common.NewRand(1, "c19-dispatch"))
	})
	meta.Distribution["stage_seconds"] = stageSeconds
	meta.Distribution["binary_runs"] = runs
	return runs
}

func firstLines(s string, n int) string {
	ls := strings.Split(strings.TrimSpace(s), "\n")
	if len(ls) > n {
		ls = ls[:n]
	}
	out := strings.Join(ls, " | ")
	if len(out) > 600 {
		out = out[:600]
	}
	return out
}
