package c19

// dispatch.go — the sub-command dispatcher of both CLI mains against Model_Init.main_status: argument vectors over
// an alphabet of sub-command names, near misses, flag-like words and checker names (all of length 1, all of length 2
// behind doc/help/version/unknown, a sample of length 3). Oracle, independent of the model: a first argument that is
// not a sub-command gives a non-zero status and a message quoting it; `doc X` succeeds iff X is a registered checker
// and then prints its name; help and version succeed.

import (
	"fmt"
	"path/filepath"
	"strings"
	"time"

	"github.com/go-critic/go-critic/linter"

	"verifharness/internal/common"
	"verifharness/internal/coqfmt"
	"verifharness/internal/load"
)

func dispatchStage(meta *common.Meta, tier, base, bin, outDir string, rng interface{ Intn(int) int }) int {
	load.InitRules()
	known := map[string]bool{}
	var someChecker string
	for _, info := range linter.GetCheckersInfo() {
		if strings.HasPrefix(info.Name, "zzProbe") {
			continue
		}
		known[info.Name] = true
		if info.EmbeddedRuleguard && someChecker == "" {
			someChecker = info.Name
		}
	}
	words := []string{"check", "doc", "help", "version", "chek", "Check", "docs", "", "-h", "--", "-", "-x", "nosuchchecker", someChecker, "captLocal", "--help", "HELP", "version2"}
	var argvs [][]string
	argvs = append(argvs, nil)
	for _, w := range words {
		if w != "check" {
			argvs = append(argvs, []string{w})
		}
	}
	for _, first := range []string{"doc", "help", "version", "chek", "-v"} {
		for _, w := range words {
			argvs = append(argvs, []string{first, w})
		}
	}
	argvs = append(argvs, []string{"check", "-badflag"}, []string{"", "-badflag"})
	n3 := 24
	if tier == "thorough" {
		n3 = 300
	}
	for i := 0; i < n3; i++ {
		first := []string{"doc", "doc", "doc", "help", "version", "x"}[rng.Intn(6)]
		argvs = append(argvs, []string{first, words[rng.Intn(len(words))], words[rng.Intn(len(words))]})
	}
	subs := map[string]bool{"check": true, "doc": true, "help": true, "version": true}
	var lines, idx []string
	dist := map[string]int{}
	runs := 0
	type djob struct {
		exe            string
		argv           []string
		stdout, stderr string
		code           int
		err            error
	}
	var djobs []*djob
	for _, exe := range []string{"go-critic", "gocritic"} {
		for ai, argv := range argvs {
			if tier == "quick" && exe == "gocritic" && ai%3 != 0 {
				continue
			}
			djobs = append(djobs, &djob{exe: exe, argv: argv})
		}
	}
	{
		sem := make(chan struct{}, 8)
		done := make(chan struct{})
		for _, j := range djobs {
			j := j
			go func() {
				sem <- struct{}{}
				j.stdout, j.stderr, j.code, j.err = common.RunSplit(60*time.Second, base, common.GoEnv(), filepath.Join(bin, j.exe), j.argv...)
				<-sem
				done <- struct{}{}
			}()
		}
		for range djobs {
			<-done
		}
	}
	for _, j := range djobs {
		{
			exe, argv, stdout, stderr, code, err := j.exe, j.argv, j.stdout, j.stderr, j.code, j.err
			runs++
			if err != nil {
				meta.Fail("C19/cli/hang:subcommand", fmt.Sprintf("%s %q: %v", exe, argv, err), argv)
				continue
			}
			if panicRE.MatchString(stderr) {
				meta.Fail("C19/cli/panic:subcommand", fmt.Sprintf("%s %q panics: %s", exe, argv, firstLines(stderr, 5)), argv)
				continue
			}
			switch {
			case len(argv) > 0 && argv[0] == "":
				// the empty word is no sub-command
				dist["empty-word"]++
				if code == 0 || strings.Contains(stderr, "flag provided but not defined") || strings.Contains(stderr, "load program") {
					meta.Fail("C19/cli/empty-subcommand-runs-check", fmt.Sprintf("%s %q (exit %d) runs the check sub-command although the empty word names none; output: %s", exe, argv, code, firstLines(stdout+stderr, 2)), map[string]interface{}{"exe": exe, "args": argv})
				}
			case len(argv) == 0 || !subs[argv[0]]:
				dist["unknown"]++
				if code == 0 {
					meta.Fail("C19/cli/invalid-config-exit-0:unknown-subcommand", fmt.Sprintf("%s %q exits 0 although it names no sub-command; output: %s", exe, argv, firstLines(stdout+stderr, 3)), map[string]interface{}{"exe": exe, "args": argv})
				} else if len(argv) > 0 && !strings.Contains(stdout+stderr, fmt.Sprintf("%q", argv[0])) {
					meta.Fail("C19/cli/message-does-not-name-problem:unknown-subcommand", fmt.Sprintf("%s %q: %s", exe, argv, firstLines(stdout+stderr, 3)), argv)
				}
			case argv[0] == "help" || argv[0] == "version":
				dist[argv[0]]++
				if code != 0 || strings.TrimSpace(stdout) == "" {
					meta.Fail("C19/cli/"+argv[0]+"-fails", fmt.Sprintf("%s %q: exit %d, stdout %q", exe, argv, code, firstLines(stdout, 2)), argv)
				}
			case argv[0] == "doc" && len(argv) == 2 && !strings.HasPrefix(argv[1], "-"):
				dist["doc-one-name"]++
				if (code == 0) != known[argv[1]] {
					meta.Fail("C19/cli/doc-status", fmt.Sprintf("%s %q exits %d; %q registered: %v", exe, argv, code, argv[1], known[argv[1]]), argv)
				}
				if code == 0 && !strings.HasPrefix(stdout, argv[1]+" checker documentation") {
					meta.Fail("C19/cli/doc-output", fmt.Sprintf("%s %q: %s", exe, argv, firstLines(stdout, 2)), argv)
				}
				if code != 0 && !strings.Contains(stderr, fmt.Sprintf("%q", argv[1])) {
					meta.Fail("C19/cli/message-does-not-name-problem:doc", fmt.Sprintf("%s %q: %s", exe, argv, firstLines(stderr, 2)), argv)
				}
			default:
				dist["doc-other"]++
			}
			if len(argv) > 0 && (argv[0] == "check" || argv[0] == "") && !(len(argv) == 2 && argv[1] == "-badflag") {
				continue // the check sub-command's own status is Model_Init.run_cli / Model_Cli.run: not a case here
			}
			var av []string
			for _, a := range argv {
				av = append(av, coqfmt.Str(a))
			}
			lines = append(lines, fmt.Sprintf("  (%s, %s)", coqfmt.List(av), coqfmt.Z(int64(code))))
			idx = append(idx, fmt.Sprintf("%s %q -> exit %d: %s", exe, argv, code, firstLines(stderr, 1)))
		}
	}
	common.WriteFile(filepath.Join(outDir, "cases_c19_dispatch.v"), `From GC Require Import Base Model_Select Model_Init.
From GCgen Require Import Registry.
Definition known (n : string) : bool := mem n (map cname registry).
Definition case_ok (k : list string * Z) : bool := Z.eqb (main_status known (fun _ => 1%Z) (fst k)) (snd k).
Definition cases : list (list string * Z) := [
`+strings.Join(lines, ";\n")+"\n].\nDefinition M := Eval vm_compute in mismatches case_ok cases.\nPrint M.\n")
	common.WriteFile(filepath.Join(outDir, "cases_c19_dispatch.index.txt"), strings.Join(idx, "\n")+"\n")
	meta.CaseFiles = append(meta.CaseFiles, "cases_c19_dispatch.v")
	meta.Distribution["dispatch_cases"] = dist
	return runs
}
