package c19

// crash.go — a checker that crashes while the CLI analyses a file. On the unmodified tree the only way to get one is
// a user rule whose filter function dereferences nil inside the ruleguard engine (types.AsPointer(t).Elem() on a
// non-pointer). The worker's deferred function logs the error and re-raises the panic, so the run must end with the
// runtime's status 2 and a trace, every time. The same command is run many times: all runs must end alike, and
// none may look like a clean run (status 0) or like an ordinary run with findings (the -exitCode value).

import (
	"fmt"
	"path/filepath"
	"sort"
	"strings"
	"time"

	"verifharness/internal/common"
	"verifharness/internal/coqfmt"
)

const crashRules = `package gorules

import (
	"github.com/quasilyte/go-ruleguard/dsl"
	"github.com/quasilyte/go-ruleguard/dsl/types"
)

func crashing(m dsl.Matcher) {
	m.Match(` + "`len($x)`" + `).Where(m["x"].Filter(derefsNil)).Report("never reached")
}

func derefsNil(ctx *dsl.VarFilterContext) bool {
	return types.Identical(types.AsPointer(ctx.Type).Elem(), ctx.Type)
}
`

func crashStage(meta *common.Meta, tier, base, rulesDir, bin, outDir string) int {
	rf := filepath.Join(rulesDir, "crash.go")
	common.WriteFile(rf, crashRules)
	common.WriteFile(filepath.Join(base, "crashpkg", "a.go"), "package crashpkg\n\nfunc F(IN int, xs []int) int { return IN + len(xs) }\n")
	n := 24
	if tier == "thorough" {
		n = 400
	}
	type cfg struct {
		name  string
		args  []string
		found bool
		code  int
	}
	cfgs := []cfg{
		{"no-other-finding", []string{"check", "-enable=ruleguard", "-@ruleguard.rules=" + rf, "./crashpkg"}, false, 1},
		{"with-findings", []string{"check", "-enable=ruleguard,captLocal", "-exitCode=7", "-@ruleguard.rules=" + rf, "./crashpkg"}, true, 7},
	}
	type res struct {
		code int
		out  string
		err  error
	}
	runs := 0
	var lines, idx []string
	for _, exe := range []string{"go-critic", "gocritic"} {
		for _, c := range cfgs {
			k := n
			if exe == "gocritic" {
				k = n / 4
			}
			results := make([]res, k)
			sem := make(chan struct{}, 8)
			done := make(chan struct{})
			for i := 0; i < k; i++ {
				i := i
				go func() {
					sem <- struct{}{}
					results[i].out, results[i].code, results[i].err = common.Run(120*time.Second, base, common.GoEnv(), filepath.Join(bin, exe), c.args...)
					<-sem
					done <- struct{}{}
				}()
			}
			for i := 0; i < k; i++ {
				<-done
			}
			runs += k
			counts := map[int]int{}
			crashed := false
			sample := map[int]string{}
			for _, r := range results {
				if r.err != nil {
					meta.Fail("C19/cli/hang:crashing-checker", r.err.Error(), c.args)
					continue
				}
				counts[r.code]++
				if panicRE.MatchString(r.out) {
					crashed = true
				}
				if _, ok := sample[r.code]; !ok {
					sample[r.code] = firstLines(r.out, 3)
				}
			}
			if !crashed {
				meta.Notes = append(meta.Notes, fmt.Sprintf("crash stage: %s %s: the crashing rule filter did not crash the run (%v)", exe, c.name, counts))
				continue
			}
			var codes []int
			for code := range counts {
				codes = append(codes, code)
			}
			sort.Ints(codes)
			if len(codes) > 1 {
				var parts []string
				for _, code := range codes {
					parts = append(parts, fmt.Sprintf("status %d x%d (%s)", code, counts[code], sample[code]))
				}
				meta.Fail("C19/cli/crashing-checker-exit-status-races", fmt.Sprintf("%s %v run %d times ends differently: %s", exe, c.args[1:], k, strings.Join(parts, "; ")),
					map[string]interface{}{"exe": exe, "args": c.args, "rule_file": crashRules, "cwd": "module urws (harness/internal/userrules)", "statuses": counts})
			}
			for _, code := range codes {
				lines = append(lines, fmt.Sprintf("  (%s, %s, %s)", coqfmt.Bool(c.found), coqfmt.Z(int64(c.code)), coqfmt.Z(int64(code))))
				idx = append(idx, fmt.Sprintf("%s %s -> status %d (%d of %d runs)", exe, c.name, code, counts[code], k))
			}
		}
	}
	common.WriteFile(filepath.Join(outDir, "cases_c19_crash.v"), `From GC Require Import Base Model_Recover.
(* every observed status is the end of some schedule of the handler as written (all of them end with 2: C19_crash_exit_status) *)
Definition zopt_eqb (a : option Z) (b : Z) : bool := match a with Some x => Z.eqb x b | None => false end.
Definition case_ok (k : bool * Z * Z) : bool :=
  let '(found, code, st) := k in
  existsb (fun sch => zopt_eqb (run_schedule worker_step found code sch rstart) st) [[true; true]; [false; true; false; true]].
Definition cases : list (bool * Z * Z) := [
`+strings.Join(lines, ";\n")+"\n].\nDefinition M := Eval vm_compute in mismatches case_ok cases.\nPrint M.\n")
	common.WriteFile(filepath.Join(outDir, "cases_c19_crash.index.txt"), strings.Join(idx, "\n")+"\n")
	meta.CaseFiles = append(meta.CaseFiles, "cases_c19_crash.v")
	return runs
}
