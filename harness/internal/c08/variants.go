package c08

// variants.go — two ways in which "the same packages" are not the same thing for the CLIs and the analysis drivers.
//
// (1) Test variants. The CLIs lint a package once, in its test variant (ordinary + in-package test files type-checked
//     together); the analysis drivers lint p and p [p.test] and print the union. An in-package test file can only ADD
//     declarations, but added methods change what the expressions of the ordinary files satisfy (method sets,
//     interface satisfaction), so a rule filter can hold in one variant and not in the other. flipPackage writes a
//     package in which every type gains, in the test file, one of the interfaces the rule filters ask about.
// (2) Target platform. Type sizes follow GOARCH, which the go command takes from the environment OR from the
//     go env file; crossArch runs the four binaries for a 32-bit target given both ways.

import (
	"fmt"
	"path/filepath"
	"strings"
	"time"

	"verifharness/internal/common"
)

func flipPackage(base string) {
	w := func(name, src string) { common.WriteFile(filepath.Join(base, name), src) }
	// interfaces asked about by rule filters: error, fmt.Stringer, io.StringWriter, io.ByteWriter, io.Reader, sort.Interface
	w("flip/flip.go", `package flip

import (
	"fmt"
	"io"
	"sort"
)

// T is a Stringer here and additionally an error in the test variant.
type T struct{ n int }

func (t T) String() string { return "t" }

// U is nothing here and a Stringer in the test variant.
type U struct{ n int }

// E is an error here and additionally a Stringer in the test variant.
type E struct{ n int }

func (e E) Error() string { return "e" }

// W is an io.Writer here and additionally an io.StringWriter and io.ByteWriter in the test variant.
type W struct{ buf []byte }

func (w *W) Write(p []byte) (int, error) { w.buf = append(w.buf, p...); return len(p), nil }

// L has Len and Swap here and Less (sort.Interface) in the test variant.
type L []int

func (l L) Len() int      { return len(l) }
func (l L) Swap(i, j int) { l[i], l[j] = l[j], l[i] }

func Sprints(t T, u U, e E) string {
	return fmt.Sprint(t) + fmt.Sprintf("%s", t) + fmt.Sprintf("%v", t) +
		fmt.Sprint(u) + fmt.Sprintf("%s", u) + fmt.Sprintf("%v", u) +
		fmt.Sprint(e) + fmt.Sprintf("%s", e) + fmt.Sprintf("%v", e)
}

func Writes(w *W, s string, b byte, out io.Writer) {
	w.Write([]byte(s))
	w.Write([]byte{b})
	out.Write([]byte(s))
	fmt.Fprint(w, s)
	fmt.Fprintf(w, "%s", s)
	io.WriteString(w, s)
}

func Errs(t T, e E) error {
	if t.n > 0 {
		return fmt.Errorf("%s", t)
	}
	return fmt.Errorf("%v", e)
}

func Sorts(l L, xs []int) {
	sort.Slice(xs, func(i, j int) bool { return xs[i] < xs[j] })
	_ = l.Len()
}

func Conv(t T, u U, e E) []interface{} {
	var s fmt.Stringer = t
	var err error = e
	return []interface{}{s, err, interface{}(u), any(t)}
}
`)
	w("flip/flip_test.go", `package flip

func (t T) Error() string  { return "t" }
func (u U) String() string { return "u" }
func (e E) String() string { return "e" }

func (w *W) WriteString(s string) (int, error) { return w.Write([]byte(s)) }
func (w *W) WriteByte(b byte) error            { _, err := w.Write([]byte{b}); return err }
func (w *W) Read(p []byte) (int, error)        { return copy(p, w.buf), nil }

func (l L) Less(i, j int) bool { return l[i] < l[j] }

func useAll() { Sorts(nil, nil); _ = Errs; _ = Conv; _ = Sprints; _ = Writes }
`)
	// ordinary (non-main) packages in directories named like test binaries: without tests, with only an external
	// test package, with in-package tests (a main package in such a directory is the recorded pkgload finding and
	// is not part of this workspace)
	tbody := func(pkg, fn string) string {
		return "package " + pkg + "\n\nfunc " + fn + "(IN int, xs []int) int {\n\tif len(xs) >= 0 {\n\t\tIN = IN + 1\n\t}\n\treturn IN\n}\n"
	}
	w("smoke.test/s.go", tbody("smoke", "S"))
	w("ext.test/e.go", tbody("ext", "E"))
	w("ext.test/e_x_test.go", "package ext_test\n\nimport \"ws/ext.test\"\n\nfunc UseE(IN int) int { return ext.E(IN, nil) }\n")
	w("inpkg.test/i.go", tbody("inpkg", "I"))
	w("inpkg.test/i_test.go", tbody("inpkg", "ITest"))
	w("deep/nested.test/sub/n.go", tbody("sub", "N"))
	// a type whose size is above hugeParam's and rangeValCopy's default thresholds on 64-bit targets only
	w("g/arch.go", "package g\n\ntype mid struct{ a [12]int }\n\ntype ptrs struct{ p [14]*int }\n\nfunc M(m mid, p ptrs, ms []mid) int {\n\tn := 0\n\tfor _, x := range ms {\n\t\tn += x.a[0]\n\t}\n\treturn n + m.a[0] + len(p.p)\n}\n")
}

// crossArch: GOARCH=386 given through the environment and through the go env file; the CLIs and the analysis drivers
// must print the same size-dependent diagnostics, and those of the 32-bit target (mid is 48 bytes there, 96 on amd64).
func crossArch(meta *common.Meta, base, outDir, bin string) int {
	goenv := filepath.Join(outDir, "goenv-386")
	common.WriteFile(goenv, "GOARCH=386\n")
	ways := []struct {
		name string
		env  []string
	}{
		{"GOARCH=386 in the environment", append(common.GoEnv(), "GOARCH=386", "CGO_ENABLED=0")},
		{"GOARCH=386 in the go env file ($GOENV)", append(common.GoEnv(), "GOENV="+goenv, "CGO_ENABLED=0")},
	}
	runs := 0
	for _, way := range ways {
		outs := map[string][]string{}
		for _, exe := range []string{"go-critic", "gocritic", "go-critic-analysis", "gocritic-analysis"} {
			var args []string
			if strings.HasSuffix(exe, "-analysis") {
				args = []string{"-enable=hugeParam,rangeValCopy", "-disable=", "./g"}
			} else {
				args = []string{"check", "-shorterErrLocation=false", "-enable=hugeParam,rangeValCopy", "./g"}
			}
			out, _, err := common.Run(240*time.Second, base, way.env, filepath.Join(bin, exe), args...)
			runs++
			if err != nil {
				meta.Fail("C08/"+exe+"/run", err.Error(), args)
				continue
			}
			ds, _ := parseLines(out)
			outs[exe] = keys(ds)
			for _, k := range outs[exe] {
				if strings.Contains(k, "/arch.go:") && (strings.Contains(k, "96 bytes") || strings.Contains(k, "112 bytes")) {
					meta.Fail("C08/"+exe+"/host-sizes-for-foreign-target", fmt.Sprintf("%s, %s: a size of the host platform is quoted for a 386 target: %s", exe, way.name, k), map[string]interface{}{"exe": exe, "args": args, "target": way.name})
				}
			}
		}
		for _, exe := range []string{"gocritic", "go-critic-analysis", "gocritic-analysis"} {
			if strings.Join(outs[exe], "\n") != strings.Join(outs["go-critic"], "\n") {
				missing, extra := diff(outs["go-critic"], outs[exe])
				meta.Fail("C08/"+exe+"/differs-for-foreign-target", fmt.Sprintf("%s: %s reports %d diagnostics, go-critic %d; missing: %v; extra: %v", way.name, exe, len(outs[exe]), len(outs["go-critic"]), head(missing, 3), head(extra, 3)),
					map[string]interface{}{"target": way.name, "package": "./g (arch.go: struct{ a [12]int }, struct{ p [14]*int })"})
			}
		}
	}
	return runs
}
