// Package c08: all front-ends report the same diagnostics.
package c08

import (
	"encoding/json"
	"fmt"
	"os"
	"path/filepath"
	"regexp"
	"sort"
	"strconv"
	"strings"
	"time"

	"github.com/go-critic/go-critic/linter"

	"verifharness/internal/common"
	"verifharness/internal/coqfmt"
	"verifharness/internal/load"
	"verifharness/internal/userrules"
)

type config struct {
	name    string
	cli     []string
	an      []string
	checker map[string]bool // nil: decided by flags; used for the in-process expectation when set
}

var lineRE = regexp.MustCompile(`^(/[^:]+):(\d+)(?::(\d+))?: (\w+): (.*)$`)

type diag struct {
	File    string
	Line    int
	Col     int
	Checker string
	Msg     string
}

func (d diag) key() string {
	return fmt.Sprintf("%s:%d:%d: %s: %s", d.File, d.Line, d.Col, d.Checker, d.Msg)
}

func parseLines(out string) (ds []diag, other []string) {
	for _, l := range strings.Split(strings.TrimRight(out, "\n"), "\n") {
		if l == "" {
			continue
		}
		m := lineRE.FindStringSubmatch(l)
		if m == nil {
			other = append(other, l)
			continue
		}
		ln, _ := strconv.Atoi(m[2])
		col, _ := strconv.Atoi(m[3])
		ds = append(ds, diag{m[1], ln, col, m[4], m[5]})
	}
	return
}

func keys(ds []diag) []string {
	var ks []string
	for _, d := range ds {
		ks = append(ks, d.key())
	}
	sort.Strings(ks)
	return ks
}

func workspace(base string) {
	w := func(name, src string) { common.WriteFile(filepath.Join(base, name), src) }
	w("go.mod", "module ws\n\ngo 1.20\n")
	body := func(pkg, fn string) string {
		return "package " + pkg + "\n\n//bad comment\nfunc " + fn + "(IN int, xs []int, s string) int {\n\tif len(xs) >= 0 {\n\t\tIN = IN + 1\n\t}\n\tif len(s) == 0 {\n\t\treturn 0\n\t} else {\n\t\tif IN > 2 {\n\t\t\treturn 1\n\t\t}\n\t}\n\treturn IN\n}\n"
	}
	w("a/a.go", body("a", "A"))
	w("a/a_test.go", body("a", "ATest")+"\nfunc useA() int { return A(1, nil, \"\") }\n")
	w("b/b.go", body("b", "B"))
	w("b/b_x_test.go", "package b_test\n\nimport \"ws/b\"\n\n//bad comment\nfunc UseB(IN int) int {\n\tx := b.B(IN, nil, \"\")\n\tx = x + 1\n\treturn x\n}\n")
	w("c/sub/c.go", body("sub", "C"))
	// the same base file name in several packages
	w("a/util.go", "package a\n\nfunc utilA(IN int) int { return IN }\n")
	w("b/util.go", "package b\n\nfunc utilB(IN int) int { return IN }\n")
	w("c/sub/util.go", "package sub\n\nfunc utilC(IN int) int { return IN }\n")
	// positions after //line directives (generated code): all front-ends must print the adjusted position
	w("e/gen.go", "package e\n\nfunc before(IN int) int { return IN }\n\n//line greet.tmpl:40\nfunc after(IN int, xs []int) int {\n\tif len(xs) >= 0 {\n\t\tIN = IN + 1\n\t}\n\treturn IN\n}\n\n/*line other.y:7:3*/ func third(IN int) int { return IN }\n")
	// diagnostics whose text contains '%' (quoted code, fmt verbs): must be forwarded verbatim by every front-end
	w("f/pct.go", "package f\n\nimport \"fmt\"\n\nfunc Q(s string, x int) (string, bool) {\n\treturn fmt.Sprintf(\"\\\"%s\\\"\", s), !(x%2 != 0)\n}\n")
	w("g/g.go", "package g\n\ntype big struct{ a [40]int }\n\nfunc H(b big, fs []func()) int {\n\tfor _, f := range fs {\n\t\tdefer f()\n\t}\n\tfor _, x := range []big{b} {\n\t\t_ = x\n\t}\n\treturn b.a[0]\n}\n")
	// names introduced by := (the local-definition walker): shadows of builtins and imports, capitalised locals
	w("h/h.go", "package h\n\nimport \"strings\"\n\nfunc S(xs []int) int {\n\tlen := len(xs)\n\tnew, cap := 2, 3\n\tUpper := strings.ToUpper(\"x\")\n\tstrings := Upper\n\t_ = strings\n\tfor Idx, copy := range xs {\n\t\t_, _ = Idx, copy\n\t}\n\treturn len + new + cap\n}\n")
	flipPackage(base)
	w("d/d.go", "package d\n\nimport \"strings\"\n\nfunc D(s string) bool { return strings.Index(s, \"x\") >= 0 }\n\nfunc E(t []int) []int { return t[:] }\n")
}

func Run(tier string, seed int64, outDir string) *common.Meta {
	load.InitRules()
	meta := &common.Meta{Property: "C08", Distribution: map[string]interface{}{}}
	base := filepath.Join(outDir, "ws")
	os.RemoveAll(base)
	defer os.RemoveAll(base)
	workspace(base)
	bin := common.BinDir()
	env := common.GoEnv()
	// a module whose go.mod declares an old language version: no front-end may derive a target version from it
	legacy := filepath.Join(outDir, "ws_legacy")
	os.RemoveAll(legacy)
	defer os.RemoveAll(legacy)
	common.WriteFile(filepath.Join(legacy, "go.mod"), "module legacy\n\ngo 1.12\n")
	common.WriteFile(filepath.Join(legacy, "l.go"), "package legacy\n\nimport \"time\"\n\nconst Perm = 0755\n\nfunc M(t time.Time, IN int) int64 { return t.Unix()/1000 + int64(IN) }\n")

	configs := []config{
		{"defaults", nil, nil, nil},
		{"enable-all", []string{"-enableAll"}, []string{"-enable-all"}, nil},
		{"hand-written names", []string{"-enable=captLocal,elseif,commentFormatting"}, []string{"-enable=captLocal,elseif,commentFormatting", "-disable="}, nil},
		{"embedded names", []string{"-enable=sloppyLen,assignOp,emptyStringTest,wrapperFunc,unslice"}, []string{"-enable=sloppyLen,assignOp,emptyStringTest,wrapperFunc,unslice", "-disable="}, nil},
		{"tags", []string{"-enable=#diagnostic,#style", "-disable=#experimental,#opinionated"}, []string{"-enable=#diagnostic,#style", "-disable=#experimental,#opinionated"}, nil},
		{"parameter", []string{"-enable=captLocal", "-@captLocal.paramsOnly=false"}, []string{"-enable=captLocal", "-disable=", "-@captLocal.paramsOnly=false"}, nil},
		{"parameters at zero", []string{"-enable=hugeParam,rangeValCopy,rangeExprCopy,tooManyResultsChecker,nestingReduce,ifElseChain,commentedOutCode", "-@hugeParam.sizeThreshold=0", "-@rangeValCopy.sizeThreshold=0", "-@rangeExprCopy.sizeThreshold=0", "-@tooManyResultsChecker.maxResults=0", "-@nestingReduce.bodyWidth=0", "-@ifElseChain.minThreshold=0", "-@commentedOutCode.minLength=0"},
			[]string{"-enable=hugeParam,rangeValCopy,rangeExprCopy,tooManyResultsChecker,nestingReduce,ifElseChain,commentedOutCode", "-disable=", "-@hugeParam.sizeThreshold=0", "-@rangeValCopy.sizeThreshold=0", "-@rangeExprCopy.sizeThreshold=0", "-@tooManyResultsChecker.maxResults=0", "-@nestingReduce.bodyWidth=0", "-@ifElseChain.minThreshold=0", "-@commentedOutCode.minLength=0"}, nil},
		{"parameters negative and false", []string{"-enable=hugeParam,rangeValCopy,captLocal,elseif", "-@hugeParam.sizeThreshold=-1", "-@rangeValCopy.sizeThreshold=-5", "-@rangeValCopy.skipTestFuncs=false", "-@captLocal.paramsOnly=false", "-@elseif.skipBalanced=false"},
			[]string{"-enable=hugeParam,rangeValCopy,captLocal,elseif", "-disable=", "-@hugeParam.sizeThreshold=-1", "-@rangeValCopy.sizeThreshold=-5", "-@rangeValCopy.skipTestFuncs=false", "-@captLocal.paramsOnly=false", "-@elseif.skipBalanced=false"}, nil},
		{"shadow checkers", []string{"-enable=builtinShadow,importShadow,captLocal", "-@captLocal.paramsOnly=false"}, []string{"-enable=builtinShadow,importShadow,captLocal", "-disable=", "-@captLocal.paramsOnly=false"}, nil},
		{"enable-all minus tags", []string{"-enableAll", "-disable=#performance,#opinionated"}, []string{"-enable-all", "-disable=#performance,#opinionated"}, nil},
		{"names whose tags are disabled", []string{"-enable=#diagnostic,deferInLoop,hugeParam,captLocal", "-disable=#experimental,#performance"}, []string{"-enable=#diagnostic,deferInLoop,hugeParam,captLocal", "-disable=#experimental,#performance"}, nil},
		{"tag enabled, name disabled", []string{"-enable=#style,#performance", "-disable=captLocal,hugeParam,#opinionated"}, []string{"-enable=#style,#performance", "-disable=captLocal,hugeParam,#opinionated"}, nil},
	}
	if tier == "thorough" {
		rng := common.NewRand(seed, "c08")
		names := []string{}
		for _, info := range linter.GetCheckersInfo() {
			if info.Name != "ruleguard" && !strings.HasPrefix(info.Name, "zzProbe") {
				names = append(names, info.Name)
			}
		}
		for i := 0; i < 25; i++ {
			var pick []string
			for j := 0; j < 6; j++ {
				pick = append(pick, names[rng.Intn(len(names))])
			}
			e := "-enable=" + strings.Join(pick, ",")
			configs = append(configs, config{"random names " + strconv.Itoa(i), []string{e}, []string{e, "-disable="}, nil})
		}
	}
	pkgSets := [][]string{{"./..."}, {"./a", "./b"}, {"./b", "./a", "./d"}}
	if tier == "quick" {
		pkgSets = pkgSets[:2]
	}
	runs := 0
	distinct := map[string]bool{}
	var caseLines, idxLines []string
	for _, c := range configs {
		for pi, pkgs := range pkgSets {
			if tier == "quick" && pi == 1 && c.name != "defaults" && c.name != "embedded names" {
				continue
			}
			outs := map[string][]diag{}
			// the four binaries of one comparison run side by side
			type res struct {
				out  string
				code int
				err  error
			}
			exes := []string{"go-critic", "gocritic", "go-critic-analysis", "gocritic-analysis"}
			argsOf := func(exe string) []string {
				if strings.HasSuffix(exe, "-analysis") {
					return append(append([]string(nil), c.an...), pkgs...)
				}
				return append(append([]string{"check", "-shorterErrLocation=false"}, c.cli...), pkgs...)
			}
			results := make([]res, len(exes))
			doneCh := make(chan struct{})
			for ei, exe := range exes {
				ei, exe := ei, exe
				go func() {
					results[ei].out, results[ei].code, results[ei].err = common.Run(240*time.Second, base, env, filepath.Join(bin, exe), argsOf(exe)...)
					doneCh <- struct{}{}
				}()
			}
			for range exes {
				<-doneCh
			}
			for ei, exe := range exes {
				args := argsOf(exe)
				out, code, err := results[ei].out, results[ei].code, results[ei].err
				runs++
				if err != nil {
					meta.Fail("C08/"+exe+"/run", err.Error(), args)
					continue
				}
				ds, other := parseLines(out)
				for _, o := range other {
					if strings.Contains(o, "panic") || strings.Contains(o, "init error") || strings.Contains(o, "empty checkers") {
						meta.Fail("C08/"+exe+"/unexpected-output", fmt.Sprintf("%s %v (exit %d): %s", exe, args, code, o), args)
					}
				}
				ks := keys(ds)
				for i := 1; i < len(ks); i++ {
					if ks[i] == ks[i-1] {
						meta.Fail("C08/"+exe+"/reported-twice", "diagnostic reported more than once in one run: "+ks[i], args)
					}
				}
				outs[exe] = ds
			}
			ref := keys(outs["go-critic"])
			for _, exe := range []string{"gocritic", "go-critic-analysis", "gocritic-analysis"} {
				got := keys(outs[exe])
				if strings.Join(got, "\n") != strings.Join(ref, "\n") {
					missing, extra := diff(ref, got)
					cls := "differs"
					if strings.HasSuffix(exe, "-analysis") && len(extra) == 0 && allEmbedded(missing) {
						cls = "analyzer-lacks-embedded-rule-checkers"
					}
					meta.Fail("C08/"+exe+"/"+cls, fmt.Sprintf("config %q packages %v: %s reports %d diagnostics, go-critic %d; missing in %s: %v; extra: %v", c.name, pkgs, exe, len(got), len(ref), exe, head(missing, 4), head(extra, 4)),
						map[string]interface{}{"config": c.name, "cli_flags": c.cli, "analyzer_flags": c.an, "packages": pkgs})
				}
			}
			distinct[fmt.Sprint(len(ref), c.name)] = true
			if len(meta.Samples) < 6 {
				meta.AddSample(map[string]interface{}{"config": c.name, "packages": pkgs, "diagnostics": len(ref), "first": head(ref, 2)})
			}
			// model case: both renderings of the same in-process warnings
			if pi == 0 {
				var ws []string
				for _, d := range outs["go-critic"] {
					ws = append(ws, fmt.Sprintf("(%s, %s, %s)", coqfmt.Str(fmt.Sprintf("%s:%d:%d", d.File, d.Line, d.Col)), coqfmt.Str(d.Checker), coqfmt.Str(d.Msg)))
				}
				caseLines = append(caseLines, fmt.Sprintf("  (%s, %s, %s)", coqfmt.List(ws), coqfmt.StrList(keys(outs["go-critic"])), coqfmt.StrList(keys(outs["go-critic-analysis"]))))
				idxLines = append(idxLines, "config "+c.name)
			}
		}
	}
	for _, c := range configs[:2] {
		outs := map[string][]string{}
		for _, exe := range []string{"go-critic", "gocritic", "go-critic-analysis", "gocritic-analysis"} {
			var args []string
			if strings.HasSuffix(exe, "-analysis") {
				args = append(append([]string(nil), c.an...), "./...")
			} else {
				args = append(append([]string{"check", "-shorterErrLocation=false"}, c.cli...), "./...")
			}
			out, _, err := common.Run(240*time.Second, legacy, env, filepath.Join(bin, exe), args...)
			runs++
			if err != nil {
				meta.Fail("C08/"+exe+"/run", err.Error(), args)
				continue
			}
			ds, _ := parseLines(out)
			outs[exe] = keys(ds)
		}
		for _, exe := range []string{"gocritic", "go-critic-analysis", "gocritic-analysis"} {
			if strings.Join(outs[exe], "\n") != strings.Join(outs["go-critic"], "\n") {
				missing, extra := diff(outs["go-critic"], outs[exe])
				meta.Fail("C08/"+exe+"/differs-on-old-go-directive", fmt.Sprintf("module with 'go 1.12' in go.mod, config %q: %s reports %d diagnostics, go-critic %d; missing: %v; extra: %v", c.name, exe, len(outs[exe]), len(outs["go-critic"]), head(missing, 3), head(extra, 3)), map[string]interface{}{"config": c.name, "go.mod": "go 1.12"})
			}
		}
	}
	// user rule files with package- and file-scoped filters: the dynamic ruleguard checker must see the
	// package and file it is analysing in every front-end
	{
		ur := filepath.Join(outDir, "ws_userrules")
		os.RemoveAll(ur)
		defer os.RemoveAll(ur)
		rdir := userrules.Workspace(ur)
		rl := "-@ruleguard.rules=" + filepath.Join(rdir, "good.go") + "," + filepath.Join(rdir, "second.go")
		for _, pkgs := range [][]string{{"./..."}, {"./store", "./api"}} {
			outs := map[string][]string{}
			for _, exe := range []string{"go-critic", "gocritic", "go-critic-analysis", "gocritic-analysis"} {
				var args []string
				if strings.HasSuffix(exe, "-analysis") {
					args = append([]string{"-enable=ruleguard,captLocal", "-disable=", rl}, pkgs...)
				} else {
					args = append([]string{"check", "-shorterErrLocation=false", "-enable=ruleguard,captLocal", rl}, pkgs...)
				}
				out, _, err := common.Run(240*time.Second, ur, env, filepath.Join(bin, exe), args...)
				runs++
				if err != nil {
					meta.Fail("C08/"+exe+"/run", err.Error(), args)
					continue
				}
				ds, _ := parseLines(out)
				outs[exe] = keys(ds)
			}
			// the library, one package at a time, is the reference for "what the rules say"
			want := 0
			for _, k := range outs["go-critic"] {
				if strings.Contains(k, "user rule") {
					want++
				}
			}
			if want == 0 {
				meta.TieBroken = append(meta.TieBroken, "user rules workspace: go-critic reported no user-rule diagnostic")
			}
			for _, exe := range []string{"gocritic", "go-critic-analysis", "gocritic-analysis"} {
				if strings.Join(outs[exe], "\n") != strings.Join(outs["go-critic"], "\n") {
					missing, extra := diff(outs["go-critic"], outs[exe])
					meta.Fail("C08/"+exe+"/differs-on-user-rules", fmt.Sprintf("user rule files with package/file-scoped filters, packages %v: %s reports %d diagnostics, go-critic %d; missing: %v; extra: %v", pkgs, exe, len(outs[exe]), len(outs["go-critic"]), head(missing, 3), head(extra, 3)),
						map[string]interface{}{"rules": "harness/internal/userrules (good.go, second.go)", "packages": pkgs})
				}
			}
			// and what the rules say is decidable from their text: apiOnly only in api, storeOnly only in store
			for exe, ks := range outs {
				for _, k := range ks {
					if strings.Contains(k, userrules.MsgAPIOnly) && !strings.Contains(k, "/api/") || strings.Contains(k, userrules.MsgStoreOnly) && !strings.Contains(k, "/store/") ||
						strings.Contains(k, userrules.MsgMainFile) && !strings.Contains(k, "/main.go") {
						meta.Fail("C08/"+exe+"/user-rule-sees-wrong-package", fmt.Sprintf("%s, packages %v: a package- or file-scoped user rule fired outside its scope: %s", exe, pkgs, k), map[string]interface{}{"packages": pkgs, "diagnostic": k})
					}
				}
			}
		}
	}
	runs += crossArch(meta, base, outDir, bin)
	meta.Distribution["binary_runs"] = runs

	// the analyzer offers every checker the CLI offers: flags and registry
	out, _, _ := common.Run(60*time.Second, base, env, filepath.Join(bin, "go-critic-analysis"), "-flags")
	var flags []struct{ Name string }
	if err := json.Unmarshal([]byte(out), &flags); err != nil {
		meta.Notes = append(meta.Notes, "go-critic-analysis -flags not parsed: "+err.Error())
	} else {
		have := map[string]bool{}
		for _, f := range flags {
			have[f.Name] = true
		}
		for _, info := range linter.GetCheckersInfo() {
			for p := range info.Params {
				if !have["@"+info.Name+"."+p] {
					meta.Fail("C08/analyzer/parameter-flag-missing", "go-critic-analysis has no flag for @"+info.Name+"."+p, info.Name)
				}
			}
		}
	}
	// suggested edits are forwarded unchanged
	suggestedFixes(meta, base, bin, env)

	common.WriteFile(filepath.Join(outDir, "cases_c08.v"), `From GC Require Import Base Model_Frontends.
Definition case_ok (k : list (string * string * string) * list string * list string) : bool :=
  let '(ws, cli, an) := k in
  list_eqb String.eqb (sort_strs (map (fun w => cli_line (fst (fst w)) (snd (fst w)) (snd w)) ws)) cli
  && list_eqb String.eqb (sort_strs (map (fun w => analysis_line (fst (fst w)) (as_diag_msg (snd (fst w)) (snd w))) ws)) an.
Definition cases : list (list (string * string * string) * list string * list string) := [
`+strings.Join(caseLines, ";\n")+"\n].\nDefinition M := Eval vm_compute in mismatches case_ok cases.\nPrint M.\n")
	common.WriteFile(filepath.Join(outDir, "cases_c08.index.txt"), strings.Join(idxLines, "\n")+"\n")
	meta.CaseFiles = []string{"cases_c08.v"}
	meta.Evaluations = runs
	meta.Distinct = len(distinct)
	meta.Rule = "a workspace with an in-package test, an external test package, a nested package and files triggering hand-written, embedded and fix-carrying checkers is analysed by go-critic, gocritic, go-critic-analysis and gocritic-analysis under pairs of equivalent configurations (defaults, enable-all, names, tags, a parameter) and package argument sets; normalised (file,line,col,checker,message) lists must be equal and duplicate-free; analyzer flags must cover every parameter; -json suggested edits must equal Warning.Suggestion. distinct_nontrivial = distinct (count, configuration) outcomes"
	return meta
}

func allEmbedded(ks []string) bool {
	emb := map[string]bool{}
	for _, info := range linter.GetCheckersInfo() {
		if info.EmbeddedRuleguard {
			emb[info.Name] = true
		}
	}
	for _, k := range ks {
		m := lineRE.FindStringSubmatch(k)
		if m == nil || !emb[m[4]] {
			return false
		}
	}
	return len(ks) > 0
}

func diff(a, b []string) (onlyA, onlyB []string) {
	ma, mb := map[string]bool{}, map[string]bool{}
	for _, x := range a {
		ma[x] = true
	}
	for _, x := range b {
		mb[x] = true
	}
	for _, x := range a {
		if !mb[x] {
			onlyA = append(onlyA, x)
		}
	}
	for _, x := range b {
		if !ma[x] {
			onlyB = append(onlyB, x)
		}
	}
	return
}

func head(l []string, n int) []string {
	if len(l) > n {
		return l[:n]
	}
	return l
}

// suggestedFixes compares the analyzer's JSON suggested edits with in-process quick fixes.
func suggestedFixes(meta *common.Meta, base, bin string, env []string) {
	fset, pkgs, err := load.Packages(base, env, "./d", "./a")
	if err != nil {
		meta.Notes = append(meta.Notes, "suggested fixes: load: "+err.Error())
		return
	}
	enabled := map[string]bool{"commentFormatting": true, "wrapperFunc": true, "unslice": true}
	ctx := load.NewContext(fset)
	cs, err := load.Checkers(ctx, enabled)
	if err != nil {
		return
	}
	type fix struct {
		file       string
		start, end int
		text       string
	}
	want := map[string]bool{}
	for _, pkg := range pkgs {
		load.CheckPackage(ctx, cs, pkg, func(full string, c *linter.Checker, ws []linter.Warning) {
			for _, w := range ws {
				if w.HasQuickFix() {
					f := fix{full, fset.Position(w.Suggestion.From).Offset, fset.Position(w.Suggestion.To).Offset, string(w.Suggestion.Replacement)}
					want[fmt.Sprint(f)] = true
				}
			}
		})
	}
	out, _, _, _ := common.RunSplit(120*time.Second, base, env, filepath.Join(bin, "go-critic-analysis"), "-json", "-enable=commentFormatting,wrapperFunc,unslice", "-disable=", "./d", "./a")
	var tree map[string]map[string][]struct {
		Posn           string `json:"posn"`
		Message        string `json:"message"`
		SuggestedFixes []struct {
			Edits []struct {
				Filename string `json:"filename"`
				Start    int    `json:"start"`
				End      int    `json:"end"`
				New      string `json:"new"`
			} `json:"edits"`
		} `json:"suggested_fixes"`
	}
	if err := json.Unmarshal([]byte(out), &tree); err != nil {
		meta.Notes = append(meta.Notes, "analyzer -json output not parsed: "+err.Error())
		return
	}
	got := map[string]bool{}
	for _, byAn := range tree {
		for _, ds := range byAn {
			for _, d := range ds {
				for _, sf := range d.SuggestedFixes {
					for _, e := range sf.Edits {
						got[fmt.Sprint(fix{e.Filename, e.Start, e.End, e.New})] = true
					}
				}
			}
		}
	}
	meta.Distribution["quick_fixes_in_process"] = len(want)
	meta.Distribution["suggested_edits_from_analyzer_json"] = len(got)
	for k := range want {
		if !got[k] {
			cls := "C08/analyzer/quick-fix-not-forwarded"
			meta.Fail(cls, "a quick fix produced in-process does not appear unchanged among the analyzer's suggested edits: "+k, k)
		}
	}
	for k := range got {
		if !want[k] {
			meta.Fail("C08/analyzer/suggested-edit-altered", "the analyzer's suggested edit has no identical in-process quick fix: "+k, k)
		}
	}
}
