// Package c16: command-line contract — location shortening, file filters, output lines, exit status.
package c16

import (
	"fmt"
	"go/ast"
	"go/parser"
	"go/token"
	"os"
	"path/filepath"
	"regexp"
	"sort"
	"strconv"
	"strings"
	"time"

	"github.com/go-critic/go-critic/linter"

	"verifharness/internal/common"
	"verifharness/internal/coqfmt"
	"verifharness/internal/load"
)

type bcase struct {
	Op     string `json:"op"`
	Wd     string `json:"wd,omitempty"`
	Gopath string `json:"gopath,omitempty"`
	Goroot string `json:"goroot,omitempty"`
	Loc    string `json:"loc,omitempty"`
	Src    string `json:"src,omitempty"`
}

type bres struct {
	Str   string `json:"str"`
	Bool  bool   `json:"bool"`
	Err   string `json:"err"`
	Panic string `json:"panic"`
}

// expand is the reader's view of a printed location (independent oracle).
func expand(wd, gp, gr, s string) string {
	switch {
	case strings.HasPrefix(s, "./"):
		return wd + s[2:]
	case strings.HasPrefix(s, "$GOPATH/"):
		return gp + s[len("$GOPATH/"):]
	case strings.HasPrefix(s, "$GOROOT/"):
		return gr + s[len("$GOROOT/"):]
	}
	return s
}

var segs = []string{"go", "src", "home", "u"}

func randPath(rng interface{ Intn(int) int }, maxSeg int) string {
	n := 1 + rng.Intn(maxSeg)
	var b strings.Builder
	for i := 0; i < n; i++ {
		b.WriteString("/")
		b.WriteString(segs[rng.Intn(len(segs))])
	}
	return b.String()
}

var looseRE = regexp.MustCompile("Code generated .* DO NOT EDIT.")

func Run(tier string, seed int64, outDir string) *common.Meta {
	meta := &common.Meta{Property: "C16", Distribution: map[string]interface{}{}}
	rng := common.NewRand(seed, "c16")

	// ---------- 1. shortenLocation / addTrailingSlash through the bridge ----------
	nLayouts := 6000
	if tier == "thorough" {
		nLayouts = 120000
	}
	var cases []bcase
	kinds := map[string]int{}
	for i := 0; i < nLayouts; i++ {
		wd := randPath(rng, 3) + "/"
		gp := randPath(rng, 3) + "/"
		gr := randPath(rng, 3) + "/"
		if rng.Intn(12) == 0 {
			wd = ""
		}
		if rng.Intn(15) == 0 {
			gp = "/"
		}
		var dir string
		kind := ""
		switch rng.Intn(7) {
		case 0:
			dir, kind = wd+strings.TrimPrefix(randPath(rng, 2), "/"), "under-wd"
		case 1:
			dir, kind = gp+strings.TrimPrefix(randPath(rng, 2), "/"), "under-gopath"
		case 2:
			dir, kind = gr+strings.TrimPrefix(randPath(rng, 2), "/"), "under-goroot"
		case 3:
			dir, kind = randPath(rng, 2)+wd+"x", "wd-inside-path"
		case 4:
			dir, kind = strings.TrimSuffix(wd, "/")+"-x/y", "wd-as-name-prefix"
		case 5:
			dir, kind = randPath(rng, 2)+strings.TrimSuffix(gp, "/"), "gopath-inside-path"
		default:
			dir, kind = randPath(rng, 4), "unrelated"
		}
		if dir == "" || dir[0] != '/' {
			dir = "/" + dir
		}
		loc := fmt.Sprintf("%s/f.go:%d:%d", strings.TrimSuffix(dir, "/"), 1+rng.Intn(99), 1+rng.Intn(40))
		kinds[kind]++
		cases = append(cases, bcase{Op: "shorten", Wd: wd, Gopath: gp, Goroot: gr, Loc: loc})
	}
	nSlash := 40
	for i := 0; i < nSlash; i++ {
		p := randPath(rng, 3)
		if i%2 == 0 {
			p += "/"
		}
		if i == 7 {
			p = ""
		}
		cases = append(cases, bcase{Op: "slash", Loc: p})
	}
	meta.Distribution["layout_kinds"] = kinds

	// ---------- 2. isGenerated on generated headers ----------
	headers := genHeaders(rng, tier)
	for _, h := range headers {
		cases = append(cases, bcase{Op: "isgen", Src: h})
	}

	results := map[string][]bres{}
	for _, pkg := range []string{"./cmd/go-critic", "./cmd/gocritic"} {
		var res []bres
		if err := common.RunBridge(pkg, cases, &res, outDir); err != nil || len(res) != len(cases) {
			meta.TieBroken = append(meta.TieBroken, fmt.Sprintf("hook %s: %v (%d results for %d cases)", pkg, err, len(res), len(cases)))
			return meta
		}
		results[pkg] = res
	}
	main0 := results["./cmd/go-critic"]
	twin := results["./cmd/gocritic"]

	// oracle + cases for shorten
	var hdr strings.Builder
	hdr.WriteString("From GC Require Import Base Model_Cli.\n")
	var shortenLines, idxLines []string
	distinct := map[string]bool{}
	for i := 0; i < nLayouts; i++ {
		c := cases[i]
		for _, pkg := range []string{"./cmd/go-critic", "./cmd/gocritic"} {
			r := results[pkg][i]
			if r.Panic != "" {
				meta.Fail("C16/"+pkg+"/shorten-panic", r.Panic, c)
				continue
			}
			if back := expand(c.Wd, c.Gopath, c.Goroot, r.Str); back != c.Loc {
				cls := "other"
				if strings.HasPrefix(r.Str, "/") && c.Wd != "" && !strings.HasPrefix(c.Loc, c.Wd) && strings.Contains(c.Loc, c.Wd) {
					cls = "workdir-substring-replaced"
				}
				meta.Fail("C16/shortenLocation/"+cls, fmt.Sprintf("%s prints %q for %q (wd=%q GOPATH=%q GOROOT=%q); it resolves to %q", pkg, r.Str, c.Loc, c.Wd, c.Gopath, c.Goroot, back), c)
			}
		}
		shortenLines = append(shortenLines, fmt.Sprintf("  (%s, %s, %s, %s, %s, %s)", coqfmt.Str(c.Wd), coqfmt.Str(c.Gopath), coqfmt.Str(c.Goroot), coqfmt.Str(c.Loc), coqfmt.Str(main0[i].Str), coqfmt.Str(twin[i].Str)))
		idxLines = append(idxLines, fmt.Sprintf("shorten wd=%q gopath=%q goroot=%q loc=%q -> %q", c.Wd, c.Gopath, c.Goroot, c.Loc, main0[i].Str))
		pre := "abs"
		if strings.HasPrefix(main0[i].Str, "./") {
			pre = "rel"
		} else if strings.HasPrefix(main0[i].Str, "$") {
			pre = main0[i].Str[:7]
		}
		distinct[pre+"|"+fmt.Sprint(len(c.Wd) > 0, strings.Contains(c.Loc, c.Wd), strings.HasPrefix(c.Loc, c.Gopath), strings.HasPrefix(c.Loc, c.Goroot), len(c.Loc)-len(main0[i].Str))] = true
		if i%1500 == 0 {
			meta.AddSample(map[string]string{"wd": c.Wd, "gopath": c.Gopath, "goroot": c.Goroot, "loc": c.Loc, "printed": main0[i].Str})
		}
	}
	// model cases are sharded; in thorough only a sample goes through Coq (the Go oracle sees all)
	maxModel := 2400
	if tier == "thorough" {
		maxModel = 16000
	}
	step := 1
	if nLayouts > maxModel {
		step = nLayouts/maxModel + 1
	}
	const shards = 8
	var body [shards][]string
	var idx [shards][]string
	k := 0
	for i := 0; i < nLayouts; i += step {
		body[k%shards] = append(body[k%shards], shortenLines[i])
		idx[k%shards] = append(idx[k%shards], idxLines[i])
		k++
	}
	for s := 0; s < shards; s++ {
		name := fmt.Sprintf("cases_c16_shorten_%d", s)
		common.WriteFile(filepath.Join(outDir, name+".v"), hdr.String()+
			"Definition case_ok (k : string * string * string * string * string * string) : bool :=\n  let '(wd, gp, gr, loc, o1, o2) := k in\n  String.eqb (shorten wd gp gr loc) o1 && String.eqb (shorten wd gp gr loc) o2.\nDefinition cases := [\n"+
			strings.Join(body[s], ";\n")+"\n].\nDefinition M := Eval vm_compute in mismatches case_ok cases.\nPrint M.\n")
		common.WriteFile(filepath.Join(outDir, name+".index.txt"), strings.Join(idx[s], "\n")+"\n")
		meta.CaseFiles = append(meta.CaseFiles, name+".v")
	}
	// slash
	{
		var lines []string
		for i := nLayouts; i < nLayouts+nSlash; i++ {
			lines = append(lines, fmt.Sprintf("  (%s, %s, %s)", coqfmt.Str(cases[i].Loc), coqfmt.Str(main0[i].Str), coqfmt.Str(twin[i].Str)))
			want := cases[i].Loc
			if !strings.HasSuffix(want, "/") {
				want += "/"
			}
			if main0[i].Str != want || twin[i].Str != want {
				meta.Fail("C16/addTrailingSlash/wrong", fmt.Sprintf("addTrailingSlash(%q) = %q / %q", cases[i].Loc, main0[i].Str, twin[i].Str), cases[i])
			}
		}
		common.WriteFile(filepath.Join(outDir, "cases_c16_slash.v"), hdr.String()+
			"Definition case_ok (k : string * string * string) : bool :=\n  let '(s, o1, o2) := k in String.eqb (add_trailing_slash s) o1 && String.eqb (add_trailing_slash s) o2.\nDefinition cases := [\n"+
			strings.Join(lines, ";\n")+"\n].\nDefinition M := Eval vm_compute in mismatches case_ok cases.\nPrint M.\n")
		meta.CaseFiles = append(meta.CaseFiles, "cases_c16_slash.v")
	}
	// isGenerated
	{
		var lines, idxl []string
		hk := map[string]int{}
		for j, h := range headers {
			i := nLayouts + nSlash + j
			if main0[i].Err != "" {
				continue
			}
			fset := token.NewFileSet()
			f, err := parser.ParseFile(fset, "x.go", h, parser.ParseComments)
			if err != nil {
				continue
			}
			var groups []string
			for _, g := range f.Comments {
				groups = append(groups, g.Text())
			}
			std := ast.IsGenerated(f)
			impl := main0[i].Bool
			if twin[i].Bool != impl {
				meta.Fail("C16/isGenerated/twin-differs", "the two mains disagree on isGenerated", h)
			}
			firstLoose := len(groups) > 0 && looseRE.MatchString(groups[0])
			firstHasStd := false
			if len(f.Comments) > 0 {
				for _, c := range f.Comments[0].List {
					if c.Pos() < f.Package && stdLineRE.MatchString(c.Text) {
						firstHasStd = true
					}
				}
			}
			switch {
			case std && !impl && !firstHasStd:
				meta.Fail("C16/isGenerated/marker-after-first-comment-group", "a file that is generated by Go's convention (marker line before the package clause, not in the first comment group) is not treated as generated", h)
				hk["std-only(marker not in first group)"]++
			case std && !impl:
				meta.Fail("C16/isGenerated/marker-in-first-group-missed", "standard marker in the first comment group is not recognised", h)
			case !std && impl && firstLoose:
				meta.Fail("C16/isGenerated/loose-phrase-in-first-comment", "a file that is not generated by Go's convention is skipped because its first comment merely contains the phrase", h)
				hk["impl-only(loose phrase)"]++
			case !std && impl:
				meta.Fail("C16/isGenerated/skipped-without-phrase", "file treated as generated although its first comment group does not contain the phrase", h)
			case std:
				hk["both"]++
			default:
				hk["neither"]++
			}
			lines = append(lines, fmt.Sprintf("  (%s, %s)", coqfmt.StrList(groups), coqfmt.Bool(impl)))
			idxl = append(idxl, fmt.Sprintf("isgen %q -> %v", h, impl))
			if j%40 == 0 {
				meta.AddSample(map[string]interface{}{"header": h, "isGenerated": impl, "ast.IsGenerated": std})
			}
		}
		meta.Distribution["header_kinds"] = hk
		common.WriteFile(filepath.Join(outDir, "cases_c16_isgen.v"), hdr.String()+
			"Definition case_ok (k : list string * bool) : bool := Bool.eqb (is_generated_impl (fst k)) (snd k).\nDefinition cases := [\n"+
			strings.Join(lines, ";\n")+"\n].\nDefinition M := Eval vm_compute in mismatches case_ok cases.\nPrint M.\n")
		common.WriteFile(filepath.Join(outDir, "cases_c16_isgen.index.txt"), strings.Join(idxl, "\n")+"\n")
		meta.CaseFiles = append(meta.CaseFiles, "cases_c16_isgen.v")
	}

	// ---------- 3. end-to-end runs of both binaries ----------
	nRuns := endToEnd(meta, tier, rng, outDir)
	nRuns += flagsStage(meta, outDir)
	nRuns += plantedStage(meta, tier, common.NewRand(seed, "c16-planted"), outDir)

	meta.Evaluations = 2*len(cases) + nRuns
	meta.Distinct = len(distinct)
	meta.Rule = "layouts: wd/GOPATH/GOROOT/file paths drawn from a 4-word segment alphabet so that nesting, equal prefixes and one path inside another are frequent (kinds in distribution.layout_kinds); every layout goes through both mains' shortenLocation (bridge) and, sharded, through the Coq model; header comments: line/block comments, licence-first, markers in 1st/2nd group, near misses; end-to-end: synthetic workspaces run with both binaries under flag combinations, outputs compared with the model's run on in-process warnings. distinct_nontrivial = distinct (output form, containment relations, length delta) classes among layouts"
	return meta
}

var stdLineRE = regexp.MustCompile(`(?m)^// Code generated .* DO NOT EDIT\.$`)

func genHeaders(rng interface{ Intn(int) int }, tier string) []string {
	markers := []string{
		"// Code generated by protoc-gen-go. DO NOT EDIT.",
		"// Code generated by x; DO NOT EDIT.",
		"// Code generated  DO NOT EDIT.",
		"// Code generated DO NOT EDIT.",
		"// code generated by x. DO NOT EDIT.",
		"// Code generated by x. DO NOT EDIT",
		"//Code generated by x. DO NOT EDIT.",
		"// Code generated by x. DO NOT EDIT.  ",
		"/* Code generated by x. DO NOT EDIT. */",
		"// This file is not Code generated by hand, DO NOT EDIT it!",
	}
	licence := []string{"// Copyright 2024 The Authors.\n// Licensed under MIT.", "/*\n Licence text\n*/", "// +build linux", "//go:build linux"}
	var out []string
	body := "\n\nfunc F(x []int) bool { return len(x) >= 0 }\n"
	for _, m := range markers {
		out = append(out,
			m+"\n\npackage p"+body,
			m+"\npackage p"+body,
			licence[0]+"\n\n"+m+"\n\npackage p"+body,
			licence[0]+"\n"+m+"\n\npackage p"+body,
			licence[1]+"\n\n"+m+"\n\npackage p"+body,
			licence[3]+"\n\n"+m+"\n\npackage p"+body,
			"package p\n\n"+m+body,
			"// Package p does things.\npackage p\n\nfunc G() {\n\t"+m+"\n}\n",
			"package p\n\nfunc G() {\n\t"+m+"\n}\n",
		)
	}
	out = append(out, "package p"+body, "// Package p.\npackage p"+body)
	n := 60
	if tier == "thorough" {
		n = 1500
	}
	for i := 0; i < n; i++ {
		var parts []string
		k := 1 + rng.Intn(3)
		for j := 0; j < k; j++ {
			if rng.Intn(2) == 0 {
				parts = append(parts, markers[rng.Intn(len(markers))])
			} else {
				parts = append(parts, licence[rng.Intn(len(licence))])
			}
			if rng.Intn(2) == 0 {
				parts = append(parts, "")
			}
		}
		out = append(out, strings.Join(parts, "\n")+"\npackage p"+body)
	}
	return out
}

type wsFile struct {
	name, src string
}

var diagLineRE = regexp.MustCompile(`^(.*\.(?:go|tmpl)):(\d+):(\d+): (\w+): (.*)$`)

// endToEnd builds small workspaces and compares the binaries' stderr/exit status with the model's run
// (through cases) and with the property's sentence (oracle).
func endToEnd(meta *common.Meta, tier string, rng interface{ Intn(int) int }, outDir string) int {
	load.InitRules()
	base := filepath.Join(outDir, "e2e")
	os.RemoveAll(base)
	defer os.RemoveAll(base)
	warnSrc := func(pkg, fn string) string {
		return "package " + pkg + "\n\nfunc " + fn + "(xs []int, s string) bool {\n\tif len(xs) >= 0 {\n\t\treturn true\n\t}\n\treturn len(s) == 0\n}\n"
	}
	files := []wsFile{
		{"a.go", warnSrc("p", "A")},
		{"a_test.go", warnSrc("p", "ATest")},
		{"gen.go", "// Code generated by tool. DO NOT EDIT.\n\n" + warnSrc("p", "Gen")},
		{"gen_test.go", "// Code generated by tool. DO NOT EDIT.\n\n" + warnSrc("p", "GenTest")},
		{"clean.go", "package p\n\nfunc Clean() int { return 1 }\n"},
		// findings that depend on the target version (octal literal >= 1.13, time API >= 1.17) and on parameters
		{"ver.go", "package p\n\nimport \"time\"\n\nconst Perm = 0755\n\nfunc V(t time.Time) int64 { return t.Unix() / 1000 }\n\nfunc Many() (int, int, int, int, int, int) { return 1, 2, 3, 4, 5, 6 }\n"},
		// a diagnostic whose text quotes several lines of code (newlines, tabs, runs of blanks inside a string)
		{"ml.go", "package p\n\nfunc run(f func() error) error { return f() }\n\nfunc ML(n int) error {\n\tvar err error\n\tif err = run(func() error {\n\t\tif n > 0 {\n\t\t\tprintln(\"a   b\")\n\t\t\treturn nil\n\t\t}\n\t\treturn nil\n\t}); err != nil {\n\t\treturn err\n\t}\n\treturn err\n}\n"},
		{"sub/b.go", warnSrc("sub", "B")},
		// a //line directive after the package clause: the findings behind it are located in the directive's file
		{"ln.go", "package p\n\nfunc LnBefore(xs []int) bool { return len(xs) >= 0 }\n\n//line tmpl/page.tmpl:4:1\nfunc LnAfter(xs []int) bool { return len(xs) >= 0 }\n"},
		{"tmpl/page.tmpl", strings.Repeat(strings.Repeat("template text ", 8)+"\n", 12)},
		// the last package (by import path) and its last file are clean: the exit status must not depend on
		// which file happens to be checked last
		{"zz/zclean.go", "package zz\n\nfunc Clean() int { return 1 }\n"},
	}
	type layout struct {
		name   string
		root   string // module root
		cwd    string
		gopath string
		args   []string // package args
	}
	outer := filepath.Join(base, "go")
	mod := filepath.Join(outer, "src", "m")
	var layouts []layout
	layouts = append(layouts,
		layout{"cwd=module", mod, mod, filepath.Join(base, "gp-unrelated"), []string{"./..."}},
		layout{"cwd=sub", mod, filepath.Join(mod, "sub"), filepath.Join(base, "gp-unrelated"), []string{"./...", "m"}},
		layout{"gopath-contains-module", mod, mod, outer, []string{"./..."}},
		layout{"gopath-contains-module,cwd=sub", mod, filepath.Join(mod, "sub"), outer, []string{"m/..."}},
		// the same package named by two arguments is checked once
		layout{"overlapping-arguments", mod, mod, filepath.Join(base, "gp-unrelated"), []string{"./...", "./sub", "m"}},
	)
	// the working directory's path occurs inside the file path without being its prefix
	nestedCwd := filepath.Join(base, "w")
	nestedFile := filepath.Join(base, "y"+nestedCwd, "n.go")
	for _, f := range files {
		common.WriteFile(filepath.Join(mod, f.name), f.src)
	}
	common.WriteFile(filepath.Join(mod, "go.mod"), "module m\n\ngo 1.20\n")
	common.WriteFile(nestedFile, warnSrc("main", "N")+"\nfunc main() {}\n")
	common.Must(os.MkdirAll(nestedCwd, 0o755))
	common.Must(os.MkdirAll(filepath.Join(base, "gp-unrelated"), 0o755))
	layouts = append(layouts, layout{"cwd-path-inside-file-path", "", nestedCwd, filepath.Join(base, "gp-unrelated"), []string{nestedFile}})
	// path components that look like formatting verbs
	pctFile := filepath.Join(base, "my%20project", "100%", "%s%d", "p.go")
	common.WriteFile(pctFile, warnSrc("main", "P")+"\nfunc main() {}\n")
	layouts = append(layouts, layout{"percent-signs-in-path", "", nestedCwd, filepath.Join(base, "gp-unrelated"), []string{pctFile}})

	env0 := append(common.GoEnv(), "GOPATH="+filepath.Join(base, "gp-unrelated"), "GOFLAGS=-mod=mod")
	enable := "sloppyLen,emptyStringTest,unlambda,sloppyReassign"
	enabledSet := map[string]bool{"sloppyLen": true, "emptyStringTest": true, "unlambda": true, "sloppyReassign": true}
	type flagset struct {
		checkTests, checkGen, shorter bool
		exitCode                      int
	}
	var flagsets []flagset
	for _, ct := range []bool{true, false} {
		for _, cg := range []bool{false, true} {
			flagsets = append(flagsets, flagset{ct, cg, true, 1})
		}
	}
	flagsets = append(flagsets, flagset{true, false, false, 3}, flagset{false, true, true, 0}, flagset{true, true, true, 7})
	if tier == "quick" {
		// all layouts x 3 flag sets + first layout x all flag sets
	}
	var caseLines, idxLines []string
	runs := 0
	for li, lay := range layouts {
		// expected warnings, in-process, via the public API and the CLI's own loader configuration
		env := append(common.GoEnv(), "GOPATH="+lay.gopath, "GOFLAGS=-mod=mod")
		fset, pkgs, err := load.Packages(lay.cwd, env, lay.args...)
		if err != nil {
			meta.Notes = append(meta.Notes, "e2e layout "+lay.name+": load failed: "+err.Error())
			continue
		}
		ctx := load.NewContext(fset)
		cs, err := load.Checkers(ctx, enabledSet)
		common.Must(err)
		type fileW struct {
			full   string
			groups []string
			byC    map[string][][2]string // checker -> [(loc, text)]
			order  []string
		}
		var fws []*fileW
		byFull := map[string]*fileW{}
		for _, pkg := range pkgs {
			for _, f := range pkg.Syntax {
				full := fset.Position(f.Pos()).Filename
				fw := &fileW{full: full, byC: map[string][][2]string{}}
				for _, g := range f.Comments {
					fw.groups = append(fw.groups, g.Text())
				}
				fws = append(fws, fw)
				byFull[full] = fw
			}
			load.CheckPackage(ctx, cs, pkg, func(full string, c *linter.Checker, ws []linter.Warning) {
				fw := byFull[full]
				fw.order = append(fw.order, c.Info.Name)
				for _, w := range ws {
					fw.byC[c.Info.Name] = append(fw.byC[c.Info.Name], [2]string{fset.Position(w.Pos).String(), w.Text})
				}
			})
		}
		for fi, fs := range flagsets {
			if tier == "quick" && li > 0 && fi%3 != li%3 {
				continue
			}
			for _, exe := range []string{"go-critic", "gocritic"} {
				args := []string{"check", "-enable=" + enable,
					fmt.Sprintf("-checkTests=%v", fs.checkTests), fmt.Sprintf("-checkGenerated=%v", fs.checkGen),
					fmt.Sprintf("-shorterErrLocation=%v", fs.shorter), fmt.Sprintf("-exitCode=%d", fs.exitCode)}
				args = append(args, lay.args...)
				_, stderr, code, err := common.RunSplit(120*time.Second, lay.cwd, env, filepath.Join(common.BinDir(), exe), args...)
				runs++
				if err != nil {
					meta.Fail("C16/"+exe+"/e2e-run", "binary did not finish: "+err.Error(), args)
					continue
				}
				var got []string
				for _, l := range strings.Split(strings.TrimRight(stderr, "\n"), "\n") {
					if l != "" {
						got = append(got, l)
					}
				}
				sort.Strings(got)
				// ---- oracle: the property's sentence, on the real output ----
				wd := lay.cwd + "/"
				gp := lay.gopath + "/"
				gr := strings.TrimSuffix(os.Getenv("GOROOT"), "/") + "/"
				if gr == "/" {
					gr = goroot() + "/"
				}
				seenFiles := map[string]bool{}
				// lines 2.. of multi-line messages, and every message printed verbatim
				continuation := map[string]bool{}
				for _, fw := range fws {
					bn := filepath.Base(fw.full)
					skip := (!fs.checkTests && strings.HasSuffix(bn, "_test.go")) || (!fs.checkGen && strings.HasPrefix(bn, "gen"))
					for cn, ws := range fw.byC {
						for _, w := range ws {
							parts := strings.Split(w[1], "\n")
							for _, pl := range parts[1:] {
								continuation[pl] = true
							}
							if !skip && !strings.Contains(stderr, ": "+cn+": "+w[1]+"\n") {
								meta.Fail("C16/"+exe+"/e2e-message-altered", fmt.Sprintf("the message of %s at %s is not printed verbatim: want %q", cn, w[0], w[1]), map[string]interface{}{"layout": lay.name, "args": args, "stderr": stderr})
							}
						}
					}
				}
				for _, l := range got {
					m := diagLineRE.FindStringSubmatch(l)
					if m == nil && continuation[l] {
						continue
					}
					if m == nil {
						meta.Fail("C16/"+exe+"/e2e-line-format", "output line is not 'location: checker: message': "+l, args)
						continue
					}
					full := m[1]
					if fs.shorter {
						full = expand(wd, gp, gr, m[1])
					}
					line, _ := strconv.Atoi(m[2])
					col, _ := strconv.Atoi(m[3])
					data, err := os.ReadFile(full)
					if err != nil {
						cls := "unresolvable"
						if strings.Contains(full, "./") {
							cls = "workdir-substring-replaced"
						}
						meta.Fail("C16/shortenLocation/"+cls, fmt.Sprintf("%s printed location %q which resolves to %q: no such file (cwd=%s GOPATH=%s)", exe, m[1], full, lay.cwd, lay.gopath), map[string]interface{}{"layout": lay.name, "args": args, "line": l})
						continue
					}
					srcLines := strings.Split(string(data), "\n")
					if line < 1 || line > len(srcLines) || col < 1 || col > len(srcLines[line-1])+1 {
						meta.Fail("C16/"+exe+"/e2e-linecol", "line:column outside the file: "+l, args)
					}
					seenFiles[full] = true
					baseName := filepath.Base(full)
					if !fs.checkTests && strings.HasSuffix(baseName, "_test.go") {
						meta.Fail("C16/"+exe+"/e2e-test-file-reported", "diagnostic for a _test.go file although -checkTests=false: "+l, args)
					}
					if !fs.checkGen && strings.HasPrefix(baseName, "gen") {
						meta.Fail("C16/"+exe+"/e2e-generated-file-reported", "diagnostic for a generated file although -checkGenerated=false: "+l, args)
					}
				}
				for _, fw := range fws {
					n := 0
					for _, ws := range fw.byC {
						n += len(ws)
					}
					bn := filepath.Base(fw.full)
					skip := (!fs.checkTests && strings.HasSuffix(bn, "_test.go")) || (!fs.checkGen && strings.HasPrefix(bn, "gen"))
					if n > 0 && !skip && !seenFiles[fw.full] {
						meta.Fail("C16/"+exe+"/e2e-file-skipped", fmt.Sprintf("file %s is neither a skipped test file nor generated, has %d diagnostics in-process, but nothing was printed for it", fw.full, n), args)
					}
				}
				wantExit := 0
				if len(got) > 0 {
					wantExit = fs.exitCode
				}
				if code != wantExit {
					meta.Fail("C16/"+exe+"/e2e-exit-status", fmt.Sprintf("exit status %d with %d diagnostics and -exitCode=%d", code, len(got), fs.exitCode), args)
				}
				// duplicates
				for i := 1; i < len(got); i++ {
					if got[i] == got[i-1] && !continuation[got[i]] {
						meta.Fail("C16/"+exe+"/e2e-duplicate-line", "diagnostic printed twice: "+got[i], args)
					}
				}
				// ---- model case ----
				if exe == "go-critic" || true {
					var fitems []string
					for _, fw := range fws {
						var cws []string
						for _, cn := range fw.order {
							var ws []string
							for _, w := range fw.byC[cn] {
								ws = append(ws, fmt.Sprintf("(%s, %s)", coqfmt.Str(w[0]), coqfmt.Str(w[1])))
							}
							cws = append(cws, fmt.Sprintf("(%s, %s)", coqfmt.Str(cn), coqfmt.List(ws)))
						}
						fitems = append(fitems, fmt.Sprintf("{| fname := %s; fgroups := %s; fwarn := %s |}", coqfmt.Str(filepath.Base(fw.full)), coqfmt.StrList(fw.groups), coqfmt.List(cws)))
					}
					caseLines = append(caseLines, fmt.Sprintf("  {| e_cfg := {| check_tests := %s; check_generated := %s; exit_code := %s |}; e_shorter := %s; e_wd := %s; e_gp := %s; e_gr := %s;\n     e_files := %s;\n     e_exit := %s; e_lines := %s |}",
						coqfmt.Bool(fs.checkTests), coqfmt.Bool(fs.checkGen), coqfmt.Z(int64(fs.exitCode)), coqfmt.Bool(fs.shorter),
						coqfmt.Str(wd), coqfmt.Str(gp), coqfmt.Str(gr), coqfmt.List(fitems), coqfmt.Z(int64(code)), coqfmt.StrList(got)))
					idxLines = append(idxLines, fmt.Sprintf("e2e layout=%s exe=%s args=%v exit=%d lines=%d", lay.name, exe, args, code, len(got)))
				}
				if runs%9 == 1 {
					meta.AddSample(map[string]interface{}{"layout": lay.name, "exe": exe, "args": args, "exit": code, "stderr_lines": got})
				}
			}
		}
	}
	hdr := `From GC Require Import Base Model_Cli.
From Coq Require Import Sorting.Mergesort Orders.
Record ecase := { e_cfg : cli_cfg; e_shorter : bool; e_wd : string; e_gp : string; e_gr : string;
                  e_files : list src_file; e_exit : Z; e_lines : list string }.
(* insertion sort on strings (String.leb) so that loader order is not part of the comparison *)
Fixpoint ins (x : string) (l : list string) : list string :=
  match l with [] => [x] | y :: r => if String.leb x y then x :: l else y :: ins x r end.
Definition sort_s (l : list string) : list string := fold_right ins [] l.
(* a message may span several physical lines; empty physical lines are not compared *)
Definition phys_lines (l : list string) : list string :=
  filter (fun x => negb (String.eqb x "")) (flat_map (split_on "010"%char) l).
Definition shorten_file (k : ecase) (f : src_file) : src_file :=
  {| fname := fname f; fgroups := fgroups f;
     fwarn := map (fun cw => (fst cw, map (fun w => ((if e_shorter k then shorten (e_wd k) (e_gp k) (e_gr k) (fst w) else fst w), snd w)) (snd cw))) (fwarn f) |}.
Definition case_ok (k : ecase) : bool :=
  let r := run (e_cfg k) (map (shorten_file k) (e_files k)) in
  Z.eqb (fst r) (e_exit k) && list_eqb String.eqb (sort_s (phys_lines (snd r))) (sort_s (e_lines k)).
Definition cases : list ecase := [
`
	common.WriteFile(filepath.Join(outDir, "cases_c16_e2e.v"), hdr+strings.Join(caseLines, ";\n")+"\n].\nDefinition M := Eval vm_compute in mismatches case_ok cases.\nPrint M.\n")
	common.WriteFile(filepath.Join(outDir, "cases_c16_e2e.index.txt"), strings.Join(idxLines, "\n")+"\n")
	meta.CaseFiles = append(meta.CaseFiles, "cases_c16_e2e.v")
	runs += systemCases(meta, outDir, mod, env0)
	runs += systemCtxCases(meta, outDir, mod, env0)
	meta.Distribution["end_to_end_runs"] = runs
	return runs
}

func goroot() string {
	out, _, err := common.Run(20*time.Second, "", common.GoEnv(), "go", "env", "GOROOT")
	if err != nil {
		return ""
	}
	return strings.TrimSpace(out)
}

// systemCases ties the composed model (Model_System.system_run: selection + filters + printing + exit status
// over the whole registry) to the binary: every registered checker's warnings are computed in-process once,
// then the binary is run under selections given by names and tags.
func systemCases(meta *common.Meta, outDir, mod string, env []string) int {
	fset, pkgs, err := load.Packages(mod, env, "./...")
	if err != nil {
		meta.Notes = append(meta.Notes, "system cases: load failed: "+err.Error())
		return 0
	}
	ctx := load.NewContext(fset)
	cs, err := load.Checkers(ctx, nil) // all registered checkers
	common.Must(err)
	type fw struct {
		full   string
		groups []string
		byC    map[string][][2]string
	}
	var files []*fw
	byFull := map[string]*fw{}
	for _, pkg := range pkgs {
		for _, f := range pkg.Syntax {
			full := fset.Position(f.Pos()).Filename
			x := &fw{full: full, byC: map[string][][2]string{}}
			for _, g := range f.Comments {
				x.groups = append(x.groups, g.Text())
			}
			files = append(files, x)
			byFull[full] = x
		}
		load.CheckPackage(ctx, cs, pkg, func(full string, c *linter.Checker, ws []linter.Warning) {
			for _, w := range ws {
				byFull[full].byC[c.Info.Name] = append(byFull[full].byC[c.Info.Name], [2]string{fset.Position(w.Pos).String(), w.Text})
			}
		})
	}
	var fitems []string
	for _, x := range files {
		var cws []string
		var names []string
		for n := range x.byC {
			names = append(names, n)
		}
		sort.Strings(names)
		for _, n := range names {
			var ws []string
			for _, w := range x.byC[n] {
				ws = append(ws, fmt.Sprintf("(%s, %s)", coqfmt.Str(w[0]), coqfmt.Str(w[1])))
			}
			cws = append(cws, fmt.Sprintf("(%s, %s)", coqfmt.Str(n), coqfmt.List(ws)))
		}
		fitems = append(fitems, fmt.Sprintf("{| sf_name := %s; sf_groups := %s; sf_warn := %s |}", coqfmt.Str(filepath.Base(x.full)), coqfmt.StrList(x.groups), coqfmt.List(cws)))
	}
	type sel struct {
		all     bool
		enable  *string
		disable *string
		tests   bool
		gen     bool
		exit    int
	}
	sp := func(s string) *string { return &s }
	sels := []sel{
		{false, nil, nil, true, false, 1},
		{true, nil, nil, true, true, 5},
		{false, sp("#style"), sp("#experimental"), true, false, 1},
		{false, sp("sloppyLen,captLocal,nosuch,#performance"), sp("hugeParam"), false, false, 2},
		{true, nil, sp("#diagnostic,#style,#performance"), true, false, 1},
		{false, sp("nosuchchecker"), nil, true, false, 1},
		{false, sp("#diagnostic"), sp("#diagnostic"), true, true, 1},
		{true, nil, sp("#experimental,#opinionated"), false, true, 0},
	}
	var lines, idx []string
	runs := 0
	for _, c := range sels {
		args := []string{"check", "-shorterErrLocation=false", fmt.Sprintf("-checkTests=%v", c.tests), fmt.Sprintf("-checkGenerated=%v", c.gen), fmt.Sprintf("-exitCode=%d", c.exit)}
		if c.all {
			args = append(args, "-enableAll")
		}
		if c.enable != nil {
			args = append(args, "-enable="+*c.enable)
		}
		if c.disable != nil {
			args = append(args, "-disable="+*c.disable)
		}
		args = append(args, "./...")
		for _, exe := range []string{"go-critic", "gocritic"} {
			_, stderr, code, err := common.RunSplit(180*time.Second, mod, env, filepath.Join(common.BinDir(), exe), args...)
			runs++
			if err != nil {
				meta.Fail("C16/"+exe+"/e2e-run", err.Error(), args)
				continue
			}
			var got []string
			fatal := ""
			for _, l := range strings.Split(strings.TrimRight(stderr, "\n"), "\n") {
				if strings.HasPrefix(l, "init checkers: ") {
					fatal = "init checkers"
				} else if l != "" {
					got = append(got, l)
				}
			}
			sort.Strings(got)
			obs := fmt.Sprintf("SysExit %s %s", coqfmt.Z(int64(code)), coqfmt.StrList(got))
			if fatal != "" {
				obs = "SysFatal " + coqfmt.Str(fatal)
			}
			lines = append(lines, fmt.Sprintf("  ({| cf_all := %s; cf_enable := %s; cf_disable := %s |}, {| check_tests := %s; check_generated := %s; exit_code := %s |}, %s)",
				coqfmt.Bool(c.all), coqfmt.OptStr(c.enable), coqfmt.OptStr(c.disable), coqfmt.Bool(c.tests), coqfmt.Bool(c.gen), coqfmt.Z(int64(c.exit)), obs))
			idx = append(idx, fmt.Sprintf("%s %v -> exit %d, %d lines %s", exe, args, code, len(got), fatal))
		}
	}
	src := `From GC Require Import Base Model_Select Model_Cli Model_System.
From GCgen Require Import Registry.
Fixpoint ins (x : string) (l : list string) : list string :=
  match l with [] => [x] | y :: r => if String.leb x y then x :: l else y :: ins x r end.
Definition sort_s (l : list string) : list string := fold_right ins [] l.
Definition phys_lines (l : list string) : list string :=
  filter (fun x => negb (String.eqb x "")) (flat_map (split_on "010"%char) l).
Definition files : list sys_file := ` + coqfmt.List(fitems) + `.
Definition out_eqb (a b : sys_outcome) : bool :=
  match a, b with
  | SysFatal x, SysFatal y => String.eqb x y
  | SysExit c1 l1, SysExit c2 l2 => Z.eqb c1 c2 && list_eqb String.eqb (sort_s (phys_lines l1)) (sort_s l2)
  | _, _ => false
  end.
Definition case_ok (k : cli_flags * cli_cfg * sys_outcome) : bool :=
  let '(fl, cfg, o) := k in out_eqb (system_run registry fl cfg files) o.
Definition cases : list (cli_flags * cli_cfg * sys_outcome) := [
` + strings.Join(lines, ";\n") + "\n].\nDefinition M := Eval vm_compute in mismatches case_ok cases.\nPrint M.\n"
	common.WriteFile(filepath.Join(outDir, "cases_c16_system.v"), src)
	common.WriteFile(filepath.Join(outDir, "cases_c16_system.index.txt"), strings.Join(idx, "\n")+"\n")
	meta.CaseFiles = append(meta.CaseFiles, "cases_c16_system.v")
	meta.Distribution["system_cases"] = len(lines)

	// the go/analysis front-ends over the same files: Model_System.analysis_run (theorem SYS_frontends_agree)
	var alines, aidx []string
	diagRE := regexp.MustCompile(`^(/[^\s:]+:\d+:\d+): (\w+): (.*)$`)
	for _, c := range sels {
		var args []string
		if c.all {
			args = append(args, "-enable-all")
		}
		if c.enable != nil {
			args = append(args, "-enable="+*c.enable)
		}
		if c.disable != nil {
			args = append(args, "-disable="+*c.disable)
		}
		args = append(args, "./...")
		for _, exe := range []string{"go-critic-analysis", "gocritic-analysis"} {
			stdout, stderr, code, err := common.RunSplit(180*time.Second, mod, env, filepath.Join(common.BinDir(), exe), args...)
			runs++
			if err != nil {
				meta.Fail("C16/"+exe+"/e2e-run", err.Error(), args)
				continue
			}
			seen := map[string]bool{}
			var got []string
			initErr := false
			for _, l := range strings.Split(stdout+"\n"+stderr, "\n") {
				if strings.Contains(l, "init error") {
					initErr = true
				} else if diagRE.MatchString(l) && !seen[l] {
					seen[l] = true
					got = append(got, l)
				}
			}
			sort.Strings(got)
			obs := fmt.Sprintf("AnExit %s %s", coqfmt.Z(int64(code)), coqfmt.StrList(got))
			if initErr {
				obs = "AnError"
			}
			alines = append(alines, fmt.Sprintf("  ({| af_all := %s; af_enable := %s; af_disable := %s |}, %s)", coqfmt.Bool(c.all), coqfmt.OptStr(c.enable), coqfmt.OptStr(c.disable), obs))
			aidx = append(aidx, fmt.Sprintf("%s %v -> exit %d, %d lines init-error=%v", exe, args, code, len(got), initErr))
		}
	}
	asrc := `From GC Require Import Base Model_Select Model_Cli Model_System.
From GCgen Require Import Registry.
Fixpoint ins (x : string) (l : list string) : list string :=
  match l with [] => [x] | y :: r => if String.eqb x y then l else if String.leb x y then x :: l else y :: ins x r end.
Definition sort_u (l : list string) : list string := fold_right ins [] l.
Definition first_line (s : string) : string := match split_on "010"%char s with h :: _ => h | [] => s end.
Definition files : list sys_file := ` + coqfmt.List(fitems) + `.
Definition out_eqb (a b : an_outcome) : bool :=
  match a, b with
  | AnError, AnError => true
  | AnExit c1 l1, AnExit c2 l2 => Z.eqb c1 c2 && list_eqb String.eqb (sort_u (map first_line l1)) (sort_u l2)
  | _, _ => false
  end.
Definition case_ok (k : an_flags * an_outcome) : bool := out_eqb (analysis_run registry (fst k) files) (snd k).
Definition cases : list (an_flags * an_outcome) := [
` + strings.Join(alines, ";\n") + "\n].\nDefinition M := Eval vm_compute in mismatches case_ok cases.\nPrint M.\n"
	common.WriteFile(filepath.Join(outDir, "cases_c16_analysis.v"), asrc)
	common.WriteFile(filepath.Join(outDir, "cases_c16_analysis.index.txt"), strings.Join(aidx, "\n")+"\n")
	meta.CaseFiles = append(meta.CaseFiles, "cases_c16_analysis.v")
	meta.Distribution["analysis_system_cases"] = len(alines)
	return runs
}
