package c16

// sysctx.go — ties Model_SystemCtx (system_run_ctx / analysis_run_ctx: the composed front-end models with the
// Go-version step and the parameter cells) to the four binaries: the same -go text and the same -@checker.param
// flags, under a name selection that contains version-gated and parameter-dependent checkers. What every selected
// checker reports in each context (version, parameter valuation) is computed in-process through the public API and
// handed to Coq as a table; the binaries' observations must equal the models' runs.

import (
	"fmt"
	"path/filepath"
	"regexp"
	"sort"
	"strconv"
	"strings"
	"time"

	"github.com/go-critic/go-critic/linter"

	"verifharness/internal/common"
	"verifharness/internal/coqfmt"
	"verifharness/internal/load"
)

type sysCtx struct {
	name  string
	goV   string
	pargs [][2]string // ("@checker.param", value) in command-line order
}

func systemCtxCases(meta *common.Meta, outDir, mod string, env []string) int {
	names := []string{"timeExprSimplify", "octalLiteral", "hugeParam", "captLocal", "sloppyLen", "tooManyResultsChecker"}
	sel := map[string]bool{}
	for _, n := range names {
		sel[n] = true
	}
	ctxs := []sysCtx{
		{"defaults", "", nil},
		{"go1.16+threshold", "1.16", [][2]string{{"@hugeParam.sizeThreshold", "8"}}},
		{"go1.12", "1.12", nil},
		{"go1.21+params,last-wins", "go1.21", [][2]string{{"@captLocal.paramsOnly", "false"}, {"@hugeParam.sizeThreshold", "8"}, {"@hugeParam.sizeThreshold", "100000"}}},
		{"malformed-version", "1.x", [][2]string{{"@hugeParam.sizeThreshold", "8"}}},
		{"unknown-parameter", "", [][2]string{{"@hugeParam.noSuchParam", "1"}}},
		{"unknown-parameter+malformed-version", "abc", [][2]string{{"@nosuchchecker.p", "1"}}},
	}
	fset, pkgs, err := load.Packages(mod, env, "./...")
	if err != nil {
		meta.Notes = append(meta.Notes, "system ctx cases: load failed: "+err.Error())
		return 0
	}
	type fileInfo struct {
		full   string
		groups []string
	}
	var files []fileInfo
	for _, pkg := range pkgs {
		for _, f := range pkg.Syntax {
			fi := fileInfo{full: fset.Position(f.Pos()).Filename}
			for _, g := range f.Comments {
				fi.groups = append(fi.groups, g.Text())
			}
			files = append(files, fi)
		}
	}
	known := map[string]bool{}
	for _, info := range linter.GetCheckersInfo() {
		for p := range info.Params {
			known["@"+info.Name+"."+p] = true
		}
	}
	// in-process reference per valid context: set the registered parameter values and the context's version
	type tableEntry struct {
		ctx  sysCtx
		warn map[string]map[string][][2]string // file -> checker -> [(loc, text)]
	}
	var table []tableEntry
	for _, cx := range ctxs {
		gv, verr := linter.ParseGoVersion(cx.goV)
		ok := verr == nil
		for _, pa := range cx.pargs {
			if !known[pa[0]] {
				ok = false
			}
		}
		if !ok {
			continue
		}
		saved := map[string]interface{}{}
		for _, info := range linter.GetCheckersInfo() {
			for p, prm := range info.Params {
				key := "@" + info.Name + "." + p
				for _, pa := range cx.pargs {
					if pa[0] != key {
						continue
					}
					if _, done := saved[key]; !done {
						saved[key] = prm.Value
					}
					switch prm.Value.(type) {
					case int:
						n, _ := strconv.Atoi(pa[1])
						prm.Value = n
					case bool:
						prm.Value = pa[1] == "true"
					case string:
						prm.Value = pa[1]
					}
				}
			}
		}
		ctx := load.NewContext(fset)
		ctx.GoVersion = gv
		cs, cerr := load.Checkers(ctx, sel)
		te := tableEntry{ctx: cx, warn: map[string]map[string][][2]string{}}
		if cerr == nil {
			for _, pkg := range pkgs {
				load.CheckPackage(ctx, cs, pkg, func(full string, c *linter.Checker, ws []linter.Warning) {
					if te.warn[full] == nil {
						te.warn[full] = map[string][][2]string{}
					}
					for _, w := range ws {
						te.warn[full][c.Info.Name] = append(te.warn[full][c.Info.Name], [2]string{fset.Position(w.Pos).String(), w.Text})
					}
				})
			}
		}
		for _, info := range linter.GetCheckersInfo() {
			for p, prm := range info.Params {
				if v, ok := saved["@"+info.Name+"."+p]; ok {
					prm.Value = v
				}
			}
		}
		if cerr != nil {
			meta.Notes = append(meta.Notes, "system ctx cases: "+cx.name+": "+cerr.Error())
			continue
		}
		table = append(table, te)
	}
	// Coq table: per file, a list of (go text, pargs, warnings)
	pargsCoq := func(pa [][2]string) string {
		var it []string
		for _, x := range pa {
			it = append(it, fmt.Sprintf("(%s, %s)", coqfmt.Str(x[0]), coqfmt.Str(x[1])))
		}
		return coqfmt.List(it)
	}
	var fitems []string
	for _, fi := range files {
		var entries []string
		for _, te := range table {
			var cws []string
			var cn []string
			for n := range te.warn[fi.full] {
				cn = append(cn, n)
			}
			sort.Strings(cn)
			for _, n := range cn {
				var ws []string
				for _, w := range te.warn[fi.full][n] {
					ws = append(ws, fmt.Sprintf("(%s, %s)", coqfmt.Str(w[0]), coqfmt.Str(w[1])))
				}
				cws = append(cws, fmt.Sprintf("(%s, %s)", coqfmt.Str(n), coqfmt.List(ws)))
			}
			entries = append(entries, fmt.Sprintf("(%s, %s, %s)", coqfmt.Str(te.ctx.goV), pargsCoq(te.ctx.pargs), coqfmt.List(cws)))
		}
		fitems = append(fitems, fmt.Sprintf("mk_file %s %s %s", coqfmt.Str(filepath.Base(fi.full)), coqfmt.StrList(fi.groups), coqfmt.List(entries)))
	}
	// the binaries
	type job struct {
		cx     sysCtx
		exe    string
		args   []string
		so, se string
		code   int
		err    error
	}
	var jobs []*job
	enable := strings.Join(names, ",")
	for _, cx := range ctxs {
		for _, exe := range []string{"go-critic", "gocritic", "go-critic-analysis", "gocritic-analysis"} {
			var args []string
			if strings.HasSuffix(exe, "-analysis") {
				args = []string{"-enable=" + enable, "-disable="}
			} else {
				args = []string{"check", "-shorterErrLocation=false", "-checkTests=true", "-checkGenerated=true", "-exitCode=1", "-enable=" + enable, "-disable="}
			}
			if cx.goV != "" {
				args = append(args, "-go="+cx.goV)
			}
			for _, pa := range cx.pargs {
				args = append(args, "-"+pa[0]+"="+pa[1])
			}
			args = append(args, "./...")
			jobs = append(jobs, &job{cx: cx, exe: exe, args: args})
		}
	}
	sem := make(chan struct{}, 6)
	done := make(chan struct{})
	for _, j := range jobs {
		j := j
		go func() {
			sem <- struct{}{}
			j.so, j.se, j.code, j.err = common.RunSplit(180*time.Second, mod, env, filepath.Join(common.BinDir(), j.exe), j.args...)
			<-sem
			done <- struct{}{}
		}()
	}
	for range jobs {
		<-done
	}
	diagRE := regexp.MustCompile(`^(/[^\s:]+:\d+(?::\d+)?): (\w+): (.*)$`)
	var lines, idx []string
	for _, j := range jobs {
		if j.err != nil {
			meta.Fail("C16/"+j.exe+"/e2e-run", j.err.Error(), j.args)
			continue
		}
		isAn := strings.HasSuffix(j.exe, "-analysis")
		obs := ""
		if isAn {
			seen := map[string]bool{}
			var got []string
			errored := false
			for _, l := range strings.Split(j.so+"\n"+j.se, "\n") {
				if strings.Contains(l, "init error") || strings.Contains(l, "flag provided but not defined") {
					errored = true
				} else if diagRE.MatchString(l) && !seen[l] {
					seen[l] = true
					got = append(got, l)
				}
			}
			sort.Strings(got)
			obs = fmt.Sprintf("ObsAn (AnExit %s %s)", coqfmt.Z(int64(j.code)), coqfmt.StrList(got))
			if errored {
				obs = "ObsAn AnError"
			}
		} else {
			var got []string
			fatal := ""
			for _, l := range strings.Split(strings.TrimRight(j.se, "\n"), "\n") {
				for _, step := range []string{"parse args", "load program", "init checkers"} {
					if strings.HasPrefix(l, step+": ") {
						fatal = step
					}
				}
				if diagRE.MatchString(l) {
					got = append(got, l)
				}
			}
			sort.Strings(got)
			obs = fmt.Sprintf("ObsCli (SysExit %s %s)", coqfmt.Z(int64(j.code)), coqfmt.StrList(got))
			if fatal != "" {
				obs = "ObsCli (SysFatal " + coqfmt.Str(fatal) + ")"
			}
		}
		lines = append(lines, fmt.Sprintf("  (%s, %s, %s)", coqfmt.Str(j.cx.goV), pargsCoq(j.cx.pargs), obs))
		idx = append(idx, fmt.Sprintf("%s ctx=%s %v -> exit %d", j.exe, j.cx.name, j.args, j.code))
	}
	src := `From GC Require Import Base Model_Select Model_Cli Model_System Model_SystemCtx.
From GCgen Require Import Registry.
Fixpoint ins (x : string) (l : list string) : list string :=
  match l with [] => [x] | y :: r => if String.eqb x y then l else if String.leb x y then x :: l else y :: ins x r end.
Definition sort_u (l : list string) : list string := fold_right ins [] l.
Definition first_line (s : string) : string := match split_on "010"%char s with h :: _ => h | [] => s end.
Definition defaults : valuation :=
  map (fun p => match p with (c, n, _, d) => ("@" ++ c ++ "." ++ n, d) end) registry_params.
Definition val_eqb (a b : valuation) : bool :=
  list_eqb (fun x y => String.eqb (fst x) (fst y) && String.eqb (snd x) (snd y)) a b.
Definition ver_eqb (a b : version) : bool := Z.eqb (fst a) (fst b) && Z.eqb (snd a) (snd b).
(* what the selected checkers report on a file in a context: looked up in the table computed in-process *)
Definition mk_file (n : string) (g : list string)
           (t : list (string * list (string * string) * list (string * list (string * string)))) : ctx_file :=
  {| cx_name := n; cx_groups := g;
     cx_warn := fun v val =>
       match find (fun e => match parse_go_version (fst (fst e)) with
                            | Some w => ver_eqb v w && val_eqb val (effective defaults (snd (fst e)))
                            | None => false end) t with
       | Some e => snd e
       | None => []
       end |}.
Definition files : list ctx_file := ` + coqfmt.List(fitems) + `.
Definition names : string := ` + coqfmt.Str(enable) + `.
Definition fl : cli_flags := {| cf_all := false; cf_enable := Some names; cf_disable := Some "" |}.
Definition af : an_flags := {| af_all := false; af_enable := Some names; af_disable := Some "" |}.
Definition cfg : cli_cfg := {| check_tests := true; check_generated := true; exit_code := 1 |}.
Inductive obs := ObsCli (o : sys_outcome) | ObsAn (o : an_outcome).
Definition lines_eqb (model observed : list string) : bool :=
  list_eqb String.eqb (sort_u (map first_line model)) (sort_u observed).
Definition case_ok (k : string * list (string * string) * obs) : bool :=
  let '(go, pargs, o) := k in
  match o with
  | ObsCli (SysFatal s) => match system_run_ctx registry defaults fl cfg go pargs files with SysFatal s' => String.eqb s s' | _ => false end
  | ObsCli (SysExit c l) => match system_run_ctx registry defaults fl cfg go pargs files with SysExit c' l' => Z.eqb c c' && lines_eqb l' l | _ => false end
  | ObsAn AnError => match analysis_run_ctx registry defaults af go pargs files with AnError => true | _ => false end
  | ObsAn (AnExit c l) => match analysis_run_ctx registry defaults af go pargs files with AnExit c' l' => Z.eqb c c' && lines_eqb l' l | _ => false end
  end.
Definition cases : list (string * list (string * string) * obs) := [
` + strings.Join(lines, ";\n") + "\n].\nDefinition M := Eval vm_compute in mismatches case_ok cases.\nPrint M.\n"
	common.WriteFile(filepath.Join(outDir, "cases_c16_sysctx.v"), src)
	common.WriteFile(filepath.Join(outDir, "cases_c16_sysctx.index.txt"), strings.Join(idx, "\n")+"\n")
	meta.CaseFiles = append(meta.CaseFiles, "cases_c16_sysctx.v")
	meta.Distribution["system_ctx_cases"] = len(lines)
	return len(jobs)
}
