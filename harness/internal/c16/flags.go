package c16

// flags.go — ties gen/FlagTable.v (regenerated from the source by harness/internal/flagtable) to the binaries: the
// usage text printed by `check -h` of both CLI mains lists exactly the table's flags (name, kind, usage, printed
// default for literal defaults) plus one -@checker.param flag per registered parameter; `-flags` of both analysis
// binaries lists every flag of the analyzer table with its usage text.

import (
	"encoding/json"
	"fmt"
	"path/filepath"
	"regexp"
	"sort"
	"strconv"
	"strings"
	"time"

	"github.com/go-critic/go-critic/linter"

	"verifharness/internal/common"
	"verifharness/internal/flagtable"
	"verifharness/internal/load"
)

var usageFlagRE = regexp.MustCompile(`^  -(\S+)(?: (\S+))?$`)

// a one-letter boolean flag has its usage text on the same line, after a tab
var usageShortRE = regexp.MustCompile(`^  -(\S)\t(.*)$`)

type usageFlag struct {
	name, typ, usage string
}

func parseUsage(out string) []usageFlag {
	var fs []usageFlag
	lines := strings.Split(out, "\n")
	for i := 0; i < len(lines); i++ {
		if sm := usageShortRE.FindStringSubmatch(lines[i]); sm != nil {
			fs = append(fs, usageFlag{name: sm[1], usage: sm[2]})
			continue
		}
		m := usageFlagRE.FindStringSubmatch(lines[i])
		if m == nil {
			continue
		}
		f := usageFlag{name: m[1], typ: m[2]}
		for i+1 < len(lines) && strings.HasPrefix(lines[i+1], "    \t") {
			if f.usage != "" {
				f.usage += "\n"
			}
			f.usage += strings.TrimPrefix(lines[i+1], "    \t")
			i++
		}
		fs = append(fs, f)
	}
	return fs
}

func flagsStage(meta *common.Meta, outDir string) int {
	load.InitRules()
	runs := 0
	params := map[string]bool{}
	for _, info := range linter.GetCheckersInfo() {
		if strings.HasPrefix(info.Name, "zzProbe") {
			continue
		}
		for p := range info.Params {
			params["@"+info.Name+"."+p] = true
		}
	}
	for _, m := range []struct{ dir, exe string }{{"go-critic", "go-critic"}, {"gocritic", "gocritic"}} {
		table, _, err := flagtable.CLIFlags(m.dir)
		if err != nil {
			meta.TieBroken = append(meta.TieBroken, "flag table of "+m.dir+": "+err.Error())
			continue
		}
		_, stderr, _, err := common.RunSplit(60*time.Second, outDir, common.GoEnv(), filepath.Join(common.BinDir(), m.exe), "check", "-h")
		runs++
		if err != nil {
			meta.Fail("C16/"+m.exe+"/e2e-run", "check -h did not finish: "+err.Error(), nil)
			continue
		}
		shown := map[string]usageFlag{}
		for _, f := range parseUsage(stderr) {
			shown[f.name] = f
		}
		want := map[string]bool{}
		for _, f := range table {
			want[f.Name] = true
			s, ok := shown[f.Name]
			if !ok {
				meta.Fail("C16/flags/registered-flag-not-in-usage", fmt.Sprintf("%s check -h does not list -%s, which parseArgs registers", m.exe, f.Name), f.Name)
				continue
			}
			kind := map[string]string{"": "FBool", "int": "FInt", "string": "FString"}[s.typ]
			if kind != f.Kind {
				meta.Fail("C16/flags/usage-kind-differs", fmt.Sprintf("%s check -h shows -%s as %q, the source registers %s", m.exe, f.Name, s.typ, f.Kind), f.Name)
			}
			wantUsage := f.Usage
			// the flag package appends the default unless it is the zero value
			if lit, err := strconv.Unquote(f.Default); err == nil && lit != "" {
				wantUsage += fmt.Sprintf(" (default %q)", lit)
			} else if f.Kind == "FBool" && f.Default == "true" {
				wantUsage += " (default true)"
			} else if n, err := strconv.Atoi(f.Default); err == nil && n != 0 {
				wantUsage += fmt.Sprintf(" (default %d)", n)
			}
			literal := f.Default == "true" || f.Default == "false" || strings.HasPrefix(f.Default, `"`) || regexp.MustCompile(`^-?\d+$`).MatchString(f.Default)
			if literal && s.usage != wantUsage {
				meta.Fail("C16/flags/usage-text-differs", fmt.Sprintf("%s check -h describes -%s as %q; the source says %q", m.exe, f.Name, s.usage, wantUsage), f.Name)
			}
			if !literal && !strings.HasPrefix(s.usage, f.Usage) {
				meta.Fail("C16/flags/usage-text-differs", fmt.Sprintf("%s check -h describes -%s as %q; the source says %q", m.exe, f.Name, s.usage, f.Usage), f.Name)
			}
		}
		var extra, missingParams []string
		for n := range shown {
			if !want[n] && !params[n] {
				extra = append(extra, n)
			}
		}
		for p := range params {
			if _, ok := shown[p]; !ok {
				missingParams = append(missingParams, p)
			}
		}
		sort.Strings(extra)
		sort.Strings(missingParams)
		if len(extra) > 0 {
			meta.Fail("C16/flags/usage-lists-unregistered-flag", fmt.Sprintf("%s check -h lists flags that neither parseArgs nor the registry's parameters account for: %v", m.exe, extra), extra)
		}
		if len(missingParams) > 0 {
			meta.Fail("C16/flags/parameter-flag-missing", fmt.Sprintf("%s check -h lacks a flag for the registered parameters %v", m.exe, missingParams), missingParams)
		}
		meta.Distribution["flags_"+m.exe] = len(shown)
	}
	an, err := flagtable.AnalyzerFlags()
	if err != nil {
		meta.TieBroken = append(meta.TieBroken, "analyzer flag table: "+err.Error())
		return runs
	}
	for _, exe := range []string{"go-critic-analysis", "gocritic-analysis"} {
		stdout, _, _, err := common.RunSplit(60*time.Second, outDir, common.GoEnv(), filepath.Join(common.BinDir(), exe), "-flags")
		runs++
		if err != nil {
			meta.Fail("C16/"+exe+"/e2e-run", "-flags did not finish: "+err.Error(), nil)
			continue
		}
		var js []struct {
			Name  string
			Bool  bool
			Usage string
		}
		if err := json.Unmarshal([]byte(stdout), &js); err != nil {
			meta.TieBroken = append(meta.TieBroken, exe+" -flags not parsed: "+err.Error())
			continue
		}
		by := map[string]int{}
		for i, j := range js {
			by[j.Name] = i + 1
		}
		for _, f := range an {
			i := by[f.Name]
			if i == 0 {
				meta.Fail("C16/flags/registered-flag-not-in-usage", fmt.Sprintf("%s -flags does not list -%s, which the analyzer registers", exe, f.Name), f.Name)
				continue
			}
			if js[i-1].Usage != f.Usage || js[i-1].Bool != (f.Kind == "FBool") {
				meta.Fail("C16/flags/usage-text-differs", fmt.Sprintf("%s -flags describes -%s as %q (bool=%v); the source says %q (%s)", exe, f.Name, js[i-1].Usage, js[i-1].Bool, f.Usage, f.Kind), f.Name)
			}
		}
	}
	return runs
}
