// Package probes registers the same inert probe checkers as the CLI bridge tests:
// one per subset of the six documented tags.
package probes

import (
	"fmt"
	"go/ast"
	"strings"
	"sync"

	"github.com/go-critic/go-critic/linter"

	"verifharness/internal/load"
)

var Tags = []string{"diagnostic", "style", "performance", "experimental", "opinionated", "security"}

var once sync.Once

type nop struct{}

func (nop) WalkFile(*ast.File) {}

func Name(mask int) string { return fmt.Sprintf("zzProbe%02d", mask) }

func Register() {
	once.Do(func() {
		load.InitRules()
		var coll linter.CheckerCollection
		for mask := 0; mask < 64; mask++ {
			var tags []string
			for i, t := range Tags {
				if mask&(1<<i) != 0 {
					tags = append(tags, t)
				}
			}
			info := &linter.CheckerInfo{Name: Name(mask), Tags: tags, Summary: "probe", Before: "x", After: "y"}
			coll.AddChecker(info, func(*linter.CheckerContext) (linter.FileWalker, error) { return nop{}, nil })
		}
	})
}

func IsProbe(name string) bool { return strings.HasPrefix(name, "zzProbe") }

// InfoList mirrors the bridge's registry choice: "probe", "real" or "all".
func InfoList(which string) []*linter.CheckerInfo {
	var out []*linter.CheckerInfo
	for _, info := range linter.GetCheckersInfo() {
		switch which {
		case "probe":
			if IsProbe(info.Name) {
				out = append(out, info)
			}
		case "real":
			if !IsProbe(info.Name) {
				out = append(out, info)
			}
		default:
			out = append(out, info)
		}
	}
	return out
}
