package c13

import (
	"fmt"
	"path/filepath"
	"strings"

	"github.com/go-critic/go-critic/linter"

	"verifharness/internal/absconv"
	"verifharness/internal/common"
	"verifharness/internal/coqfmt"
	"verifharness/internal/fw"
)

// onDecl names the per-declaration step of each modelled visitor (Model_History.v); typeDefFirst has none (file-level, exempt).
var onDecl = map[string]string{
	"ifElseChain": "", // filled with the threshold in newLaws
	"typeAssertChain":  "tac_on_decl",
	"dupCase":          "dc_on_decl",
	"mapKey":           "mk_on_decl",
	"typeSwitchVar":    "tsv_on_decl",
	"commentedOutCode": "coc_on_decl",
}

// laws collects, per transform, the material of one cases file: the converted original and transformed files, the tags
// (which transformed declaration is padding / which original declaration it is a moved copy of) and the REAL diagnostics
// of the modelled checkers on the transformed file. Coq then evaluates
//
//	tie:  model on the converted transformed file  = real diagnostics on the transformed file
//	law:  predict (per-declaration runs on the ORIGINAL declarations, shifted) = the same real diagnostics,
//	      after checking with decl_eqb that every tagged declaration really is shift_decl k of the original one
//	      and that no original declaration is lost (C13_predict_sound ties predict to the walker).
type laws struct {
	conv  *absconv.Conv
	vis   []absconv.Visitor
	byIdx map[int]absconv.Visitor // checker index -> visitor
	orig  map[string]*absconv.AFile
	thr   string
}

func newLaws(infos []*linter.CheckerInfo) *laws {
	l := &laws{conv: &absconv.Conv{Shapes: absconv.NewShapes(), P: absconv.ParamsOf(infos)}, vis: absconv.Visitors(infos),
		byIdx: map[int]absconv.Visitor{}, orig: map[string]*absconv.AFile{}}
	for ci, info := range infos {
		for _, v := range l.vis {
			if v.Name == info.Name {
				l.byIdx[ci] = v
			}
		}
	}
	return l
}

type lawItem struct {
	orig, tf *fw.File
	em       *emitted
	real     map[string]fw.Outcome
}

func (l *laws) onDeclOf(v absconv.Visitor) string {
	if v.Name == "ifElseChain" {
		// WalkFile is "(fun (_ : unit) s f => iec_run THR s f)"
		f := strings.Fields(v.WalkFile)
		for i, w := range f {
			if w == "iec_run" && i+1 < len(f) {
				return "(iec_on_decl " + f[i+1] + ")"
			}
		}
		return "(iec_on_decl 2%N)"
	}
	return onDecl[v.Name]
}

func (l *laws) write(meta *common.Meta, outDir, trName string, items []*lawItem) {
	var b strings.Builder
	var idx []string
	b.WriteString(absconv.Preamble)
	for _, v := range l.vis {
		n := v.Name
		fmt.Fprintf(&b, "Definition run_%s := check %s.\nDefinition s0_%s := %s.\n", n, v.WalkFile, n, v.Scratch0)
		fmt.Fprintf(&b, "Definition tie_%s (ds' : file) (obs : list warning) : bool := list_eqb w_eqb (result_fresh (@nil warning, s0_%s) run_%s tt ds') obs.\n", n, n, n)
		if od := l.onDeclOf(v); od != "" {
			fmt.Fprintf(&b, "Definition law_%s (ds ds' : file) (tags : list (option N)) (obs : list warning) : bool :=\n"+
				"  match predict %s s0_%s ds ds' tags with Some ws => list_eqb w_eqb ws obs | None => false end.\n", n, od, n)
		}
	}
	var oks []string
	nTie, nLaw, nWarn, skipped := 0, 0, 0, 0
	for i, it := range items {
		ao := l.orig[it.orig.Path]
		if ao == nil {
			ao = l.conv.File(it.orig)
			l.orig[it.orig.Path] = ao
		}
		at := l.conv.File(it.tf)
		anyWarn := false
		for _, o := range it.real {
			if len(o.Ws) > 0 {
				anyWarn = true
			}
		}
		if ao.Interesting() == 0 && at.Interesting() == 0 && !anyWarn {
			skipped++
			continue
		}
		// tags: transformed declaration -> original declaration (by the emitter's line map)
		byLine := map[int][]int{}
		for di, d := range ao.Decls {
			byLine[d.Line] = append(byLine[d.Line], di)
		}
		var tags []string
		for _, d := range at.Decls {
			ol, ok := it.em.lineMap[d.Line]
			if q := byLine[ol]; ok && len(q) > 0 {
				tags = append(tags, fmt.Sprintf("Some %d%%N", q[0]))
				byLine[ol] = q[1:]
			} else {
				tags = append(tags, "None")
			}
		}
		fmt.Fprintf(&b, "Definition O%d : file := %s. (* %s *)\nDefinition T%d : file := %s.\nDefinition G%d : list (option N) := %s.\n",
			i, ao.Coq(), it.orig.ID(), i, at.Coq(), i, coqfmt.List(tags))
		oks = append(oks, fmt.Sprintf("tags_cover (length O%d) G%d", i, i))
		idx = append(idx, fmt.Sprintf("COVER: every declaration of the original %s occurs exactly once in its %s transform (tags %s)", it.orig.ID(), trName, strings.Join(tags, ",")))
		for _, v := range l.vis {
			o, ok := it.real[v.Name]
			if !ok || o.Panic != "" || ao.Unsupported[v.Name] != "" || at.Unsupported[v.Name] != "" {
				continue
			}
			if len(o.Ws) > 0 {
				nWarn++
			}
			obs := v.Warnings(o.Ws)
			oks = append(oks, fmt.Sprintf("tie_%s T%d %s", v.Name, i, obs))
			idx = append(idx, fmt.Sprintf("TIE %s: model on the converted %s-transformed %s vs the real checker; real=%v", v.Name, trName, it.orig.ID(), fw.Strs(o.Ws)))
			nTie++
			if l.onDeclOf(v) != "" {
				oks = append(oks, fmt.Sprintf("law_%s O%d T%d G%d %s", v.Name, i, i, i, obs))
				idx = append(idx, fmt.Sprintf("LAW %s: per-declaration prediction from the ORIGINAL %s (tags %s) vs the real checker on its %s transform; real=%v",
					v.Name, it.orig.ID(), strings.Join(tags, ","), trName, fw.Strs(o.Ws)))
				nLaw++
			}
		}
	}
	b.WriteString("Definition oks : list bool := [\n  " + strings.Join(oks, ";\n  ") + "].\n")
	b.WriteString("Definition M := Eval vm_compute in mismatches (fun b : bool => b) oks.\nPrint M.\n")
	name := "cases_law_" + strings.ReplaceAll(trName, "-", "_") + ".v"
	common.WriteFile(filepath.Join(outDir, name), b.String())
	common.WriteFile(filepath.Join(outDir, strings.TrimSuffix(name, ".v")+".index.txt"), strings.Join(idx, "\n")+"\n")
	meta.CaseFiles = append(meta.CaseFiles, name)
	me, _ := meta.Distribution["model_execution"].(map[string]interface{})
	if me == nil {
		me = map[string]interface{}{}
		meta.Distribution["model_execution"] = me
	}
	me[trName] = map[string]interface{}{"transformed_files": len(items), "without_items_skipped": skipped, "tie_cases": nTie, "law_cases": nLaw, "cases_with_real_warnings": nWarn}
	if nWarn == 0 && len(items) > 0 {
		meta.TieBroken = append(meta.TieBroken, "model execution for transform "+trName+" is vacuous: no modelled checker warns on any transformed file")
	}
}
