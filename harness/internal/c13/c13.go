// Package c13: locality. Implementation-level oracle = the property's own metamorphic family on the
// maintainers' examples: every checkers/testdata/<checker>/*.go is split into a header (package clause +
// imports) and top-level chunks (a declaration with everything between it and the previous declaration,
// so the `/*! text */` expectations travel with their code); transformed files are emitted (appended
// unrelated declarations, blank-line padding, dummy declarations between chunks, body-less extern
// functions between chunks, permutations of plain-function chunks), loaded and type-checked through
// go/packages overlays, and analysed:
//
//	(a) the owner checker's warnings must match the travelled expectations exactly (every expected warning
//	    produced on its line, no other warning) — the suite's own criterion;
//	(b) for EVERY checker the warnings on the transformed file, mapped back through the chunk line map,
//	    must be the same multiset as on the original file, and none may sit on a padding line.
package c13

import (
	"fmt"
	"go/ast"
	"go/parser"
	"go/token"
	"go/types"
	"math/rand"
	"os"
	"path/filepath"
	"regexp"
	"sort"
	"strings"
	"time"

	"github.com/go-critic/go-critic/linter"

	"verifharness/internal/c04"
	"verifharness/internal/common"
	"verifharness/internal/fw"
)

// Exempt checkers: their documented subject is file-level order / file header, so moving or padding
// top-level declarations legitimately changes what they say.
var Exempt = map[string]string{
	"dupImport":          "reports import specs and quotes their line numbers",
	"commentedOutImport": "subject is the import block",
	"typeDefFirst":       "subject is the order of a type and its methods in the file",
	"codegenComment":     "subject is the file header comment",
	"importShadow":       "depends on the file's import table",
}

var directiveRE = regexp.MustCompile(`^\s*/\*! (.*) \*/`)

// expectations mirrors linttest.newWarnings on a list of lines: line number (1-based) -> texts.
func expectations(lines []string) map[int][]string {
	ws := map[int][]string{}
	var pending []string
	for i, l := range lines {
		if m := directiveRE.FindStringSubmatch(l); m != nil {
			pending = append(pending, m[1])
		} else if len(pending) != 0 {
			ws[i+1] = pending
			pending = nil
		}
	}
	return ws
}

type chunk struct {
	lines []string
	start int  // first original line (1-based)
	plain bool // a single plain function declaration (no receiver, not init/main/Test*/Example*)
	name  string
}

type split struct {
	header []string
	chunks []chunk
	tail   []string
	tailAt int
	nLines int
	// helpers: builtin function names that this file defines locally (parameter, := variable, local const/type) while the
	// package neither uses the predeclared object of that name anywhere nor declares the name at package level: a package-level
	// function of that name is an unrelated declaration for every existing declaration (filled in from go/types by Run)
	helpers []string
}

func splitFile(src []byte) (*split, error) {
	fset := token.NewFileSet()
	f, err := parser.ParseFile(fset, "x.go", src, parser.ParseComments)
	if err != nil {
		return nil, err
	}
	lines := strings.Split(string(src), "\n")
	if n := len(lines); n > 0 && lines[n-1] == "" {
		lines = lines[:n-1]
	}
	line := func(p token.Pos) int { return fset.PositionFor(p, false).Line }
	headerEnd := line(f.Name.End())
	firstMovable := 0
	for i, d := range f.Decls {
		if g, ok := d.(*ast.GenDecl); ok && g.Tok == token.IMPORT {
			headerEnd = line(d.End())
			firstMovable = i + 1
		}
	}
	// a comment that starts on the header's last line and continues belongs to the header line only (whole lines are moved)
	s := &split{header: lines[:headerEnd], nLines: len(lines)}
	prevEnd := headerEnd
	for i := firstMovable; i < len(f.Decls); i++ {
		d := f.Decls[i]
		end := line(d.End())
		// a trailing comment group that starts on the declaration's last line may span further lines (/* ... */)
		for _, cg := range f.Comments {
			if line(cg.Pos()) == end && line(cg.End()) > end && cg.Pos() > d.Pos() {
				end = line(cg.End())
			}
		}
		if end <= prevEnd { // shares its last line with the previous declaration: merge
			if n := len(s.chunks); n > 0 {
				s.chunks[n-1].plain = false
			}
			continue
		}
		if line(d.Pos()) <= prevEnd { // starts on the previous declaration's last line: merge into it
			if n := len(s.chunks); n > 0 {
				s.chunks[n-1].lines = append(s.chunks[n-1].lines, lines[prevEnd:end]...)
				s.chunks[n-1].plain = false
				prevEnd = end
				continue
			}
		}
		c := chunk{lines: lines[prevEnd:end], start: prevEnd + 1}
		if fd, ok := d.(*ast.FuncDecl); ok && fd.Recv == nil && fd.Body != nil {
			n := fd.Name.Name
			if n != "init" && n != "main" && !strings.HasPrefix(n, "Test") && !strings.HasPrefix(n, "Example") && !strings.HasPrefix(n, "Benchmark") {
				c.plain = true
			}
			c.name = n
		}
		s.chunks = append(s.chunks, c)
		prevEnd = end
	}
	s.tail = lines[prevEnd:]
	s.tailAt = prevEnd + 1
	return s, nil
}

// emitted is a transformed file with its line map.
type emitted struct {
	src     []byte
	lineMap map[int]int // new line -> original line (absent: padding)
	padding map[int]bool
}

type emitter struct {
	out     []string
	lineMap map[int]int
	padding map[int]bool
}

func newEmitter() *emitter { return &emitter{lineMap: map[int]int{}, padding: map[int]bool{}} }

func (e *emitter) orig(lines []string, start int) {
	for i, l := range lines {
		e.out = append(e.out, l)
		e.lineMap[len(e.out)] = start + i
	}
}

func (e *emitter) pad(lines ...string) {
	for _, l := range lines {
		e.out = append(e.out, l)
		e.padding[len(e.out)] = true
	}
}

func (e *emitter) done() *emitted {
	return &emitted{src: []byte(strings.Join(e.out, "\n") + "\n"), lineMap: e.lineMap, padding: e.padding}
}

// per-file context of the transform being applied (set by Run before each call; transforms run sequentially)
var (
	curPkgName string
	curIsS1    bool
	negPool    []poolItem          // self-contained plain functions of all negative example files
	negByPkg   map[string][]int    // indices into negPool per example package
	padFree    = map[string]bool{} // transforms whose padding may legitimately be reported on
)

type poolItem struct {
	pkg, name string
	lines     []string
	class     string // "negatives" (example packages), "c04-workspace", "stress"
}

var poolByClass map[string][]int

// dangerousDocs: texts that tools treat specially when they meet them in a comment; as the doc comment of an unrelated
// declaration in the middle of a file they must not change what is reported for the other declarations.
var dangerousDocs = []string{
	"// Code generated by verif-gen. DO NOT EDIT.",
	"// This helper was copied from a file that said: Code generated by protoc-gen-go. DO NOT EDIT.",
	"/* Code generated by stringer -type=Kind; DO NOT EDIT. */",
	"//nolint",
	"//nolint:gocritic // padding",
	"// nolint: all",
	"//lint:file-ignore U1000 padding",
	"//go:generate echo padding",
	"// +build ignore",
	"// Deprecated: padding.",
	"// TODO",
	"// Output:",
	"// #include <stdio.h>",
	"// import \"C\"",
}

type transform struct {
	name string
	fn   func(s *split, tag string, rng *rand.Rand) *emitted
}

func dummyDecl(tag string, k int, kind int) []string {
	switch kind % 3 {
	case 0:
		// no predeclared identifiers: some example packages shadow them at package level
		return []string{"", fmt.Sprintf("var verifPad%s%d = struct{}{}", tag, k), ""}
	case 1:
		return []string{"", fmt.Sprintf("func verifPadFn%s%d() {", tag, k), fmt.Sprintf("\t_ = verifPadFn%s%d", tag, k), "}", ""}
	default:
		return []string{"", fmt.Sprintf("type verifPadT%s%d struct{}", tag, k), ""}
	}
}

func between(name string, padFor func(tag string, i int, rng *rand.Rand) []string) transform {
	return transform{name, func(s *split, tag string, rng *rand.Rand) *emitted {
		e := newEmitter()
		e.orig(s.header, 1)
		for i, c := range s.chunks {
			e.pad(padFor(tag, i, rng)...)
			e.orig(c.lines, c.start)
		}
		e.orig(s.tail, s.tailAt)
		return e.done()
	}}
}

var transforms = []transform{
	{"identity", func(s *split, tag string, rng *rand.Rand) *emitted {
		e := newEmitter()
		e.orig(s.header, 1)
		for _, c := range s.chunks {
			e.orig(c.lines, c.start)
		}
		e.orig(s.tail, s.tailAt)
		return e.done()
	}},
	{"append-decls", func(s *split, tag string, rng *rand.Rand) *emitted {
		e := newEmitter()
		e.orig(s.header, 1)
		for _, c := range s.chunks {
			e.orig(c.lines, c.start)
		}
		e.orig(s.tail, s.tailAt)
		for k := 0; k < 3; k++ {
			e.pad(dummyDecl(tag, k, k)...)
		}
		return e.done()
	}},
	between("blank-lines", func(tag string, i int, rng *rand.Rand) []string {
		return make([]string, 1+rng.Intn(7))
	}),
	between("dummy-decls", func(tag string, i int, rng *rand.Rand) []string {
		return dummyDecl(tag, i, rng.Intn(3))
	}),
	between("extern-funcs", func(tag string, i int, rng *rand.Rand) []string {
		return []string{"", fmt.Sprintf("func verifExtern%s%d()", tag, i), ""}
	}),
	{"dangerous-docs", func(s *split, tag string, rng *rand.Rand) *emitted {
		// dummy declarations WITH doc comments from the dangerous pool, between chunks; never as the first comment of the
		// file (a generated-code marker in the leading comment legitimately makes the CLI skip the file)
		e := newEmitter()
		e.orig(s.header, 1)
		seenComment := hasComment(s.header)
		for i, c := range s.chunks {
			if seenComment {
				doc := dangerousDocs[rng.Intn(len(dangerousDocs))]
				d := dummyDecl(tag, i, 1+rng.Intn(2))
				e.pad("", doc)
				e.pad(d[1:]...)
			} else {
				e.pad(dummyDecl(tag, i, rng.Intn(3))...)
			}
			e.orig(c.lines, c.start)
			seenComment = seenComment || hasComment(c.lines)
		}
		e.orig(s.tail, s.tailAt)
		return e.done()
	}},
	{"append-predeclared-helpers", func(s *split, tag string, rng *rand.Rand) *emitted {
		// the pre-1.21 habit: the file carries its own min/max/... helper at package level
		e := newEmitter()
		e.orig(s.header, 1)
		for _, c := range s.chunks {
			e.orig(c.lines, c.start)
		}
		e.orig(s.tail, s.tailAt)
		for _, h := range s.helpers {
			e.pad("", fmt.Sprintf("func %s(a, b int) int {", h), "\tif a > b {", "\t\treturn a", "\t}", "\treturn b", "}")
		}
		return e.done()
	}},
	{"append-negatives", func(s *split, tag string, rng *rand.Rand) *emitted {
		// the functions of the checkers' negative examples are the constructs some checker treats specially (goto, labels,
		// recover, init-like shapes, ...): append those of this package's own negative files and a few foreign ones
		e := newEmitter()
		e.orig(s.header, 1)
		for _, c := range s.chunks {
			e.orig(c.lines, c.start)
		}
		e.orig(s.tail, s.tailAt)
		var picks []int
		if own := negByPkg[curPkgName]; len(own) > 0 {
			picks = append(picks, own...)
		}
		// stratified: some of every source class, so that a small class (the generic shapes of the C04 workspace) reaches every file
		var classes []string
		for c := range poolByClass {
			classes = append(classes, c)
		}
		sort.Strings(classes)
		for _, c := range classes {
			idx := poolByClass[c]
			for k := 0; k < 2 && len(idx) > 0; k++ {
				picks = append(picks, idx[rng.Intn(len(idx))])
			}
		}
		used := map[int]bool{}
		for _, pi := range picks {
			if used[pi] {
				continue
			}
			used[pi] = true
			it := negPool[pi]
			e.pad("")
			for _, l := range it.lines {
				nl := strings.Replace(l, "func "+it.name+"(", "func verifNeg"+tag+"_"+it.pkg+"_"+it.name+"(", 1)
				nl = strings.Replace(nl, "func "+it.name+"[", "func verifNeg"+tag+"_"+it.pkg+"_"+it.name+"[", 1)
				e.pad(nl)
			}
		}
		return e.done()
	}},
	{"reverse-funcs", func(s *split, tag string, rng *rand.Rand) *emitted {
		// every pair of plain functions changes its relative order (a random permutation may keep a given pair)
		var slots []int
		for i, c := range s.chunks {
			if c.plain {
				slots = append(slots, i)
			}
		}
		order := make([]int, len(s.chunks))
		for i := range order {
			order[i] = i
		}
		for k, slot := range slots {
			order[slot] = slots[len(slots)-1-k]
		}
		e := newEmitter()
		e.orig(s.header, 1)
		for _, ci := range order {
			e.orig(s.chunks[ci].lines, s.chunks[ci].start)
		}
		e.orig(s.tail, s.tailAt)
		return e.done()
	}},
	{"permute-funcs", func(s *split, tag string, rng *rand.Rand) *emitted {
		var slots []int
		for i, c := range s.chunks {
			if c.plain {
				slots = append(slots, i)
			}
		}
		perm := rng.Perm(len(slots))
		if len(slots) >= 2 { // never the identity
			id := true
			for i, p := range perm {
				if i != p {
					id = false
				}
			}
			if id {
				perm[0], perm[1] = perm[1], perm[0]
			}
		}
		order := make([]int, len(s.chunks))
		for i := range order {
			order[i] = i
		}
		for k, slot := range slots {
			order[slot] = slots[perm[k]]
		}
		e := newEmitter()
		e.orig(s.header, 1)
		for _, ci := range order {
			e.orig(s.chunks[ci].lines, s.chunks[ci].start)
		}
		e.orig(s.tail, s.tailAt)
		return e.done()
	}},
}

var cliLineRE = regexp.MustCompile(`^(\S+?\.go):(\d+):(\d+): (\w+: .*)$`)

// cliDiagnostics runs the built CLI (all checkers) on the example packages under dir, in batches that one process can
// load, and returns pkg/file -> diagnostics; with a line map, lines are mapped back to the original file and diagnostics
// on padding are dropped.
func cliDiagnostics(meta *common.Meta, dir string, pkgs []*fw.Pkg, ems map[string]*emitted) map[string][]wkey {
	batches := fw.Batches(pkgs)
	outs := make([]string, len(batches))
	errs := make([]error, len(batches))
	fw.Parallel(len(batches), func(i int) {
		args := []string{"check", "-enableAll"}
		for _, p := range batches[i] {
			args = append(args, "./checkers/testdata/"+p.Name)
		}
		out, code, err := common.Run(300*time.Second, dir, common.GoEnv(), filepath.Join(common.BinDir(), "go-critic"), args...)
		if fw.IsTimeout(err) || (err == nil && code == -1) { // retried once with a longer limit; see fw.RunPatient
			out, code, err = common.Run(900*time.Second, dir, common.GoEnv(), filepath.Join(common.BinDir(), "go-critic"), args...)
		}
		if err == nil && code == -1 {
			err = fmt.Errorf("killed by a signal (not by this harness): no observation")
		}
		if err == nil && code != 0 && code != 1 {
			err = fmt.Errorf("exit %d: %s", code, clipStr(out, 300))
		}
		outs[i], errs[i] = out, err
	})
	res := map[string][]wkey{}
	for i := range batches {
		if fw.IsTimeout(errs[i]) {
			meta.Notes = append(meta.Notes, "CLI-level stage: go-critic check on "+dir+" hit the wall-clock limit twice (no observation, not a verdict): "+errs[i].Error())
			for _, p := range batches[i] {
				res["\x00unobserved/"+p.Name] = []wkey{}
			}
			continue
		}
		if errs[i] != nil {
			meta.TieBroken = append(meta.TieBroken, "go-critic check on "+dir+" did not finish normally: "+errs[i].Error())
			continue
		}
		for _, l := range strings.Split(outs[i], "\n") {
			m := cliLineRE.FindStringSubmatch(l)
			if m == nil {
				continue
			}
			id := filepath.Base(filepath.Dir(m[1])) + "/" + filepath.Base(m[1])
			var ln, col int
			fmt.Sscan(m[2], &ln)
			fmt.Sscan(m[3], &col)
			if ems != nil {
				em := ems[id]
				if em == nil {
					continue
				}
				ol, ok := em.lineMap[ln]
				if !ok {
					continue // on padding
				}
				ln = ol
			}
			res[id] = append(res[id], wkey{ln, col, m[4], ""})
		}
	}
	return res
}

// cliLevel: the same metamorphic statement through the built CLI (file filters, generated-code detection, printing):
// diagnostics of the untouched declarations must be what the CLI prints for the original file.
func cliLevel(meta *common.Meta, name, mod string, s1 []*fw.Pkg, ems map[string]*emitted, cliBase map[string][]wkey) {
	got := cliDiagnostics(meta, mod, s1, ems)
	files, withDiag := 0, 0
	for _, p := range s1 {
		if _, ex := Exempt[p.Name]; ex {
			continue
		}
		if _, u := got["\x00unobserved/"+p.Name]; u {
			continue
		}
		if _, u := cliBase["\x00unobserved/"+p.Name]; u {
			continue
		}
		for _, f := range p.Files {
			id := f.ID()
			if ems[id] == nil {
				continue
			}
			files++
			// exempt checkers' lines are not judged
			filter := func(ks []wkey) []wkey {
				var out []wkey
				for _, k := range ks {
					c := k.text
					if i := strings.Index(c, ":"); i >= 0 {
						c = c[:i]
					}
					if _, ex := Exempt[c]; !ex {
						out = append(out, k)
					}
				}
				return out
			}
			w, g := filter(cliBase[id]), filter(got[id])
			if len(w) > 0 {
				withDiag++
			}
			onlyT, onlyO := diffSets(multiset(g), multiset(w))
			if len(onlyT) == 0 && len(onlyO) == 0 {
				continue
			}
			checker := "cli"
			if len(onlyO) == len(w) && len(g) == 0 {
				checker = "cli/file-skipped"
			}
			meta.Fail("C13/"+checker+"/"+name, fmt.Sprintf("go-critic check: diagnostics of the untouched declarations of %s change after %s", id, name),
				map[string]interface{}{"original_file": f.Path, "transform": name, "transformed_source": string(ems[id].src), "only_in_original": clipList(onlyO), "only_in_transformed(original line numbers)": clipList(onlyT),
					"replay": "go-critic check -enableAll on the package with transformed_source in place of the original file; compare with the original's output"})
		}
	}
	meta.Distribution["cli_level_files_"+name] = files
	if withDiag < 50 {
		meta.TieBroken = append(meta.TieBroken, fmt.Sprintf("CLI baseline has diagnostics for only %d example files", withDiag))
	}
}

func clipList(l []string) []string {
	if len(l) > 8 {
		return append(l[:8:8], fmt.Sprintf("... (%d more)", len(l)-8))
	}
	return l
}

func hasComment(lines []string) bool {
	for _, l := range lines {
		if strings.Contains(l, "//") || strings.Contains(l, "/*") {
			return true
		}
	}
	return false
}

// buildNegPool collects the plain functions of negative example files that type-check on their own (no imports, no
// package-level helpers), so that they can be appended to any file.
func addPoolChunks(class, pkg string, sp *split) {
	for _, c := range sp.chunks {
		if !c.plain || c.name == "" || c.name == "_" {
			continue
		}
		var body []string
		for _, l := range c.lines {
			if directiveRE.MatchString(l) {
				continue
			}
			body = append(body, l)
		}
		src := "package p\n\n" + strings.Join(body, "\n") + "\n"
		fset := token.NewFileSet()
		pf, err := parser.ParseFile(fset, "p.go", src, parser.ParseComments)
		if err != nil {
			continue
		}
		conf := types.Config{Error: func(error) {}}
		if _, err := conf.Check("p", fset, []*ast.File{pf}, nil); err != nil {
			continue
		}
		if class == "negatives" {
			negByPkg[pkg] = append(negByPkg[pkg], len(negPool))
		}
		poolByClass[class] = append(poolByClass[class], len(negPool))
		negPool = append(negPool, poolItem{sanitize(pkg), c.name, body, class})
	}
}

func sanitize(s string) string {
	return strings.Map(func(r rune) rune {
		if r >= 'a' && r <= 'z' || r >= 'A' && r <= 'Z' || r >= '0' && r <= '9' {
			return r
		}
		return '_'
	}, s)
}

// buildNegPool collects plain functions that type-check on their own (no imports, no package-level helpers), so that
// they can be appended to any file: the functions of all negative example files, the functions of the C04 workspace
// generator (generic shapes that drive SizeOf's recover path, ...) and those of the stress corpora.
func buildNegPool(files []*fw.File, splits map[string]*split, scratch string) {
	negPool, negByPkg, poolByClass = nil, map[string][]int{}, map[string][]int{}
	for _, f := range files {
		if f.Pkg.Stream != "S1" || !strings.HasPrefix(f.Name, "negative") {
			continue
		}
		if sp := splits[f.ID()]; sp != nil {
			addPoolChunks("negatives", f.Pkg.Name, sp)
		}
	}
	fromFiles := func(class string, paths []string) {
		sort.Strings(paths)
		for _, p := range paths {
			src, err := os.ReadFile(p)
			if err != nil {
				continue
			}
			if sp, err := splitFile(src); err == nil {
				addPoolChunks(class, filepath.Base(filepath.Dir(p)), sp)
			}
		}
	}
	ws := filepath.Join(scratch, "pool_ws4")
	os.RemoveAll(ws)
	c04.Workspace(ws, 1, 1)
	m, _ := filepath.Glob(filepath.Join(ws, "*", "*.go"))
	fromFiles("c04-workspace", m)
	m1, _ := filepath.Glob(filepath.Join(fw.Root(), "corpus", "stress", "*", "*.go"))
	m2, _ := filepath.Glob(filepath.Join(fw.StressDir(), "*", "*.go"))
	fromFiles("stress", append(m1, m2...))
}

type wkey struct {
	line int // original line (0: padding)
	col  int
	text string
	fix  string // replacement bytes of the suggested fix (in-process runs only): part of what a diagnostic IS
}

func realPos(f *fw.File, off int) (line, col int) {
	if off < 0 {
		return -1, -1
	}
	p := f.Pkg.Fset.PositionFor(token.Pos(f.Base+off), false)
	return p.Line, p.Column
}

func multiset(ks []wkey) map[wkey]int {
	m := map[wkey]int{}
	for _, k := range ks {
		m[k]++
	}
	return m
}

func diffSets(a, b map[wkey]int) (onlyA, onlyB []string) {
	for k, n := range a {
		if b[k] < n {
			onlyA = append(onlyA, strings.TrimSpace(fmt.Sprintf("L%d:%d %s %s", k.line, k.col, k.text, k.fix)))
		}
	}
	for k, n := range b {
		if a[k] < n {
			onlyB = append(onlyB, strings.TrimSpace(fmt.Sprintf("L%d:%d %s %s", k.line, k.col, k.text, k.fix)))
		}
	}
	sort.Strings(onlyA)
	sort.Strings(onlyB)
	return
}

func tagOf(pkg, file string) string {
	h := uint32(2166136261)
	for _, c := range pkg + "/" + file {
		h = (h ^ uint32(c)) * 16777619
	}
	return fmt.Sprintf("X%x", h%0xfffff)
}

func Run(tier string, seed int64, outDir string) *common.Meta {
	meta := &common.Meta{Property: "C13", Distribution: map[string]interface{}{}, CaseFiles: []string{}}
	infos := fw.Infos()
	byName := fw.InfoByName(infos)
	rounds := 1
	if tier == "thorough" {
		rounds = 10
	}
	t0 := time.Now()
	baseFset := token.NewFileSet()
	base, err := fw.LoadS1(baseFset)
	common.Must(err)
	s2, err := fw.LoadS2(baseFset, outDir)
	common.Must(err)
	nS1 := len(base)
	base = append(base, s2...)
	// package-level initialisers carrying the examples' own code between the functions (fw.LoadLifted)
	lifted, lerr := fw.LoadLifted(baseFset, outDir)
	if lerr != nil || len(lifted) < 20 {
		meta.TieBroken = append(meta.TieBroken, fmt.Sprintf("lifted-initialiser variants of the examples could not be derived/loaded (%d packages): %v", len(lifted), lerr))
	}
	base = append(base, lifted...)
	meta.Distribution["lifted_initialiser_packages"] = len(lifted)
	relDir := func(p *fw.Pkg) string {
		if p.Stream == "S2" {
			return filepath.Join("s2x", p.Name)
		}
		return filepath.Join("checkers", "testdata", p.Name)
	}
	meta.Distribution["load_base_s"] = time.Since(t0).Seconds()
	if nS1 < 50 {
		meta.TieBroken = append(meta.TieBroken, fmt.Sprintf("only %d example packages loaded", len(base)))
	}

	// baseline: every checker on every original file
	type fileBase struct {
		f     *fw.File
		split *split
		errs  int
		ws    [][]wkey // per checker
	}
	bases := map[string]*fileBase{}
	var baseList []*fileBase
	for _, p := range base {
		for _, f := range p.Files {
			fb := &fileBase{f: f, errs: len(p.Errors)}
			s, err := splitFile(f.Src)
			if err != nil {
				meta.Notes = append(meta.Notes, "cannot split "+f.ID()+": "+err.Error())
				continue
			}
			s.helpers = predeclaredHelpers(p, f)
			fb.split = s
			bases[f.ID()] = fb
			baseList = append(baseList, fb)
		}
	}
	{
		splits := map[string]*split{}
		var fl []*fw.File
		for _, fb := range baseList {
			splits[fb.f.ID()] = fb.split
			fl = append(fl, fb.f)
		}
		buildNegPool(fl, splits, outDir)
		meta.Distribution["negative_function_pool"] = len(negPool)
		pc := map[string]int{}
		for c, idx := range poolByClass {
			pc[c] = len(idx)
		}
		meta.Distribution["appendable_pool_by_class"] = pc
		if pc["c04-workspace"] == 0 {
			meta.TieBroken = append(meta.TieBroken, "no appendable declaration from the C04 workspace generator (generic SizeOf shapes)")
		}
		if len(negPool) < 20 {
			meta.TieBroken = append(meta.TieBroken, fmt.Sprintf("pool of appendable negative-example functions is nearly empty (%d)", len(negPool)))
		}
		padFree["dangerous-docs"], padFree["append-negatives"] = true, true
		padFree["append-predeclared-helpers"] = true // builtinShadowDecl rightly reports the appended helper itself
	}
	// CLI baseline on the original examples (for the CLI-level variant of the transforms)
	cliBase := cliDiagnostics(meta, common.RepoDir, base[:nS1], nil)
	runAll := func(pkgs []*fw.Pkg, fset *token.FileSet, sink func(f *fw.File, ci int, o fw.Outcome)) {
		results := make([]map[*fw.File][]fw.Outcome, len(pkgs))
		err := fw.ForEachPkg(fset, infos, pkgs, func(set *fw.Set, pi int) {
			results[pi] = map[*fw.File][]fw.Outcome{}
			for _, f := range pkgs[pi].Files {
				set.Enter(f, true)
				outs := make([]fw.Outcome, len(infos))
				for ci, c := range set.Checkers {
					outs[ci] = fw.SafeCheck(c, f)
				}
				results[pi][f] = outs
			}
		})
		if err != nil {
			meta.TieBroken = append(meta.TieBroken, "cannot construct checkers: "+err.Error())
		}
		for pi := range pkgs {
			for _, f := range pkgs[pi].Files {
				for ci, o := range results[pi][f] {
					sink(f, ci, o)
				}
			}
		}
	}
	keysOf := func(f *fw.File, o fw.Outcome, lineMap map[int]int) (ks []wkey, onPadding []string) {
		for _, w := range o.Ws {
			l, c := realPos(f, w.Off)
			if lineMap != nil {
				ol, ok := lineMap[l]
				if !ok {
					onPadding = append(onPadding, fmt.Sprintf("L%d:%d %s", l, c, w.Text))
					ol = 0
				}
				l = ol
			}
			fix := ""
			if w.HasFix {
				fix = fmt.Sprintf("[%d bytes replaced by] %s", w.FixLen, w.Fix)
			}
			ks = append(ks, wkey{l, c, w.Text, fix})
		}
		if o.Panic != "" {
			ks = append(ks, wkey{-1, -1, "panic: " + o.Panic, ""})
		}
		return
	}
	runAll(base, baseFset, func(f *fw.File, ci int, o fw.Outcome) {
		fb := bases[f.ID()]
		if fb == nil {
			return
		}
		if fb.ws == nil {
			fb.ws = make([][]wkey, len(infos))
		}
		fb.ws[ci], _ = keysOf(f, o, nil)
	})

	baseErrs := map[string]int{}
	for _, p := range base {
		baseErrs[p.Name] = len(p.Errors)
	}
	evals, distinct, variants, expectChecked, exemptSkipped := 0, 0, 0, 0, 0
	perTransform := map[string]int{}
	typeErrs := map[string]int{}
	lw := newLaws(infos)
	for round := 0; round < rounds; round++ {
		for ti, tr := range transforms {
			if round > 0 && (tr.name == "identity" || tr.name == "append-decls" || tr.name == "append-predeclared-helpers" || tr.name == "reverse-funcs") {
				continue
			}
			rng := common.NewRand(seed+int64(round)*7919, "c13-"+tr.name)
			// real files in a scratch copy of the module (the rule engine reads source text from disk, so overlays are not enough)
			mod := filepath.Join(outDir, "t_"+tr.name)
			os.RemoveAll(mod)
			copyModuleSkeleton(mod)
			ems := map[string]*emitted{}
			var pats []string
			seenPkg := map[string]bool{}
			for _, fb := range baseList {
				curPkgName, curIsS1 = fb.f.Pkg.Name, fb.f.Pkg.Stream == "S1"
				em := tr.fn(fb.split, tagOf(fb.f.Pkg.Name, fb.f.Name), rng)
				common.WriteFile(filepath.Join(mod, relDir(fb.f.Pkg), fb.f.Name), string(em.src))
				ems[fb.f.ID()] = em
				if !seenPkg[fb.f.Pkg.Name] {
					seenPkg[fb.f.Pkg.Name] = true
					pats = append(pats, "./"+filepath.ToSlash(relDir(fb.f.Pkg)))
				}
			}
			fset := token.NewFileSet()
			pkgs, err := fw.LoadDirs(fset, mod, "S1", pats)
			if err != nil {
				meta.TieBroken = append(meta.TieBroken, "loading transformed examples failed for "+tr.name+": "+err.Error())
				continue
			}
			// transformed packages must type-check as well as the originals
			okPkg := map[string]bool{}
			for _, p := range pkgs {
				nb := baseErrs[p.Name]
				ne := 0
				for _, e := range p.Errors {
					if strings.Contains(e, "missing function body") || strings.Contains(e, "func verifExtern") {
						continue
					}
					ne++
				}
				okPkg[p.Name] = ne <= nb
				if ne > nb {
					typeErrs[tr.name]++
					if typeErrs[tr.name] <= 3 {
						meta.Notes = append(meta.Notes, fmt.Sprintf("transform %s of package %s does not type-check (discarded): %s", tr.name, p.Name, p.Errors[len(p.Errors)-1]))
					}
				}
			}
			lawItems := map[string]*lawItem{}
			var lawOrder []*lawItem
			runAll(pkgs, fset, func(f *fw.File, ci int, o fw.Outcome) {
				fb := bases[f.ID()]
				em := ems[f.ID()]
				if fb == nil || em == nil || !okPkg[f.Pkg.Name] {
					return
				}
				if v, ok := lw.byIdx[ci]; ok {
					it := lawItems[f.ID()]
					if it == nil {
						it = &lawItem{orig: fb.f, tf: f, em: em, real: map[string]fw.Outcome{}}
						lawItems[f.ID()] = it
						lawOrder = append(lawOrder, it)
					}
					it.real[v.Name] = o
				}
				info := infos[ci]
				if ci == 0 {
					variants++
					perTransform[tr.name]++
				}
				if _, ex := Exempt[info.Name]; ex && tr.name != "identity" {
					exemptSkipped++
					return
				}
				evals++
				got, onPad := keysOf(f, o, em.lineMap)
				if padFree[tr.name] {
					var kept []wkey
					for _, k := range got {
						if k.line != 0 {
							kept = append(kept, k)
						}
					}
					got = kept
				}
				if len(got) > 0 {
					distinct++
				}
				want := fb.ws[ci]
				report := func(what string, extra map[string]interface{}) {
					key := "C13/" + info.Name + "/" + tr.name
					if tr.name == "identity" {
						// re-emitting the same text must be a no-op: this is about the harness, not the property
						meta.TieBroken = append(meta.TieBroken, "identity transform changes the diagnostics of "+info.Name+" on "+f.ID()+": "+what)
						return
					}
					if unstable, explains := fw.FreshUnstable(info, f, o, o); unstable && explains && len(onPad) == 0 {
						ga, wa := multiset(got), multiset(want)
						if a, b := diffSets(ga, wa); len(a) == 0 && len(b) == 0 {
							return
						}
					}
					w := map[string]interface{}{"checker": info.Name, "transform": tr.name, "original_file": fb.f.Path, "transformed_source": string(em.src),
						"replay": "type-check transformed_source in place of the original file of its package, run " + info.Name + ", map lines back"}
					for k, v := range extra {
						w[k] = v
					}
					meta.Fail(key, fmt.Sprintf("%s: %s after %s of %s", info.Name, what, tr.name, f.ID()), w)
				}
				if len(onPad) > 0 && !padFree[tr.name] {
					report("a warning appears on padding code", map[string]interface{}{"on_padding": onPad})
					return
				}
				ga, wa := multiset(got), multiset(want)
				if onlyT, onlyO := diffSets(ga, wa); len(onlyT) > 0 || len(onlyO) > 0 {
					report("diagnostics of the original declarations change", map[string]interface{}{"only_in_transformed(original line numbers)": onlyT, "only_in_original": onlyO})
					return
				}
				// (a) the suite's criterion for the owner of the examples, on the transformed text itself
				if info.Name == f.Pkg.Name && !padFree[tr.name] {
					expectChecked++
					lines := strings.Split(strings.TrimSuffix(string(em.src), "\n"), "\n")
					exp := expectations(lines)
					matched := map[string]int{}
					var unexpected, unmatched []string
					for _, w := range o.Ws {
						l, _ := realPos(f, w.Off)
						found := false
						for _, t := range exp[l] {
							if t == w.Text {
								found = true
							}
						}
						if found {
							matched[fmt.Sprintf("%d\x00%s", l, w.Text)]++
						} else {
							unexpected = append(unexpected, fmt.Sprintf("L%d %s", l, w.Text))
						}
					}
					for l, ts := range exp {
						for _, t := range ts {
							if matched[fmt.Sprintf("%d\x00%s", l, t)] == 0 {
								unmatched = append(unmatched, fmt.Sprintf("L%d %s", l, t))
							}
						}
					}
					// the originals' own mismatches (none today) are not this property's business
					if (len(unexpected) > 0 || len(unmatched) > 0) && expectationsHold(fb.f, fb.ws[ci]) {
						sort.Strings(unexpected)
						sort.Strings(unmatched)
						report("travelled /*! */ expectations no longer hold", map[string]interface{}{"unexpected": unexpected, "unmatched_expectations": unmatched})
					}
				}
			})
			_ = ti
			// model execution on the converted transformed files + the laws in evaluated form (model.go)
			if round == 0 {
				lw.write(meta, outDir, tr.name, lawOrder)
			} else {
				lw.write(meta, outDir, fmt.Sprintf("%s-r%d", tr.name, round), lawOrder)
			}
			if tr.name == "dangerous-docs" || (tier == "thorough" && tr.name != "identity") {
				cliLevel(meta, tr.name, mod, base[:nS1], ems, cliBase)
			}
		}
	}
	meta.Evaluations = evals
	meta.Distinct = distinct
	meta.Distribution["transformed_files"] = variants
	meta.Distribution["per_transform"] = perTransform
	meta.Distribution["owner_expectation_checks"] = expectChecked
	meta.Distribution["exempt_skipped"] = exemptSkipped
	meta.Distribution["transforms_not_typechecking"] = typeErrs
	meta.Distribution["checkers"] = len(infos)
	nPlain, nChunks := 0, 0
	for _, fb := range baseList {
		for _, c := range fb.split.chunks {
			nChunks++
			if c.plain {
				nPlain++
			}
		}
	}
	meta.Distribution["chunks"] = nChunks
	meta.Distribution["plain_function_chunks"] = nPlain
	var ex []string
	for n, why := range Exempt {
		if byName[n] == nil {
			meta.Notes = append(meta.Notes, "exempt checker not registered any more: "+n)
		}
		ex = append(ex, n+": "+why)
	}
	sort.Strings(ex)
	meta.Distribution["exempt"] = ex
	sort.Strings(meta.Notes)
	if len(baseList) > 0 {
		fb := baseList[0]
		em := transforms[3].fn(fb.split, "S", common.NewRand(seed, "sample"))
		meta.AddSample(map[string]interface{}{"file": fb.f.ID(), "transform": transforms[3].name, "transformed_head": clipStr(string(em.src), 700)})
	}
	meta.Rule = "every file of every example package x transforms {append-decls, blank-lines, dummy-decls, extern-funcs, reverse-funcs, permute-funcs} (identity = harness self-check), loaded through go/packages overlays (must type-check as well as the original); " +
		"ALL registered checkers are run on each transformed file and their warnings, mapped back through the chunk line map, must equal the original file's multiset (line, column, text) with none on padding; " +
		"for the owner checker the travelled /*! */ expectations are additionally re-evaluated with the suite's own algorithm; evaluations = (transformed file, checker) comparisons; distinct_nontrivial = those with at least one warning"
	return meta
}

// copyModuleSkeleton creates a module with the repository's module path, requirements and the importable
// helper packages of the examples.
func copyModuleSkeleton(dst string) {
	for _, n := range []string{"go.mod", "go.sum"} {
		data, err := os.ReadFile(filepath.Join(common.RepoDir, n))
		common.Must(err)
		common.WriteFile(filepath.Join(dst, n), string(data))
	}
	for _, root := range []string{filepath.Join(common.RepoDir, "checkers", "testdata", "_importable"), filepath.Join(common.RepoDir, "linter")} {
		copyTree(dst, root)
	}
}

func copyTree(dst, root string) {
	filepath.Walk(root, func(p string, fi os.FileInfo, err error) error {
		if err != nil || fi.IsDir() || strings.HasSuffix(p, "_test.go") {
			return nil
		}
		rel, _ := filepath.Rel(common.RepoDir, p)
		data, err := os.ReadFile(p)
		if err == nil {
			common.WriteFile(filepath.Join(dst, rel), string(data))
		}
		return nil
	})
}

func clipStr(s string, n int) string {
	if len(s) > n {
		return s[:n] + "..."
	}
	return s
}

// expectationsHold: does the ORIGINAL file satisfy its own expectations for this checker (lines only)?
func expectationsHold(f *fw.File, ws []wkey) bool {
	lines := strings.Split(strings.TrimSuffix(string(f.Src), "\n"), "\n")
	exp := expectations(lines)
	matched := map[string]int{}
	for _, w := range ws {
		found := false
		for _, t := range exp[w.line] {
			if t == w.text {
				found = true
			}
		}
		if !found {
			return false
		}
		matched[fmt.Sprintf("%d\x00%s", w.line, w.text)]++
	}
	for l, ts := range exp {
		for _, t := range ts {
			if matched[fmt.Sprintf("%d\x00%s", l, t)] == 0 {
				return false
			}
		}
	}
	return true
}

var _ = linter.GetCheckersInfo

// predeclaredHelpers: see split.helpers.
func predeclaredHelpers(p *fw.Pkg, f *fw.File) []string {
	if p.Info == nil || p.Types == nil || len(p.Errors) > 0 {
		return nil
	}
	cands := map[string]bool{"max": true, "min": true, "len": true, "cap": true, "new": true, "copy": true, "clear": true, "real": true, "imag": true}
	for id, obj := range p.Info.Uses {
		if cands[id.Name] && obj != nil && obj.Pkg() == nil {
			delete(cands, id.Name) // the predeclared object is used somewhere in the package
		}
	}
	local := map[string]bool{}
	for id, obj := range p.Info.Defs {
		if !cands[id.Name] || obj == nil || p.Types.Scope().Lookup(id.Name) != nil {
			continue
		}
		if tf := p.Fset.File(id.Pos()); tf == nil || filepath.Base(tf.Name()) != filepath.Base(f.Path) {
			continue
		}
		switch o := obj.(type) {
		case *types.Var:
			if o.IsField() {
				continue
			}
		case *types.Const, *types.TypeName:
		default:
			continue
		}
		if obj.Parent() == nil || obj.Parent() == p.Types.Scope() {
			continue
		}
		local[id.Name] = true
	}
	var out []string
	for n := range local {
		out = append(out, n)
	}
	sort.Strings(out)
	return out
}
