// Package c04: results do not depend on scheduling; concurrent use is race-free.
package c04

import (
	"fmt"
	"os"
	"path/filepath"
	"regexp"
	"runtime"
	"sort"
	"strings"
	"time"

	"github.com/go-critic/go-critic/linter"

	"verifharness/internal/common"
	"verifharness/internal/coqfmt"
	"verifharness/internal/load"
	"verifharness/internal/userrules"
)

// Workspace writes the multi-package workspace (regexps, sort.Slice, generics, size-based constructs) under base;
// exported for C02's process-repetition stream.
func Workspace(base string, nPkgs, nFiles int) { workspace(base, nPkgs, nFiles) }

func workspace(base string, nPkgs, nFiles int) {
	common.WriteFile(filepath.Join(base, "go.mod"), "module ws4\n\ngo 1.20\n")
	for p := 0; p < nPkgs; p++ {
		pkg := fmt.Sprintf("p%d", p)
		for f := 0; f < nFiles; f++ {
			var b strings.Builder
			fmt.Fprintf(&b, "package %s\n\nimport (\n\t\"regexp\"\n\t\"sort\"\n\t\"strings\"\n)\n\n//bad comment %d\nfunc F%d(IN int, xs []int, s string) (int, bool) {\n", pkg, f, f)
			b.WriteString("\tif len(xs) >= 0 {\n\t\tIN = IN + 1\n\t}\n")
			b.WriteString("\tif len(s) == 0 {\n\t\treturn 0, false\n\t} else {\n\t\tif IN > 2 {\n\t\t\treturn 1, !(IN != 3)\n\t\t}\n\t}\n")
			b.WriteString("\tys := xs[:]\n\t_ = ys\n\treturn IN, strings.Index(s, \"x\") >= 0\n}\n\n")
			fmt.Fprintf(&b, "type T%d struct{ a [200]byte }\n\nfunc (t T%d) M%d(u T%d) {\n\tswitch x := interface{}(t).(type) {\n\tcase T%d:\n\t\t_ = x\n\t}\n}\n", f, f, f, f, f)
			// generic code: types whose size cannot be computed (SizeOf's recover path), for every size-based checker
			for g := 0; g < 6; g++ {
				fmt.Fprintf(&b, "\nfunc G%d_%d[T any, U comparable](p struct{ v T; w [4]U }, xs []struct{ v T }, arr [3]struct{ u U }) {\n\tfor _, x := range xs {\n\t\t_ = x\n\t}\n\tfor _, y := range arr {\n\t\t_ = y\n\t}\n\t_ = p\n}\n", f, g)
			}
			// constant regular expressions (a parser is shared by nothing but one checker instance), sort.Slice, append chains
			fmt.Fprintf(&b, "\nvar (\n")
			for g := 0; g < 8; g++ {
				fmt.Fprintf(&b, "\tre%d_%d = regexp.MustCompile(`^[a%c-%c%c]x{1}(?:ab|ac)[0-9]\\d+[%c%c]$`)\n", f, g, 'a'+rune((p+f+g)%20), 'b'+rune((p+f+g)%20), 'a'+rune((p+f+g)%20), 'a'+rune(g), 'a'+rune(g))
			}
			fmt.Fprintf(&b, ")\n\nfunc S%d(xs []int, ys []string) []string {\n\tsort.Slice(xs, func(i, j int) bool { return xs[i] < xs[i] })\n\tys = append(ys, \"a\")\n\tys = append(ys, \"b\")\n\treturn ys\n}\n", f)
			common.WriteFile(filepath.Join(base, pkg, fmt.Sprintf("f%d.go", f)), b.String())
		}
	}
}

func lines(out string) []string {
	var ls []string
	for _, l := range strings.Split(strings.TrimRight(out, "\n"), "\n") {
		if l != "" {
			ls = append(ls, l)
		}
	}
	return ls
}

func Run(tier string, seed int64, outDir string) *common.Meta {
	load.InitRules()
	meta := &common.Meta{Property: "C04", Distribution: map[string]interface{}{}}
	base := filepath.Join(outDir, "ws4")
	os.RemoveAll(base)
	defer os.RemoveAll(base)
	nPkgs, nFiles := 4, 6
	if tier == "thorough" {
		nPkgs, nFiles = 10, 25
	}
	workspace(base, nPkgs, nFiles)
	bin := common.BinDir()
	env := common.GoEnv()
	runs := 0
	distinct := map[string]bool{}

	// 1. -concurrency sweep: byte-identical stderr and exit status
	concs := []int{1, 2, 3, runtime.GOMAXPROCS(0), 64}
	ref := map[string]string{}
	for _, exe := range []string{"go-critic", "gocritic"} {
		for _, c := range concs {
			args := []string{"check", "-enableAll", fmt.Sprintf("-concurrency=%d", c), "./..."}
			_, stderr, code, err := common.RunSplit(300*time.Second, base, env, filepath.Join(bin, exe), args...)
			runs++
			if err != nil {
				meta.Fail("C04/"+exe+"/hang", fmt.Sprintf("-concurrency=%d: %v", c, err), args)
				continue
			}
			key := fmt.Sprintf("%d\n%s", code, stderr)
			if c == 1 {
				ref[exe] = key
				distinct[fmt.Sprint(exe, len(lines(stderr)))] = true
				if len(lines(stderr)) < 20 {
					meta.TieBroken = append(meta.TieBroken, "workspace produced too few diagnostics to be meaningful")
				}
				continue
			}
			if key != ref[exe] {
				meta.Fail("C04/"+exe+"/output-depends-on-concurrency", fmt.Sprintf("%s: output with -concurrency=%d differs from -concurrency=1: %s", exe, c, firstDiff(ref[exe], key)), map[string]interface{}{"args": args, "first_difference": firstDiff(ref[exe], key)})
			}
		}
	}
	// 1b. flags that add bookkeeping around the workers (-v) must not make the result schedule dependent
	diagOnly := func(stderr string) string {
		var out []string
		for _, l := range strings.Split(stderr, "\n") {
			if regexp.MustCompile(`^\S+\.go:\d+:\d+: \w+: `).MatchString(l) || strings.HasPrefix(l, "fatal error") || strings.HasPrefix(l, "panic:") {
				out = append(out, l)
			}
		}
		return strings.Join(out, "\n")
	}
	for _, exe := range []string{"go-critic", "gocritic"} {
		var vref string
		for _, c := range []int{1, 4, 16} {
			args := []string{"check", "-enableAll", "-v", fmt.Sprintf("-concurrency=%d", c), "./..."}
			_, stderr, code, err := common.RunSplit(300*time.Second, base, env, filepath.Join(bin, exe), args...)
			runs++
			if err != nil {
				meta.Fail("C04/"+exe+"/hang", fmt.Sprintf("-v -concurrency=%d: %v", c, err), args)
				continue
			}
			key := fmt.Sprintf("%d\n%s", code, diagOnly(stderr))
			if c == 1 {
				vref = key
				continue
			}
			if key != vref {
				meta.Fail("C04/"+exe+"/output-depends-on-concurrency", fmt.Sprintf("%s -v: diagnostics with -concurrency=%d differ from -concurrency=1: %s", exe, c, firstDiff(vref, key)), map[string]interface{}{"args": args, "first_difference": firstDiff(vref, key)})
			}
		}
	}
	if ref["go-critic"] != ref["gocritic"] {
		meta.Fail("C04/twin/differs", "the two mains print different output for -concurrency=1", nil)
	}

	stageT := map[string]float64{}
	t0 := time.Now()
	mark := func(name string) { stageT[name] = time.Since(t0).Seconds(); t0 = time.Now() }
	mark("1-concurrency-sweep")
	// 2. race detector: CLI under varying GOMAXPROCS, analyzer driver parallel vs sequential
	raceRuns := []struct {
		exe  string
		args []string
		env  []string
	}{
		{"go-critic-race", []string{"check", "-enableAll", "./..."}, []string{"GOMAXPROCS=16"}},
		{"go-critic-race", []string{"check", "-enableAll", "-concurrency=4", "./..."}, []string{"GOMAXPROCS=2"}},
		{"go-critic-race", []string{"check", "-enableAll", "-concurrency=64", "./..."}, []string{"GOMAXPROCS=8"}},
		{"go-critic-analysis-race", []string{"-enable-all", "-disable=", "./..."}, []string{"GOMAXPROCS=16"}},
		{"go-critic-analysis-race", []string{"-enable-all", "-disable=", "-debug=p", "./..."}, []string{"GOMAXPROCS=4"}},
	}
	// 2b. every checker's own examples (all warn paths the maintainers wrote down), each directory a package of a
	// second module, under the race detector and across -concurrency values
	{
		td := filepath.Join(outDir, "ws4td")
		os.RemoveAll(td)
		defer os.RemoveAll(td)
		common.WriteFile(filepath.Join(td, "go.mod"), "module ws4td\n\ngo 1.21\n")
		ents, _ := os.ReadDir(filepath.Join(common.RepoDir, "checkers", "testdata"))
		nd := 0
		for _, e := range ents {
			if !e.IsDir() || strings.HasPrefix(e.Name(), "_") {
				continue
			}
			fs, _ := filepath.Glob(filepath.Join(common.RepoDir, "checkers", "testdata", e.Name(), "*.go"))
			for _, f := range fs {
				data, err := os.ReadFile(f)
				if err == nil {
					// (a package clause ending in _test in ordinary files makes the CLI's loader panic: C19's subject)
					src := regexp.MustCompile(`(?m)^package (\w+)_test$`).ReplaceAllString(string(data), "package ${1}_td")
					common.WriteFile(filepath.Join(td, e.Name(), filepath.Base(f)), src)
				}
			}
			nd++
		}
		meta.Distribution["example_directories_under_race_detector"] = nd
		var seq string
		tdConcs := []int{1, 7}
		if tier == "quick" {
			tdConcs = []int{1}
		}
		for _, c := range tdConcs {
			args := []string{"check", "-enableAll", fmt.Sprintf("-concurrency=%d", c), "./..."}
			_, stderr, code, err := common.RunSplit(600*time.Second, td, env, filepath.Join(bin, "go-critic"), args...)
			runs++
			if err != nil {
				meta.Fail("C04/go-critic/hang", err.Error(), args)
				continue
			}
			key := fmt.Sprintf("%d\n%s", code, stderr)
			if c == 1 {
				seq = key
			} else if key != seq {
				meta.Fail("C04/go-critic/output-depends-on-concurrency", fmt.Sprintf("checkers' own examples: output with -concurrency=%d differs from -concurrency=1: %s", c, firstDiff(seq, key)), map[string]interface{}{"args": args, "workspace": "copies of checkers/testdata/*"})
			}
		}
		tdRuns := []struct {
			exe  string
			args []string
		}{
			{"go-critic-race", []string{"check", "-enableAll", "-concurrency=8", "./..."}},
			{"go-critic-analysis-race", []string{"-enable-all", "-disable=", "./..."}},
		}
		if tier == "quick" {
			tdRuns = tdRuns[:1] // the analysis driver over these packages: thorough tier
		}
		for _, r := range tdRuns {
			_, stderr, code, err := common.RunSplit(900*time.Second, td, append(append([]string(nil), env...), "GOMAXPROCS=8"), filepath.Join(bin, r.exe), r.args...)
			runs++
			if err != nil {
				meta.Fail("C04/"+r.exe+"/hang", err.Error(), r.args)
				continue
			}
			if strings.Contains(stderr, "WARNING: DATA RACE") {
				meta.Fail("C04/"+r.exe+"/data-race", fmt.Sprintf("%s %v over the checkers' own examples reports a data race: %s", r.exe, r.args, raceExcerpt(stderr)), map[string]interface{}{"args": r.args, "workspace": "copies of checkers/testdata/*", "report": raceExcerpt(stderr)})
				continue
			}
			if r.exe == "go-critic-race" {
				if key := fmt.Sprintf("%d\n%s", code, stderr); key != seq {
					meta.Fail("C04/go-critic/output-depends-on-schedule", "checkers' own examples: race-enabled run prints different output than -concurrency=1: "+firstDiff(seq, key), r.args)
				}
			}
		}
	}
	mark("2b-examples-under-race-detector")
	// 2c. concurrent passes sharing the user rule files: the dynamic ruleguard checker (rules loaded by every pass's
	// constructor) through the parallel driver, repeatedly from a cold process, against the sequential driver and the CLI
	{
		uw := filepath.Join(outDir, "ws4ur")
		os.RemoveAll(uw)
		defer os.RemoveAll(uw)
		rdir := userrules.Workspace(uw)
		// more packages than the shared workspace has, so that a first wave of passes really overlaps
		for i := 0; i < 12; i++ {
			p := fmt.Sprintf("extra%02d", i)
			common.WriteFile(filepath.Join(uw, p, "a.go"), "package "+p+"\n\nfunc F(IN int, s string, xs []int) int {\n\tif len(s) == 0 {\n\t\tprintln(\"empty\")\n\t}\n\tif cap(xs) == 0 {\n\t\tIN = IN\n\t}\n\treturn IN\n}\n")
		}
		rl := "-@ruleguard.rules=" + filepath.Join(rdir, "good.go") + "," + filepath.Join(rdir, "second.go")
		run := func(exe string, xenv []string, args ...string) ([]string, bool) {
			_, stderr, _, err := common.RunSplit(600*time.Second, uw, append(append([]string(nil), env...), xenv...), filepath.Join(bin, exe), args...)
			runs++
			if err != nil {
				meta.Fail("C04/"+exe+"/hang", err.Error(), args)
				return nil, false
			}
			if strings.Contains(stderr, "WARNING: DATA RACE") {
				meta.Fail("C04/"+exe+"/data-race", fmt.Sprintf("%s %v with user rule files reports a data race: %s", exe, args, raceExcerpt(stderr)), map[string]interface{}{"args": args, "report": raceExcerpt(stderr)})
				return nil, false
			}
			ls := lines(stderr)
			sort.Strings(ls)
			return ls, true
		}
		seqAn, ok := run("go-critic-analysis-race", []string{"GOMAXPROCS=2"}, "-enable=ruleguard", "-disable=", rl, "-debug=p", "./...")
		reps := 3
		if tier == "thorough" {
			reps = 10
		}
		for i := 0; ok && i < reps; i++ {
			par, ok2 := run("go-critic-analysis-race", []string{"GOMAXPROCS=16"}, "-enable=ruleguard", "-disable=", rl, "./...")
			if ok2 && strings.Join(par, "\n") != strings.Join(seqAn, "\n") {
				meta.Fail("C04/analyzer/user-rules-parallel-differs-from-sequential", fmt.Sprintf("go/analysis driver with user rule files: parallel run %d reports %d lines, the sequential driver (-debug=p) %d: %s", i+1, len(par), len(seqAn), firstDiff(strings.Join(seqAn, "\n"), strings.Join(par, "\n"))), map[string]interface{}{"args": []string{"-enable=ruleguard", "-disable=", rl, "./..."}, "workspace": "userrules workspace + 12 packages"})
				break
			}
		}
		c1, okc := run("go-critic-race", []string{"GOMAXPROCS=16"}, "check", "-enable=ruleguard", rl, "-concurrency=1", "./...")
		if okc {
			if c8, ok8 := run("go-critic-race", []string{"GOMAXPROCS=16"}, "check", "-enable=ruleguard", rl, "-concurrency=8", "./..."); ok8 && strings.Join(c1, "\n") != strings.Join(c8, "\n") {
				meta.Fail("C04/go-critic/output-depends-on-concurrency", "user rule files: -concurrency=8 differs from -concurrency=1: "+firstDiff(strings.Join(c1, "\n"), strings.Join(c8, "\n")), nil)
			}
		}
		meta.Distribution["user_rule_lines_sequential_driver"] = len(seqAn)
	}
	// 2d. concurrent passes over packages of TWO modules with different go directives (no -go flag): whatever the passes
	// share must not let the first scheduled package decide for the others; the version-gated checkers make it visible
	{
		mw := filepath.Join(outDir, "ws4mv")
		os.RemoveAll(mw)
		defer os.RemoveAll(mw)
		common.WriteFile(filepath.Join(mw, "go.mod"), "module mva\n\ngo 1.21\n\nrequire mvb v0.0.0\n\nreplace mvb => ./mvb\n")
		common.WriteFile(filepath.Join(mw, "mvb", "go.mod"), "module mvb\n\ngo 1.12\n")
		body := func(pkg string) string {
			return "package " + pkg + "\n\nimport (\n\t\"strings\"\n\t\"sync\"\n\t\"time\"\n)\n\nconst Mode = 0755\n\nfunc Has(s, sub string) bool { return strings.Index(s, sub) >= 0 }\n\nfunc Millis(t time.Time) int64 { return t.Unix() / 1000 }\n\nfunc Take(m *sync.Map, k string) (interface{}, bool) {\n\tv, ok := m.Load(k)\n\tif ok {\n\t\tm.Delete(k)\n\t}\n\treturn v, ok\n}\n"
		}
		for i := 0; i < 10; i++ {
			pa, pb := fmt.Sprintf("a%02d", i), fmt.Sprintf("b%02d", i)
			common.WriteFile(filepath.Join(mw, pa, "x.go"), body(pa))
			common.WriteFile(filepath.Join(mw, "mvb", pb, "x.go"), body(pb))
		}
		common.WriteFile(filepath.Join(mw, "use", "use.go"), "package use\n\nimport _ \"mvb/b00\"\n")
		run := func(xenv []string, args ...string) ([]string, bool) {
			_, stderr, _, err := common.RunSplit(600*time.Second, mw, append(append([]string(nil), env...), xenv...), filepath.Join(bin, "go-critic-analysis-race"), args...)
			runs++
			if err != nil {
				meta.Fail("C04/go-critic-analysis-race/hang", err.Error(), args)
				return nil, false
			}
			if strings.Contains(stderr, "WARNING: DATA RACE") {
				meta.Fail("C04/go-critic-analysis-race/data-race", fmt.Sprintf("two-module workspace %v reports a data race: %s", args, raceExcerpt(stderr)), map[string]interface{}{"args": args, "report": raceExcerpt(stderr)})
				return nil, false
			}
			ls := lines(stderr)
			sort.Strings(ls)
			return ls, true
		}
		sel := []string{"-enable=octalLiteral,wrapperFunc,timeExprSimplify,syncMapLoadAndDelete", "-disable="}
		o1 := append(append([]string(nil), sel...), "./...", "mvb/...")
		o2 := append(append([]string(nil), sel...), "mvb/...", "./...")
		seq1, ok1 := run([]string{"GOMAXPROCS=2"}, append([]string{"-debug=p"}, o1...)...)
		seq2, ok2 := run([]string{"GOMAXPROCS=2"}, append([]string{"-debug=p"}, o2...)...)
		if ok1 && ok2 && strings.Join(seq1, "\n") != strings.Join(seq2, "\n") {
			meta.Fail("C04/analyzer/two-modules-order-of-packages-decides", fmt.Sprintf("sequential driver over two modules with different go directives: %d lines for `./... mvb/...`, %d for `mvb/... ./...`: %s", len(seq1), len(seq2), firstDiff(strings.Join(seq1, "\n"), strings.Join(seq2, "\n"))), map[string]interface{}{"args": o1})
		}
		reps := 3
		if tier == "thorough" {
			reps = 10
		}
		for i := 0; ok1 && i < reps; i++ {
			order := o1
			if i%2 == 1 {
				order = o2
			}
			par, okp := run([]string{"GOMAXPROCS=16"}, order...)
			if okp && strings.Join(par, "\n") != strings.Join(seq1, "\n") {
				meta.Fail("C04/analyzer/two-modules-parallel-differs-from-sequential", fmt.Sprintf("parallel driver over two modules with different go directives (run %d): %d lines, sequential driver %d: %s", i+1, len(par), len(seq1), firstDiff(strings.Join(seq1, "\n"), strings.Join(par, "\n"))), map[string]interface{}{"args": order})
				break
			}
		}
		meta.Distribution["two_module_lines_sequential_driver"] = len(seq1)
	}
	mark("2c-user-rules")
	anOut := map[int][]string{}
	for i, r := range raceRuns {
		_, stderr, code, err := common.RunSplit(600*time.Second, base, append(append([]string(nil), env...), r.env...), filepath.Join(bin, r.exe), r.args...)
		runs++
		if err != nil {
			meta.Fail("C04/"+r.exe+"/hang", err.Error(), r.args)
			continue
		}
		if strings.Contains(stderr, "WARNING: DATA RACE") {
			meta.Fail("C04/"+r.exe+"/data-race", fmt.Sprintf("%s %v (%v) reports a data race: %s", r.exe, r.args, r.env, raceExcerpt(stderr)), map[string]interface{}{"args": r.args, "env": r.env, "report": raceExcerpt(stderr)})
			continue
		}
		if r.exe == "go-critic-race" {
			if key := fmt.Sprintf("%d\n%s", code, stderr); key != ref["go-critic"] {
				meta.Fail("C04/go-critic/output-depends-on-schedule", "race-enabled run prints different output than -concurrency=1: "+firstDiff(ref["go-critic"], key), r.args)
			}
		} else {
			ls := lines(stderr)
			sort.Strings(ls)
			anOut[i] = ls
		}
	}
	if a, b := anOut[3], anOut[4]; a != nil && b != nil && strings.Join(a, "\n") != strings.Join(b, "\n") {
		meta.Fail("C04/analyzer/parallel-differs-from-sequential", fmt.Sprintf("go/analysis driver: parallel run reports %d lines, sequential (-debug=p) %d lines", len(a), len(b)), nil)
	}
	// the analyzer reports the same set as the CLI (sorted, location-normalised)
	if a := anOut[3]; a != nil {
		_, stderr, _, _ := common.RunSplit(300*time.Second, base, env, filepath.Join(bin, "go-critic"), "check", "-enableAll", "-shorterErrLocation=false", "./...")
		c := lines(stderr)
		sort.Strings(c)
		if strings.Join(a, "\n") != strings.Join(c, "\n") {
			meta.Fail("C04/analyzer/parallel-differs-from-cli", fmt.Sprintf("parallel go/analysis run reports %d lines, sequential CLI %d", len(a), len(c)), nil)
		}
	}

	mark("2-race-runs")
	meta.Distribution["stage_seconds"] = stageT
	// 3. model cases: per file, the printed lines (any concurrency) = checker-order concatenation of
	//    the sequential in-process results
	fset, pkgs, err := load.Packages(base, env, "./...")
	if err != nil {
		meta.TieBroken = append(meta.TieBroken, "load: "+err.Error())
		return meta
	}
	ctx := load.NewContext(fset)
	cs, err := load.Checkers(ctx, nil)
	common.Must(err)
	perFile := map[string][][]string{} // file -> per checker (registry order) lines
	var fileOrder []string
	for _, pkg := range pkgs {
		load.CheckPackage(ctx, cs, pkg, func(full string, c *linter.Checker, ws []linter.Warning) {
			if _, ok := perFile[full]; !ok {
				fileOrder = append(fileOrder, full)
			}
			var ls []string
			for _, w := range ws {
				ls = append(ls, fmt.Sprintf("%s: %s: %s", fset.Position(w.Pos).String(), c.Info.Name, w.Text))
			}
			perFile[full] = append(perFile[full], ls)
		})
	}
	var caseLines, idx []string
	for _, c := range []int{1, 3, 64} {
		_, stderr, _, err := common.RunSplit(300*time.Second, base, env, filepath.Join(bin, "go-critic"), "check", "-enableAll", "-shorterErrLocation=false", fmt.Sprintf("-concurrency=%d", c), "./...")
		runs++
		if err != nil {
			continue
		}
		byFile := map[string][]string{}
		for _, l := range lines(stderr) {
			if i := strings.Index(l, ".go:"); i >= 0 {
				byFile[l[:i+3]] = append(byFile[l[:i+3]], l)
			}
		}
		for fi, f := range fileOrder {
			if tier == "quick" && fi%3 != 0 {
				continue
			}
			var runTerm []string
			for _, ls := range perFile[f] {
				runTerm = append(runTerm, coqfmt.StrList(ls))
			}
			caseLines = append(caseLines, fmt.Sprintf("  (%s, %s)", coqfmt.List(runTerm), coqfmt.StrList(byFile[f])))
			idx = append(idx, fmt.Sprintf("-concurrency=%d file=%s", c, f))
			distinct[fmt.Sprint("file-lines", len(byFile[f]))] = true
		}
	}
	for s := 0; s < 4; s++ {
		var ls, is []string
		for i := s; i < len(caseLines); i += 4 {
			ls = append(ls, caseLines[i])
			is = append(is, idx[i])
		}
		fn := fmt.Sprintf("cases_c04_%d", s)
		common.WriteFile(filepath.Join(outDir, fn+".v"), `From GC Require Import Base Model_Sched.
Definition case_ok (k : list (list string) * list string) : bool :=
  let run := fun i => nth i (fst k) [] in
  list_eqb String.eqb (sequential run (List.length (fst k))) (snd k).
Definition cases : list (list (list string) * list string) := [
`+strings.Join(ls, ";\n")+"\n].\nDefinition M := Eval vm_compute in mismatches case_ok cases.\nPrint M.\n")
		common.WriteFile(filepath.Join(outDir, fn+".index.txt"), strings.Join(is, "\n")+"\n")
		meta.CaseFiles = append(meta.CaseFiles, fn+".v")
	}
	meta.Distribution["binary_runs"] = runs
	meta.Distribution["files"] = len(fileOrder)
	meta.Distribution["checkers"] = len(cs)
	meta.Evaluations = runs + len(caseLines)
	meta.Distinct = len(distinct)
	meta.AddSample(map[string]interface{}{"concurrency_values": concs, "packages": nPkgs, "files_per_package": nFiles, "reference_lines": len(lines(strings.SplitN(ref["go-critic"], "\n", 2)[1]))})
	meta.Rule = "a generated workspace (several packages of many small files, each triggering a dozen checkers incl. rewriting ones) analysed by both CLI mains with -concurrency in {1,2,3,GOMAXPROCS,64}: stderr and exit status must be byte-identical to -concurrency=1; race-detector builds of the CLI (GOMAXPROCS 2/8/16) and of the go/analysis driver (parallel and -debug=p sequential) must report no DATA RACE and the same diagnostics; per file, the printed lines are compared in Coq with the checker-order concatenation of in-process sequential results. distinct_nontrivial = distinct line counts observed"
	return meta
}

func firstDiff(a, b string) string {
	la, lb := strings.Split(a, "\n"), strings.Split(b, "\n")
	for i := 0; i < len(la) && i < len(lb); i++ {
		if la[i] != lb[i] {
			return fmt.Sprintf("line %d: %q vs %q", i, la[i], lb[i])
		}
	}
	return fmt.Sprintf("%d vs %d lines", len(la), len(lb))
}

func raceExcerpt(s string) string {
	i := strings.Index(s, "WARNING: DATA RACE")
	e := s[i:]
	if len(e) > 1500 {
		e = e[:1500]
	}
	return e
}
