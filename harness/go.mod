module verifharness

go 1.23.0

require (
	github.com/go-critic/go-critic v0.0.0
	github.com/go-toolsmith/astequal v1.2.0
	github.com/go-toolsmith/pkgload v1.2.2
	github.com/go-toolsmith/strparse v1.1.0
	github.com/go-toolsmith/typep v1.1.0
	github.com/quasilyte/go-ruleguard v0.4.4
	github.com/quasilyte/regex/syntax v0.0.0-20210819130434-b3f0c404a727
	golang.org/x/tools v0.32.0
)

require (
	github.com/go-toolsmith/astcast v1.1.0 // indirect
	github.com/go-toolsmith/astcopy v1.1.0 // indirect
	github.com/go-toolsmith/astfmt v1.1.0 // indirect
	github.com/go-toolsmith/astp v1.1.0 // indirect
	github.com/google/go-cmp v0.7.0 // indirect
	github.com/quasilyte/go-ruleguard/dsl v0.3.22 // indirect
	github.com/quasilyte/gogrep v0.5.0 // indirect
	github.com/quasilyte/stdinfo v0.0.0-20220114132959-f7386bf02567 // indirect
	golang.org/x/exp/typeparams v0.0.0-20240213143201-ec583247a57a // indirect
	golang.org/x/mod v0.24.0 // indirect
	golang.org/x/sync v0.13.0 // indirect
)

replace github.com/go-critic/go-critic => /repo
