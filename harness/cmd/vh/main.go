// vh is the verification harness: one sub-command per property plus translators.
package main

import (
	"flag"
	"fmt"
	"os"

	"verifharness/internal/c01"
	"verifharness/internal/c02"
	"verifharness/internal/c03"
	"verifharness/internal/c04"
	"verifharness/internal/c05"
	"verifharness/internal/c06"
	"verifharness/internal/c07"
	"verifharness/internal/c08"
	"verifharness/internal/c09"
	"verifharness/internal/c10"
	"verifharness/internal/c11"
	"verifharness/internal/c12"
	"verifharness/internal/c13"
	"verifharness/internal/c14"
	"verifharness/internal/c15"
	"verifharness/internal/c16"
	"verifharness/internal/c17"
	"verifharness/internal/c18"
	"verifharness/internal/c19"
	"verifharness/internal/c20"
	"verifharness/internal/common"
	"verifharness/internal/corpus"
	"verifharness/internal/flagtable"
	"verifharness/internal/inventory"
	"verifharness/internal/synth"
)

type sub func(tier string, seed int64, outDir string) *common.Meta

var subs = map[string]sub{
	"crashrun": corpus.ChildRun, // isolated child process of the C01/C07/C20 oracle run
	"c04":      c04.Run,
	"c01":      c01.Run,
	"c06":      c06.Run,
	"c07":      c07.Run,
	"c20":      c20.Run,
	"c02":      c02.Run,
	"c03":      c03.Run,
	"c05":      c05.Run,
	"c13":      c13.Run,
	"c10":      c10.Run,
	"c12":      c12.Run,
	"c08":      c08.Run,
	"c09":      c09.Run,
	"c14":      c14.Run,
	"c15":      c15.Run,
	"c16":      c16.Run,
	"c17":      c17.Run,
	"c18":      c18.Run,
	"c19":      c19.Run,
	"c11":      c11.Run,
}

var gens = map[string]func(outDir string) error{
	"registry":  c06.GenRegistry,
	"ruletable": c15.GenRuleTable,
	"ir":        c17.GenIR,
	"suggest":   c09.GenSuggestTable,
	"prectable": c09.GenPrecTable,
	"stateinv":  inventory.GenStateInventory,
	"maprange":  inventory.GenMapRangeSites,
	"mutsites":  inventory.GenMutationSites,
	"flagtable": flagtable.Gen,
}

func main() {
	if len(os.Args) >= 2 && os.Args[1] == "synth-corpus" {
		synth.BuildCorpus()
		return
	}
	if len(os.Args) < 2 {
		fmt.Fprintln(os.Stderr, "usage: vh <prop|gen> ...")
		os.Exit(2)
	}
	cmd := os.Args[1]
	fs := flag.NewFlagSet(cmd, flag.ExitOnError)
	tier := fs.String("tier", "quick", "quick|thorough")
	seed := fs.Int64("seed", 1, "seed")
	out := fs.String("out", "", "output directory")
	fs.Parse(os.Args[2:])
	if *out == "" {
		fmt.Fprintln(os.Stderr, "-out required")
		os.Exit(2)
	}
	common.Must(os.MkdirAll(*out, 0o755))
	if cmd == "gen" {
		for _, name := range fs.Args() {
			g, ok := gens[name]
			if !ok {
				fmt.Fprintln(os.Stderr, "unknown generator", name)
				os.Exit(2)
			}
			if err := g(*out); err != nil {
				fmt.Fprintln(os.Stderr, "gen", name, ":", err)
				os.Exit(1)
			}
		}
		return
	}
	s, ok := subs[cmd]
	if !ok {
		fmt.Fprintln(os.Stderr, "unknown sub-command", cmd)
		os.Exit(2)
	}
	meta := s(*tier, *seed, *out)
	meta.Write(*out)
}
