"""Per-property check definitions."""
import json
import sys

import vlib


def c06(tier):
    vlib.standard(
        "C06", tier, "c06", ["Properties_C06.v", "Proofs_Select.v"],
        assume=[
            "registration guarantees ^\\w+$ names and tags (valid_checker); the regenerated registry is checked against it by theorem C06_registry_ok",
            "strings.TrimSpace is modelled for ASCII white space only; the generators use ASCII padding",
            "package flag's own parsing of -enable/-disable is exercised end-to-end but not modelled",
        ],
        trusted=["translator vh gen registry (linter.GetCheckersInfo -> gen/Registry.v, docs/overview.md rows -> docs_overview_marks)",
                 "verif-tag bridge tests in cmd/go-critic and cmd/gocritic, analyzer.VerifFilter hook"])


def c11(tier):
    vlib.standard(
        "C11", tier, "c11", ["Properties_C11.v", "Proofs_Regex.v", "Proofs_RegexRules.v", "Proofs_RegexSimplify.v"],
        timeout=3000,
        assume=[
            "Go's regexp engine is modelled (Model_Regex.m / den), not verified: the matcher is compared with regexp.FindStringSubmatchIndex on sampled (pattern, subject) pairs on every run",
            "the third-party parser quasilyte/regex/syntax is an input of the model (its tree is dumped for every pattern and for the model's pass-1 text)",
            "whether Go's regexp parses a rewritten TEXT to the tree the simplifier meant is not a theorem; the places where it does not are found by the oracle (re-lexing classes among the known findings)",
            "subjects are valid UTF-8; case folding is modelled for ASCII, U+212A and U+017F only; \\p{..} classes and an operator directly after a flag group are outside the model",
        ],
        trusted=["Go harness internal/c11 (generators, tree dump, classification of oracle witnesses)",
                 "coqc is also run by the harness itself to obtain the model's pass-1 text, whose parse tree the real parser then supplies"])


def c16(tier):
    vlib.standard(
        "C16", tier, "c16", ["Properties_C16.v", "Proofs_Cli.v"],
        assume=[
            "locations are absolute (begin with '/'): token.Position.String of files loaded by go/packages",
            "CommentGroup.Text() of go/ast is an input of the model (computed by the harness), not modelled",
            "os.Getwd failure and Windows path separators are not covered",
        ],
        trusted=["verif-tag bridge tests (ops shorten, slash, isgen)", "go/packages loader order is abstracted: e2e lines are compared as sorted lists"])


def c15(tier):
    vlib.standard(
        "C15", tier, "c15", ["Properties_C15.v", "Proofs_Version.v"],
        assume=[
            "recommended APIs are the pkg.Func / $var.Method tokens of a rule's Suggest/Report template outside the quoted match ($$); prose-only recommendations are not recognised",
            "a method's first version is the minimum over all std types with a method of that name (GOROOT/api)",
            "the property's range starts at Go 1.13: APIs that old need no gate",
        ],
        trusted=["translator vh gen ruletable (rulesdata.PrecompiledRules filters/templates, hand-written GreaterOrEqual gates, GOROOT/api/go1*.txt)",
                 "ruleguard engine's evaluation of GoVersion filters is tied behaviourally (fires/does not fire per version), not modelled"])


def c19(tier):
    vlib.standard(
        "C19", tier, "c19", ["Properties_C19.v", "Proofs_Init.v"],
        assume=[
            "a configuration is abstracted to the outcome of each fallible step (flag parsing, package loading, version parsing, selection, constructors); which concrete flag values are invalid is decided by the real code and observed by the tie",
            "what go/packages hands over for broken packages is runtime behaviour: only the oracle (real binaries on broken packages) covers it",
        ],
        trusted=["analyzer verif hooks (VerifResetGlobal) and Analyzer.Run driven in-process with a hand-built analysis.Pass"])


def c14(tier):
    vlib.standard(
        "C14", tier, "c14", ["Properties_C14.v", "Proofs_Params.v"],
        assume=[
            "parameter values are compared in their printed form (%v)",
            "ruleguard's string parameters are validated by its constructor and belong to C18; plumbing cases leave them at their defaults",
            "gc sizes are modelled for amd64 (word size 8, max align 8)",
        ],
        trusted=["bridge op 'params' in both mains; analyzer flag set + VerifPrepare; go/types Sizes and a compiled unsafe.Sizeof program as references for sizes"])


def c17(tier):
    vlib.standard(
        "C17", tier, "c17", ["Properties_C17.v", "Proofs_IR.v"],
        assume=[
            "the fresh IR is produced in-process by the same steps as checkers/rules/precompile.go (parse, type-check with the source importer, irconv.ConvertFile); the repository's own generator is additionally run and its output compared byte for byte",
            "how the ruleguard IR loader interprets the IR is outside this property",
        ],
        trusted=["translator vh gen ir (reflection walk of *ir.File into generic trees; registry documentation fields; docs/overview.md rows; `go-critic doc` output)"])


def c18(tier):
    vlib.standard(
        "C18", tier, "c18", ["Properties_C18.v", "Proofs_RuleFiles.v"],
        assume=[
            "ruleguard's own classification of load errors is observed, not modelled: only the ImportError type test of the checker is; the harness produces each class with a file known to trigger it",
            "filepath.Glob results are sorted; a malformed glob is logged and skipped",
            "TrimSpace is modelled for ASCII white space",
        ],
        trusted=["rule files materialised on disk by the harness and loaded through linter.NewChecker from a working directory that can resolve the dsl package"])


def c08(tier):
    vlib.standard(
        "C08", tier, "c08", ["Properties_C08.v", "Proofs_Frontends.v"],
        assume=[
            "a checker's diagnostics for a file do not depend on which package variant (p, p [p.test]) the file is analysed in; the differential run measures this",
            "the go/analysis driver prints each distinct (position, message) once (x/tools internal/checker)",
            "golangci-lint's own integration is not in this repository",
        ],
        trusted=["the four built binaries; go/packages; singlechecker's -json and -flags output formats"])


CHECKS = {"C06": c06, "C08": c08, "C14": c14, "C17": c17, "C18": c18, "C15": c15, "C16": c16, "C19": c19, "C11": c11}


def run(prop, tier):
    if prop not in CHECKS:
        print("no check for", prop)
        sys.exit(2)
    CHECKS[prop](tier)


def replay(prop, path):
    obj = json.load(open(path))
    print(json.dumps(obj, indent=1)[:6000])
    print("re-run: bin/check %s quick  (the check re-derives this witness from /repo's working tree)" % prop)
