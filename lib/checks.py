"""Per-property check definitions."""
import json
import sys

import vlib


def c06(tier):
    vlib.standard(
        "C06", tier, "c06", ["Properties_C06.v", "Proofs_Select.v"],
        assume=[
            "registration guarantees ^\\w+$ names and tags (valid_checker); the regenerated registry is checked against it by theorem C06_registry_ok",
            "strings.TrimSpace is modelled for ASCII white space only; the generators use ASCII padding",
            "package flag's own parsing of -enable/-disable is exercised end-to-end but not modelled",
        ],
        trusted=["translator vh gen registry (linter.GetCheckersInfo -> gen/Registry.v, docs/overview.md rows -> docs_overview_marks)",
                 "verif-tag bridge tests in cmd/go-critic and cmd/gocritic, analyzer.VerifFilter hook"])


CRASH_TRUSTED = [
    "goast2m converter (harness/internal/corpus/convert.go): decides which model term a real file becomes; cross-checked by wf evaluated on every converted file and by the warning-list comparison",
    "go/parser, go/types (their facts are inputs of the model), go/scanner (independent token-start pass of the C07 oracle)",
    "all checkers that are not modelled (the 40 rule-based ones, the ruleguard/gogrep engine, go/printer, astfmt, the remaining hand-written checkers) are observed by the implementation-level oracle only",
]
CRASH_ASSUME = [
    "the theorems quantify over model files satisfying wf; wf is an executable predicate that is evaluated on every converted real file (S1 testdata, S2 stress packages, S3 mutants) in the same run",
    "termination of the modelled checkers is Coq's structural-recursion guard; wall-clock bounds of the real code are only monitored (10 s watchdog per Check call)",
    "one oracle run is shared by C01, C07 and C20 and cached per (tier, seed, harness binary, corpus) under work/crashrun",
]


def c01(tier):
    vlib.standard("C01", tier, "c01", CRASH_COQ + ["Properties_C01.v"], assume=CRASH_ASSUME, trusted=CRASH_TRUSTED)


def c07(tier):
    vlib.standard("C07", tier, "c07", CRASH_COQ + ["Properties_C07.v"], assume=CRASH_ASSUME, trusted=CRASH_TRUSTED)


def c20(tier):
    vlib.standard("C20", tier, "c20", CRASH_COQ + ["Properties_C20.v"], assume=CRASH_ASSUME, trusted=CRASH_TRUSTED)


CRASH_COQ = ["Proofs_Checkers.v", "Proofs_Checkers2.v", "Proofs_Walkers.v", "Proofs_Comments.v", "Proofs_Witnesses.v"]
FW_TRUSTED = ["go/parser, go/types, golang.org/x/tools/go/packages (loading of the corpus); the ruleguard engine and astutil.Apply are observed, not modelled",
              "harness/internal/fw: corpus loader, warning projection (offset/text/fix), structural fingerprint (unit-tested in fingerprint_test.go)"]


def c02(tier):
    vlib.standard(
        "C02", tier, "c02", [f for f in ["Properties_C02.v", "Proofs_Determ.v", "MapRangeSites.v"] if _exists(f)],
        assume=["nondeterminism inside third-party engines (ruleguard, gogrep) is covered by the repetition oracle only",
                "Go's per-range randomisation of map iteration is the adversary of the in-process stream; hash seeds differ between processes for the CLI stream"],
        trusted=FW_TRUSTED + ["translator vh gen maprange (go/ast+go/types over /repo/linter, /repo/checkers, /repo/cmd -> gen/MapRangeSites.v)"])


def c13(tier):
    vlib.standard(
        "C13", tier, "c13", [f for f in ["Properties_C13.v", "Proofs_Walk.v", "Proofs_History.v"] if _exists(f)],
        assume=["exempt by documented subject (file-level order): dupImport, commentedOutImport, typeDefFirst, codegenComment, importShadow",
                "transformed examples are accepted only when they type-check as well as the original package"],
        trusted=FW_TRUSTED)


def c03(tier):
    vlib.standard(
        "C03", tier, "c03", [f for f in ["Properties_C03.v", "Proofs_History.v", "Proofs_Walk.v", "StateInventory.v"] if _exists(f)],
        assume=["pkgload sorts the loaded packages by PkgPath (documented behaviour of the loader; exercised end to end by the CLI stream, not modelled)",
                "the ruleguard engines' internal state (gogrep matcher state, node path) is covered by the reused-vs-fresh oracle only"],
        trusted=FW_TRUSTED + ["translator vh gen stateinv (go/ast+go/types over /repo/checkers -> gen/StateInventory.v)"])


def c05(tier):
    vlib.standard(
        "C05", tier, "c05", [f for f in ["Properties_C05.v", "Proofs_Heap.v", "MutationSites.v"] if _exists(f)],
        assume=["writes performed inside third-party code (ruleguard engine, astutil.Apply internals, astcopy) are covered by the fingerprint oracle only",
                "the fingerprint deliberately ignores the deprecated resolver fields ast.File.Scope/Unresolved and ast.Ident.Obj"],
        trusted=FW_TRUSTED + ["translator vh gen mutsites (go/ast+go/types over /repo/checkers, /repo/linter -> gen/MutationSites.v)"])


def _exists(f):
    import os
    return os.path.exists(os.path.join(vlib.COQ, "theories", f)) or os.path.exists(os.path.join(vlib.COQ, "gen", f))
def c10(tier):
    vlib.standard(
        "C10", tier, "c10", ["Properties_C10.v", "Proofs_Expr.v", "Proofs_BoolSimp.v", "Proofs_Rewrites.v", "Proofs_Stmt.v"],
        assume=[
            "integers are unbounded (Z): the property allows integer reasoning to assume no overflow; the differential oracle keeps unsigned operands away from wrap-around",
            "float64 is modelled as NaN | +-Inf | rational: ordering and NaN behaviour are exact, rounding is not modelled (every model witness is replayed on compiled Go by the oracle)",
            "opaque calls are deterministic functions of their arguments and of the history of earlier calls; they do not panic",
            "the model evaluates operands strictly left to right; the Go spec leaves the order between a panicking index/division and function calls of the same expression open, so the differential oracle treats two panicking runs as equal whatever calls preceded the panic",
            "go/printer is modelled for single-line expressions of the fragment (Ident, BasicLit, Paren, Unary, Binary, Call, Index)",
        ],
        trusted=["converter go/ast+go/types -> Model_Expr terms (harness/internal/exprgen/conv.go); typeof of every converted root is re-checked in Coq",
                 "go/parser, go/types, go/printer, astutil.Apply, typep.SideEffectFree, ruleguard/gogrep engine: modelled or monitored, not verified",
                 "Go toolchain used to compile and run the differential programs"])


def c12(tier):
    vlib.standard(
        "C12", tier, "c12", ["Properties_C12.v", "Proofs_Claims.v", "Proofs_Expr.v"],
        assume=[
            "same expression semantics as C10 (Z integers, NaN/Inf/rational floats, opaque calls as deterministic functions of the call history)",
            "type switches: the dynamic content of the interface value is nil or a value of a concrete type; types.Implements enters as a table whose transitivity is re-checked in Coq for every generated lattice",
            "named constants are outside the modelled fragment; nilValReturn is tied on []int operands with the if/return shape passed as data; dupArg on the four modelled library functions",
        ],
        trusted=["converter go/ast+go/types -> Model_Expr terms; type-switch entries + types.Implements table -> Model_Claims terms",
                 "go/types (constant values, Implements), ruleguard/gogrep engine for sloppyLen and offBy1: modelled, not verified",
                 "Go toolchain used to compile and run the instrumented programs"])
def c11(tier):
    vlib.standard(
        "C11", tier, "c11", ["Properties_C11.v", "Proofs_Regex.v", "Proofs_RegexRules.v", "Proofs_RegexSimplify.v", "Proofs_RegexWalk.v", "Proofs_RegexWalkS.v", "Proofs_RegexLit.v", "Proofs_RegexPrint.v", "Proofs_RegexText.v", "Proofs_RegexParse.v"],
        timeout=3000,
        assume=[
            "Go's regexp engine is modelled (Model_Regex.m / den), not verified: the matcher is compared with regexp.FindStringSubmatchIndex on sampled (pattern, subject) pairs on every run",
            "the third-party parser quasilyte/regex/syntax is an input of the model (its tree is dumped for every pattern and for the model's pass-1 text)",
            "whether the emitted TEXT of a whole pattern is parsed back to the tree the simplifier meant is a theorem only for the two modelled sub-languages (class bodies, literal runs: Model_RegexText, tied per node to the real parser) under guards; elsewhere the places where it is not are found by the oracle (re-lexing classes among the known findings)",
            "C11_simplify_sound_partial covers trees that elaborate (capture groups, named groups, flag groups included; not \\Q..\\E) under syntactic guards; prefix/suffix factoring only in trees without flag groups and in its sound instances; other trees rely on the per-case certificate",
            "C11_simplify_final_sound_partial speaks about the tree whose text the checker prints after its two passes; that the parser's tree of the first pass's text means what the first pass emitted is a decidable link (same_meaning) evaluated by the kernel per case, not a theorem",
            "the matcher model is claimed to be Go's semantics only where every loop body consumes at least one rune (no empty-width cycle); patterns outside are excluded from ties, certificate and in_fragment; that the tree emitted for an in_fragment tree stays inside this domain is part of C11_simplify_sound_partial",
            "a repeat with a zero-padded count ({007}: literal text for Go, a repeat for the checker's parser) does not elaborate: outside the model, the ties and the theorems", "subjects are valid UTF-8; case folding is modelled for ASCII, U+212A and U+017F only; \\p{..} classes and an operator directly after a flag group are outside the model",
        ],
        trusted=["Go harness internal/c11 (generators, tree dump, classification of oracle witnesses)",
                 "coqc is also run by the harness itself to obtain the model's pass-1 text, whose parse tree the real parser then supplies"])


def c16(tier):
    vlib.standard(
        "C16", tier, "c16", ["Properties_C16.v", "Proofs_Cli.v", "Properties_System.v", "Proofs_System.v", "Properties_Flags.v", "Properties_SystemCtx.v", "Proofs_SystemCtx.v"],
        assume=[
            "locations are absolute (begin with '/'): token.Position.String of files loaded by go/packages",
            "CommentGroup.Text() of go/ast is an input of the model (computed by the harness), not modelled",
            "os.Getwd failure and Windows path separators are not covered",
        ],
        trusted=["verif-tag bridge tests (ops shorten, slash, isgen)", "go/packages loader order is abstracted: e2e lines are compared as sorted lists"])


def c15(tier):
    vlib.standard(
        "C15", tier, "c15", ["Properties_C15.v", "Proofs_Version.v"],
        assume=[
            "recommended APIs are the pkg.Func / $var.Method tokens of a rule's Suggest/Report template outside the quoted match ($$); prose-only recommendations are not recognised",
            "a method's first version is the minimum over all std types with a method of that name (GOROOT/api)",
            "the property's range starts at Go 1.13: APIs that old need no gate",
        ],
        trusted=["translator vh gen ruletable (rulesdata.PrecompiledRules filters/templates, hand-written GreaterOrEqual gates, GOROOT/api/go1*.txt)",
                 "ruleguard engine's evaluation of GoVersion filters is tied behaviourally (fires/does not fire per version), not modelled"])


def c19(tier):
    vlib.standard(
        "C19", tier, "c19", ["Properties_C19.v", "Proofs_Init.v", "Properties_Recover.v", "Proofs_Recover.v"],
        assume=[
            "a configuration is abstracted to the outcome of each fallible step (flag parsing, package loading, version parsing, selection, constructors); which concrete flag values are invalid is decided by the real code and observed by the tie",
            "what go/packages hands over for broken packages is runtime behaviour: only the oracle (real binaries on broken packages) covers it",
        ],
        trusted=["analyzer verif hooks (VerifResetGlobal) and Analyzer.Run driven in-process with a hand-built analysis.Pass"])


def c14(tier):
    vlib.standard(
        "C14", tier, "c14", ["Properties_C14.v", "Proofs_Params.v"],
        assume=[
            "parameter values are compared in their printed form (%v)",
            "ruleguard's string parameters are validated by its constructor and belong to C18; plumbing cases leave them at their defaults",
            "gc sizes are modelled for amd64 (word size 8, max align 8)",
        ],
        trusted=["bridge op 'params' in both mains; analyzer flag set + VerifPrepare; go/types Sizes and a compiled unsafe.Sizeof program as references for sizes"])


def c17(tier):
    vlib.standard(
        "C17", tier, "c17", ["Properties_C17.v", "Proofs_IR.v"],
        assume=[
            "the fresh IR is produced in-process by the same steps as checkers/rules/precompile.go (parse, type-check with the source importer, irconv.ConvertFile); the repository's own generator is additionally run and its output compared byte for byte",
            "how the ruleguard IR loader interprets the IR is outside this property",
        ],
        trusted=["translator vh gen ir (reflection walk of *ir.File into generic trees; registry documentation fields; docs/overview.md rows; `go-critic doc` output)"])


def c18(tier):
    vlib.standard(
        "C18", tier, "c18", ["Properties_C18.v", "Proofs_RuleFiles.v"],
        assume=[
            "ruleguard's own classification of load errors is observed, not modelled: only the ImportError type test of the checker is; the harness produces each class with a file known to trigger it",
            "filepath.Glob results are sorted; a malformed glob is logged and skipped",
            "TrimSpace is modelled for ASCII white space",
        ],
        trusted=["rule files materialised on disk by the harness and loaded through linter.NewChecker from a working directory that can resolve the dsl package"])


def c08(tier):
    vlib.standard(
        "C08", tier, "c08", ["Properties_C08.v", "Proofs_Frontends.v", "Properties_System.v", "Proofs_System.v", "Properties_SystemCtx.v"],
        assume=[
            "a checker's diagnostics for a file do not depend on which package variant (p, p [p.test]) the file is analysed in; the differential run measures this",
            "the go/analysis driver prints each distinct (position, message) once (x/tools internal/checker)",
            "golangci-lint's own integration is not in this repository",
        ],
        trusted=["the four built binaries; go/packages; singlechecker's -json and -flags output formats"])


def c04(tier):
    vlib.standard(
        "C04", tier, "c04", ["Properties_C04.v", "Proofs_Sched.v", "MutationSites.v"],
        assume=[
            "a worker's result is a function of the shared read-only inputs only, and a worker writes only its own checker context and result slot (the footprint abstraction; its truth for the real checkers is C05's subject)",
            "channel, WaitGroup and mutex operations are synchronisation primitives with their documented semantics",
            "STATED LIMIT: actual memory accesses of the compiled program are not modelled; a data race in code the footprints do not mention can only be exhibited by the race-detector runs, never excluded by the theorems",
        ],
        trusted=["Go race detector builds of go-critic and go-critic-analysis; x/tools analysis driver's -debug=p sequential mode", "translator vh gen mutsites (go/ast+go/types over /repo/checkers, /repo/linter -> gen/MutationSites.v)"])


def c09(tier):
    vlib.standard(
        "C09", tier, "c09", ["Properties_C09.v", "Proofs_Edit.v", "Proofs_Prec.v", "Proofs_PrecParse.v"],
        assume=[
            "STATED LIMIT: 'the substituted program type-checks' is not a theorem (no formal Go type system here): decided per diagnostic by go/types in the oracle; 'parses as intended' is a theorem for the expression fragment of Model_Prec/Model_PrecParse only (operators, unary, selector/call/index/assertion/composite suffixes, parentheses), decided by go/parser in the oracle otherwise",
            "commentFormatting is modelled for ASCII case folding and ASCII white space",
            "quoted replacement code is recognised by per-checker message patterns of the hand-written checkers named in the property",
        ],
        trusted=["translator vh gen suggest (Suggest templates and wildcard runs of rulesdata.PrecompiledRules)", "translator vh gen prectable (patterns/templates of the executed IR as Model_Prec trees)", "Model_PrecParse as a model of go/parser's precedence climbing (differentially tied on generated expressions each run), token adjacency not modelled", "go/parser, go/types (source importer), astutil.PathEnclosingInterval as references"])




import re as _re

# every function named cNN above is the check of property CNN (no shared table to edit)
CHECKS = {n.upper(): f for n, f in list(globals().items()) if _re.fullmatch(r"c\d\d", n) and callable(f)}


def run(prop, tier):
    if prop not in CHECKS:
        print("no check for", prop)
        sys.exit(2)
    CHECKS[prop](tier)


def replay(prop, path):
    obj = json.load(open(path))
    print(json.dumps(obj, indent=1)[:6000])
    print("re-run: bin/check %s quick  (the check re-derives this witness from /repo's working tree)" % prop)
