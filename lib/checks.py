"""Per-property check definitions."""
import json
import sys

import vlib


def c06(tier):
    vlib.standard(
        "C06", tier, "c06", ["Properties_C06.v", "Proofs_Select.v"],
        assume=[
            "registration guarantees ^\\w+$ names and tags (valid_checker); the regenerated registry is checked against it by theorem C06_registry_ok",
            "strings.TrimSpace is modelled for ASCII white space only; the generators use ASCII padding",
            "package flag's own parsing of -enable/-disable is exercised end-to-end but not modelled",
        ],
        trusted=["translator vh gen registry (linter.GetCheckersInfo -> gen/Registry.v, docs/overview.md rows -> docs_overview_marks)",
                 "verif-tag bridge tests in cmd/go-critic and cmd/gocritic, analyzer.VerifFilter hook"])


def c10(tier):
    vlib.standard(
        "C10", tier, "c10", ["Properties_C10.v", "Proofs_Expr.v", "Proofs_BoolSimp.v", "Proofs_Rewrites.v"],
        assume=[
            "integers are unbounded (Z): the property allows integer reasoning to assume no overflow; the differential oracle keeps unsigned operands away from wrap-around",
            "float64 is modelled as NaN | +-Inf | rational: ordering and NaN behaviour are exact, rounding is not modelled (every model witness is replayed on compiled Go by the oracle)",
            "opaque calls are deterministic functions of their arguments and of the history of earlier calls; they do not panic",
            "go/printer is modelled for single-line expressions of the fragment (Ident, BasicLit, Paren, Unary, Binary, Call, Index)",
        ],
        trusted=["converter go/ast+go/types -> Model_Expr terms (harness/internal/exprgen/conv.go); typeof of every converted root is re-checked in Coq",
                 "go/parser, go/types, go/printer, astutil.Apply, typep.SideEffectFree, ruleguard/gogrep engine: modelled or monitored, not verified",
                 "Go toolchain used to compile and run the differential programs"])


def c12(tier):
    vlib.standard(
        "C12", tier, "c12", ["Properties_C12.v", "Proofs_Claims.v", "Proofs_Expr.v"],
        assume=[
            "same expression semantics as C10 (Z integers, NaN/Inf/rational floats, opaque calls as deterministic functions of the call history)",
            "type switches: the dynamic content of the interface value is nil or a value of a concrete type; types.Implements enters as a table whose transitivity is re-checked in Coq for every generated lattice",
            "named constants and the nilValReturn / dupArg checkers are outside the modelled fragment (monitored by nothing in this check)",
        ],
        trusted=["converter go/ast+go/types -> Model_Expr terms; type-switch entries + types.Implements table -> Model_Claims terms",
                 "go/types (constant values, Implements), ruleguard/gogrep engine for sloppyLen and offBy1: modelled, not verified",
                 "Go toolchain used to compile and run the instrumented programs"])


CHECKS = {"C06": c06, "C10": c10, "C12": c12}


def run(prop, tier):
    if prop not in CHECKS:
        print("no check for", prop)
        sys.exit(2)
    CHECKS[prop](tier)


def replay(prop, path):
    obj = json.load(open(path))
    print(json.dumps(obj, indent=1)[:6000])
    print("re-run: bin/check %s quick  (the check re-derives this witness from /repo's working tree)" % prop)
