"""Per-property check definitions."""
import json
import sys

import vlib


def c06(tier):
    vlib.standard(
        "C06", tier, "c06", ["Properties_C06.v", "Proofs_Select.v"],
        assume=[
            "registration guarantees ^\\w+$ names and tags (valid_checker); the regenerated registry is checked against it by theorem C06_registry_ok",
            "strings.TrimSpace is modelled for ASCII white space only; the generators use ASCII padding",
            "package flag's own parsing of -enable/-disable is exercised end-to-end but not modelled",
        ],
        trusted=["translator vh gen registry (linter.GetCheckersInfo -> gen/Registry.v, docs/overview.md rows -> docs_overview_marks)",
                 "verif-tag bridge tests in cmd/go-critic and cmd/gocritic, analyzer.VerifFilter hook"])


CRASH_TRUSTED = [
    "goast2m converter (harness/internal/corpus/convert.go): decides which model term a real file becomes; cross-checked by wf evaluated on every converted file and by the warning-list comparison",
    "go/parser, go/types (their facts are inputs of the model), go/scanner (independent token-start pass of the C07 oracle)",
    "all checkers that are not modelled (the 40 rule-based ones, the ruleguard/gogrep engine, go/printer, astfmt, the remaining hand-written checkers) are observed by the implementation-level oracle only",
]
CRASH_ASSUME = [
    "the theorems quantify over model files satisfying wf; wf is an executable predicate that is evaluated on every converted real file (S1 testdata, S2 stress packages, S3 mutants) in the same run",
    "termination of the modelled checkers is Coq's structural-recursion guard; wall-clock bounds of the real code are only monitored (10 s watchdog per Check call)",
    "one oracle run is shared by C01, C07 and C20 and cached per (tier, seed, harness binary, corpus) under work/crashrun",
]


def c01(tier):
    vlib.standard("C01", tier, "c01", CRASH_COQ + ["Properties_C01.v"], assume=CRASH_ASSUME, trusted=CRASH_TRUSTED)


def c07(tier):
    vlib.standard("C07", tier, "c07", CRASH_COQ + ["Properties_C07.v"], assume=CRASH_ASSUME, trusted=CRASH_TRUSTED)


def c20(tier):
    vlib.standard("C20", tier, "c20", CRASH_COQ + ["Properties_C20.v"], assume=CRASH_ASSUME, trusted=CRASH_TRUSTED)


CRASH_COQ = [f for f in ("Proofs_Checkers.v",) if __import__("os").path.exists(__import__("os").path.join(vlib.COQ, "theories", f))]
CRASH_COQ_PROPS = {}

CHECKS = {"C01": c01, "C06": c06, "C07": c07, "C20": c20}


def run(prop, tier):
    if prop not in CHECKS:
        print("no check for", prop)
        sys.exit(2)
    CHECKS[prop](tier)


def replay(prop, path):
    obj = json.load(open(path))
    print(json.dumps(obj, indent=1)[:6000])
    print("re-run: bin/check %s quick  (the check re-derives this witness from /repo's working tree)" % prop)
