"""Per-property check definitions."""
import json
import sys

import vlib


def c06(tier):
    vlib.standard(
        "C06", tier, "c06", ["Properties_C06.v", "Proofs_Select.v"],
        assume=[
            "registration guarantees ^\\w+$ names and tags (valid_checker); the regenerated registry is checked against it by theorem C06_registry_ok",
            "strings.TrimSpace is modelled for ASCII white space only; the generators use ASCII padding",
            "package flag's own parsing of -enable/-disable is exercised end-to-end but not modelled",
        ],
        trusted=["translator vh gen registry (linter.GetCheckersInfo -> gen/Registry.v, docs/overview.md rows -> docs_overview_marks)",
                 "verif-tag bridge tests in cmd/go-critic and cmd/gocritic, analyzer.VerifFilter hook"])


def c11(tier):
    vlib.standard(
        "C11", tier, "c11", ["Properties_C11.v", "Proofs_Regex.v", "Proofs_RegexRules.v", "Proofs_RegexSimplify.v"],
        timeout=3000,
        assume=[
            "Go's regexp engine is modelled (Model_Regex.m / den), not verified: the matcher is compared with regexp.FindStringSubmatchIndex on sampled (pattern, subject) pairs on every run",
            "the third-party parser quasilyte/regex/syntax is an input of the model (its tree is dumped for every pattern and for the model's pass-1 text)",
            "whether Go's regexp parses a rewritten TEXT to the tree the simplifier meant is not a theorem; the places where it does not are found by the oracle (re-lexing classes among the known findings)",
            "subjects are valid UTF-8; case folding is modelled for ASCII, U+212A and U+017F only; \\p{..} classes and an operator directly after a flag group are outside the model",
        ],
        trusted=["Go harness internal/c11 (generators, tree dump, classification of oracle witnesses)",
                 "coqc is also run by the harness itself to obtain the model's pass-1 text, whose parse tree the real parser then supplies"])


CHECKS = {"C06": c06, "C11": c11}


def run(prop, tier):
    if prop not in CHECKS:
        print("no check for", prop)
        sys.exit(2)
    CHECKS[prop](tier)


def replay(prop, path):
    obj = json.load(open(path))
    print(json.dumps(obj, indent=1)[:6000])
    print("re-run: bin/check %s quick  (the check re-derives this witness from /repo's working tree)" % prop)
