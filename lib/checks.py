"""Per-property check definitions."""
import json
import sys

import vlib


def c06(tier):
    vlib.standard(
        "C06", tier, "c06", ["Properties_C06.v", "Proofs_Select.v"],
        assume=[
            "registration guarantees ^\\w+$ names and tags (valid_checker); the regenerated registry is checked against it by theorem C06_registry_ok",
            "strings.TrimSpace is modelled for ASCII white space only; the generators use ASCII padding",
            "package flag's own parsing of -enable/-disable is exercised end-to-end but not modelled",
        ],
        trusted=["translator vh gen registry (linter.GetCheckersInfo -> gen/Registry.v, docs/overview.md rows -> docs_overview_marks)",
                 "verif-tag bridge tests in cmd/go-critic and cmd/gocritic, analyzer.VerifFilter hook"])


FW_TRUSTED = ["go/parser, go/types, golang.org/x/tools/go/packages (loading of the corpus); the ruleguard engine and astutil.Apply are observed, not modelled",
              "harness/internal/fw: corpus loader, warning projection (offset/text/fix), structural fingerprint (unit-tested in fingerprint_test.go)"]


def c02(tier):
    vlib.standard(
        "C02", tier, "c02", [f for f in ["Properties_C02.v", "Proofs_Determ.v", "MapRangeSites.v"] if _exists(f)],
        assume=["nondeterminism inside third-party engines (ruleguard, gogrep) is covered by the repetition oracle only",
                "Go's per-range randomisation of map iteration is the adversary of the in-process stream; hash seeds differ between processes for the CLI stream"],
        trusted=FW_TRUSTED + ["translator vh gen maprange (go/ast+go/types over /repo/linter, /repo/checkers, /repo/cmd -> gen/MapRangeSites.v)"])


def c13(tier):
    vlib.standard(
        "C13", tier, "c13", [f for f in ["Properties_C13.v", "Proofs_Walk.v"] if _exists(f)],
        assume=["exempt by documented subject (file-level order): dupImport, commentedOutImport, typeDefFirst, codegenComment, importShadow",
                "transformed examples are accepted only when they type-check as well as the original package"],
        trusted=FW_TRUSTED)


def c03(tier):
    vlib.standard(
        "C03", tier, "c03", [f for f in ["Properties_C03.v", "Proofs_History.v", "StateInventory.v"] if _exists(f)],
        assume=["pkgload sorts the loaded packages by PkgPath (documented behaviour of the loader; exercised end to end by the CLI stream, not modelled)",
                "the ruleguard engines' internal state (gogrep matcher state, node path) is covered by the reused-vs-fresh oracle only"],
        trusted=FW_TRUSTED + ["translator vh gen stateinv (go/ast+go/types over /repo/checkers -> gen/StateInventory.v)"])


def c05(tier):
    vlib.standard(
        "C05", tier, "c05", [f for f in ["Properties_C05.v", "Proofs_Heap.v", "MutationSites.v"] if _exists(f)],
        assume=["writes performed inside third-party code (ruleguard engine, astutil.Apply internals, astcopy) are covered by the fingerprint oracle only",
                "the fingerprint deliberately ignores the deprecated resolver fields ast.File.Scope/Unresolved and ast.Ident.Obj"],
        trusted=FW_TRUSTED + ["translator vh gen mutsites (go/ast+go/types over /repo/checkers, /repo/linter -> gen/MutationSites.v)"])


def _exists(f):
    import os
    return os.path.exists(os.path.join(vlib.COQ, "theories", f)) or os.path.exists(os.path.join(vlib.COQ, "gen", f))


CHECKS = {"C02": c02, "C03": c03, "C05": c05, "C06": c06, "C13": c13}


def run(prop, tier):
    if prop not in CHECKS:
        print("no check for", prop)
        sys.exit(2)
    CHECKS[prop](tier)


def replay(prop, path):
    obj = json.load(open(path))
    print(json.dumps(obj, indent=1)[:6000])
    print("re-run: bin/check %s quick  (the check re-derives this witness from /repo's working tree)" % prop)
