"""Per-property check definitions."""
import json
import sys

import vlib


def c06(tier):
    vlib.standard(
        "C06", tier, "c06", ["Properties_C06.v", "Proofs_Select.v"],
        assume=[
            "registration guarantees ^\\w+$ names and tags (valid_checker); the regenerated registry is checked against it by theorem C06_registry_ok",
            "strings.TrimSpace is modelled for ASCII white space only; the generators use ASCII padding",
            "package flag's own parsing of -enable/-disable is exercised end-to-end but not modelled",
        ],
        trusted=["translator vh gen registry (linter.GetCheckersInfo -> gen/Registry.v, docs/overview.md rows -> docs_overview_marks)",
                 "verif-tag bridge tests in cmd/go-critic and cmd/gocritic, analyzer.VerifFilter hook"])


def c10(tier):
    vlib.standard(
        "C10", tier, "c10", ["Properties_C10.v", "Proofs_Expr.v", "Proofs_BoolSimp.v", "Proofs_Rewrites.v"],
        assume=[
            "integers are unbounded (Z): the property allows integer reasoning to assume no overflow; the differential oracle keeps unsigned operands away from wrap-around",
            "float64 is modelled as NaN | +-Inf | rational: ordering and NaN behaviour are exact, rounding is not modelled (every model witness is replayed on compiled Go by the oracle)",
            "opaque calls are deterministic functions of their arguments and of the history of earlier calls; they do not panic",
            "the model evaluates operands strictly left to right; the Go spec leaves the order between a panicking index/division and function calls of the same expression open, so the differential oracle treats two panicking runs as equal whatever calls preceded the panic",
            "go/printer is modelled for single-line expressions of the fragment (Ident, BasicLit, Paren, Unary, Binary, Call, Index)",
        ],
        trusted=["converter go/ast+go/types -> Model_Expr terms (harness/internal/exprgen/conv.go); typeof of every converted root is re-checked in Coq",
                 "go/parser, go/types, go/printer, astutil.Apply, typep.SideEffectFree, ruleguard/gogrep engine: modelled or monitored, not verified",
                 "Go toolchain used to compile and run the differential programs"])


def c12(tier):
    vlib.standard(
        "C12", tier, "c12", ["Properties_C12.v", "Proofs_Claims.v", "Proofs_Expr.v"],
        assume=[
            "same expression semantics as C10 (Z integers, NaN/Inf/rational floats, opaque calls as deterministic functions of the call history)",
            "type switches: the dynamic content of the interface value is nil or a value of a concrete type; types.Implements enters as a table whose transitivity is re-checked in Coq for every generated lattice",
            "named constants and the nilValReturn / dupArg checkers are outside the modelled fragment (monitored by nothing in this check)",
        ],
        trusted=["converter go/ast+go/types -> Model_Expr terms; type-switch entries + types.Implements table -> Model_Claims terms",
                 "go/types (constant values, Implements), ruleguard/gogrep engine for sloppyLen and offBy1: modelled, not verified",
                 "Go toolchain used to compile and run the instrumented programs"])


def c16(tier):
    vlib.standard(
        "C16", tier, "c16", ["Properties_C16.v", "Proofs_Cli.v"],
        assume=[
            "locations are absolute (begin with '/'): token.Position.String of files loaded by go/packages",
            "CommentGroup.Text() of go/ast is an input of the model (computed by the harness), not modelled",
            "os.Getwd failure and Windows path separators are not covered",
        ],
        trusted=["verif-tag bridge tests (ops shorten, slash, isgen)", "go/packages loader order is abstracted: e2e lines are compared as sorted lists"])


def c15(tier):
    vlib.standard(
        "C15", tier, "c15", ["Properties_C15.v", "Proofs_Version.v"],
        assume=[
            "recommended APIs are the pkg.Func / $var.Method tokens of a rule's Suggest/Report template outside the quoted match ($$); prose-only recommendations are not recognised",
            "a method's first version is the minimum over all std types with a method of that name (GOROOT/api)",
            "the property's range starts at Go 1.13: APIs that old need no gate",
        ],
        trusted=["translator vh gen ruletable (rulesdata.PrecompiledRules filters/templates, hand-written GreaterOrEqual gates, GOROOT/api/go1*.txt)",
                 "ruleguard engine's evaluation of GoVersion filters is tied behaviourally (fires/does not fire per version), not modelled"])


def c19(tier):
    vlib.standard(
        "C19", tier, "c19", ["Properties_C19.v", "Proofs_Init.v"],
        assume=[
            "a configuration is abstracted to the outcome of each fallible step (flag parsing, package loading, version parsing, selection, constructors); which concrete flag values are invalid is decided by the real code and observed by the tie",
            "what go/packages hands over for broken packages is runtime behaviour: only the oracle (real binaries on broken packages) covers it",
        ],
        trusted=["analyzer verif hooks (VerifResetGlobal) and Analyzer.Run driven in-process with a hand-built analysis.Pass"])


def c14(tier):
    vlib.standard(
        "C14", tier, "c14", ["Properties_C14.v", "Proofs_Params.v"],
        assume=[
            "parameter values are compared in their printed form (%v)",
            "ruleguard's string parameters are validated by its constructor and belong to C18; plumbing cases leave them at their defaults",
            "gc sizes are modelled for amd64 (word size 8, max align 8)",
        ],
        trusted=["bridge op 'params' in both mains; analyzer flag set + VerifPrepare; go/types Sizes and a compiled unsafe.Sizeof program as references for sizes"])


def c17(tier):
    vlib.standard(
        "C17", tier, "c17", ["Properties_C17.v", "Proofs_IR.v"],
        assume=[
            "the fresh IR is produced in-process by the same steps as checkers/rules/precompile.go (parse, type-check with the source importer, irconv.ConvertFile); the repository's own generator is additionally run and its output compared byte for byte",
            "how the ruleguard IR loader interprets the IR is outside this property",
        ],
        trusted=["translator vh gen ir (reflection walk of *ir.File into generic trees; registry documentation fields; docs/overview.md rows; `go-critic doc` output)"])


def c18(tier):
    vlib.standard(
        "C18", tier, "c18", ["Properties_C18.v", "Proofs_RuleFiles.v"],
        assume=[
            "ruleguard's own classification of load errors is observed, not modelled: only the ImportError type test of the checker is; the harness produces each class with a file known to trigger it",
            "filepath.Glob results are sorted; a malformed glob is logged and skipped",
            "TrimSpace is modelled for ASCII white space",
        ],
        trusted=["rule files materialised on disk by the harness and loaded through linter.NewChecker from a working directory that can resolve the dsl package"])


def c08(tier):
    vlib.standard(
        "C08", tier, "c08", ["Properties_C08.v", "Proofs_Frontends.v"],
        assume=[
            "a checker's diagnostics for a file do not depend on which package variant (p, p [p.test]) the file is analysed in; the differential run measures this",
            "the go/analysis driver prints each distinct (position, message) once (x/tools internal/checker)",
            "golangci-lint's own integration is not in this repository",
        ],
        trusted=["the four built binaries; go/packages; singlechecker's -json and -flags output formats"])


CHECKS = {"C06": c06, "C08": c08, "C14": c14, "C17": c17, "C18": c18, "C15": c15, "C16": c16, "C19": c19, "C10": c10, "C12": c12}


def run(prop, tier):
    if prop not in CHECKS:
        print("no check for", prop)
        sys.exit(2)
    CHECKS[prop](tier)


def replay(prop, path):
    obj = json.load(open(path))
    print(json.dumps(obj, indent=1)[:6000])
    print("re-run: bin/check %s quick  (the check re-derives this witness from /repo's working tree)" % prop)
