"""Shared orchestration for /verif checks: builds, Coq evaluation, verdicts, evidence."""
import fcntl
import glob
import hashlib
import json
import os
import re
import subprocess
import sys
import time

ROOT = os.path.dirname(os.path.dirname(os.path.abspath(__file__)))
REPO = os.environ.get("VERIF_REPO") or "/repo"  # VERIF_REPO: development aid (scratch worktree of /repo); registered checks use /repo
WORK = os.path.join(ROOT, "work")
COQ = os.path.join(ROOT, "coq")
BIN = os.path.join(WORK, "bin")
HARNESS = os.path.join(ROOT, "harness")
COQ_ARGS = ["-Q", os.path.join(COQ, "theories"), "GC", "-Q", os.path.join(COQ, "gen"), "GCgen",
            "-w", "-notation-overridden,-deprecated-hint-without-locality"]

TRUSTED_BASE_COMMON = [
    "Coq 8.16.1 kernel (coqc), including its vm_compute reduction machine; native_compute is not used",
    "no axioms are declared by this development; Print Assumptions of every property theorem is recorded in 'assumptions'",
    "hand-written Gallina models (coq/theories/Model_*.v) are tied to /repo by the correspondence run recorded in this file",
    "Go harness (/verif/harness) incl. generators, canonicalisation and the verif-tag hooks; python orchestration (/verif/lib)",
]


def go_env(extra=None):
    env = dict(os.environ)
    env.update({"GOFLAGS": "-mod=mod", "GOPROXY": "off", "GOSUMDB": "off", "GOTOOLCHAIN": "local",
                "CGO_ENABLED": env.get("CGO_ENABLED", "0"), "VERIF_BIN": BIN, "VERIF_REPO": REPO})
    if extra:
        env.update(extra)
    return env


def sh(cmd, cwd=None, env=None, timeout=1200):
    """Run cmd (list), return (rc, combined output). rc=-2 on timeout."""
    try:
        p = subprocess.run(cmd, cwd=cwd, env=env, stdout=subprocess.PIPE, stderr=subprocess.STDOUT,
                           timeout=timeout, text=True, errors="replace")
        return p.returncode, p.stdout
    except subprocess.TimeoutExpired as e:
        out = e.stdout or ""
        if isinstance(out, bytes):
            out = out.decode("utf-8", "replace")
        return -2, out + "\n[timeout after %ss]" % timeout


class Lock:
    def __init__(self, name):
        os.makedirs(WORK, exist_ok=True)
        self.path = os.path.join(WORK, "." + name + ".lock")

    def __enter__(self):
        self.f = open(self.path, "w")
        fcntl.flock(self.f, fcntl.LOCK_EX)
        return self

    def __exit__(self, *a):
        fcntl.flock(self.f, fcntl.LOCK_UN)
        self.f.close()


def repo_fingerprint():
    """Hash of /repo's Go sources, docs and go.mod: decides whether binaries must be rebuilt."""
    h = hashlib.sha256()
    for base, dirs, files in os.walk(REPO):
        dirs[:] = sorted(d for d in dirs if d not in (".git",))
        if "/testdata" in base and "/checkers/testdata" not in base:
            pass
        for fn in sorted(files):
            if fn.endswith((".go", ".mod", ".sum", ".md", ".tmpl")):
                p = os.path.join(base, fn)
                try:
                    st = os.stat(p)
                except OSError:
                    continue
                h.update(p.encode())
                h.update(str(st.st_size).encode())
                h.update(str(st.st_mtime_ns).encode())
    for base, dirs, files in os.walk(HARNESS):
        for fn in sorted(files):
            p = os.path.join(base, fn)
            st = os.stat(p)
            h.update(p.encode() + str(st.st_size).encode() + str(st.st_mtime_ns).encode())
    return h.hexdigest()


def build_go(force=False):
    """Build harness (tag verif) and the front-end binaries from /repo's working tree.
    Returns (ok, log)."""
    with Lock("go"):
        os.makedirs(BIN, exist_ok=True)
        env = go_env()
        log = []
        sumsrc = os.path.join(REPO, "go.sum")
        modfile = os.path.join(WORK, "harness.mod")
        mod = open(os.path.join(HARNESS, "go.mod")).read().replace("=> /repo", "=> " + REPO)
        if not os.path.exists(modfile) or open(modfile).read() != mod:
            open(modfile, "w").write(mod)
        if os.path.exists(sumsrc):
            subprocess.run(["cp", sumsrc, os.path.join(WORK, "harness.sum")])
        rc, out = sh(["go", "build", "-modfile", modfile, "-tags", "verif", "-o", os.path.join(BIN, "vh"), "./cmd/vh"], cwd=HARNESS, env=env, timeout=900)
        log.append(out)
        if rc != 0:
            return False, "harness build failed:\n" + out
        for name, pkg in (("go-critic", "./cmd/go-critic"), ("gocritic", "./cmd/gocritic"),
                          ("go-critic-analysis", "./cmd/go-critic-analysis"), ("gocritic-analysis", "./cmd/gocritic-analysis"),
                          ("makedocs", "./cmd/makedocs")):
            rc, out = sh(["go", "build", "-o", os.path.join(BIN, name), pkg], cwd=REPO, env=env, timeout=900)
            log.append(out)
            if rc != 0:
                return False, "build of %s failed:\n%s" % (pkg, out)
        # race-detector builds (C04); need cgo
        renv = dict(env)
        renv["CGO_ENABLED"] = "1"
        for name, pkg in (("go-critic-race", "./cmd/go-critic"), ("go-critic-analysis-race", "./cmd/go-critic-analysis")):
            rc, out = sh(["go", "build", "-race", "-o", os.path.join(BIN, name), pkg], cwd=REPO, env=renv, timeout=1200)
            log.append(out)
            if rc != 0:
                return False, "race build of %s failed:\n%s" % (pkg, out)
        return True, "\n".join(log)


def gen_files(names):
    """Run translators: vh gen <names> -> coq/gen/*.v (only rewritten when content changes)."""
    tmp = os.path.join(WORK, "gen_tmp_%d" % os.getpid())
    os.makedirs(tmp, exist_ok=True)
    rc, out = sh([os.path.join(BIN, "vh"), "gen", "-out", tmp] + list(names), cwd=REPO, env=go_env(), timeout=600)
    if rc != 0:
        return False, out
    os.makedirs(os.path.join(COQ, "gen"), exist_ok=True)
    for p in glob.glob(os.path.join(tmp, "*.v")):
        dst = os.path.join(COQ, "gen", os.path.basename(p))
        new = open(p).read()
        if not os.path.exists(dst) or open(dst).read() != new:
            open(dst, "w").write(new)
    subprocess.run(["rm", "-rf", tmp])
    return True, out


ALL_GENS = ["registry", "ruletable", "ir", "suggest", "prectable", "stateinv", "maprange", "mutsites", "flagtable"]


def coq_make(timeout=1500):
    """Full .vo build of the development (incremental). Returns (ok, log, failing_file)."""
    with Lock("coq"):
        vfiles = sorted(glob.glob(os.path.join(COQ, "theories", "*.v")) + glob.glob(os.path.join(COQ, "gen", "*.v")))
        proj = open(os.path.join(COQ, "_CoqProject.in")).read() + "\n".join(os.path.relpath(v, COQ) for v in vfiles) + "\n"
        pp = os.path.join(COQ, "_CoqProject")
        if not os.path.exists(pp) or open(pp).read() != proj or not os.path.exists(os.path.join(COQ, "Makefile")):
            open(pp, "w").write(proj)
            rc, out = sh(["coq_makefile", "-f", "_CoqProject", "-o", "Makefile"], cwd=COQ, timeout=120)
            if rc != 0:
                return False, out, None
        rc, out = sh(["make", "-j16", "-k"], cwd=COQ, timeout=timeout)
        failing = None
        if rc != 0:
            m = re.search(r'File "\./([^"]+)", line (\d+)', out)
            if m:
                failing = "%s:%s" % (m.group(1), m.group(2))
        return rc == 0, out, failing


def coqc_file(path, timeout=900):
    rc, out = sh(["coqc"] + COQ_ARGS + [path], cwd=os.path.dirname(path), timeout=timeout)
    return rc, out


def parse_mismatches(out):
    """Parse 'M = [..]' printed by a cases file. Returns list of ints or None when not found."""
    m = re.search(r"M\s*=\s*(\[[^\]]*\])", out)
    if not m:
        return None
    return [int(x) for x in re.findall(r"\d+", m.group(1).replace("%N", ""))]


def count_theorems(files):
    names = []
    for f in files:
        p = os.path.join(COQ, "theories", f)
        if not os.path.exists(p):
            p = os.path.join(COQ, "gen", f)
        for line in open(p):
            m = re.match(r"\s*(Theorem|Lemma|Corollary|Example|Fact)\s+([A-Za-z0-9_']+)", line)
            if m:
                names.append(m.group(2))
    return names


def print_assumptions(prop, module_files, theorem_names):
    """Ask Coq for the assumptions of each property theorem (fresh on every run)."""
    d = os.path.join(WORK, prop)
    os.makedirs(d, exist_ok=True)
    path = os.path.join(d, "assumptions_%s.v" % prop)
    lines = []
    for f in module_files:
        mod = os.path.splitext(f)[0]
        lib = "GCgen" if os.path.exists(os.path.join(COQ, "gen", f)) else "GC"
        lines.append("From %s Require Import %s." % (lib, mod))
    for t in theorem_names:
        lines.append('Print Assumptions %s.' % t)
    open(path, "w").write("\n".join(lines) + "\n")
    rc, out = coqc_file(path, timeout=300)
    res = {}
    if rc != 0:
        return {"error": out[-500:]}
    chunks = re.split(r"(?=Closed under the global context|Axioms:)", out)
    chunks = [c.strip() for c in chunks if c.strip()]
    for t, c in zip(theorem_names, chunks):
        res[t] = "closed" if c.startswith("Closed") else c
    return res


def load_known():
    p = os.path.join(ROOT, "known_findings.json")
    if not os.path.exists(p):
        return []
    return json.load(open(p))


class Check:
    """One run of one property's check."""

    def __init__(self, prop, tier, argv=None):
        self.prop = prop
        self.tier = tier
        self.seed = int(os.environ.get("VERIF_SEED", "1") or 1)
        self.t0 = time.time()
        self.dir = os.path.join(WORK, prop)
        os.makedirs(self.dir, exist_ok=True)
        os.makedirs(os.path.join(WORK, "replays"), exist_ok=True)
        self.violations = []      # (key, what, replay_path, found_input)
        self.known_hits = []
        self.obligations = []
        self.discharged = []
        self.assumptions = {}
        self.coverage = {}
        self.assume = []
        self.trusted = list(TRUSTED_BASE_COMMON)
        self.broken = []          # names of theorems / correspondences that no longer check
        self.checker_cmd = "make -C /verif/coq -j16 (coq_makefile, full .vo build) + coqc on generated cases files"
        self.meta = None

    # ---- steps ----
    def build(self):
        ok, log = build_go()
        if not ok:
            self.infra_fail("go build failed", log)
        ok, out = gen_files(ALL_GENS)
        if not ok:
            self.infra_fail("translator failed", out)

    def infra_fail(self, what, log):
        """The machinery itself could not run: property no longer shown to hold."""
        rp = self.write_replay("infra", {"what": what, "log": log[-4000:],
                                         "broken": "build/translator step; theorems and correspondence could not be checked"})
        self.write_evidence(extra={"infra_failure": what})
        print(log[-3000:])
        print("VIOLATION property=%s replay=%s no-failing-input-found" % (self.prop, rp))
        sys.exit(1)

    def prove(self, files):
        """Build the Coq development; record obligations of the given property files.
        Only this property's own files (and what they depend on) decide: a broken obligation of another
        property must not raise an alarm here (make -k builds everything that can be built)."""
        ok, log, failing = coq_make()
        names = count_theorems(files)
        self.obligations = names
        self.prop_files = files
        if not ok:
            stale = []
            with Lock("coq"):
                for f in files:
                    sub = "gen" if os.path.exists(os.path.join(COQ, "gen", f)) else "theories"
                    rc, _ = sh(["make", "-q", "%s/%s" % (sub, f.replace(".v", ".vo"))], cwd=COQ, timeout=120)
                    if rc != 0:
                        stale.append(f)
            if not stale:
                ok = True
                self.coverage["other_properties_broken"] = "the Coq build failed in files this property does not depend on (%s); ignored here" % (failing or "see make log")
            else:
                failing = "%s (not built: %s)" % (failing, ", ".join(stale))
        self.hygiene()
        if ok:
            self.discharged = list(names)
            self.assumptions = print_assumptions(self.prop, [f for f in files if f.startswith("Properties")],
                                                 [n for n in count_theorems([f for f in files if f.startswith("Properties")])])
        else:
            self.discharged = []
            self.broken.append("coq build: %s" % (failing or "see log"))
            self.coq_log = log[-4000:]
        return ok

    def hygiene(self):
        """Source-level scan of the whole development: nothing may be assumed or switched off."""
        import glob
        bad = []
        for f in sorted(glob.glob(os.path.join(COQ, "theories", "*.v")) + glob.glob(os.path.join(COQ, "gen", "*.v"))):
            depth = 0
            text = open(f, encoding="utf-8", errors="replace").read()
            text = re.sub(r"\(\*.*?\*\)", lambda m: re.sub(r"[^\n]", " ", m.group(0)), text, flags=re.S)  # comments out
            for i, l in enumerate(text.split("\n"), 1):
                t = l.strip()
                if re.match(r"^Section\s+\w+", t):
                    depth += 1
                elif re.match(r"^End\s+\w+\s*\.", t) and depth > 0:
                    depth -= 1
                t = re.sub(r'"[^"]*"', '""', t)  # string literals out (generated tables quote repository text)
                if re.match(r"^(Local\s+|Global\s+|#\[[^\]]*\]\s*)*(Axiom|Axioms|Parameter|Parameters|Conjecture|Conjectures)\b", t) or \
                   re.search(r"\b(Admitted|admit|give_up)\b", t) or \
                   re.search(r"Unset\s+(Guard|Positivity|Universe)\s+Checking|bypass_check|Admit\s+Obligations", t) or \
                   (depth == 0 and re.match(r"^(Variable|Variables|Hypothesis|Hypotheses|Context)\b", t)):
                    bad.append("%s:%d: %s" % (os.path.basename(f), i, t[:80]))
        proj = open(os.path.join(COQ, "_CoqProject")).read()
        if re.search(r"type-in-type|impredicative-set", proj):
            bad.append("_CoqProject passes a kernel-weakening flag")
        self.coverage["hygiene"] = "no Admitted/admit/Axiom/Parameter/Conjecture, no check switched off, no Variable/Hypothesis outside a Section, in %d files" % len(glob.glob(os.path.join(COQ, "*", "*.v"))) if not bad else bad
        if bad:
            self.broken.append("development hygiene: " + "; ".join(bad[:5]))

    def coqchk(self, prop_files, timeout=2400):
        """Independent re-check of the compiled property modules and everything they depend on."""
        mods = ["GC." + os.path.splitext(f)[0] for f in prop_files]
        with Lock("coq"):
            rc, out = sh(["coqchk", "-silent", "-o", "-Q", os.path.join(COQ, "theories"), "GC", "-Q", os.path.join(COQ, "gen"), "GCgen"] + mods,
                         cwd=COQ, timeout=timeout)
        summary = out[out.find("CONTEXT SUMMARY"):] if "CONTEXT SUMMARY" in out else out[-800:]
        self.coverage["coqchk"] = {"modules": mods, "exit": rc, "summary": " ".join(summary.split())[:1200]}
        if rc != 0:
            self.broken.append("coqchk failed on %s: %s" % (mods, out[-400:]))
        elif "Axioms: <none>" not in " ".join(summary.split()):
            self.coverage["coqchk"]["note"] = "axioms reported by coqchk are listed in 'summary'"

    def harness(self, sub, timeout=1500, extra_args=None):
        out_dir = self.dir
        if self.tier == "thorough":
            timeout = max(timeout, 10800)  # thorough sweeps take tens of minutes on a loaded machine; the limit only guards against a hang
        for p in glob.glob(os.path.join(out_dir, "cases_*.v")) + glob.glob(os.path.join(out_dir, "meta.json")):
            os.remove(p)
        cmd = [os.path.join(BIN, "vh"), sub, "-tier", self.tier, "-seed", str(self.seed), "-out", out_dir] + (extra_args or [])
        rc, out = sh(cmd, cwd=REPO, env=go_env(), timeout=timeout)
        if rc in (-9, 137):
            # SIGKILL from outside (the kernel's OOM killer when sibling jobs fill the machine): not an observation; once more
            time.sleep(20)
            rc, out = sh(cmd, cwd=REPO, env=go_env(), timeout=timeout)
        mp = os.path.join(out_dir, "meta.json")
        if rc != 0 or not os.path.exists(mp):
            self.infra_fail("harness %s failed (rc=%s)" % (sub, rc), out)
        self.meta = json.load(open(mp))
        self.harness_log = out
        return self.meta

    def correspond(self, timeout=900):
        """Evaluate every cases file in Coq; any mismatch breaks the tie."""
        total_mis = 0
        procs = []
        for cf in self.meta.get("case_files", []):
            path = os.path.join(self.dir, cf)
            procs.append((cf, subprocess.Popen(["timeout", str(timeout), "coqc"] + COQ_ARGS + [path], cwd=self.dir,
                                               stdout=subprocess.PIPE, stderr=subprocess.STDOUT, text=True)))
        for cf, p in procs:
            out, _ = p.communicate()
            mis = parse_mismatches(out) if p.returncode == 0 else None
            if mis is None:
                self.broken.append("correspondence %s: cases file did not evaluate: %s" % (cf, out[-600:]))
            elif mis:
                total_mis += len(mis)
                idxp = os.path.join(self.dir, cf.replace(".v", ".index.txt"))
                desc = []
                if os.path.exists(idxp):
                    lines = open(idxp).read().split("\n")
                    desc = [lines[i] for i in mis[:5] if i < len(lines)]
                self.broken.append("correspondence %s: model and implementation differ on %d case(s), first: %s" % (cf, len(mis), desc or mis[:5]))
        for t in self.meta.get("tie_broken") or []:
            self.broken.append("tie: " + t)
        return total_mis

    # ---- verdict ----
    def write_replay(self, tag, obj):
        h = hashlib.sha1(json.dumps(obj, sort_keys=True, default=str).encode()).hexdigest()[:10]
        p = os.path.join(WORK, "replays", "%s-%s-%s.json" % (self.prop, tag, h))
        obj = dict(obj)
        obj["property"] = self.prop
        json.dump(obj, open(p, "w"), indent=1, default=str)
        return p

    def classify(self):
        """Oracle failures -> known findings / violations; broken proofs or ties -> violations."""
        known = [k for k in load_known() if k.get("property") == self.prop]
        open_keys = {k["key"]: k for k in known if k.get("status") == "open"}
        lines = []
        seen_known = set()
        viol = []
        for f in (self.meta or {}).get("failures", []):
            if f["key"] in open_keys:
                if f["key"] not in seen_known:
                    seen_known.add(f["key"])
                    lines.append("KNOWN-FINDING: property=%s %s: %s" % (self.prop, f["key"], f["what"][:300]))
                continue
            viol.append(f)
        # group violations by key
        bykey = {}
        for f in viol:
            bykey.setdefault(f["key"], []).append(f)
        out_viol = []
        for key, fs in bykey.items():
            rp = self.write_replay(re.sub(r"[^A-Za-z0-9]+", "_", key), {"key": key, "what": fs[0]["what"], "witnesses": [x["witness"] for x in fs],
                                                                          "broken_obligations": self.broken})
            out_viol.append("VIOLATION property=%s replay=%s" % (self.prop, rp))
        if self.broken and not out_viol:
            rp = self.write_replay("unproved", {"broken": self.broken, "coq_log": getattr(self, "coq_log", ""),
                                                 "note": "a theorem or the model/implementation correspondence no longer checks and the implementation-level oracle found no failing input"})
            out_viol.append("VIOLATION property=%s replay=%s no-failing-input-found" % (self.prop, rp))
        self.known_hits = sorted(seen_known)
        self.nviol = len(out_viol)
        return lines, out_viol

    def write_evidence(self, extra=None):
        meta = self.meta or {}
        cov = {
            "obligations": len(self.obligations),
            "discharged": len(self.discharged),
            "checker_cmd": self.checker_cmd,
            "trusted_base": self.trusted,
            "theorems": self.obligations,
            "assumptions": self.assumptions,
            "evaluations": int(meta.get("evaluations", 0)),
            "distinct_nontrivial": int(meta.get("distinct_nontrivial", 0)),
            "rule": meta.get("rule", ""),
            "samples": meta.get("samples", []) or [{"note": "no samples produced"}],
            "distribution": meta.get("distribution", {}),
            "broken": self.broken,
            "known_findings_reconfirmed": self.known_hits,
            "notes": meta.get("notes", []),
        }
        cov.update(self.coverage)
        if extra:
            cov.update(extra)
        ev = {
            "property_id": self.prop,
            "tier": self.tier,
            "seed": self.seed,
            "level": "proof",
            "coverage": cov,
            "assumptions": self.assume,
            "wall_s": round(time.time() - self.t0, 2),
            "violations": getattr(self, "nviol", 0),
        }
        os.makedirs(os.path.join(ROOT, "evidence"), exist_ok=True)
        json.dump(ev, open(os.path.join(ROOT, "evidence", "%s.json" % self.prop), "w"), indent=1, default=str)

    def finish(self):
        lines, viol = self.classify()
        self.write_evidence()
        for l in lines:
            print(l)
        for v in viol:
            print(v)
        print("%s %s: obligations=%d discharged=%d evaluations=%s broken=%d known=%d violations=%d wall=%.1fs" % (
            self.prop, self.tier, len(self.obligations), len(self.discharged), (self.meta or {}).get("evaluations"),
            len(self.broken), len(self.known_hits), len(viol), time.time() - self.t0))
        sys.exit(1 if viol else 0)


def standard(prop, tier, sub, files, timeout=1500, assume=None, trusted=None, coverage=None):
    """The usual pipeline: build, prove, harness, correspond, verdict."""
    c = Check(prop, tier)
    if assume:
        c.assume = assume
    if trusted:
        c.trusted += trusted
    if coverage:
        c.coverage.update(coverage)
    c.build()
    ok = c.prove(files)
    if ok and tier == "thorough":
        c.coqchk([f for f in files if f.startswith("Properties")])
    c.harness(sub, timeout=timeout)
    c.correspond()
    c.finish()
