#!/usr/bin/env python3
"""Regenerates /verif/MANIFEST.json from the table below (kept in one place so that it stays valid)."""
import json
import os
import subprocess

ROOT = os.path.dirname(os.path.dirname(os.path.abspath(__file__)))

HOOK_COMMITS = subprocess.run(["git", "-C", "/repo", "log", "--format=%H", "--grep=^verif:"], stdout=subprocess.PIPE, text=True).stdout.split()

# property -> (technique, level text, level note, design ref)
CLAIMED = {
    "C06": ("Coq theorems over a transliterated model of the three selection filters + exhaustive/sampled differential correspondence through verif hooks",
            "Theorems (Properties_C06.v): for every flag value, registry and validly registered checker the CLI filter, its twin and the analyzer filter equal the documented sentence (enable-all or name or tag, and not disabled by name or tag); the default sets of CLI, analyzer and docs marks equal 'no opt-in tag' and are re-proved over the registry regenerated from the source on every run; constructors run for exactly the selected checkers and an empty selection is an error. Tie: both CLI mains (bridge tests) and the analyzer hook are run on the same configurations as the model (all key lists of length <= 1, sampled longer ones) and the outputs are compared inside Coq by vm_compute; an independent Go oracle re-checks the sentence on every configuration and end-to-end on the built binaries.",
            "Trusted: Coq kernel + vm_compute; translator for gen/Registry.v; the bridge/hook code; flag package parsing is not modelled; TrimSpace modelled for ASCII only.",
            "§5 C06"),
    "C16": ("Coq theorems over a transliterated model of shortenLocation / file filters / print loop + differential correspondence (bridge and end-to-end binaries) + known-findings for isGenerated",
            "Theorems (Properties_C16.v): for EVERY working directory, GOPATH, GOROOT and absolute location the printed (shortened) location expands back to the original (C16_shorten_resolves; the pre-fix routine is refuted by C16_shorten_substring_refuted); run's exit status is the configured code iff at least one line is printed and the lines are exactly the warnings of the files passing the two filters, each once (C16_run_spec, C16_filter_spec); a standard marker in the first comment group is detected (partial), and the full 'skipped iff generated' statement is refuted in both directions (two recorded findings). Tie: 6000 path layouts (nesting, one path inside another) through both mains' shortenLocation and the model; header comments through isGenerated and the model; synthetic workspaces run with both binaries under flag combinations, stderr lines and exit status compared in Coq with the model's run on warnings computed in-process through the public API. Oracle: every printed location must resolve to an existing file and line:column; exit status vs lines; test/generated filters; no file silently skipped.",
            "Trusted: Coq kernel + vm_compute; bridge tests; CommentGroup.Text() and go/packages loading are inputs, not modelled; loader order abstracted by sorting; Windows separators and Getwd failure not covered.",
            "§5 C16"),
    "C15": ("Coq theorems over version parsing/comparison and a gate table regenerated from the shipped rule IR and GOROOT/api (translator) + behavioural correspondence per version",
            "Theorems (Properties_C15.v): the regenerated table of (rule, version gate, recommended std APIs with first Go version) satisfies 'every recommended API is older than 1.13 or covered by the rule's gate' (re-proved by vm_compute on every run) and therefore, for EVERY definite target version V >= 1.13, a rule whose gate admits V recommends only APIs existing in V (C15_no_future_api, unbounded in V); no version = newest; the linter's and the rule engine's comparators coincide and are lexicographic; accepted version strings have the shape <int>.<int> with optional go prefix; all three checker kinds consult the configured version (pre-fix dynamic plumbing refuted). Tie: linter.ParseGoVersion/GreaterOrEqual vs model on generated strings/grid; every gated group run on its positive examples at each version 1.13..newest+1/unset (fires iff gate_ok over the table); a user rule file through the dynamic checker; CLI -go end to end. Oracle: API tokens of diagnostics vs GOROOT/api at version V.",
            "Trusted: Coq kernel + vm_compute; translator (IR walk, template tokenizer, api parser); ruleguard's filter evaluation is tied behaviourally, not modelled; methods' first version = min over std types.",
            "§5 C15"),
    "C19": ("Coq theorems over the CLI step machine and the analyzer's cache/latch state machine (induction over pass histories) + correspondence on in-process pass histories and a fault matrix on the built binaries",
            "Theorems (Properties_C19.v): every invalid CLI configuration ends in log.Fatalf naming a step, never a panic (pre-fix runner refuted); for EVERY history of analyzer passes with arbitrarily changing flags no pass panics, an invalid configuration yields one init error followed only by skipped passes whatever the number of packages, a valid one behaves uniformly, and diagnostics only come from a fully initialised configuration (invariant cache_ok); the pre-fix second-pass nil dereference is refuted. Tie: all histories of length <= 3 over five flag configurations plus random longer ones are driven through Analyzer.Run in-process from a reset global state and compared in Coq with run_passes; the CLI step order is tied by single and paired faults on both mains. Oracle: fault matrix {bad -go, empty selection, unknown failOn, rules pattern without match, unparsable parameter, loader failure} x package counts x four binaries: non-zero exit, message names the problem, no panic/goroutine trace, no diagnostics; broken target packages (syntax/type errors, unresolved import, mixed package clauses) must not crash.",
            "Trusted: Coq kernel + vm_compute; configurations are abstracted to outcomes of fallible steps; go/packages behaviour on broken packages is oracle-only (partial).",
            "§5 C19"),
    "C14": ("Coq theorems over aliasing parameter cells, threshold predicates and gc sizes + boundary-construct and flag-plumbing correspondence through three front-ends",
            "Theorems (Properties_C14.v): for every registry with injective cells, every flag list and every parameter, the value the constructor reads after a front-end ran equals the last command-line occurrence or else the registered default (C14_flag_value_is_used); an integrator's write through GetCheckersInfo's info is seen (and would be lost with a deep copy: refuted variant); each threshold predicate is monotone and has the documented exact boundary (size >= threshold reported; exactly maxResults results not reported; bodyWidth statements reported; a chain of exactly minThreshold branches reported; a comment of exactly minLength runes not skipped); countIfelseLen's closed form by induction on the chain. Tie: generated constructs of measure exactly N run at thresholds N-1, N, N+1, 0, 1, 2^30 with the parameter overridden through CheckerInfo.Params, verdicts compared in Coq; random type terms: model gc_sizeof = go/types size = quoted '(N bytes)' = unsafe.Sizeof of a compiled program; random flag lists (incl. repeated flags) through both CLI mains and the analyzer flag set vs run_frontend; CLI/analyzer end-to-end runs with -@hugeParam.sizeThreshold. Oracle: documented boundaries, monotonicity of report sets, parameter values after flag parsing.",
            "Trusted: Coq kernel + vm_compute; bridge op 'params', analyzer hooks; gc sizes modelled for amd64 only; values compared in printed form; ruleguard's own parameters are C18's subject.",
            "§5 C14"),
    "C17": ("translator-regenerated Coq terms (shipped IR, freshly compiled IR, registry docs, overview rows, doc sub-command output) with decidable-equality theorems re-proved on every run",
            "Theorems (Properties_C17.v), all over terms regenerated from /repo's working tree on every run: the shipped ruleguard IR equals the IR obtained by compiling checkers/rules/rules.go today (sx_eqb proved sound, equality decided by vm_compute); rule groups and embedded checkers are in bijection preserving name, tags and trimmed summary/before/after/note, with no duplicate group; docs/overview.md's rows and sections are exactly the registered checkers and its total matches; `go-critic doc` lists exactly the registry with tags (marks agree with the selection rule by C06_docs_overview_marks_agree). A stale rulesdata.go, an edited rule, a renamed group or a stale overview breaks a proof obligation; the oracle then reports the first differing group/line as the failing input. Cross-checks independent of the translator: the repository's own go:generate command output compared byte for byte, a fresh makedocs run compared with docs/overview.md.",
            "Trusted: Coq kernel + vm_compute; the translator (reflection walk of *ir.File, doc parsers); ruleguard's irconv and IR loader are not modelled.",
            "§5 C17"),
    "C18": ("Coq theorems by induction over rule-file/pattern sequences of a transliterated newRuleguardChecker + fault-sequence correspondence with rule files materialised on disk",
            "Theorems (Properties_C18.v): for EVERY sequence of patterns and files (valid, unreadable, syntax error, DSL error, empty, unresolvable import) and every failOn/legacy/enable/disable value: an unknown failOn value is always an error; with rules given, initialisation fails iff some pattern matches nothing or some file fails with a listed class; otherwise exactly the enabled groups of the valid files are active (independent of where the skipped files sit) and the skipped files are exactly the faulty ones; nothing loaded => no-op; the group filter equals the documented sentence and experimental groups run only on request; the two pre-fix deviations are refuted. Tie: random fault sequences materialised on disk (dangling symlinks, globs with 0/1/many matches, malformed globs) and loaded through linter.NewChecker; error class, firing groups on a trigger file and skip-log lines compared in Coq with the model. Oracle: the property's sentences evaluated directly on the same runs.",
            "Trusted: Coq kernel + vm_compute; ruleguard's classification of load errors is observed (a DSL/import error inside a group rejected by the filter does not occur; modelled as such after the tie showed it); Glob ordering; ASCII TrimSpace.",
            "§5 C18"),
    "C08": ("Coq theorems over the start-up event order, diagnostic rendering and package-unit selection vs driver de-duplication + four-binary differential correspondence",
            "Theorems (Properties_C08.v): with the start-up order the code has today the analyzer's registry snapshot equals the CLI's registry for every pair of hand-written/embedded registries (pre-fix order refuted: it offers only the hand-written checkers); a diagnostic renders to the same 'location: checker: message' line through asDiag and through the CLI; quick fixes are forwarded field by field; for every well-formed package unit the CLI analyses each file exactly once and the analysis driver (all variants + de-duplication) covers exactly the same files once each. Tie/oracle: a workspace with in-package tests, an external test package, nested and multiple packages analysed by go-critic, gocritic, go-critic-analysis and gocritic-analysis under equivalent configurations in both flag dialects (defaults, enable-all, hand-written names, embedded names, tags, a parameter) and different package argument sets: normalised (file,line,col,checker,message) lists equal and duplicate-free, rendered lines compared with the model in Coq; analyzer -flags covers every parameter; analyzer -json suggested edits equal in-process Warning.Suggestion.",
            "Trusted: Coq kernel + vm_compute; the event-order model is a hand abstraction of Go's package initialisation (tied behaviourally by the differential run); x/tools driver de-duplication assumed as documented; partial: equality of diagnostics across package variants is measured, not proved.",
            "§5 C08"),
    "C11": ("Coq model of Go's regexp semantics (CPS backtracking matcher with priorities and captures) and a transliteration of regexpSimplify; per-rule theorems, a certified normaliser, refutations; correspondence of simplifier and matcher with the real code; regexp-level oracle",
            "Theorems (Properties_C11.v): observational equivalence (all answer types, subjects, offsets, capture registers, continuations) is a congruence and implies equal FindStringSubmatchIndex vectors; one theorem per rewrite rule ({0,1}/{1,}/{0,}/{1}/{0}, xx*=>x+, run folding, alternation=>class, single-element class, small ranges, both class tables, escape removal, prefix/suffix factoring, group unwrapping), _partial where a guard is needed; C11_simplify_sound_partial: for every parse tree e with certified e = true (a decidable certificate: equal normal forms under a normaliser proved sound, same flags/groups/names) one pass of the simplifier is equivalent to e on all subjects; 18 _refuted theorems with concrete (tree, subject) witnesses, one per defect class. NOT a theorem: that certified holds for every tree avoiding the guards (the induction over the walker is missing), and that Go's regexp parses the emitted text to the tree the simplifier meant. Tie: for every generated pattern (testdata strings, defect corpus, grammar/meta/class/loop/mutation streams, <= 60 bytes, accepted by regexp.Compile) the tree of the real parser is dumped, the real checker is run through linter.NewChecker on a type-checked generated file, and Coq compares the model's two-pass text with the observed rewrite; the matcher is compared with regexp.FindStringSubmatchIndex; the certificate pattern-tree ~ tree-of-final-rewrite is evaluated by the kernel for every rewrite and must be false wherever the oracle (both sides compiled by regexp, all subjects up to length 4-5 over the pattern's alphabet + foreign rune, \\n, \\v) finds a difference.",
            "Trusted: Coq kernel + vm_compute; Go's regexp engine is modelled and differentially validated, not verified; quasilyte/regex/syntax is an input (its trees are dumped); harness internal/c11 (generators, dump, shrinking and classification of witnesses). Case folding modelled for ASCII + U+212A + U+017F; \\p{..} and an operator directly after a flag group are outside the model.",
            "§5 C11"),
}

NOT_APPLICABLE = {}

ALL = ["C%02d" % i for i in range(1, 21)]


def main():
    checks = []
    for pid in ALL:
        if pid not in CLAIMED:
            continue
        tech, text, note, ref = CLAIMED[pid]
        checks.append({
            "property_id": pid,
            "quick_cmd": "bin/check %s quick" % pid,
            "thorough_cmd": "bin/check %s thorough" % pid,
            "evidence_file": "/verif/evidence/%s.json" % pid,
            "replay_cmd_template": "bin/check %s --replay {path}" % pid,
            "engine": "coq-proof+correspondence",
            "level_claimed": {"category": "proof", "text": text, "design_ref": ref},
            "level_note": note,
            "technique": tech,
        })
    na = []
    for pid in ALL:
        if pid in CLAIMED:
            continue
        reason = NOT_APPLICABLE.get(pid, "not claimed yet: the Coq model, theorems and tie for this property are not built at this commit (planned, see DESIGN.md §5/§8)")
        na.append({"property_id": pid, "reason": reason})
    m = {
        "version": 1,
        "setup_cmd": "bin/setup",
        "hooks": {
            "guard": "verif",
            "enable": "go build -tags verif / go test -tags verif -run TestVerifBridge (Go build tag; hook files are add-only and carry //go:build verif)",
            "baseline_off_cmd": "cd /repo && GOFLAGS=-mod=mod GOPROXY=off GOSUMDB=off GOTOOLCHAIN=local go test -vet=off -count=1 -timeout 25m ./...",
            "source_commits": HOOK_COMMITS,
            "add_only": True,
        },
        "engines": [
            {"name": "coq-proof+correspondence", "path": "/verif/coq, /verif/harness, /verif/lib",
             "serves_properties": sorted(CLAIMED),
             "kind_free_text": "Coq 8.16.1 development (models, proofs, property theorems; generated tables re-proved each run) tied to /repo by a Go harness that runs the implementation and the vm_compute-evaluated model on the same cases, plus implementation-level oracles that search for concrete failing inputs"},
        ],
        "checks": checks,
        "not_applicable": na,
        "notes": "bin/check <id> quick|thorough rebuilds harness and binaries from /repo's working tree (tag verif), regenerates coq/gen, re-runs make, evaluates the correspondence in Coq, runs the oracle and writes evidence/<id>.json. known_findings.json lists recorded genuine defects.",
    }
    json.dump(m, open(os.path.join(ROOT, "MANIFEST.json"), "w"), indent=1)


if __name__ == "__main__":
    main()
