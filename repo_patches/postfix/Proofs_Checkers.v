(* Proofs_Checkers.v — lemmas about the transliterated checkers (Model_Checkers.v). *)
From GC Require Import Base GoAst Model_Checkers.
From Coq Require Import PArith FSets.FSetPositive.

(* ---------- outcome sequencing ---------- *)
Lemma seq_o_no_panic l :
  (forall o, In o l -> forall s, o <> Panic s) -> forall s, seq_o l <> Panic s.
Proof.
  induction l as [|o r IH]; simpl; intros H s; [discriminate|].
  destruct o as [ws|s0].
  - assert (Hr : forall s, seq_o r <> Panic s) by (apply IH; intros; apply H; auto).
    destruct (seq_o r) as [ws'|s1]; [discriminate|]. exfalso. exact (Hr s1 eq_refl).
  - exfalso. exact (H (Panic s0) (or_introl eq_refl) s0 eq_refl).
Qed.

Lemma seq_o_warnings l w :
  In w (warnings (seq_o l)) -> exists o, In o l /\ In w (warnings o).
Proof.
  induction l as [|o r IH]; simpl; [tauto|].
  destruct o as [ws|s0]; simpl; [|tauto].
  destruct (seq_o r) as [ws'|s1] eqn:E; simpl; [|tauto].
  intros H. apply in_app_or in H as [H|H].
  - exists (Ok ws). simpl. auto.
  - destruct (IH H) as [o [Ho Hw]]. exists o. auto.
Qed.

(* ---------- the pre-order list is closed under children ---------- *)
Lemma pre_self n : In n (pre n).
Proof. destruct n; simpl; auto. Qed.

Lemma pres_in l k : In k (to_list l) -> forall m, In m (pre k) -> In m (pres l).
Proof.
  induction l as [|n r IH]; simpl; [tauto|].
  intros [->|H] m Hm; apply in_or_app; [left; exact Hm|right; eapply IH; eauto].
Qed.

Lemma pre_kid n k : In k (kids n) -> forall m, In m (pre k) -> In m (pre n).
Proof.
  destruct n as [t p s a b f ks]. unfold kids; simpl. intros H m Hm. right. eapply pres_in; eauto.
Qed.

Combined Scheme node_mutind from node_ind2, nodes_ind2.

Lemma pre_trans_aux :
  (forall n m, In m (pre n) -> forall k, In k (pre m) -> In k (pre n)) /\
  (forall l m, In m (pres l) -> forall k, In k (pre m) -> In k (pres l)).
Proof.
  apply node_mutind; simpl; intros.
  - destruct H0 as [<-|H0]; [exact H1|]. right. eapply H; eauto.
  - contradiction.
  - apply in_app_or in H1 as [H1|H1]; apply in_or_app; [left; eapply H; eauto|right; eapply H0; eauto].
Qed.

Lemma pre_trans n m k : In m (pre n) -> In k (pre m) -> In k (pre n).
Proof. intros; eapply (proj1 pre_trans_aux); eauto. Qed.

Lemma kid_in_pre n k : In k (kids n) -> In k (pre n).
Proof. intros H. eapply pre_kid; eauto. apply pre_self. Qed.

Lemma post_in_pre_aux :
  (forall n m, In m (post n) -> In m (pre n)) /\ (forall l m, In m (posts l) -> In m (pres l)).
Proof.
  apply node_mutind; simpl; intros.
  - apply in_app_or in H0 as [H0|[<-|[]]]; auto.
  - contradiction.
  - apply in_app_or in H1 as [H1|H1]; apply in_or_app; auto.
Qed.

Lemma post_in_pre n m : In m (post n) -> In m (pre n).
Proof. apply (proj1 post_in_pre_aux). Qed.

(* ---------- where the walkers' nodes come from ---------- *)
Lemma all_nodes_pre f d n : In d (decls f) -> In n (pre d) -> In n (all_nodes f).
Proof. intros Hd Hn. unfold all_nodes. apply in_flat_map. eauto. Qed.

Lemma all_nodes_closed f n k : In n (all_nodes f) -> In k (pre n) -> In k (all_nodes f).
Proof.
  unfold all_nodes. intros H Hk. apply in_flat_map in H as [d [Hd Hn]]. apply in_flat_map. exists d. split; auto.
  eapply pre_trans; eauto.
Qed.

Lemma all_nodes_kid f n k : In n (all_nodes f) -> In k (kids n) -> In k (all_nodes f).
Proof. intros. eapply all_nodes_closed; eauto. apply kid_in_pre; auto. Qed.

Lemma expr_nodes_in f e : In e (expr_nodes f) -> In e (all_nodes f).
Proof.
  unfold expr_nodes. intros H. apply in_flat_map in H as [d [Hd He]].
  destruct (decl_entered d); [|contradiction]. apply filter_In in He as [He _]. eapply all_nodes_pre; eauto.
Qed.

Lemma func_body_in d b : func_body d = Some b -> In b (kids d).
Proof.
  unfold func_body. destruct (is_tag TFuncDecl d && N.eqb (nb d) 1); [|discriminate].
  intros H. eapply nth_error_In; eauto.
Qed.

Lemma stmt_nodes_in f s : In s (stmt_nodes f) -> In s (all_nodes f).
Proof.
  unfold stmt_nodes. intros H. apply in_flat_map in H as [d [Hd Hs]].
  destruct (func_body d) as [b|] eqn:E; [|contradiction]. apply filter_In in Hs as [Hs _].
  eapply all_nodes_pre; eauto. eapply pre_kid; eauto. eapply func_body_in; eauto.
Qed.

Lemma skipn_In' {A} (n : nat) (l : list A) x : In x (skipn n l) -> In x l.
Proof. revert l; induction n; intros [|y r]; simpl; auto. Qed.

Lemma firstn_In' {A} (n : nat) (l : list A) x : In x (firstn n l) -> In x l.
Proof. revert l; induction n; intros [|y r]; simpl; try tauto. intros [H|H]; auto. Qed.

Lemma stmt_lists_in f l s : In l (stmt_lists f) -> In s l -> In s (all_nodes f).
Proof.
  unfold stmt_lists. intros H Hs. apply in_flat_map in H as [d [Hd Hl]].
  destruct (func_body d) as [b|] eqn:E; [|contradiction].
  apply in_flat_map in Hl as [n [Hn Hl]].
  assert (Hn' : In n (all_nodes f)).
  { eapply all_nodes_pre; eauto. eapply pre_kid; eauto. eapply func_body_in; eauto. }
  eapply all_nodes_kid; eauto.
  unfold stmt_list_of in Hl. destruct (ntag n); simpl in Hl; try contradiction;
    destruct Hl as [<-|[]]; auto; eapply skipn_In'; eauto.
Qed.

(* ---------- token starts ---------- *)
Lemma succ_pos_inj' a b : N.succ_pos a = N.succ_pos b -> a = b.
Proof. intros H. apply (f_equal Npos) in H. rewrite !N.succ_pos_spec in H. apply N.succ_inj. exact H. Qed.

Lemma starts_set_In l p : PositiveSet.mem (N.succ_pos p) (starts_set l) = true -> In p l.
Proof.
  induction l as [|q r IH]; simpl; intros H.
  - discriminate.
  - apply PositiveSet.mem_2 in H. apply PositiveSet.add_spec in H. destruct H as [H|H].
    + left. apply succ_pos_inj' in H. auto.
    + right. apply IH. apply PositiveSet.mem_1. exact H.
Qed.

Lemma wf_node_of f n : wf f = true -> In n (all_nodes f) -> wf_node n = true.
Proof.
  unfold wf. intros H Hn. rewrite forallb_forall in H. apply H in Hn. apply andb_true_iff in Hn. tauto.
Qed.

Lemma wf_pos_of f n : wf f = true -> In n (all_nodes f) -> In (npos n) (token_starts f).
Proof.
  unfold wf. intros H Hn. rewrite forallb_forall in H. apply H in Hn. apply andb_true_iff in Hn as [_ Hp].
  apply starts_set_In. exact Hp.
Qed.

(* ---------- run-level lifting ---------- *)
Lemma run_expr_total visit f :
  (forall e, In e (all_nodes f) -> forall s, visit e <> Panic s) -> forall s, run_expr visit f <> Panic s.
Proof.
  intros H. unfold run_expr. apply seq_o_no_panic. intros o Ho. apply in_map_iff in Ho as [e [<- He]].
  apply H. apply expr_nodes_in; auto.
Qed.

Lemma run_stmt_total visit f :
  (forall e, In e (all_nodes f) -> forall s, visit e <> Panic s) -> forall s, run_stmt visit f <> Panic s.
Proof.
  intros H. unfold run_stmt. apply seq_o_no_panic. intros o Ho. apply in_map_iff in Ho as [e [<- He]].
  apply H. apply stmt_nodes_in; auto.
Qed.

Lemma run_stmt_list_total visit f :
  (forall l, (forall s, In s l -> In s (all_nodes f)) -> forall s, visit l <> Panic s) ->
  forall s, run_stmt_list visit f <> Panic s.
Proof.
  intros H. unfold run_stmt_list. apply seq_o_no_panic. intros o Ho. apply in_map_iff in Ho as [l [<- Hl]].
  apply H. intros s Hs. eapply stmt_lists_in; eauto.
Qed.

Lemma run_expr_warn visit f w :
  In w (warnings (run_expr visit f)) -> exists e, In e (all_nodes f) /\ In w (warnings (visit e)).
Proof.
  unfold run_expr. intros H. apply seq_o_warnings in H as [o [Ho Hw]]. apply in_map_iff in Ho as [e [<- He]].
  exists e. split; auto. apply expr_nodes_in; auto.
Qed.

Lemma run_stmt_warn visit f w :
  In w (warnings (run_stmt visit f)) -> exists e, In e (all_nodes f) /\ In w (warnings (visit e)).
Proof.
  unfold run_stmt. intros H. apply seq_o_warnings in H as [o [Ho Hw]]. apply in_map_iff in Ho as [e [<- He]].
  exists e. split; auto. apply stmt_nodes_in; auto.
Qed.

Lemma run_stmt_list_warn visit f w :
  In w (warnings (run_stmt_list visit f)) ->
  exists l, (forall s, In s l -> In s (all_nodes f)) /\ In w (warnings (visit l)).
Proof.
  unfold run_stmt_list. intros H. apply seq_o_warnings in H as [o [Ho Hw]]. apply in_map_iff in Ho as [l [<- Hl]].
  exists l. split; auto. intros s Hs. eapply stmt_lists_in; eauto.
Qed.

(* a guard given as a boolean on nodes holds for every node of the file *)
Definition all_nodes_sat (g : node -> bool) (f : file) : Prop := forallb g (all_nodes f) = true.

Lemma sat_of g f n : all_nodes_sat g f -> In n (all_nodes f) -> g n = true.
Proof. unfold all_nodes_sat. rewrite forallb_forall. auto. Qed.

(* ================= totality ================= *)
Lemma tag_eqb_eq x y : tag_eqb x y = true -> x = y.
Proof.
  destruct x as [| | | | | | | | | | | | | | | | | | | | | | | | | | | | | c];
    destruct y as [| | | | | | | | | | | | | | | | | | | | | | | | | | | | | c'];
    simpl; try discriminate; try reflexivity; try (destruct c; discriminate).
  destruct c, c'; simpl; try discriminate; reflexivity.
Qed.

Lemma is_tag_eq t n : is_tag t n = true -> ntag n = t.
Proof. unfold is_tag. apply tag_eqb_eq. Qed.

Ltac dmatch :=
  repeat (match goal with
          | |- context [match ?x with _ => _ end] => destruct x eqn:?
          | |- context [if ?x then _ else _] => destruct x eqn:?
          end; try discriminate).

Lemma filepathJoin_visit_total e s : filepathJoin_visit e <> Panic s.
Proof. unfold filepathJoin_visit. dmatch. Qed.

Lemma filepathJoin_total f : forall s, run_filepathJoin f <> Panic s.
Proof. apply run_expr_total. intros. apply filepathJoin_visit_total. Qed.

Lemma rangeAppendAll_visit_total e s : rangeAppendAll_visit e <> Panic s.
Proof. unfold rangeAppendAll_visit. dmatch. Qed.

Lemma rangeAppendAll_total f : forall s, run_rangeAppendAll f <> Panic s.
Proof. apply run_stmt_total. intros. apply rangeAppendAll_visit_total. Qed.

(* --- checkers whose fixed code has no reachable partial operation left --- *)
Lemma regexp_entry_total names who f : forall s, run_expr (regexp_entry names who) f <> Panic s.
Proof. apply run_expr_total. intros e He s. unfold regexp_entry. dmatch. Qed.

Lemma newDeref_total f : forall s, run_newDeref f <> Panic s.
Proof.
  apply run_expr_total. intros e He s. unfold newDeref_visit.
  destruct e as [t p str a b ff ks]. destruct t; try discriminate. dmatch.
Qed.

Lemma dupOption_total f : forall s, run_dupOption f <> Panic s.
Proof. apply run_expr_total. intros e He s. unfold dupOption_visit. dmatch. Qed.

Lemma sortSlice_total f : forall s, run_sortSlice f <> Panic s.
Proof. apply run_expr_total. intros e He s. unfold sortSlice_visit. dmatch. Qed.

Lemma has_ptr_recv_total sel s : has_ptr_recv sel <> P s.
Proof. unfold has_ptr_recv. dmatch. Qed.

Lemma eo_call_total id call s : eo_call id call <> Panic s.
Proof.
  unfold eo_call. cbv zeta. dmatch; try discriminate.
  exfalso. eapply has_ptr_recv_total; eassumption.
Qed.

Lemma evalOrder_total f : forall s, run_evalOrder f <> Panic s.
Proof.
  apply run_stmt_total. intros e He s. unfold evalOrder_visit.
  destruct (negb (is_tag TReturn e)); [discriminate|]. destruct (Nat.ltb _ 2); [discriminate|].
  apply seq_o_no_panic. intros o Ho. apply in_map_iff in Ho as [id [<- Hid]].
  destruct (is_tag TIdent id); [|discriminate].
  apply seq_o_no_panic. intros o Ho. apply in_map_iff in Ho as [call [<- Hc]]. apply eo_call_total.
Qed.

Lemma ac_match_total stmt slice s : ac_match stmt slice <> P s.
Proof. unfold ac_match. dmatch. Qed.

Lemma ac_loop_total l : forall cause slice chain s, ac_loop l cause slice chain <> Panic s.
Proof.
  induction l as [|stmt r IH]; simpl; intros cause slice chain s; [discriminate|].
  destruct (ac_match stmt slice) as [[[fn a0]|]|s0] eqn:E.
  - destruct (Nat.eqb chain 0); apply IH.
  - specialize (IH cause None 0). destruct (ac_loop r cause None 0); [discriminate|]. exfalso. eapply IH; eauto.
  - exfalso. eapply ac_match_total; eauto.
Qed.

Lemma appendCombine_total f : forall s, run_appendCombine f <> Panic s.
Proof. apply run_stmt_list_total. intros l Hl s. apply ac_loop_total. Qed.

(* --- flagName --- *)
Lemma arity_ok_pos nargs ell fm np rc o :
  arity_ok nargs ell fm (Sig np false rc o) = true -> (0 < np)%N -> 0 < nargs.
Proof.
  unfold arity_ok. intros H Hp.
  destruct (Nat.eqb nargs 1 && negb (N.eqb fm 0) && negb ell) eqn:E.
  - apply andb_true_iff in E as [E _]. apply andb_true_iff in E as [E _]. apply Nat.eqb_eq in E. lia.
  - apply Nat.eqb_eq in H. lia.
Qed.

Local Arguments mem : simpl never.

Lemma flagName_total f :
  wf f = true -> forall s, run_flagName f <> Panic s.
Proof.
  intros W. apply run_expr_total. intros e He s.
  pose proof (wf_node_of _ _ W He) as We.
  unfold flagName_visit.
  destruct (is_tag TCall e) eqn:Tc; simpl; [|discriminate].
  unfold wf_node in We. rewrite (is_tag_eq _ _ Tc) in We.
  apply andb_true_iff in We as [_ We]. unfold wf_call in We.
  destruct (kids e) as [|fn args] eqn:Ke; [discriminate|].
  assert (Hfn0 : In fn (all_nodes f)) by (eapply all_nodes_kid; eauto; rewrite Ke; left; reflexivity).
  destruct fn as [t p str a b ff ks]; destruct t; try discriminate.
  destruct ks as [|x [|sel [|? ?]]]; try discriminate.
  destruct (is_tag TIdent x) eqn:Tx; simpl; [|discriminate].
  destruct (obj_of x) eqn:Ox; try discriminate.
  destruct (String.eqb path "flag") eqn:Ep; simpl; [|discriminate].
  apply String.eqb_eq in Ep. subst path.
  destruct x as [tx px sx ax bx fx kx]. unfold is_tag in Tx. simpl in Tx. apply tag_eqb_eq in Tx; subst tx.
  unfold obj_of in Ox. simpl in Ox.
  (* the selector's Sel is an identifier by wf of the selector node itself *)
  pose proof (wf_node_of _ _ W Hfn0) as Wfn. unfold wf_node in Wfn. simpl in Wfn.
  rename Wfn into Ts. destruct sel as [ts ps ss as_ bs fs ksl].
  unfold is_tag in Ts. simpl in Ts. apply tag_eqb_eq in Ts; subst ts.
  simpl in We. rewrite Ox in We. simpl in We. simpl.
  destruct (mem ss flag_names1) eqn:M1.
  - (* Args[0]: the API has three parameters *)
    unfold api_arity in We. simpl in We. rewrite M1 in We.
    apply andb_true_iff in We as [We Wapi]. apply andb_true_iff in We as [Wa _].
    destruct (f_sig ff) as [|np v rc o]; [discriminate Wapi|]. destruct v; [discriminate Wapi|].
    apply N.eqb_eq in Wapi. subst np.
    destruct (f_istype ff).
    + apply Nat.eqb_eq in Wa. destruct args; [discriminate Wa|discriminate].
    + apply arity_ok_pos in Wa; [|reflexivity]. destruct args; [simpl in Wa; lia|discriminate].
  - destruct (mem ss flag_names2) eqn:M2; [|discriminate].
    destruct args as [|a0 [|a1 ?]]; discriminate.
Qed.

