(* POST-FIX VARIANT of Properties_C01.v: after repo_patches/c01-fix-*.diff the _refuted theorems are gone and the
   full _total theorems hold for every well-formed model file (no guard hypotheses). Swap in together with
   postfix/Model_Checkers.v and postfix/Proofs_Checkers.v; Proofs_Witnesses.v keeps only the C20 refutations.
   typeDefFirst and appendAssign: their post-fix totality needs wf (recv_shape / `f(x...)` has an argument); the
   proofs are the current _partial scripts with the guard replaced by the wf clause and are not included here. *)
From GC Require Import Base GoAst Model_Checkers Proofs_Checkers.

Theorem C01_filepathJoin_total : forall f, wf f = true -> forall s, run_filepathJoin f <> Panic s.
Proof. exact (fun f _ => filepathJoin_total f). Qed.
Theorem C01_rangeAppendAll_total : forall f, wf f = true -> forall s, run_rangeAppendAll f <> Panic s.
Proof. exact (fun f _ => rangeAppendAll_total f). Qed.
Theorem C01_appendCombine_total : forall f, wf f = true -> forall s, run_appendCombine f <> Panic s.
Proof. exact (fun f _ => appendCombine_total f). Qed.
Theorem C01_newDeref_total : forall f, wf f = true -> forall s, run_newDeref f <> Panic s.
Proof. exact (fun f _ => newDeref_total f). Qed.
Theorem C01_sortSlice_total : forall f, wf f = true -> forall s, run_sortSlice f <> Panic s.
Proof. exact (fun f _ => sortSlice_total f). Qed.
Theorem C01_evalOrder_total : forall f, wf f = true -> forall s, run_evalOrder f <> Panic s.
Proof. exact (fun f _ => evalOrder_total f). Qed.
Theorem C01_dupOption_total : forall f, wf f = true -> forall s, run_dupOption f <> Panic s.
Proof. exact (fun f _ => dupOption_total f). Qed.
Theorem C01_flagName_total : forall f, wf f = true -> forall s, run_flagName f <> Panic s.
Proof. exact flagName_total. Qed.
Theorem C01_badRegexp_total : forall f, wf f = true -> forall s, run_badRegexp_entry f <> Panic s.
Proof. exact (fun f _ => regexp_entry_total badRegexp_names "badRegexp" f). Qed.
Theorem C01_regexpPattern_total : forall f, wf f = true -> forall s, run_regexpPattern_entry f <> Panic s.
Proof. exact (fun f _ => regexp_entry_total regexpPattern_names "regexpPattern" f). Qed.
Theorem C01_regexpSimplify_total : forall f, wf f = true -> forall s, run_regexpSimplify_entry f <> Panic s.
Proof. exact (fun f _ => regexp_entry_total regexpSimplify_names "regexpSimplify" f). Qed.
Print Assumptions C01_flagName_total.
