//go:build ignore
// +build ignore

// User rules for the dynamic `ruleguard` checker, loaded by the framework-law oracles (C02/C03/C05/C13) through the
// checker's own `rules` parameter. They use type filters, package-path and import filters, i.e. everything that the
// rule engine takes from the per-package / per-file run context.
package gorules

import "github.com/quasilyte/go-ruleguard/dsl"

func verifTyped(m dsl.Matcher) {
	m.Match(`$x == $y`).
		Where(m["x"].Type.Is(`string`) && m["y"].Type.Is(`string`)).
		Report(`verif: string comparison $x == $y`)
	m.Match(`len($x)`).
		Where(m["x"].Type.Is(`[]int`)).
		Report(`verif: len of an int slice $x`)
	m.Match(`$x.Error()`).
		Where(m["x"].Type.Implements(`error`)).
		Report(`verif: Error() on an error value $x`)
	m.Match(`$x + $y`).
		Where(m["x"].Type.Is(`float64`) && m["y"].Const).
		Report(`verif: float64 plus constant`)
}

func verifPkg(m dsl.Matcher) {
	m.Match(`return $*_`).
		Where(m.File().PkgPath.Matches(`(chains|selects|stalectx|dupCase|elseif)$`)).
		Report(`verif: return in a selected package`)
	m.Match(`$f($*_)`).
		Where(m.File().Imports(`os`) && m["f"].Text.Matches(`^os\.[A-Z]\w*$`)).
		Report(`verif: os call in a file importing os`)
	m.Match(`$f($*_)`).
		Where(m.File().Name.Matches(`^negative`) && m["f"].Text == "println").
		Report(`verif: println in a negative example`)
}
