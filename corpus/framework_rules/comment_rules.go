//go:build ignore
// +build ignore

// User rules for the dynamic `ruleguard` checker that match COMMENTS (C01/C07 parameter sweep of the crash oracle).
package gorules

import "github.com/quasilyte/go-ruleguard/dsl"

func verifComment(m dsl.Matcher) {
	m.MatchComment(`FIXME`).Report(`verif: FIXME marker in a comment`)
	m.MatchComment(`//\s*XXX(?P<rest>.*)`).Report(`verif: XXX comment$rest`)
}
