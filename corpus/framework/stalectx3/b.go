package stalectx3

import (
	"bytes"
	"strings"
)

func plain(b, str int) string { return strings.ToUpper(bytes.NewBufferString("x").String()) }
