package stalectx3

func none(b, str, bytes, strings int) int { return b + str + bytes + strings }
