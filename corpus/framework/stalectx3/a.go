package stalectx3

import (
	b "bytes"
	str "strings"
)

// renamed imports (PkgRenames) followed by files that do not rename / do not import
func renamed() string { return str.ToUpper(b.NewBufferString("x").String()) }
