package rewrites

// Every rewrite rule of boolExprSimplify (doubleNegation, negatedEquals, invertComparison, combineChecks,
// removeIncDec, foldRanges), at the root and nested, for int, float and string operands.

func bInt(a, b int, p, q bool) []bool {
	return []bool{
		!!p, p && !!q, !(!p), p || !(!q),
		!p == !q, (!p == !q) || p,
		!(a == b), !(a != b), !(a < b), !(a > b), !(a <= b), !(a >= b), p && !(a < b),
		a > b || a == b, a == b || a > b, a < b || a == b, a == b || a < b, p && (a > b || a == b),
		a > b-1, a+1 > b, a >= b+1, a-1 >= b, a < b+1, a-1 < b, a <= b-1, a+1 <= b, p || a+1 > b,
		a > 1 && a < 3, a >= 1 && a < 2, a > 1 && a <= 2, a >= 1 && a <= 1,
		a < 1 || a > 1, a <= 1 || a > 2, a < 1 || a >= 2, a <= 1 || a >= 3, p && (a > 1 && a < 3),
	}
}

func bFloat(x, y float64, p, q bool) []bool {
	return []bool{
		!!(x > y), p && !!(x > y), p || !(!(x == y)),
		!(x < y) == !(y < x), (!(x < y) == !(y < x)) || p, !p == !(x > y),
		!(x == y), !(x != y), !(x < y), !(x > y), !(x <= y), !(x >= y), p && !(x < y),
		x > y || x == y, x == y || x > y, x < y || x == y, x == y || x < y, p && (x > y || x == y), q || (x < y || x == y),
		x > y-1, x+1 > y, x >= y+1, x-1 >= y, x < y+1, x-1 < y, x <= y-1, x+1 <= y,
		x > 1 && x < 3, x >= 1 && x < 2, x < 1 || x > 1, x <= 1 || x >= 3,
	}
}

func bFloat32(score, limit float32, ok bool) bool {
	if score > limit || score == limit {
		return !!ok
	}
	if !ok == !(score < limit) {
		return score < limit || score == limit
	}
	return ok && (score == limit || score > limit)
}

func bString(s, t string, p bool) []bool {
	return []bool{
		!!(s == t), p && !!(s < t),
		!(s < t) == !(t < s), !p == !(s == t),
		!(s == t), !(s != t), !(s < t), !(s > t), !(s <= t), !(s >= t),
		s > t || s == t, s == t || s > t, s < t || s == t, s == t || s < t, p && (s > t || s == t),
	}
}

func bMixed(a int, x float64, s string, p bool) bool {
	return (a > 1 && a < 3) || (x > 1 || x == 1) || !(s == "k") || !!p
}
