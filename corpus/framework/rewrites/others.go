package rewrites

import "errors"

// typeUnparen: every parenthesised type form
type (
	u1 [](func())
	u2 map[(string)](*int)
	u3 chan (int)
	u4 func((int)) (string)
	u5 *(int)
	u6 [4](float64)
	u7 struct{ f (string) }
)

func unparen(v interface{}) (int, bool) {
	x, ok := v.((int))
	var f func() (*float64) = nil
	_ = f
	_ = [](*string){nil}
	return x, ok
}

// paramTypeCombine: params and results, int / float / string
func combineI(a int, b int) (x int, y int)             { return a, b }
func combineF(a float64, b float64, c string) float64  { return a + b }
func combineS(a string, b string) (x string, y string) { return a, b }
func combineM(a, b int, c int, d string, e string)      {}

// badCond
func badCondI(x int) bool       { return x < 10 && x > 20 }
func badCondF(x float64) bool   { return x < 1.5 && x > 2.5 }
func badCondS(x string) bool    { return x == "a" && x == "b" }
func badCondE(x int) bool       { return x == 1 && x == 2 }
func badCondLoop(n int) (s int) { for i := 0; i > n; i++ { s += i }; return s }
func badCondOr(x int) bool      { return x != 1 || x != 2 }

// methodExprCall
type rec struct{ n int }

func (r rec) val() int   { return r.n }
func (r *rec) ptr() int  { return r.n }
func methodExpr(r rec) int { return rec.val(r) + (*rec).ptr(&r) }

// sloppyReassign
func mayFail() error { return errors.New("x") }
func sloppy() error {
	var err error
	if err = mayFail(); err != nil {
		return err
	}
	var n int
	if n = len("abc"); n > 2 {
		return nil
	}
	var f float64
	if f = 1.5; f > 1 {
		return nil
	}
	return err
}

// evalOrder
type ctr struct{ n int }

func (c *ctr) inc() int { c.n++; return c.n }
func evalOrderI(c *ctr) (*ctr, int)   { return c, c.inc() }
func evalOrderS(c ctr) (ctr, int)     { return c, c.inc() }

// assignOp / yodaStyleExpr / underef
func assignOps(i int, f float64, s string, p *rec, arr *[3]int) (int, float64, string) {
	i = i + 1
	i = i * 2
	f = f - 1.5
	f = f / 2
	s = s + "x"
	if nil != p && 1 == i && 1.5 == f && "a" == s {
		(*p).n = (*arr)[0]
	}
	return i, f, s
}
