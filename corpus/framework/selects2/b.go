package selects2

// files that START with select statements (no expression switch before them): identical comm clauses in
// different statements, functions and files are not duplicates.
func firstB(done chan struct{}, in chan int) int {
	select {
	case <-done:
		return 0
	case v := <-in:
		return v
	}
}

func secondB(done chan struct{}, in chan int) int {
	select {
	case <-done:
		return 1
	case v := <-in:
		return v + 1
	}
}

func thirdB(done chan struct{}, out chan int) {
	for {
		select {
		case <-done:
			return
		case out <- 1:
		}
		select {
		case <-done:
			return
		default:
		}
	}
}

func realDupB(done chan struct{}) {
	select {
	case <-done:
	case <-done:
	}
}
