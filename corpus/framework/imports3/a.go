package imports3

import (
	"fmt"
	f2 "fmt"
	"os"
	o2 "os"
	"strings"
	s2 "strings"
	s3 "strings"
)

func use() {
	fmt.Println(f2.Sprint(os.Args, o2.Args, strings.ToUpper("x"), s2.ToLower("y"), s3.Title("z")))
}
