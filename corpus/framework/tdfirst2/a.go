package tdfirst2

// ... and must not warn here (same type names, types first), whatever was analysed before.
type T int

type U struct{}

func (t T) M() int { return int(t) }

func (u *U) N() {}

type V struct{}
