package stalectx2

// import-less package whose locals are named like the imports of other packages
func locals(os, strings int) int {
	filepath, bytes, fmt, sort, str, errors := 1, 2, 3, 4, 5, 6
	return os + strings + filepath + bytes + fmt + sort + str + errors
}
