package imports5

import (
	"bytes"
	b2 "bytes"
	"fmt"
	f2 "fmt"
	"os"
	o2 "os"
	"sort"
	so2 "sort"
	"strings"
	s2 "strings"
)

func use() {
	fmt.Println(f2.Sprint(os.Args, o2.Args, strings.ToUpper("x"), s2.ToLower("y"), bytes.NewBuffer(nil), b2.MinRead, sort.IsSorted(nil), so2.IntsAreSorted(nil)))
}
