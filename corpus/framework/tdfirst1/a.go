package tdfirst

// method before its type: typeDefFirst warns here ...
func (t T) M() int { return int(t) }

func (u *U) N() {}

type T int

type U struct{}
