package warnpaths

import (
	"fmt"
	"log"
	"os"
)

func cleanup(fs ...func()) {
	for _, f := range fs {
		f()
	}
}

func named(f func(), n int, s string) { f(); fmt.Println(n, s) }

// exitAfterDefer: every shape of the deferred call (plain call, function literal as the callee, function literals,
// ints, strings and floats as arguments), followed by each exiting call
func deferPlain(p string) {
	f, err := os.Open(p)
	if err != nil {
		log.Fatal(err)
	}
	defer f.Close()
	if p == "" {
		log.Fatalf("empty %s", p)
	}
}

func deferLitCallee() {
	defer func() { fmt.Println("bye") }()
	os.Exit(1)
}

func deferLitArgs(n int) {
	defer cleanup(func() { fmt.Println("a") }, func() { fmt.Println("b") })
	if n > 0 {
		log.Fatalln("n", n)
	}
	defer named(func() { fmt.Println("c") }, 1, "x")
	if n > 1 {
		log.Panic("n")
	}
	os.Exit(n)
}

func deferMixedArgs(x float64) {
	defer fmt.Println(x, 1.5, "s", func() int { return 1 }())
	defer fmt.Printf("%v", func() {})
	log.Fatal(x)
}
