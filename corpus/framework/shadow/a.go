package shadow

import (
	"bytes"
	"fmt"
	"os"
	"sort"
	str "strings"
)

func shadows(fmt, os, sort, bytes, str int) int {
	return fmt + os + sort + bytes + str
}

func locals() {
	bytes, sort := 1, 2
	var os, fmt = 3, 4
	_, _, _, _ = bytes, sort, os, fmt
}

func use() {
	fmt.Println(os.Args, sort.IsSorted(nil), bytes.MinRead, str.ToUpper("x"))
}
