package defers

import (
	"fmt"
	"os"
)

func unnecessary() {
	fmt.Println("x")
	defer fmt.Println("y")
}

func blockDefer(ok bool) {
	if ok {
		fmt.Println("x")
		defer fmt.Println("y")
	}
	fmt.Println("z")
}

func litDefer() func() {
	return func() {
		fmt.Println("x")
		defer fmt.Println("y")
	}
}

func loop(names []string) {
	for _, n := range names {
		f, err := os.Open(n)
		if err != nil {
			continue
		}
		defer f.Close()
	}
	defer fmt.Println("done")
}

func noLoop(n string) {
	f, _ := os.Open(n)
	defer f.Close()
	fmt.Println(n)
}

func ExampleOutput() {
	fmt.Println("x")
	// Output: x
	// fmt.Println("y")
}

func notExample() {
	fmt.Println("x")
	// Output: x
	// fmt.Println("commented out")
	// Output: fmt.Println("z")
}

func floats(x, y float64, a, b int) bool {
	if !(x < y) {
		return !(a < b)
	}
	return !(a >= b)
}
