package stalectx

// ... followed (same package) by an import-less file whose locals are named like those imports:
// nothing here shadows an import of THIS file.
func noImports(strings, filepath string) int {
	os := len(strings) + len(filepath)
	var fmt, path = 1, 2
	return os + fmt + path
}
