package stalectx

import (
	"os"
	"path/filepath"
	"strings"
)

// a file WITH imports ...
func useImports() string {
	return filepath.Join(strings.ToUpper("x"), os.Args[0])
}
