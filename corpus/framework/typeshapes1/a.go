package typeshapes

import (
	"fmt"
	"io"
)

// files that END in the shapes through which the type-expression walker takes special paths: interfaces with
// embedded elements (named, qualified, unions, nested literals), method signatures, function types
type number interface {
	~int | ~int64 | ~float64
}

type named interface {
	fmt.Stringer
	m(x int) (y string)
}

func generic[T number, U interface{ ~string | ~[]byte }](t T, u U) (T, U) { return t, u }

type rw interface {
	io.Reader
	io.Writer
	named
	interface{ Close() error }
}
