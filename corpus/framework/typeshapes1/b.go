package typeshapes

// ... and files that START with nested type literals whose children carry the findings
type nested struct {
	f [](func())
	g map[string](*int)
	h struct {
		i chan (int)
		j func((int)) (string)
	}
}

var iface interface {
	m(x (int)) (y *(string))
	n() [](float64)
}

func useNested(v interface{}) {
	_, _ = v.((int))
	_ = [](*int){nil}
}
