package skipnest

// The first finding of the rewriting checkers sits *inside* a larger expression, so a walker
// that starts the file with a stale SkipChilds flag never reaches it.

func id(b bool) bool { return b }

func idp(p *int) *int { return p }

func nestedFirst(a, b int) bool {
	return id(!(a == b))
}

func nestedSecond(a, b int) bool {
	return id(id(!(a != b)) && id(!(a < b)))
}

func topLevelThenNested(a, b int) bool {
	if !(a >= b) {
		return id(!(a <= b))
	}
	return id(a == b || a == b)
}

func typeParens(xs [](func()), m map[string](*int)) {
	var f func() (*int) = nil
	_ = f
	g := func(p (*int)) *(int) { return idp(p) }
	_ = g
	_ = [](*int){nil}
	_ = idp((*int)(nil))
	_, _ = xs, m
}

func afterTypes(a, b int) bool {
	return id(!(a > b))
}
