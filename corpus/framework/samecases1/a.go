package samecases

// Equal case expressions / map keys in *different* statements and functions: a set that is not
// cleared per statement reports them as duplicates.

func f1(x, y int, v []int) int {
	switch {
	case x > 1:
		return 1
	case y > 1:
		return 2
	case x > v[0]:
		return 3
	}
	switch {
	case x > 1:
		return 1
	case y > 1, x > v[0]:
		return 2
	}
	return 0
}

func f2(x, y int, v []int) int {
	switch {
	case x > 1:
		return 1
	case x > v[0]:
		return 3
	}
	return 0
}

func f3(ch, ch2 chan int) {
	select {
	case <-ch:
	case <-ch2:
	}
	select {
	case <-ch:
	default:
	}
}

var k1, k2 = "a", "b"

func maps() {
	_ = map[string]int{k1: 1, k2: 2}
	_ = map[string]int{k1: 1, k2: 2}
	_ = map[string]int{k2: 1, k1: 2, "x": 3}
}

func dup(x int) int {
	switch {
	case x > 1:
		return 1
	case x > 1:
		return 2
	}
	_ = map[string]int{k1: 1, k1: 2}
	return 0
}
