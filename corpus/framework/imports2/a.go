package imports2

import (
	"fmt"
	f2 "fmt"
	"os"
	o2 "os"
	"strings"
)

func use() {
	fmt.Println(f2.Sprint(os.Args, o2.Args, strings.ToUpper("x")))
}
