package localtypes

// same-named function-local types of different sizes: every size-based checker must decide per type, not per name.
func smallFirst(n int) int {
	type rec struct{ a int }
	xs := make([]rec, n)
	s := 0
	for _, x := range xs {
		s += x.a
	}
	var arr [4]rec
	for _, y := range arr {
		s += y.a
	}
	return s
}

func largeSecond(n int) int {
	type rec struct{ a [100]int }
	xs := make([]rec, n)
	s := 0
	for _, x := range xs {
		s += x.a[0]
	}
	var arr [4]rec
	for _, y := range arr {
		s += y.a[0]
	}
	return s
}

func largeThird(n int) int {
	type item struct{ a [64]int64 }
	xs := make([]item, n)
	s := 0
	for _, x := range xs {
		s += int(x.a[0])
	}
	return s
}

func smallFourth(n int) int {
	type item struct{ a byte }
	xs := make([]item, n)
	s := 0
	for _, x := range xs {
		s += int(x.a)
	}
	var arr [1000]item
	for _, y := range arr {
		s += int(y.a)
	}
	return s
}
