package localtypes

// the sizes the other way round in a second file of the same package
func largeB(n int) int {
	type rec struct{ a [100]int }
	xs := make([]rec, n)
	s := 0
	for _, x := range xs {
		s += x.a[0]
	}
	return s
}

func smallB(n int) int {
	type rec struct{ a int }
	type item struct{ a [64]int64 }
	xs := make([]rec, n)
	s := 0
	for _, x := range xs {
		s += x.a
	}
	ys := make([]item, n)
	for _, y := range ys {
		s += int(y.a[0])
	}
	return s
}
