package regex

import "regexp"

// flag groups, anchors and simplifiable patterns followed by plain ones
var (
	r1 = regexp.MustCompile(`(?i)[a-z]+(?s:.)x`)
	r2 = regexp.MustCompile(`^foo|^bar`)
	r3 = regexp.MustCompile(`[a-z]+.x`)
	r4 = regexp.MustCompile(`[0-9]+`)
	r5 = regexp.MustCompile(`(?:a|b)c{1,1}`)
	r6 = regexp.MustCompile(`abc`)
	r7 = regexp.MustCompile(`[aab]`)
	r8 = regexp.MustCompile(`a*+`)
	r9 = regexp.MustCompile(`^a|b$`)
)
