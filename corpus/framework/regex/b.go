package regex

import "regexp"

var (
	s1 = regexp.MustCompile(`abc`)
	s2 = regexp.MustCompile(`foo.bar`)
	s3 = regexp.MustCompile(`x{2}`)
)
