package chains

// the misses first (a file that starts where a.go ended)
func typeSwitchMiss2(v interface{}) int {
	switch v.(type) {
	case int:
		return 1
	case string:
		return 2
	}
	return 0
}

func ifChainMiss2(x int) int {
	if x == 1 {
		return 1
	} else if x == 2 {
		return 2
	}
	return 0
}

func ifChainHit2(x int) int {
	if x == 1 {
		return 1
	} else if x == 2 {
		return 2
	} else if x == 3 {
		return 3
	} else {
		return 4
	}
}
