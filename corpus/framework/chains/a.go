package chains

type point struct{ x, y int }

// hit then non-hit of every chain-counting checker
func ifChainHit(x int) int {
	if x == 1 {
		return 1
	} else if x == 2 {
		return 2
	} else if x == 3 {
		return 3
	} else {
		return 4
	}
}

func ifChainMiss(x int) int {
	if x == 1 {
		return 1
	} else if x == 2 {
		return 2
	}
	return 0
}

func assertChainHit(v interface{}) int {
	if x, ok := v.(int); ok {
		return x
	} else if x, ok := v.(point); ok {
		return x.x
	} else if x, ok := v.(*point); ok {
		return x.y
	}
	return 0
}

func assertChainDupType(v interface{}) int {
	if x, ok := v.(int); ok {
		return x
	} else if x, ok := v.(int); ok {
		return x + 1
	}
	return 0
}

func assertChainMiss(v interface{}) int {
	if x, ok := v.(point); ok {
		return x.x
	}
	return 0
}

func typeSwitchHit(v interface{}) int {
	switch v.(type) {
	case int:
		return v.(int)
	case point:
		return v.(point).x + v.(point).y
	default:
		return 0
	}
}

func typeSwitchMiss(v interface{}) int {
	switch v.(type) {
	case int:
		return 1
	case point:
		return 2
	}
	return 0
}

func typeSwitchOne(v interface{}) int {
	switch v.(type) {
	case int:
		return v.(int)
	}
	return 0
}
