// Package m2_localdefs exercises the LocalDef walker (captLocal, builtinShadow) and builtinShadowDecl.
package m2_localdefs

type T struct{ len int }

type (
	string2 int
	any2    = interface{}
	real    float64
)

const iota2, cap = 1, 2

var (
	new, Make = 1, 2
	_, print  = two()
	max       int
)

func two() (int, int) { return 1, 2 }

func min(a, b int) int { return a }

func (T) len2()          {}
func (t T) copy()        {}
func (T) append()        {}
func (Len T) Recv(Cap int) (Res int, err error) {
	return
}
func (*T) NoRecvName(A, _ int, Ünï, ünï string) {}

func Generic[Tp any, len any](X Tp) {}

func External(Len int, new int) (Cap int)

func Defs(ch chan int, m map[string]int) {
	A, b := 1, 2
	A, C := two()
	len, D := two()
	var E, cap = two()
	var F, g int
	var H, real = 1, 2.0
	const I, imag = 1, 2
	_, _, _, _, _, _, _, _, _, _, _, _ = A, b, C, len, D, E, cap, F, g, H, real, I
	_ = imag
	type Local struct{ X int }
	v, Ok := <-ch
	w, OK2 := m["k"]
	_, _, _, _ = v, Ok, w, OK2
	for K, V := range m {
		_, _ = K, V
	}
	if Z := 1; Z > 0 {
		nil := 2
		_ = nil
	}
	switch Y := interface{}(A).(type) {
	case int:
		_ = Y
	}
	func(P int) {
		Q := P
		_ = Q
	}(1)
	fn := func(Inner int) { R := Inner; _ = R }
	_ = fn
	var fn2 = func(Inner2 int) { S := Inner2; _ = S }
	_ = fn2
	b = 3
	A, b = b, A
	select {
	case Rx := <-ch:
		_ = Rx
	}
	go func() { G := 1; _ = G }()
	defer func() { Dd := 1; _ = Dd }()
	{
		var (
			true  = 1
			False = 2
		)
		_, _ = true, False
	}
label:
	for {
		Lp := 1
		_ = Lp
		break label
	}
}
