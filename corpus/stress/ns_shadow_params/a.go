// Package ns_shadow_params: every file imports the REAL standard packages (and uses them), while parameters, local variables,
// named results and struct fields of the same names shadow the qualifiers inside some functions.
package ns_shadow_params

import (
	"flag"
	"log"
	"os"
	"path/filepath"
	"regexp"
	"sort"
	"strings"
	"sync"
	"time"
)

var (
	_ = flag.Bool("real", false, "")
	_ = regexp.MustCompile(`a+`)
	_ = filepath.Join("a", "b")
	_ = strings.ToUpper("x")
	_ sync.Mutex
	_ = time.Now
	_ = sort.Ints
	_ = log.Println
	_ = os.Args
)

type opts struct{}

func (*opts) Bool(name string, v bool, usage string) *bool       { return nil }
func (*opts) String(name, v, usage string) *string               { return nil }
func (*opts) BoolVar(p *bool, name string, v bool, usage string) {}

type engine struct{}

func (engine) MustCompile(p string) int       { return 0 }
func (engine) Compile(p string) (int, error) { return 0, nil }

type joiner struct{}

func (joiner) Join(elem ...string) string { return "" }

type sorter struct{}

func (sorter) Slice(x interface{}, less func(i, j int) bool) {}

type exiter struct{}

func (exiter) Exit(code int)         {}
func (exiter) Fatal(v ...interface{}) {}

type texts struct{}

func (texts) Compare(a, b string) int          { return 0 }
func (texts) Index(s, sub string) int          { return 0 }
func (texts) Replace(s, a, b string, n int) string { return s }

type kv struct{}

func (*kv) Load(k interface{}) (interface{}, bool) { return nil, false }
func (*kv) Delete(k interface{})                   {}

type clock struct{}

func (clock) Sub(t time.Time) time.Duration { return 0 }

func Param(flag *opts, regexp engine, filepath joiner) {
	var b bool
	flag.Bool("bad name=", false, "")
	flag.String("-x", "", "")
	flag.BoolVar(&b, " y", false, "")
	regexp.MustCompile(`[0-9]+[0-9]`)
	_, _ = regexp.Compile(`x|x`)
	_ = filepath.Join("a/b", "c")
}

func Local(xs []int, s string) {
	sort, strings, os, log := sorter{}, texts{}, exiter{}, exiter{}
	defer func() {}()
	sort.Slice(xs, func(i, j int) bool { return xs[j] < xs[i] })
	_ = strings.Compare(s, "a") == 0
	_ = strings.Index(s, "a") != -1
	_ = strings.Replace(s, "a", "b", -1)
	log.Fatal("x")
	os.Exit(1)
}

func Result() (flag *opts) {
	flag = &opts{}
	flag.Bool("-r", false, "")
	return
}

func Methods(m *kv, t clock, k string) {
	if _, ok := m.Load(k); ok {
		m.Delete(k)
	}
	v, ok := m.Load(k)
	if ok {
		m.Delete(k)
		_ = v
	}
	_ = t.Sub(time.Now())
}

type holder struct {
	flag   *opts
	regexp engine
}

func (h holder) Field() {
	h.flag.Bool("bad=", false, "")
	h.regexp.MustCompile(`[a-z][a-z]*`)
}
