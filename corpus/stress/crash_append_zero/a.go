// Package crash_append_zero: a user function reuses the name of the builtin append and takes no arguments.
package crash_append_zero

func append() []int { return nil }

func Chain() []int {
	var x []int
	x = append()
	x = append()
	return x
}

func Define() []int {
	y := append()
	return y
}
