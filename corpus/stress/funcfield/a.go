// Package funcfield: function-valued fields and variables called like methods.
package funcfield

type T struct {
	fn   func() int
	pfn  func(*T) int
	next *T
}

func Pair(t T) (T, int) {
	return t, t.fn()
}

func PairPtr(t *T) (*T, int) {
	return t, t.pfn(t)
}

var hook struct{ run func() error }

func Both(err error) (error, error) {
	return err, hook.run()
}

func Chain(t T) (T, int) {
	return t, t.next.fn()
}
