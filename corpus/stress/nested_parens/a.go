// Package nested_parens: two and three layers of parentheses in every expression and type position.
package nested_parens

import (
	"sort"
	"strings"
)

type T struct {
	x   int
	arr [4]int
	p   *T
	f   func(int) int
}

func (r ((T))) Val() int { return ((r.x)) }

func (r *((T))) Ptr() int { return (((r))).x }

func (r ((*T))) Ptr2() int { return r.x }

func f(n int) int { return n }

func two() (int, int) { return 1, 2 }

func Selectors(p *T, pp **T, a *[4]int, m *map[string]int) int {
	s := ((*p)).x + (((*p))).x + (*p).x
	s += ((*p)).arr[0] + ((*a))[0] + (((*a)))[1] + (*a)[2]
	s += ((*(*pp))).x + ((**pp)).x
	s += ((*p)).Val() + (((*p))).Ptr() + ((p)).Ptr()
	s += ((*m))["k"] + (((*m)))["k"]
	s += ((*((*p)).p)).x
	s += (((*p)).arr)[1] + ((((*p)).arr))[2]
	return ((s))
}

func Calls(xs []int, t T) int {
	n := ((f))(1) + (((f)))(((2))) + ((t.f))(3) + (((t)).f)(4)
	n += ((len))(xs) + (((cap)))(((xs)))
	xs = ((append))(xs, ((1)))
	xs = (((append)))(((xs)), 2)
	_ = ((strings.Replace))("a", "b", "c", ((-1)))
	_ = (((strings.Index)))("a", "b") >= ((0))
	_ = ((*((new))(int)))
	_ = *((new(int)))
	_ = ((*new(int)))
	((sort.Slice))(xs, ((func(i, j int) bool { return ((xs[((i))])) < (((xs))[j]) })))
	a, b := ((two))()
	return ((n)) + ((a)) + (((b)))
}

type (
	A ((int))
	B ((*((T))))
	C []((chan ((int))))
	D ((func(((int))) ((int))))
	E map[((string))]((int))
	F ((struct{ x ((int)) }))
	G (([4]((int))))
)

func Types(x ((int)), y ((*((T))))) ((int)) {
	var z ((int)) = ((x))
	var w (([]((int)))) = (([]int{((1))}))
	_ = ((*T))(y)
	_ = (((*T)))(((y)))
	_ = ((int32))(z)+((int32))(((z))) > 0
	_ = ((int32))(z) < ((int32))(1)
	_ = (([]byte))("s")
	_ = ((string))(([]byte("s"))) == ((""))
	_ = w
	_ = ((interface{}(x))).(int)
	return ((z))
}

func Stmts(xs []int, m map[string][]int, err error) (r int, e error) {
	((xs)) = append(((xs)), 1)
	((xs)) = append(((xs)), 2)
	((m["a"])) = append(((m["a"])), 1)
	((m))["b"] = append(((m))["a"], 1)
	if ((err)) == ((nil)) {
		return ((0)), ((err))
	}
	if (((err != nil))) {
		return 0, err
	}
	for i := ((0)); ((i)) < ((len(xs))); ((i))++ {
		((r)) += ((xs))[((i))]
	}
	for range ((xs)) {
		xs = append(xs, ((xs))...)
	}
	switch x := ((interface{}(r))); ((x)).(type) {
	case ((int)):
	}
	switch ((r)) {
	case ((1)), ((2)):
	}
	defer ((func() {}))()
	go (((func() {})))()
	((r))++
	((r)) += ((1))
	((r)) = ((r)) + 1
	return ((r)), ((nil))
}

func Bool(a, b bool, x, y int) bool {
	return ((!((!a)))) || (((a)) && ((a))) || ((x)) == ((x)) || ((((x)) < ((y)))) && (((x)) >= ((y)))
}
