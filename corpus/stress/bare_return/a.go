// Package bare_return: named results with bare returns, in declarations and function literals.
package bare_return

import "sort"

func Named() (n int, err error) {
	return
}

func Sorted(xs []int) {
	sort.Slice(xs, func(i, j int) (r bool) { return })
	sort.SliceStable(xs, func(i, j int) (less bool) {
		return
	})
}

func Lit() func() (ok bool) {
	return func() (ok bool) { return }
}

func Cond(p *int) (q *int) {
	if q == nil {
		return
	}
	return
}
