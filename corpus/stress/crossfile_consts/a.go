// Package crossfile_consts passes values to API-specific checkers through named constants and variables that are declared
// in ANOTHER file of the package (b.go), in the same file, in a const group with iota, and in a local scope.
package crossfile_consts

import (
	"flag"
	"fmt"
	"path/filepath"
	"regexp"
	"strings"
	"time"
)

const sameFilePattern = `[0-9]+[0-9]`

func Patterns() {
	regexp.MustCompile(otherFilePattern)
	regexp.MustCompile(sameFilePattern)
	regexp.MustCompile(otherFileDup)
	regexp.MustCompile(groupedB)
	regexp.MustCompile(otherFilePattern + sameFilePattern)
	const local = `(a|a)`
	regexp.MustCompile(local)
	_, _ = regexp.Compile(otherFileBad)
	regexp.MustCompile(otherFileVar)
}

func Flags() {
	flag.Bool(otherFileFlag, false, otherFileUsage)
	flag.String(sameFileFlag, "", "")
	var d time.Duration
	flag.DurationVar(&d, otherFileFlag, 0, "")
}

const sameFileFlag = "-same"

func Format(x int) string {
	_ = fmt.Sprintf(otherFileFormat, x)
	_ = filepath.Join(otherFilePath, "b")
	_ = strings.Replace(otherFilePath, otherFileSep, otherFileSep, otherFileN)
	_ = strings.Index(otherFilePath, otherFileSep) != otherFileN
	return fmt.Sprint(otherFileN)
}
