package crossfile_consts

const otherFilePattern = `[a-z][a-z]*\d\d`

const (
	otherFileDup    = `x|x`
	otherFileBad    = `a{2,1}`
	otherFileFlag   = "bad name="
	otherFileUsage  = "usage"
	otherFileFormat = "%d %s"
	otherFilePath   = "a/b"
	otherFileSep    = "/"
	otherFileN      = -1
)

const (
	groupedA = iota
	groupedB = `^^abc`
)

var otherFileVar = `[0-9]+`
