// Package recursive_types: type graphs with cycles (self-embedding through a pointer, mutual embedding,
// recursion through slices, maps, channels, funcs and interfaces). Any checker that walks a type must
// terminate on them.
package recursive_types

type Rows struct{}

type DB struct{ *DB }

func (d *DB) Query(q string) (*Rows, error) { return nil, nil }

func useDB(d *DB) { _, _ = d.Query("x") }

type Session struct {
	*Tx
	*conn
}
type Tx struct{ *Session }
type conn struct{ name string }

func (c *conn) Query(q string) (*Rows, error) { return nil, nil }

func useSession(s *Session) {
	_, err := s.Query("select 1")
	_ = err
}

type Tree struct {
	Kids  []Tree
	ByKey map[string]*Tree
	Next  chan *Tree
	Visit func(*Tree) *Tree
	Self  *Tree
}

func walk(t Tree, ts []Tree) int {
	n := 0
	for _, k := range ts {
		n += len(k.Kids)
	}
	for _, k := range t.Kids {
		n += len(k.Kids)
	}
	return n
}

type Node interface {
	Parent() Node
	Children() []Node
	Querier
}

type Querier interface {
	Query(q string) (*Rows, error)
	Exec(q string) (Rows, error)
}

func useNode(n Node) {
	_, _ = n.Query("x")
	_, _ = n.Parent().Query("y")
}

type List[T any] struct {
	Head T
	Tail *List[T]
}

func (l *List[T]) Query(q string) (*Rows, error) { return nil, nil }

func useList(l *List[int], big List[[64]int]) int {
	_, _ = l.Query("z")
	for _, x := range []List[[64]int]{big} {
		_ = x
	}
	return len(big.Head)
}
