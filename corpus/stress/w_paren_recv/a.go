package w_paren_recv

type T int

func (r (T)) M() {}
