// Package m2_funcs exercises the FuncDecl-walker checkers of Model_Checkers2.v on unusual legal signatures.
package m2_funcs

import (
	"io"
	"unsafe"
)

type Named int
type Iface interface{ M() }
type Gen[T any] struct{ v T }

func External(a int, b int) (int, int)

func ExternalPtr(m *map[string]int, c *chan int, i *Iface, e *interface{}, r *io.Reader, n *Named, u *unsafe.Pointer) (*map[int]int, *Iface)

func NoResults()     {}
func EmptyResults() () { return }

func Two() (int, int)           { return 0, 0 }
func TwoErr() (int, error)      { return 0, nil }
func TwoBool() (string, bool)   { return "", false }
func TwoNamedT() (Named, Named) { return 0, 0 }
func TwoMixed() (Named, *Named) { return 0, nil }
func TwoErrs() (error, error)   { return nil, nil }
func One() int                  { return 0 }
func Three() (int, int, int)    { return 0, 0, 0 }
func ThreeN() (Named, []Named, *[2]Named) {
	return 0, nil, nil
}
func ThreeErr() (Named, Iface, error)  { return 0, nil, nil }
func ThreeBool() (bool, bool, bool)    { return false, false, false }
func NamedRes() (a int, b int)         { return }
func NamedBlank() (_ int, _ int)       { return 0, 0 }
func NamedPair() (a, b int)            { return }
func GenRes[T any]() (Gen[T], Gen[T])  { return Gen[T]{}, Gen[T]{} }
func GenParams[T any, U any](a T, b T, c U, d U) {}
func Éxported() (Named, Named)         { return 0, 0 }
func éxported() (Named, Named)         { return 0, 0 }
func FuncRes() (func(a int, b int), func(int, int)) {
	return nil, nil
}

func (g Gen[T]) Method(a int, b int) (T, T) { return g.v, g.v }
func (Gen[T]) Anon(a, b int, c int)          {}
func (g *Gen[T]) Ptr(p *map[string]T)        {}

func Combine(a int, b int, c string, d string) {}
func CombineNot(a, b int, c, d string)         {}
func CombineMulti(
	a int,
	b int,
) {
}
func CombineUnnamed(int, int)                       {}
func CombineBlank(_ int, _ int)                     {}
func CombineFn(f func(a int, b int), g func(a int, b int)) {}
func CombineFnMulti(f func(
	a int), g func(a int)) {
}
func CombineVariadic(a []int, b ...int)      {}
func CombineRes() (a int, b int, c, d string) { return }
func CombineParen(a (int), b int)             {}
func CombineSel(a io.Reader, b io.Reader)     {}
func CombineGen(a Gen[int], b Gen[int], c Gen[string]) {}

func PtrRef(m *map[string]int, c, d *chan int, _ *Iface, n *Named, p **map[int]int) (r *map[int]int) {
	return nil
}
func PtrRefUnnamed(*map[string]int, *Iface) {}

func Loops(xs []int) {
	defer func() {}()
	for range xs {
		defer func() {}()
		func() {
			defer func() {}()
			for {
				defer func() {
					for {
						defer func() {}()
					}
				}()
			}
		}()
	}
	for i := 0; i < 1; i++ {
		for {
			defer NoResults()
		}
	}
	go func() {
		for {
			defer NoResults()
		}
	}()
	if len(xs) > 0 {
		for {
			if true {
				defer NoResults()
			}
		}
	}
}

var pkgLevel = func() {
	for {
		defer NoResults()
	}
}
