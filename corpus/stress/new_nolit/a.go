// Package new_nolit: immediate dereference of new(T) for basic types that have no literal zero value spelling.
package new_nolit

import "unsafe"

type C complex128

func Zero() (complex128, complex64, unsafe.Pointer, C, uintptr) {
	a := *new(complex128)
	b := *new(complex64)
	c := *new(unsafe.Pointer)
	d := *new(C)
	e := *new(uintptr)
	return a, b, c, d, e
}
