// Package nearmiss_types: types that are NOT the type a rule filters on, but are close to it: a struct embedding
// it (with the method overridden), a struct containing it, a named type with the same underlying type, pointers.
// The rule's claim ("t.Unix()/1000 is t.UnixMilli()", "wg.Add(-1) is wg.Done()", ...) does not hold for their methods.
package nearmiss_types

import (
	"bytes"
	"regexp"
	"sync"
	"time"
)

type Stamp struct{ time.Time }

func (Stamp) Unix() int64     { return 42 }
func (Stamp) UnixNano() int64 { return 42 }

type Clock struct{ T time.Time }

func (Clock) Unix() int64     { return 7 }
func (Clock) UnixNano() int64 { return 7 }

type Instant time.Time

func (Instant) Unix() int64 { return 0 }

func Times(s Stamp, ps *Stamp, c Clock, i Instant, real struct{ time.Time }) int64 {
	a := s.Unix() / 1000
	b := ps.Unix() * 1000
	d := c.Unix() / 1000
	e := i.Unix() / 1000
	f := s.UnixNano() / 1000000
	g := real.Unix() / 1000 // promoted time.Time.Unix: the claim still holds for this one
	_ = c.UnixNano() / 1e6
	return a + b + d + e + f + g
}

type Group struct{ sync.WaitGroup }

func (*Group) Add(n int) {}

type Counter struct{ wg sync.WaitGroup }

func (*Counter) Add(n int) {}

func Groups(g *Group, c *Counter) {
	g.Add(-1)
	c.Add(-1)
}

type Buf struct{ bytes.Buffer }

func (*Buf) Truncate(n int) {}

type Ring bytes.Buffer

func (*Ring) Truncate(n int) {}

func Bufs(b *Buf, r *Ring) {
	b.Truncate(0)
	r.Truncate(0)
}

type Cache struct{ sync.Map }

func (*Cache) Load(k interface{}) (interface{}, bool) { return nil, false }
func (*Cache) Delete(k interface{})                   {}

func Caches(c *Cache, k string) {
	_, ok := c.Load(k)
	if ok {
		c.Delete(k)
	}
}

const pattern = "*.go"

type Matcher struct{ *regexp.Regexp }

func (Matcher) Match(b []byte) bool           { return false }
func (Matcher) FindIndex(b []byte) []int      { return nil }
func (Matcher) FindAllIndex(b []byte, n int) [][]int { return nil }

func Matchers(m Matcher, s string) bool {
	_ = m.FindIndex([]byte(s))
	_ = m.Match([]byte("main.go"))
	_ = m.FindIndex([]byte("main" + ".go"))
	_ = m.FindAllIndex([]byte(pattern), 1)
	_ = m.FindAllIndex([]byte(s), -1)
	return m.Match([]byte(s))
}
