// Package ns_flagset_method: the REAL flag.FlagSet methods next to a user type with the same method names.
package ns_flagset_method

import "flag"

type set struct{}

func (set) String(name, value, usage string) *string { return nil }
func (set) BoolVar(p *bool, name string, value bool, usage string) {}

func Real(fs *flag.FlagSet) {
	_ = fs.String("real flag", "", "")
	var b bool
	fs.BoolVar(&b, "-b", false, "")
}

func User(s set) {
	_ = s.String("user flag", "", "")
	var b bool
	s.BoolVar(&b, "-b", false, "")
}
