// Package m2_switches exercises the switch / if shaped checkers of Model_Checkers2.v on unusual legal code.
package m2_switches

func f() int { return 1 }

func Empty(x int) {
	switch {
	}
	switch x {
	}
	switch y := x; y {
	}
	select {}
}

func EmptyIface(x interface{}) {
	switch x.(type) {
	}
	switch y := x.(type) {
	default:
		_ = y
	}
	switch f(); v := x.(type) {
	case int:
		_ = v
	}
}

func DefaultOnly(x int) {
	switch x {
	default:
	}
	switch {
	default:
		x++
	}
}

func DefaultMiddle(x int) int {
	switch x {
	case 1:
		return 1
	default:
		return 0
	case 2, 3:
		return 2
	}
	switch x {
	default:
		return 0
	case 2, 3:
		return 2
	}
}

func Fallthroughs(x int) {
	switch x {
	case 1:
		fallthrough
	case 2:
		fallthrough
	default:
		x++
	}
	switch x {
	default:
		fallthrough
	case 7:
		x--
	}
	switch x {
	case 1:
		fallthrough
	default:
		fallthrough
	case 3:
	}
}

func Single(x int, ch chan int) {
	switch x {
	case 1:
		x++
	}
	switch x {
	case 1, 2:
		x++
	}
	switch x {
	case 1:
		for {
			break
		}
	}
	switch x {
	case 1:
		if x > 0 {
			break
		}
	}
outer:
	switch x {
	case 1:
		select {
		case <-ch:
			break outer
		default:
		}
	}
	switch x {
	case 1:
		switch y := interface{}(x).(type) {
		case int:
			_ = y
			break
		}
	}
	switch x {
	case 1:
		func() {
			for {
				break
			}
		}()
	}
}

func (T) Init(x int) {
	if f(); x > 0 {
	}
	if x++; x > 0 {
	}
	if y := f(); y > 0 {
	} else if f(); y < 0 {
	}
	switch f(); x {
	}
	switch x := f(); {
	case x > 0:
	}
	switch <-make(chan int); {
	}
}

type T struct{}

func ElseIf(a, b bool) int {
	if a {
		return 1
	} else {
		if b {
			return 2
		}
	}
	if a {
		if b {
			return 0
		}
	} else {
		if b {
			return 2
		}
	}
	if a {
	} else {
		if x := f(); x > 0 {
		}
	}
	if a {
	} else {
		if b {
		} else {
		}
	}
	if a {
	} else {
		if b {
		}
		return 3
	}
	if a {
	} else {
	}
	return 4
}

func DupBranch(a bool, s []int, i int) {
	if a {
		i++
	} else {
		i--
	}
	if a {
		i++
	} else {
		i++
	}
	if a {
		_ = s[1:]
	} else {
		_ = s[:1]
	}
	if a {
		for i := range s {
			_ = i
		}
	} else {
		for i = range s {
			_ = i
		}
	}
	if a {
		for ; ; i++ {
		}
	} else {
		for i++; ; {
		}
	}
	if a {
	} else {
	}
	if a {
		var x struct {
			a int "x"
		}
		_ = x
	} else if a {
		i++
	} else {
		i++
	}
}
