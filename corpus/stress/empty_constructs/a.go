// Package empty_constructs: every construct that may legally be empty.
package empty_constructs

import ()

const ()

var ()

type ()

type E struct{}

type I interface{}

type F func()

func (E) M() {}

func External(x int) int

func Empty() {
	{
	}
	{
		{
		}
	}
	if true {
	}
	if x := 1; x > 0 {
	} else {
	}
	if false {
	} else if true {
	} else {
	}
	for {
		break
	}
	for i := 0; i < 1; i++ {
	}
	for range []int{} {
	}
	switch {
	}
	switch x := 1; x {
	}
	switch x := interface{}(nil); x.(type) {
	}
	switch {
	case true:
	default:
	}
	switch 1 {
	case 1:
		fallthrough
	case 2:
	}
	select {
	default:
	}
	func() {}()
	defer func() {}()
	go func() {}()
	_ = struct{}{}
	_ = []int{}
	_ = map[string]int{}
	_ = [0]int{}
	_ = interface{}(nil)
	_ = func() {}
	var x struct{}
	_ = x
	;
	var s []int
	for range s {
	}
	s = append(s)
	_ = s
L:
	for {
		break L
	}
	return
}

func Block() {
	select {}
}

func EmptyReturn() (int, string) { panic("") }

func OnlyComment() {
	// nothing
}

func EmptyIfChain(x int) {
	if x == 1 {
	} else if x == 2 {
	} else if x == 3 {
	} else if x == 4 {
	}
}

// empty bodies in every position a loop-shaped or branch-shaped checker looks at
func EmptyInLoops(xs []int, c bool, ch chan int) {
	for {
		if c {
		}
	}
	for range xs {
		if c {
		}
	}
	for i := 0; i < 1; i++ {
		if c {
		} else {
		}
	}
	for {
		switch {
		}
	}
	for {
		select {}
	}
	for {
		{
		}
	}
	for {
		if c {
			continue
		}
	}
	for range xs {
		for {
		}
	}
	for {
		if c {
			for {
			}
		}
	}
	if c {
		for {
		}
	}
	switch {
	case c:
		for {
			if c {
			}
		}
	default:
	}
	select {
	case <-ch:
		for {
			if c {
			}
		}
	}
	func() {
		for {
			if c {
			}
		}
	}()
}
