package w_append_zero

func append() []int { return nil }

func F() []int {
	x := append()
	return x
}
