// Package envflag: a user type FlagSet whose methods are spelled like the flag package's API
// (its printed type is envflag.FlagSet); its "names" are environment keys, spaces and '=' are legal there.
package envflag

type FlagSet struct{}

func (*FlagSet) String(name, value, usage string) *string             { return new(string) }
func (*FlagSet) Bool(name string, value bool, usage string) *bool     { return new(bool) }
func (*FlagSet) Int(name string, value int, usage string) *int        { return new(int) }
func (*FlagSet) IntVar(p *int, name string, value int, usage string)  {}
func (*FlagSet) BoolVar(p *bool, name string, value bool, usage string) {}
func (*FlagSet) Duration(name ...string) int                          { return 0 }

func Define(fs *FlagSet, v FlagSet) {
	_ = fs.String("APP MODE=dev", "", "")
	_ = fs.Bool("-verbose", false, "")
	_ = v.Int("", 0, "")
	var n int
	var b bool
	fs.IntVar(&n, "a b", 0, "")
	v.BoolVar(&b, "k=v", false, "")
	_ = fs.Duration()
	_ = (*fs).String(" x", "", "")
}
