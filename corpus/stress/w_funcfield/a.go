package w_funcfield

type T struct{ fn func() int }

func F(t T) (T, int) { return t, t.fn() }
