// Package crash_new_zero: a user function named new, without parameters, is dereferenced.
package crash_new_zero

func new() *int { v := 1; return &v }

func Deref() int {
	return *new()
}
