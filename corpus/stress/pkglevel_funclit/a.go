// Package pkglevel_funclit: function literals at package level come FIRST in the first file, before any function
// declaration: statements inside them are reached without any EnterFunc.
package pkglevel_funclit

import "fmt"

var first = func(x interface{}, n int, err error) (r int) {
	if n == 1 {
		r = 1
	} else if n == 2 {
		r = 2
	} else if n == 3 {
		r = 3
	} else {
		r = 4
	}
	if v, ok := x.(int); ok {
		r = v
	} else if v, ok := x.(string); ok {
		r = len(v)
	} else if v, ok := x.(error); ok {
		r = len(v.Error())
	}
	switch {
	case n > 1:
		fallthrough
	case n > 2:
	default:
	}
	switch x.(type) {
	case int:
	case uint, string:
	}
	for i := 0; i < n; i++ {
		defer fmt.Println(i)
	}
	xs := []int{}
	xs = append(xs, 1)
	xs = append(xs, 2)
	for range xs {
		xs = append(xs, xs...)
	}
	{
		r++
	}
	if err == nil {
		return r
	}
	return r
}

var table = map[string]func(int) int{
	"a": func(n int) int {
		if n == 0 {
			return 0
		} else if n == 1 {
			return 1
		} else if n == 2 {
			return 2
		}
		return n
	},
	"b": func(n int) int { n = n + 1; return n },
}

var handlers = struct {
	onErr func(error) error
	list  []func()
}{
	onErr: func(err error) error {
		if err == nil {
			return err
		}
		return nil
	},
	list: []func(){func() {}, func() { var mu struct{ n int }; _ = mu }},
}

var computed = func() int {
	total := 0
	for i := 0; i < 3; i++ {
		total = total + i
	}
	return total
}()

func init() { _, _, _, _ = first, table, handlers, computed }

func After(n int) int {
	if n == 1 {
		return 1
	} else if n == 2 {
		return 2
	} else if n == 3 {
		return 3
	}
	return 0
}
