// Package multivalue_forward: calls whose single argument is a call with several results.
package multivalue_forward

type Option func(*int)

func two() (Option, Option)                  { return nil, nil }
func three() (int, Option, Option)           { return 0, nil, nil }
func opts(o ...Option)                       {}
func nopts(n int, o ...Option)               {}
func nnopts(n, m int, o ...Option)           {}
func four() (int, int, Option, Option)       { return 0, 0, nil, nil }
func pair(a, b int) int                      { return a + b }
func ints() (int, int)                       { return 1, 2 }
func strs() (string, string, string)         { return "", "", "" }
func join(sep string, rest ...string) string { return sep }

func Use() int {
	opts(two())
	nopts(three())
	nnopts(four())
	_ = join(strs())
	return pair(ints())
}

func Lambda() func(a, b int) int {
	return func(a, b int) int { return pair(ints()) }
}

// conversions to function types are calls whose Fun has a signature type
type VarFn func(a, b int, o ...Option)

func impl(a, b int, o ...Option) {}

func Convert() VarFn {
	_ = (func(...Option))(opts)
	_ = (func(a, b int, o ...Option))(impl)
	return VarFn(impl)
}

// a forwarded multi-value call may itself be parenthesised
func Parens() int {
	opts((two()))
	nnopts(((four())))
	return pair((ints()))
}
