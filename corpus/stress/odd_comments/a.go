// Package odd_comments: comment texts that stress the comment-walking checkers: characters whose lower/upper/folded
// form has a different byte length, combining marks, zero-width characters, pragmas, very short comments, in every
// comment position (doc, trailing, inside bodies, before imports, block comments). Generated once by hand-run script.
package odd_comments

import (
	"sync" //İ
)

//İ
func F1(mu *sync.Mutex) (r int) { //İ
	//İL
	r++ //İL
	//Lİ
	r++ //Lİ
	//İLL
	r++ //İLL
	//LLİ
	r++ //LLİ
	//İLLL
	r++ //İLLL
	//LLLİ
	r++ //LLLİ
	//İLLLL
	r++ //İLLLL
	//LLLLİ
	r++ //LLLLİ
	//İLLLLL
	r++ //İLLLLL
	//LLLLLİ
	r++ //LLLLLİ
	/*LLLLLİ*/
	return
}

//İLLLLLL
func F2(mu *sync.Mutex) (r int) { //LLLLLLİ
	//İLLLLLLL
	r++ //İLLLLLLL
	//LLLLLLLİ
	r++ //LLLLLLLİ
	//İLLLLLLLL
	r++ //İLLLLLLLL
	//LLLLLLLLİ
	r++ //LLLLLLLLİ
	//İLLLLLLLLL
	r++ //İLLLLLLLLL
	//LLLLLLLLLİ
	r++ //LLLLLLLLLİ
	//İLLLLLLLLLL
	r++ //İLLLLLLLLLL
	//LLLLLLLLLLİ
	r++ //LLLLLLLLLLİ
	//İLLLLLLLLLLL
	r++ //İLLLLLLLLLLL
	//LLLLLLLLLLLİ
	r++ //LLLLLLLLLLLİ
	/*LLLLLLLLLLLİ*/
	return
}

//İLLLLLLLLLLLL
func F3(mu *sync.Mutex) (r int) { //LLLLLLLLLLLLİ
	//İLLLLLLLLLLLLL
	r++ //İLLLLLLLLLLLLL
	//LLLLLLLLLLLLLİ
	r++ //LLLLLLLLLLLLLİ
	//ẞ
	r++ //ẞ
	//ẞ
	r++ //ẞ
	//ẞL
	r++ //ẞL
	//Lẞ
	r++ //Lẞ
	//ẞLL
	r++ //ẞLL
	//LLẞ
	r++ //LLẞ
	//ẞLLL
	r++ //ẞLLL
	//LLLẞ
	r++ //LLLẞ
	/*LLLẞ*/
	return
}

//ẞLLLL
func F4(mu *sync.Mutex) (r int) { //LLLLẞ
	//ẞLLLLL
	r++ //ẞLLLLL
	//LLLLLẞ
	r++ //LLLLLẞ
	//ẞLLLLLL
	r++ //ẞLLLLLL
	//LLLLLLẞ
	r++ //LLLLLLẞ
	//ẞLLLLLLL
	r++ //ẞLLLLLLL
	//LLLLLLLẞ
	r++ //LLLLLLLẞ
	//ẞLLLLLLLL
	r++ //ẞLLLLLLLL
	//LLLLLLLLẞ
	r++ //LLLLLLLLẞ
	//ẞLLLLLLLLL
	r++ //ẞLLLLLLLLL
	//LLLLLLLLLẞ
	r++ //LLLLLLLLLẞ
	/*LLLLLLLLLẞ*/
	return
}

//ẞLLLLLLLLLL
func F5(mu *sync.Mutex) (r int) { //LLLLLLLLLLẞ
	//ẞLLLLLLLLLLL
	r++ //ẞLLLLLLLLLLL
	//LLLLLLLLLLLẞ
	r++ //LLLLLLLLLLLẞ
	//ẞLLLLLLLLLLLL
	r++ //ẞLLLLLLLLLLLL
	//LLLLLLLLLLLLẞ
	r++ //LLLLLLLLLLLLẞ
	//ẞLLLLLLLLLLLLL
	r++ //ẞLLLLLLLLLLLLL
	//LLLLLLLLLLLLLẞ
	r++ //LLLLLLLLLLLLLẞ
	//K
	r++ //K
	//K
	r++ //K
	//KL
	r++ //KL
	//LK
	r++ //LK
	/*LK*/
	return
}

//KLL
func F6(mu *sync.Mutex) (r int) { //LLK
	//KLLL
	r++ //KLLL
	//LLLK
	r++ //LLLK
	//KLLLL
	r++ //KLLLL
	//LLLLK
	r++ //LLLLK
	//KLLLLL
	r++ //KLLLLL
	//LLLLLK
	r++ //LLLLLK
	//KLLLLLL
	r++ //KLLLLLL
	//LLLLLLK
	r++ //LLLLLLK
	//KLLLLLLL
	r++ //KLLLLLLL
	//LLLLLLLK
	r++ //LLLLLLLK
	/*LLLLLLLK*/
	return
}

//KLLLLLLLL
func F7(mu *sync.Mutex) (r int) { //LLLLLLLLK
	//KLLLLLLLLL
	r++ //KLLLLLLLLL
	//LLLLLLLLLK
	r++ //LLLLLLLLLK
	//KLLLLLLLLLL
	r++ //KLLLLLLLLLL
	//LLLLLLLLLLK
	r++ //LLLLLLLLLLK
	//KLLLLLLLLLLL
	r++ //KLLLLLLLLLLL
	//LLLLLLLLLLLK
	r++ //LLLLLLLLLLLK
	//KLLLLLLLLLLLL
	r++ //KLLLLLLLLLLLL
	//LLLLLLLLLLLLK
	r++ //LLLLLLLLLLLLK
	//KLLLLLLLLLLLLL
	r++ //KLLLLLLLLLLLLL
	//LLLLLLLLLLLLLK
	r++ //LLLLLLLLLLLLLK
	/*LLLLLLLLLLLLLK*/
	return
}

//ſ
func F8(mu *sync.Mutex) (r int) { //ſ
	//ſL
	r++ //ſL
	//Lſ
	r++ //Lſ
	//ſLL
	r++ //ſLL
	//LLſ
	r++ //LLſ
	//ſLLL
	r++ //ſLLL
	//LLLſ
	r++ //LLLſ
	//ſLLLL
	r++ //ſLLLL
	//LLLLſ
	r++ //LLLLſ
	//ſLLLLL
	r++ //ſLLLLL
	//LLLLLſ
	r++ //LLLLLſ
	/*LLLLLſ*/
	return
}

//ſLLLLLL
func F9(mu *sync.Mutex) (r int) { //LLLLLLſ
	//ſLLLLLLL
	r++ //ſLLLLLLL
	//LLLLLLLſ
	r++ //LLLLLLLſ
	//ſLLLLLLLL
	r++ //ſLLLLLLLL
	//LLLLLLLLſ
	r++ //LLLLLLLLſ
	//ſLLLLLLLLL
	r++ //ſLLLLLLLLL
	//LLLLLLLLLſ
	r++ //LLLLLLLLLſ
	//ſLLLLLLLLLL
	r++ //ſLLLLLLLLLL
	//LLLLLLLLLLſ
	r++ //LLLLLLLLLLſ
	//ſLLLLLLLLLLL
	r++ //ſLLLLLLLLLLL
	//LLLLLLLLLLLſ
	r++ //LLLLLLLLLLLſ
	/*LLLLLLLLLLLſ*/
	return
}

//ſLLLLLLLLLLLL
func F10(mu *sync.Mutex) (r int) { //LLLLLLLLLLLLſ
	//ſLLLLLLLLLLLLL
	r++ //ſLLLLLLLLLLLLL
	//LLLLLLLLLLLLLſ
	r++ //LLLLLLLLLLLLLſ
	//Ω
	r++ //Ω
	//Ω
	r++ //Ω
	//ΩL
	r++ //ΩL
	//LΩ
	r++ //LΩ
	//ΩLL
	r++ //ΩLL
	//LLΩ
	r++ //LLΩ
	//ΩLLL
	r++ //ΩLLL
	//LLLΩ
	r++ //LLLΩ
	/*LLLΩ*/
	return
}

//ΩLLLL
func F11(mu *sync.Mutex) (r int) { //LLLLΩ
	//ΩLLLLL
	r++ //ΩLLLLL
	//LLLLLΩ
	r++ //LLLLLΩ
	//ΩLLLLLL
	r++ //ΩLLLLLL
	//LLLLLLΩ
	r++ //LLLLLLΩ
	//ΩLLLLLLL
	r++ //ΩLLLLLLL
	//LLLLLLLΩ
	r++ //LLLLLLLΩ
	//ΩLLLLLLLL
	r++ //ΩLLLLLLLL
	//LLLLLLLLΩ
	r++ //LLLLLLLLΩ
	//ΩLLLLLLLLL
	r++ //ΩLLLLLLLLL
	//LLLLLLLLLΩ
	r++ //LLLLLLLLLΩ
	/*LLLLLLLLLΩ*/
	return
}

//ΩLLLLLLLLLL
func F12(mu *sync.Mutex) (r int) { //LLLLLLLLLLΩ
	//ΩLLLLLLLLLLL
	r++ //ΩLLLLLLLLLLL
	//LLLLLLLLLLLΩ
	r++ //LLLLLLLLLLLΩ
	//ΩLLLLLLLLLLLL
	r++ //ΩLLLLLLLLLLLL
	//LLLLLLLLLLLLΩ
	r++ //LLLLLLLLLLLLΩ
	//ΩLLLLLLLLLLLLL
	r++ //ΩLLLLLLLLLLLLL
	//LLLLLLLLLLLLLΩ
	r++ //LLLLLLLLLLLLLΩ
	//Å
	r++ //Å
	//Å
	r++ //Å
	//ÅL
	r++ //ÅL
	//LÅ
	r++ //LÅ
	/*LÅ*/
	return
}

//ÅLL
func F13(mu *sync.Mutex) (r int) { //LLÅ
	//ÅLLL
	r++ //ÅLLL
	//LLLÅ
	r++ //LLLÅ
	//ÅLLLL
	r++ //ÅLLLL
	//LLLLÅ
	r++ //LLLLÅ
	//ÅLLLLL
	r++ //ÅLLLLL
	//LLLLLÅ
	r++ //LLLLLÅ
	//ÅLLLLLL
	r++ //ÅLLLLLL
	//LLLLLLÅ
	r++ //LLLLLLÅ
	//ÅLLLLLLL
	r++ //ÅLLLLLLL
	//LLLLLLLÅ
	r++ //LLLLLLLÅ
	/*LLLLLLLÅ*/
	return
}

//ÅLLLLLLLL
func F14(mu *sync.Mutex) (r int) { //LLLLLLLLÅ
	//ÅLLLLLLLLL
	r++ //ÅLLLLLLLLL
	//LLLLLLLLLÅ
	r++ //LLLLLLLLLÅ
	//ÅLLLLLLLLLL
	r++ //ÅLLLLLLLLLL
	//LLLLLLLLLLÅ
	r++ //LLLLLLLLLLÅ
	//ÅLLLLLLLLLLL
	r++ //ÅLLLLLLLLLLL
	//LLLLLLLLLLLÅ
	r++ //LLLLLLLLLLLÅ
	//ÅLLLLLLLLLLLL
	r++ //ÅLLLLLLLLLLLL
	//LLLLLLLLLLLLÅ
	r++ //LLLLLLLLLLLLÅ
	//ÅLLLLLLLLLLLLL
	r++ //ÅLLLLLLLLLLLLL
	//LLLLLLLLLLLLLÅ
	r++ //LLLLLLLLLLLLLÅ
	/*LLLLLLLLLLLLLÅ*/
	return
}

//Ⱥ
func F15(mu *sync.Mutex) (r int) { //Ⱥ
	//ȺL
	r++ //ȺL
	//LȺ
	r++ //LȺ
	//ȺLL
	r++ //ȺLL
	//LLȺ
	r++ //LLȺ
	//ȺLLL
	r++ //ȺLLL
	//LLLȺ
	r++ //LLLȺ
	//ȺLLLL
	r++ //ȺLLLL
	//LLLLȺ
	r++ //LLLLȺ
	//ȺLLLLL
	r++ //ȺLLLLL
	//LLLLLȺ
	r++ //LLLLLȺ
	/*LLLLLȺ*/
	return
}

//ȺLLLLLL
func F16(mu *sync.Mutex) (r int) { //LLLLLLȺ
	//ȺLLLLLLL
	r++ //ȺLLLLLLL
	//LLLLLLLȺ
	r++ //LLLLLLLȺ
	//ȺLLLLLLLL
	r++ //ȺLLLLLLLL
	//LLLLLLLLȺ
	r++ //LLLLLLLLȺ
	//ȺLLLLLLLLL
	r++ //ȺLLLLLLLLL
	//LLLLLLLLLȺ
	r++ //LLLLLLLLLȺ
	//ȺLLLLLLLLLL
	r++ //ȺLLLLLLLLLL
	//LLLLLLLLLLȺ
	r++ //LLLLLLLLLLȺ
	//ȺLLLLLLLLLLL
	r++ //ȺLLLLLLLLLLL
	//LLLLLLLLLLLȺ
	r++ //LLLLLLLLLLLȺ
	/*LLLLLLLLLLLȺ*/
	return
}

//ȺLLLLLLLLLLLL
func F17(mu *sync.Mutex) (r int) { //LLLLLLLLLLLLȺ
	//ȺLLLLLLLLLLLLL
	r++ //ȺLLLLLLLLLLLLL
	//LLLLLLLLLLLLLȺ
	r++ //LLLLLLLLLLLLLȺ
	//Ⱦ
	r++ //Ⱦ
	//Ⱦ
	r++ //Ⱦ
	//ȾL
	r++ //ȾL
	//LȾ
	r++ //LȾ
	//ȾLL
	r++ //ȾLL
	//LLȾ
	r++ //LLȾ
	//ȾLLL
	r++ //ȾLLL
	//LLLȾ
	r++ //LLLȾ
	/*LLLȾ*/
	return
}

//ȾLLLL
func F18(mu *sync.Mutex) (r int) { //LLLLȾ
	//ȾLLLLL
	r++ //ȾLLLLL
	//LLLLLȾ
	r++ //LLLLLȾ
	//ȾLLLLLL
	r++ //ȾLLLLLL
	//LLLLLLȾ
	r++ //LLLLLLȾ
	//ȾLLLLLLL
	r++ //ȾLLLLLLL
	//LLLLLLLȾ
	r++ //LLLLLLLȾ
	//ȾLLLLLLLL
	r++ //ȾLLLLLLLL
	//LLLLLLLLȾ
	r++ //LLLLLLLLȾ
	//ȾLLLLLLLLL
	r++ //ȾLLLLLLLLL
	//LLLLLLLLLȾ
	r++ //LLLLLLLLLȾ
	/*LLLLLLLLLȾ*/
	return
}

//ȾLLLLLLLLLL
func F19(mu *sync.Mutex) (r int) { //LLLLLLLLLLȾ
	//ȾLLLLLLLLLLL
	r++ //ȾLLLLLLLLLLL
	//LLLLLLLLLLLȾ
	r++ //LLLLLLLLLLLȾ
	//ȾLLLLLLLLLLLL
	r++ //ȾLLLLLLLLLLLL
	//LLLLLLLLLLLLȾ
	r++ //LLLLLLLLLLLLȾ
	//ȾLLLLLLLLLLLLL
	r++ //ȾLLLLLLLLLLLLL
	//LLLLLLLLLLLLLȾ
	r++ //LLLLLLLLLLLLLȾ
	//é
	r++ //é
	//é text
	r++ //é text
	//TODOé
	r++ //TODOé
	//nolinté
	r++ //nolinté
	/*nolinté*/
	return
}

//ạ̈
func F20(mu *sync.Mutex) (r int) { //ạ̈ text
	//TODOạ̈
	r++ //TODOạ̈
	//nolintạ̈
	r++ //nolintạ̈
	//‍
	r++ //‍
	//‍ text
	r++ //‍ text
	//TODO‍
	r++ //TODO‍
	//nolint‍
	r++ //nolint‍
	// 
	r++ // 
	//  text
	r++ //  text
	//TODO 
	r++ //TODO 
	//nolint 
	r++ //nolint 
	/*nolint */
	return
}

//​x
func F21(mu *sync.Mutex) (r int) { //​x text
	//TODO​x
	r++ //TODO​x
	//nolint​x
	r++ //nolint​x
	//
	r++ //
	//x
	r++ //x
	// 
	r++ // 
	//  
	r++ //  
	//!
	r++ //!
	//#
	r++ //#
	//go:
	r++ //go:
	//go:generate
	r++ //go:generate
	/*go:generate*/
	return
}

//nolint
func F22(mu *sync.Mutex) (r int) { //nolint:
	//NOLINT
	r++ //NOLINT
	//noLint:gocritic
	r++ //noLint:gocritic
	//nolint:gocritic //
	r++ //nolint:gocritic //
	//TODO
	r++ //TODO
	//TODO:
	r++ //TODO:
	//todo
	r++ //todo
	//FIXME
	r++ //FIXME
	//BUG
	r++ //BUG
	//Deprecated
	r++ //Deprecated
	//deprecated:
	r++ //deprecated:
	/*deprecated:*/
	return
}

//DEPRECATED: x
func F23(mu *sync.Mutex) (r int) { //Deprecated:x
	//export
	r++ //export
	//line
	r++ //line
	//line :1
	r++ //line :1
	//sys
	r++ //sys
	//extern
	r++ //extern
	//lint:ignore
	r++ //lint:ignore
	//+build
	r++ //+build
	//-
	r++ //-
	//--
	r++ //--
	///
	r++ ///
	/*/*/
	return
}

////
func F24(mu *sync.Mutex) (r int) { /////
	//////
	r++ //////
	//İstanbul is deprecated
	r++ //İstanbul is deprecated
	//NOLİNT
	r++ //NOLİNT
	//nolİnt:gocritic
	r++ //nolİnt:gocritic
	//TODO(İ)
	r++ //TODO(İ)
	//import "İ"
	r++ //import "İ"
	//x := İ()
	r++ //x := İ()
	//if İ { return }
	r++ //if İ { return }
	//func f() {}
	r++ //func f() {}
	//return
	r++ //return
	/*return*/
	return
}

//import "fmt"
func F25(mu *sync.Mutex) (r int) { //fmt.Println("İ")
	//%s %d %!
	r++ //%s %d %!
	//	
	r++ //	
	//	tab
	r++ //	tab
	//a	b
	r++ //a	b
	/*a	b*/
	return
}

//İ
type T25 struct { //ẞ
	sync.Mutex //K
	X int //
}

/**/
var V = 1 /*İ*/ + 2 //x

// Answer is 42. FIXME: derive it.
func Fixme() int { return 42 } // XXX trailing marker, FIXME too

/* a block comment. FIXME inside, and
   XXX on its second line */
var W = 2 // nothing here
