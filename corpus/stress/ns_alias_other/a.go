// Package ns_alias_other: user packages with the standard API shape under OTHER qualifiers, in a file that also
// imports the real packages; and selector chains rooted at a user package named like a standard one.
package ns_alias_other

import (
	"bytes"
	"strings"

	bin "stresslib/bytes"
	"stresslib/flag"
	text "stresslib/strings"
)

func Calls(s string, b []byte) {
	_ = strings.ToUpper(s)
	_ = bytes.TrimSpace(b)
	_ = text.Replace(s, "a", "b", 0)
	_ = text.SplitN(s, ",", 0)
	_ = bin.Replace(b, b, b, 0)
	_ = bin.SplitN(b, b, 0)
	_ = text.Index(s, "x") >= 0
	_ = text.Compare(s, s) == 0
	_ = text.ToLower(s) == text.ToLower(s+"x")
	_ = *flag.CommandLine.Bool("b", false, "")
	_ = *flag.CommandLine.String("s", "", "")
	_ = flag.CommandLine.Int("bad name", 0, "")
}
