// Package slices is a USER package that merely shares name and API shape with the standard one.
package slices

func Equal[S ~[]E, E comparable](a, b S) bool                { return false }
func Compare[S ~[]E, E int | string](a, b S) int             { return 0 }
func EqualFunc[S ~[]E, E any](a, b S, eq func(E, E) bool) bool { return false }
func Contains[S ~[]E, E comparable](s S, v E) bool           { return false }
func Index[S ~[]E, E comparable](s S, v E) int               { return -1 }
func Sort[S ~[]E, E int | string](x S)                       {}
func Clone[S ~[]E, E any](s S) S                             { return s }
