// Package log is a USER package that merely shares name and API shape with the standard one: nothing here exits.
package log

func Fatal(v ...any)                 {}
func Fatalf(format string, v ...any) {}
func Fatalln(v ...any)               {}
func Print(v ...any)                 {}
func Printf(format string, v ...any) {}
func Println(v ...any)               {}
func Panic(v ...any)                 {}
