// Package os is a USER package that merely shares name and API shape with the standard one: Exit returns.
package os

type File struct{}

var (
	Args   []string
	Stdout *File
	Stderr *File
)

func (*File) Close() error                      { return nil }
func (*File) Write(b []byte) (int, error)       { return 0, nil }
func (*File) WriteString(s string) (int, error) { return 0, nil }

func Exit(code int)                  {}
func Getenv(k string) string         { return "" }
func Open(name string) (*File, error)   { return nil, nil }
func Create(name string) (*File, error) { return nil, nil }
