// Package pats is a user package meant to be dot-imported: exported constants, variables, types and functions that
// API-specific checkers may be handed through bare identifiers.
package pats

import "regexp"

const (
	Digits   = `[0-9]+[0-9]`
	DupAlt   = `x|x`
	BadName  = "bad name="
	Format   = "%d %s"
	Path     = "a/b"
	MinusOne = -1
)

var Compiled = regexp.MustCompile(`[a-z]+`)

type Matcher struct{ Re *regexp.Regexp }

func (m *Matcher) Match(s string) bool { return m.Re.MatchString(s) }

func Compile(p string) *regexp.Regexp { return regexp.MustCompile(p) }
