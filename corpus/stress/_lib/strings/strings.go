// Package strings is a USER package that merely shares name and API shape with the standard one.
package strings

type Builder struct{}

func (*Builder) WriteString(s string) (int, error) { return 0, nil }
func (*Builder) WriteByte(c byte) error            { return nil }
func (*Builder) WriteRune(r rune) (int, error)     { return 0, nil }
func (*Builder) Write(p []byte) (int, error)       { return 0, nil }
func (*Builder) String() string                    { return "" }
func (*Builder) Len() int                          { return 0 }
func (*Builder) Reset()                            {}

type Replacer struct{}

func (*Replacer) Replace(s string) string { return s }

type Reader struct{}

func NewReader(s string) *Reader         { return nil }
func NewReplacer(oldnew ...string) *Replacer { return nil }

func Replace(s, old, new string, n int) string        { return s }
func ReplaceAll(s, old, new string) string            { return s }
func Split(s, sep string) []string                    { return nil }
func SplitN(s, sep string, n int) []string            { return nil }
func Index(s, sub string) int                         { return -1 }
func IndexAny(s, chars string) int                    { return -1 }
func IndexRune(s string, r rune) int                  { return -1 }
func IndexByte(s string, c byte) int                  { return -1 }
func LastIndex(s, sub string) int                     { return -1 }
func Compare(a, b string) int                         { return 0 }
func ToLower(s string) string                         { return s }
func ToUpper(s string) string                         { return s }
func ToTitle(s string) string                         { return s }
func EqualFold(a, b string) bool                      { return false }
func HasPrefix(s, p string) bool                      { return false }
func HasSuffix(s, p string) bool                      { return false }
func Contains(s, sub string) bool                     { return false }
func ContainsAny(s, chars string) bool                { return false }
func ContainsRune(s string, r rune) bool              { return false }
func Count(s, sub string) int                         { return 0 }
func Trim(s, cut string) string                       { return s }
func TrimLeft(s, cut string) string                   { return s }
func TrimRight(s, cut string) string                  { return s }
func TrimPrefix(s, p string) string                   { return s }
func TrimSuffix(s, p string) string                   { return s }
func TrimSpace(s string) string                       { return s }
func TrimFunc(s string, f func(rune) bool) string     { return s }
func Map(f func(rune) rune, s string) string          { return s }
func Repeat(s string, n int) string                   { return s }
func Join(elems []string, sep string) string          { return "" }
func Fields(s string) []string                        { return nil }
func Title(s string) string                           { return s }
func Cut(s, sep string) (string, string, bool)        { return s, "", false }
