// Package sync is a USER package that merely shares name and API shape with the standard one.
package sync

type Mutex struct{}

func (*Mutex) Lock()   {}
func (*Mutex) Unlock() {}

type RWMutex struct{ Mutex }

func (*RWMutex) RLock()   {}
func (*RWMutex) RUnlock() {}

type WaitGroup struct{}

func (*WaitGroup) Add(int) {}
func (*WaitGroup) Done()   {}
func (*WaitGroup) Wait()   {}

type Once struct{}

func (*Once) Do(f func()) {}

type Map struct{}

func (*Map) Load(k any) (any, bool)          { return nil, false }
func (*Map) Delete(k any)                    {}
func (*Map) LoadAndDelete(k any) (any, bool) { return nil, false }
func (*Map) Store(k, v any)                  {}

type Pool struct{ New func() any }

func (*Pool) Get() any  { return nil }
func (*Pool) Put(x any) {}

func OnceFunc(f func()) func()                        { return f }
func OnceValue[T any](f func() T) func() T            { return f }
func OnceValues[A, B any](f func() (A, B)) func() (A, B) { return f }
