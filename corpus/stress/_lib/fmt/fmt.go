// Package fmt is a USER package that merely shares name and API shape with the standard one.
package fmt

type Stringer interface{ String() string }

func Sprint(a ...any) string                            { return "" }
func Sprintf(format string, a ...any) string            { return "" }
func Sprintln(a ...any) string                          { return "" }
func Print(a ...any) (int, error)                       { return 0, nil }
func Printf(format string, a ...any) (int, error)       { return 0, nil }
func Println(a ...any) (int, error)                     { return 0, nil }
func Fprint(w any, a ...any) (int, error)               { return 0, nil }
func Fprintf(w any, format string, a ...any) (int, error) { return 0, nil }
func Fprintln(w any, a ...any) (int, error)             { return 0, nil }
func Errorf(format string, a ...any) error              { return nil }
func Sscanf(s, format string, a ...any) (int, error)    { return 0, nil }
