// Package cmp is a USER package that merely shares name and API shape with the standard one.
package cmp

func Compare[T int | string | float64](a, b T) int { return 0 }
func Less[T int | string | float64](a, b T) bool   { return false }
