// Package maps is a USER package that merely shares name and API shape with the standard one.
package maps

func Equal[M ~map[K]V, K, V comparable](a, b M) bool                          { return false }
func EqualFunc[M ~map[K]V, K comparable, V any](a, b M, eq func(V, V) bool) bool { return false }
func Copy[M ~map[K]V, K comparable, V any](dst, src M)                        {}
func Clone[M ~map[K]V, K comparable, V any](m M) M                            { return m }
