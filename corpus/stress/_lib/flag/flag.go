// Package flag is a USER package that merely shares name and API shape with the standard one.
package flag

import "time"

type FlagSet struct{}

type ErrorHandling int

const ContinueOnError ErrorHandling = 0

func NewFlagSet(name string, h ErrorHandling) *FlagSet { return &FlagSet{} }

func Parse() {}

func Bool(name string, value bool, usage string) *bool                             { return new(bool) }
func Duration(name string, value time.Duration, usage string) *time.Duration       { return new(time.Duration) }
func Float64(name string, value float64, usage string) *float64                    { return new(float64) }
func String(name string, value string, usage string) *string                       { return new(string) }
func Int(name string, value int, usage string) *int                                { return new(int) }
func Int64(name string, value int64, usage string) *int64                          { return new(int64) }
func Uint(name string, value uint, usage string) *uint                             { return new(uint) }
func Uint64(name string, value uint64, usage string) *uint64                       { return new(uint64) }
func BoolVar(p *bool, name string, value bool, usage string)                       {}
func DurationVar(p *time.Duration, name string, value time.Duration, usage string) {}
func Float64Var(p *float64, name string, value float64, usage string)              {}
func StringVar(p *string, name string, value string, usage string)                 {}
func IntVar(p *int, name string, value int, usage string)                          {}
func Int64Var(p *int64, name string, value int64, usage string)                    {}
func UintVar(p *uint, name string, value uint, usage string)                       {}
func Uint64Var(p *uint64, name string, value uint64, usage string)                 {}

func (*FlagSet) Bool(name string, value bool, usage string) *bool        { return new(bool) }
func (*FlagSet) String(name string, value string, usage string) *string  { return new(string) }
func (*FlagSet) Int(name string, value int, usage string) *int           { return new(int) }
func (*FlagSet) BoolVar(p *bool, name string, value bool, usage string)  {}
func (*FlagSet) IntVar(p *int, name string, value int, usage string)     {}
func (*FlagSet) StringVar(p *string, name string, value string, usage string) {}

// CommandLine mirrors the standard package variable.
var CommandLine = NewFlagSet("cmd", ContinueOnError)
