// Package sort is a USER package that merely shares name and API shape with the standard one.
package sort

func Slice(x any, less func(i, j int) bool)       {}
func SliceStable(x any, less func(i, j int) bool) {}
func Strings(x []string)                          {}
func Ints(x []int)                                {}
