// Package bytes is a USER package that merely shares name and API shape with the standard one.
package bytes

type Buffer struct{}

func (*Buffer) Write(p []byte) (int, error)       { return 0, nil }
func (*Buffer) WriteString(s string) (int, error) { return 0, nil }
func (*Buffer) WriteByte(c byte) error            { return nil }
func (*Buffer) WriteRune(r rune) (int, error)     { return 0, nil }
func (*Buffer) String() string                    { return "" }
func (*Buffer) Bytes() []byte                     { return nil }
func (*Buffer) Len() int                          { return 0 }
func (*Buffer) Reset()                            {}
func (*Buffer) Truncate(n int)                    {}

func NewBuffer(b []byte) *Buffer      { return nil }
func NewBufferString(s string) *Buffer { return nil }

func Replace(s, old, new []byte, n int) []byte   { return s }
func ReplaceAll(s, old, new []byte) []byte       { return s }
func Split(s, sep []byte) [][]byte               { return nil }
func SplitN(s, sep []byte, n int) [][]byte       { return nil }
func Index(s, sub []byte) int                    { return -1 }
func IndexAny(s []byte, chars string) int        { return -1 }
func IndexRune(s []byte, r rune) int             { return -1 }
func Compare(a, b []byte) int                    { return 0 }
func Equal(a, b []byte) bool                     { return false }
func EqualFold(a, b []byte) bool                 { return false }
func ToLower(s []byte) []byte                    { return s }
func ToUpper(s []byte) []byte                    { return s }
func ToTitle(s []byte) []byte                    { return s }
func Contains(s, sub []byte) bool                { return false }
func HasPrefix(s, p []byte) bool                 { return false }
func HasSuffix(s, p []byte) bool                 { return false }
func Map(f func(rune) rune, s []byte) []byte     { return s }
func TrimSpace(s []byte) []byte                  { return s }
func Count(s, sep []byte) int                    { return 0 }
