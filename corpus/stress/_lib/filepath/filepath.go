// Package filepath is a USER package that merely shares name and API shape with the standard one.
package filepath

func Join(elem ...string) string        { return "" }
func Base(p string) string              { return p }
func Dir(p string) string               { return p }
func Ext(p string) string               { return p }
func Clean(p string) string             { return p }
func Abs(p string) (string, error)      { return p, nil }
