// Package regexp is a USER package that merely shares name and API shape with the standard one.
package regexp

type Regexp struct{}

func Compile(expr string) (*Regexp, error)      { return nil, nil }
func CompilePOSIX(expr string) (*Regexp, error) { return nil, nil }
func MustCompile(expr string) *Regexp           { return nil }
func MustCompilePOSIX(expr string) *Regexp      { return nil }
func MatchString(pattern, s string) (bool, error) { return false, nil }
func QuoteMeta(s string) string                 { return s }

func (*Regexp) Match(b []byte) bool                          { return false }
func (*Regexp) MatchString(s string) bool                    { return false }
func (*Regexp) FindIndex(b []byte) []int                     { return nil }
func (*Regexp) FindStringIndex(s string) []int               { return nil }
func (*Regexp) FindAllIndex(b []byte, n int) [][]int         { return nil }
func (*Regexp) FindAllStringIndex(s string, n int) [][]int   { return nil }
func (*Regexp) FindStringSubmatch(s string) []string         { return nil }
func (*Regexp) ReplaceAllString(src, repl string) string     { return src }
