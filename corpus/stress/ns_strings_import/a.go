// Package ns_strings_import: user packages named strings, bytes, fmt, regexp, sort, filepath, log, os.
package ns_strings_import

import (
	"stresslib/bytes"
	"stresslib/filepath"
	"stresslib/fmt"
	"stresslib/log"
	"stresslib/os"
	"stresslib/regexp"
	"stresslib/sort"
	"stresslib/strings"
)

func cleanup() {}

func Calls(s, t string, b []byte, xs, ys []int, err error) {
	_ = strings.Replace(s, "a", "b", 0)
	_ = strings.Replace(s, "a", "b", -1)
	_ = strings.SplitN(s, ",", -1)
	_ = strings.Index(s, t) >= 0
	_ = strings.Compare(s, t) == 0
	_ = strings.ToLower(s) == strings.ToLower(t)
	_ = strings.HasPrefix(s, t) && strings.HasPrefix(s, t)
	_ = strings.Index(string(b), t)
	_ = strings.TrimLeft(s, "abca")
	_ = strings.NewReplacer("a", "b", "a", "c")
	_ = strings.Count(s, t) > 0
	_ = strings.Contains(s, s)
	i := strings.Index(s, ":")
	k, v := s[:i], s[i+1:]
	_, _ = k, v
	_ = bytes.Replace(b, b, b, 0)
	_ = bytes.Index(b, b) != -1
	_ = bytes.Equal(b, b)
	var buf bytes.Buffer
	buf.Truncate(0)
	buf.WriteString(fmt.Sprintf("%d", 1))
	buf.Write([]byte(fmt.Sprint(s)))
	_ = fmt.Sprint(s)
	_ = fmt.Sprintf("%s", s)
	_ = fmt.Errorf(s)
	fmt.Printf(s)
	_ = fmt.Sprintf("\"%s\"", s)
	regexp.MustCompile(`google.com|yandex.ru`)
	regexp.MustCompile(`x|x`)
	regexp.MustCompile(`[0-9]+`)
	_, _ = regexp.Compile(`^a|b$`)
	re := regexp.MustCompile("ok")
	_ = re.Match([]byte(s))
	sort.Slice(xs, func(i, j int) bool { return ys[i] < ys[j] })
	sort.SliceStable(xs, func(i, j int) bool { return xs[j] < xs[i] })
	_ = filepath.Join("a/b", "c")
	_ = filepath.Join("x")
	defer cleanup()
	if err != nil {
		log.Fatal(err)
	}
	log.Fatalf("x %d", 1)
	os.Exit(1)
}
