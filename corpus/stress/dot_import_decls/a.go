// Package dot_import_decls hands values to API-specific checkers through identifiers of a DOT-imported user package.
package dot_import_decls

import (
	"flag"
	"fmt"
	"path/filepath"
	"regexp"
	"strings"

	. "stresslib/pats"
)

func Use(s string) (bool, string) {
	regexp.MustCompile(Digits)
	_, _ = regexp.Compile(DupAlt)
	flag.Bool(BadName, false, "")
	_ = fmt.Sprintf(Format, 1)
	_ = filepath.Join(Path, "c")
	_ = strings.Index(s, Path) != MinusOne
	_ = strings.Replace(s, Path, Path, MinusOne)
	m := &Matcher{Re: Compile(Digits)}
	return (*m).Match(s) || Compiled.MatchString(s), fmt.Sprint(Digits)
}
