// Package flag_forward: flag package functions receiving a forwarded multi-value result.
package flag_forward

import (
	"flag"
	"time"
)

func four() (*bool, string, bool, string)                  { return nil, "b", false, "" }
func three() (string, bool, string)                        { return "a b", false, "" }
func dur() (*time.Duration, string, time.Duration, string) { return nil, "-d", 0, "" }

func Init() {
	flag.BoolVar(four())
	_ = flag.Bool(three())
	flag.DurationVar(dur())
}
