package eof_comment

func C() {
	//inside
}
/*block*/