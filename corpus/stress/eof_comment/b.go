package eof_comment

//first of the next file
func B() {} //trailing