// Package eof_comment: files that end in a comment without a trailing newline.
package eof_comment

func A() {}

//no space, last token, no newline