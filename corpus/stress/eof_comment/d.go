package eof_comment

var X = 1 //x