// Package ns_builtin_rules: every rule pattern that spells a builtin (len, copy, append), written against
// local and package-level namesakes of that builtin.
package ns_builtin_rules

func cap(v interface{}) int { return 0 }

func Len(xs []int, s string, b []byte) bool {
	len := func(v interface{}) int { return 1 }
	_ = xs[len(xs)]
	for i := 0; i < len(xs); i++ {
		xs[i] = 0
	}
	_ = len(string(b))
	return len(xs) >= 0 || len(xs) < 0 || len(xs) <= 0 || len(s) != 0 || len(s) > 0 || len(s) == 0
}

func Copy(xs []int, b []byte, s string) {
	copy := func(dst, src interface{}) {}
	copy(xs, xs)
	copy(b, []byte(s))
}

func Append(xs []int) []int {
	append := func(s []int, v ...int) []int { return nil }
	xs = append(xs)
	return xs
}

func Cap(xs []int) bool { return cap(xs) >= 0 }
