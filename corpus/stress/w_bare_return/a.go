package w_bare_return

import "sort"

func F(xs []int) {
	sort.Slice(xs, func(i, j int) (r bool) { return })
}
