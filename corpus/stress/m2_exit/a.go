// Package m2_exit exercises exitAfterDefer's astutil.Apply protocol (Else pruning, function literals, deferred exits).
package m2_exit

import (
	"log"
	"os"
)

func cleanup() {}

func Plain() {
	defer cleanup()
	os.Exit(1)
}

func NoDefer() {
	os.Exit(1)
	defer cleanup()
}

func DeferredExit() {
	defer os.Exit(1)
	defer log.Fatal("x")
}

func TwoExits(a bool) {
	defer cleanup()
	if a {
		log.Fatalf("a")
	}
	log.Fatalln("b")
}

func InElse(a bool) {
	defer cleanup()
	if a {
		return
	} else {
		os.Exit(1)
	}
	log.Fatal("after")
}

func DeferInThen(a bool) {
	if a {
		defer cleanup()
	} else {
		os.Exit(2)
	}
}

func DeferInCond(a bool) {
	if a {
	} else if defer_(); a {
		os.Exit(3)
	} else {
		os.Exit(4)
	}
}

func defer_() {}

func InLit() {
	defer cleanup()
	func() { os.Exit(1) }()
	go func() { log.Fatal("x") }()
}

func DeferLit() {
	defer func() {
		os.Exit(1)
	}()
	log.Print("x")
	os.Exit(2)
}

func Nested() {
	defer cleanup()
	log.Print(os.Getenv("x"), func() int { os.Exit(1); return 1 })
	log.Fatal(os.Args, log.Prefix())
}

func ArgExit() {
	defer cleanup()
	log.Println(exitCode(os.Exit))
}

func exitCode(f func(int)) int { return 0 }

func MethodValue() {
	defer cleanup()
	f := os.Exit
	f(1)
	(os.Exit)(1)
}

func External()

func Labeled() {
	defer cleanup()
l:
	for {
		select {
		default:
			switch {
			case true:
				os.Exit(5)
				break l
			}
		}
	}
}
