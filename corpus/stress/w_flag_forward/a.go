package w_flag_forward

import "flag"

func four() (*bool, string, bool, string) { return nil, "", false, "" }

func F() { flag.BoolVar(four()) }
