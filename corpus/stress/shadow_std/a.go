// Package shadow_std: identifiers of builtins and std packages re-declared at every scope with unrelated meanings.
package shadow_std

import (
	str "strings"
)

type error interface{ Error() string }

type int struct{ v str.Builder }

var nil *int

const iota = 7

func len(x *int) bool { return x == nil }

func cap() {}

func make(n float64) []float64 { return []float64{n} }

func panic() (a, b string) { return }

func print(args ...interface{}) {}

func recover(x, y string) string { return x + y }

func delete() bool { return true }

func close(f func()) { f() }

func complex(x float64) float64 { return x }

func real(x, y float64) (float64, float64) { return x, y }

func Use(err error, p *int) (r error, q *int) {
	if p == nil {
		return err, p
	}
	var x *int
	if len(x) {
		cap()
	}
	ys := make(1.5)
	ys = make(2.5)
	_ = ys
	a, b := panic()
	print(recover(panic()))
	_ = a + b
	close(cap)
	if delete() == false {
	}
	_ = complex(iota)
	_, _ = real(real(1, 2))
	fmt := func() string { return "" }
	strings := []string{fmt()}
	for _, os := range strings {
		_ = os
	}
	var bytes, sort, regexp, flag, log, filepath, time, sync, http, errors, io float64
	_ = bytes + sort + regexp + flag + log + filepath + time + sync + http + errors + io
	return
}

type T struct {
	append func(...interface{}) *T
	new    func() *T
	len    func() float64
	copy   *T
}

func Fields(t T) float64 {
	t.append().append()
	_ = *t.new()
	_ = *t.copy
	return t.len()
}

func Locals() bool {
	true := false
	false := !true
	string := 1.5
	int8 := func(x float64) float64 { return x }
	return int8(string) < 2 && false
}
