// Package paren_receiver: parenthesised receiver types and parenthesised type expressions.
package paren_receiver

type T struct{ n int }

func (r T) M() int { return r.n }

func (r *(T)) P() int { return r.n }

func (r *T) Q() int { return r.n }

type G[K comparable] struct{ k K }

func (g G[K]) Key() K { return g.k }

type (
	U (int)
	V (*(T))
	W [](chan (int))
)

func Use(x int, y *(T)) int {
	var z (int) = (x)
	_ = (*T)(y)
	return (z)
}
