// Package ns_nil_local: a user variable spelled nil (C20 namesake of the predeclared nil).
package ns_nil_local

func Shadow(p *int) *int {
	nil := new(int)
	if p == nil {
		return p
	}
	return nil
}
