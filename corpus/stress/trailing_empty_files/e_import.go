package trailing_empty_files

import _ "strings"
