// leading comment

package trailing_empty_files
