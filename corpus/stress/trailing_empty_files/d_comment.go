package trailing_empty_files

// only a comment
